(* C19, protobuf half: OWNERSHIP model of the prost decode path (Message::decode / merge of the generated impls and of
   the wrapper impls of types.rs, on the zero-copy path: the input is a `Bytes`).

   The decoders are safe Rust (C19_pb_inventory: no raw-pointer write, no ManuallyDrop / set_len / into_raw / Box::leak;
   the one mem::forget forgets a guard that owns nothing).  In safe Rust a resource is released when its owner goes out
   of scope or is overwritten, so what matters is WHERE the owners are.  This model makes them explicit:

     - every model function works on its TARGET (the `&mut` it was given: a field, a Vec, a map, a whole message) and
       returns the state of that target on EVERY exit -- success, `?` and unwinding alike -- so the partially built
       value is visible when a decode fails;
     - the values a function builds on its own stack before moving them into the target are LOCALS
       (`let mut value = Default::default(); merge(.., &mut value, ..)?; values.push(value)` in merge_repeated,
       `key` / `val` in hash_map::merge, `owned_value` in a generated oneof merge, `message` in Message::decode,
       the String `empty` of string::merge, the `Bytes` of faststr::merge): when the code between their creation and
       the move fails they are dropped, with everything they hold;
     - a ghost LEDGER counts the resources alive (l_heap, l_refs; l_tail is explained at [pmerge_scalar]): heap blocks (the buffer of a Vec that has been pushed to, the table of
       a hash map that has been inserted into, the buffer of a non-empty String) and handles on the input buffer (a
       non-empty `Bytes` field or a FastStr too long to be stored inline: copy_to_bytes on a `Bytes` input is a
       reference-counted slice, not a copy).  acquire = the place where the Rust code allocates / clones the handle;
       release = an owner is dropped: a local on an error exit, the previous content of a target that is overwritten
       (`*value = ..`, `*field = Some(..)`, the old value and the new key of HashMap::insert on an existing key).

   [own_msg] says which resources a VALUE holds (reachable from it).  Proofs/OwnP.v: erasing the ghost components gives
   back Msg.v's decoders (same outcome, same reader state), and the ledger always equals what the targets hold
   (conservation) -- hence C19_pb_no_leak.

   Not in the model: Box of recursive message fields (pilota-build boxes fields that close a cycle; a Box is owned by
   its Option like any other value, but the lowered schema does not say which fields are boxed), the capacity of Vec /
   table growth (one block per non-empty container, whatever its size).
   Model only -- lemmas live in Proofs/OwnP.v. *)
From PVPb Require Export Msg.
Open Scope Z_scope.

(* ---------------------------------------------------------------- the ghost ledger *)
(* a multiset over three kinds of resources, i.e. three counters *)
Record ledger := mkL { l_heap : Z;      (* live heap blocks allocated by the decode *)
                       l_refs : Z;      (* live handles on the input buffer held by non-empty Bytes / long FastStr values *)
                       l_tail : Z }.    (* live handles held by EMPTY Bytes values, see [pmerge_scalar] *)
Definition lzero : ledger := mkL 0 0 0.
Definition one_heap : ledger := mkL 1 0 0.
Definition one_ref : ledger := mkL 0 1 0.
Definition one_tail : ledger := mkL 0 0 1.
Definition ladd (a b : ledger) : ledger := mkL (l_heap a + l_heap b) (l_refs a + l_refs b) (l_tail a + l_tail b).
Definition lsub (a b : ledger) : ledger := mkL (l_heap a - l_heap b) (l_refs a - l_refs b) (l_tail a - l_tail b).
Definition cut_tail (t : Z) (L : ledger) : ledger := mkL (l_heap L) (l_refs L) t.
Fixpoint lsum (l : list ledger) : ledger := match l with [] => lzero | a :: r => ladd a (lsum r) end.

(* ---------------------------------------------------------------- what a value holds *)
(* faststr (the version pinned by /repo/Cargo.lock; pv/props/c19pb.py re-reads the constant from the crate source on every
   run): FastStr::from_bytes_unchecked copies strings of up to INLINE_CAP bytes into the value itself *)
Definition faststr_inline_cap : Z := 24.

Definition own_scalar (m : codec_module) (v : val) : ledger :=
  match m, v with
  | MString, VB (_ :: _) => one_heap                                                (* String: its buffer *)
  | MFastStr, VB l => if faststr_inline_cap <? zlen l then one_ref else lzero       (* FastStr: a slice of the input, or inline *)
  | MBytes, VB (_ :: _) => one_ref                                                  (* Bytes: a slice of the input *)
  | _, _ => lzero
  end.

Section OwnVal.
  Variable own_rec : nat -> val -> ledger.        (* what a value of message #i holds *)
  Variable zst : ty -> bool.                      (* the Rust type of the element is zero-sized (a message without fields) *)

  Definition own_ty (t : ty) (v : val) : ledger :=
    match t with
    | TScalar p => match scalar_module p with Some m => own_scalar m v | None => lzero end
    | TMsg j => own_rec j v
    end.

  (* Vec<T>: its buffer once something has been pushed (a Vec of zero-sized elements never allocates), and the elements *)
  Definition own_vec (t : ty) (xs : list val) : ledger :=
    ladd (match xs with [] => lzero | _ => if zst t then lzero else one_heap end) (lsum (map (own_ty t) xs)).

  Definition own_pair (k : proto_type) (vt : ty) (kv : val * val) : ledger :=
    ladd (own_ty (TScalar k) (fst kv)) (own_ty vt (snd kv)).

  Definition own_entry (k : proto_type) (vt : ty) (e : val) : ledger :=
    match e with VL NPair [kv; vv] => own_pair k vt (kv, vv) | _ => lzero end.

  (* AHashMap<K, V>: its table once something has been inserted, the keys and the values *)
  Definition own_map (k : proto_type) (vt : ty) (es : list val) : ledger :=
    ladd (match es with [] => lzero | _ => one_heap end) (lsum (map (own_entry k vt) es)).

  Definition own_field (f : field) (x : val) : ledger :=
    match f, x with
    | FSingular _ t, _ => own_ty t x
    | FOptional _ t, VL NSome [e] => own_ty t e
    | FRepeated _ t, VL NRep es => own_vec t es
    | FMap _ k vt, VL NMap es => own_map k vt es
    | FOneof ms, VL (NOne idx) [e] => match nth_error ms idx with Some (_, t) => own_ty t e | None => lzero end
    | _, _ => lzero
    end.

  Fixpoint own_fields (fs : list field) (xs : list val) : ledger :=
    match fs, xs with
    | f :: fs', x :: xs' => ladd (own_field f x) (own_fields fs' xs')
    | _, _ => lzero
    end.
End OwnVal.

(* `pub struct Empty {}`: the only zero-sized element type the generator emits (message fields are Option<..> / Vec / maps,
   which have a size) *)
Definition elem_zst (sc : schema) (t : ty) : bool :=
  match t with
  | TMsg j => match nth_error sc j with Some [] => true | _ => false end
  | TScalar _ => false
  end.

Fixpoint own_msg (d : nat) (sc : schema) (i : nat) (v : val) : ledger :=
  match d with
  | O => lzero
  | S d' =>
      match nth_error sc i, v with
      | Some fs, VL NMsg xs => own_fields (own_msg d' sc) (elem_zst sc) fs xs
      | _, _ => lzero
      end
  end.

(* ---------------------------------------------------------------- target-state monad *)
(* outcome of a function working on a target of type S: the state of the target is there on every exit *)
Inductive pout (S : Type) :=
| POk (st : S) (s : rd) (L : ledger)
| PErr (e : perr) (st : S) (s : rd) (L : ledger)      (* `?`: the target as the failing code left it *)
| PPanic (p : psite) (st : S) (L : ledger).           (* unwinding: likewise *)
Arguments POk {S} st s L.
Arguments PErr {S} e st s L.
Arguments PPanic {S} p st L.

Definition PM (S : Type) : Type := S -> rd -> ledger -> pout S.

(* forgetting the ghost components: the outcome Msg.v's functions speak about *)
Definition erase {S} (r : pout S) : out S :=
  match r with POk st s _ => OOk st s | PErr e _ s _ => OErr e s | PPanic p _ _ => OPanic p end.

Definition pret {S} : PM S := fun st s L => POk st s L.
Definition pfail {S} (e : perr) : PM S := fun st s L => PErr e st s L.
Definition ppanic {S} (p : psite) : PM S := fun st s L => PPanic p st L.

(* reading from the buffer (Wire.v / Codec.v functions): the target is not touched *)
Definition with_m {S A} (m : M A) (k : A -> PM S) : PM S :=
  fun st s L => match m s with
                | OOk a s' => k a st s' L
                | OErr e s' => PErr e st s' L
                | OPanic p => PPanic p st L
                end.

(* working on a part of the target (`&mut self.field`, `&mut values`, the content of an Option, ..) *)
Definition zoom {S S'} (get : S -> S') (put : S -> S' -> S) (f : PM S') : PM S :=
  fun st s L => match f (get st) s L with
                | POk x s' L' => POk (put st x) s' L'
                | PErr e x s' L' => PErr e (put st x) s' L'
                | PPanic p x L' => PPanic p (put st x) L'
                end.

(* `let mut x = init; f(&mut x)?; commit(x)`: when f fails, x -- as f left it -- is dropped (the tail handle, if f's work on x
   acquired one, is held by a value inside x: it goes too) *)
Definition local {S S'} (init : S') (own' : S' -> ledger) (f : PM S') (commit : S' -> PM S) : PM S :=
  fun st s L => match f init s L with
                | POk x s' L' => commit x st s' L'
                | PErr e x s' L' => PErr e st s' (cut_tail (l_tail L) (lsub L' (own' x)))
                | PPanic p x L' => PPanic p st (cut_tail (l_tail L) (lsub L' (own' x)))
                end.

(* ---------------------------------------------------------------- loops (Wire.v while_remaining / while_rem / merge_loop) *)
Fixpoint pwhile_remaining {S} (fuel : nat) (limit : nat) (body : PM S) : PM S :=
  fun st s L =>
    if Nat.ltb limit (length (rb s)) then
      match fuel with
      | O => PErr POutOfFuel st s L
      | Datatypes.S f => match body st s L with
                         | POk st' s' L' => pwhile_remaining f limit body st' s' L'
                         | r => r
                         end
      end
    else POk st s L.

Definition pwhile_rem {S} (limit : nat) (body : PM S) : PM S :=
  with_m remaining (fun rem => pwhile_remaining (Datatypes.S rem) limit body).

Definition pmerge_loop {S} (body : PM S) : PM S :=
  with_m decode_varint (fun len =>
  with_m remaining (fun rem =>
    if Z.of_nat rem <? len then pfail PUnderflow else
    let limit := (rem - Z.to_nat len)%nat in
    fun st s L => match pwhile_rem limit body st s L with
                  | POk st' s' L' => with_m remaining (fun rem' => if Nat.eqb rem' limit then pret else pfail PDelimited) st' s' L'
                  | r => r
                  end)).

(* ---------------------------------------------------------------- scalars *)
(* a plain store `*value = v`: the previous content is dropped *)
Definition passign (m : codec_module) (v : val) : PM val :=
  fun old s L => POk v s (lsub (ladd L (own_scalar m v)) (own_scalar m old)).

(* <module>::merge(wire_type, value, buf, ctx) *)
Definition pmerge_scalar (m : codec_module) (wt : wire_type) : PM val :=
  match m with
  | MString =>
      (* let mut empty = String::new(); guard over its Vec; bytes::merge_one_copy(.., guard.0, ..)?   Vec::reserve(len) + put:
           one block when len > 0 -- on `?` nothing has been allocated yet;
         str::from_utf8: Ok  => mem::forget(guard); *value = empty            (the previous String is dropped)
                         Err => the guard clears the Vec, then `empty` goes out of scope: the block is freed *)
      with_m (bytes_merge_one_copy wt) (fun v => fun old s L =>
        let L1 := ladd L (own_scalar MString v) in
        if utf8_valid (vbytes v) then POk v s (lsub L1 (own_scalar MString old))
        else PErr PUtf8 old s (lsub L1 (own_scalar MString v)))
  | MFastStr =>
      (* let mut bytes = Bytes::new(); bytes::merge_one_copy(.., &mut bytes, ..)?   copy_to_bytes(len): a handle on the input
           (none when len = 0);
         *value = FastStr::from_bytes(bytes)?: invalid UTF-8 is an error (faststr_merge fails; `bytes` is dropped with its
           handle: the ledger is where it was); else up to INLINE_CAP bytes are copied into the value and the handle is
           dropped, longer ones keep it; the previous FastStr is dropped *)
      with_m (faststr_merge wt) (fun v => fun old s L =>
        let h := own_scalar MBytes v in
        let L1 := ladd L h in
        let L2 := if faststr_inline_cap <? zlen (vbytes v) then L1 else lsub L1 h in
        POk v s (lsub L2 (own_scalar MFastStr old)))
  | MBytes =>
      (* bytes::merge: value.replace_with(buf.copy_to_bytes(len)): the previous Bytes is dropped, the new one is a handle on the
         input when len > 0.  Bytes::split_to(len) with len = remaining returns the WHOLE handle: an empty bytes field whose
         length prefix is the last byte of the input gets a zero-length Bytes that still pins the buffer.  The model's values
         are byte lists -- [own_scalar] cannot see that handle in the value -- so the ledger carries it apart (l_tail): it is
         held by a value inside the current target and goes when a local / the message around it is dropped *)
      with_m (bytes_merge wt) (fun v => fun old s L =>
        let L1 := lsub (ladd L (own_scalar MBytes v)) (own_scalar MBytes old) in
        POk v s (match vbytes v, rb s with [], [] => ladd L1 one_tail | _, _ => L1 end))
  | _ => with_m (merge_scalar m wt) (fun v => passign m v)        (* numeric: plain stores *)
  end.

(* Vec::push: the first push allocates the buffer (later ones may move it: still one block) *)
Definition ppush (z : bool) (v : val) : PM (list val) :=
  fun xs => with_m (push xs v) (fun xs' => fun _ s L =>
              POk xs' s (ladd L (match xs with [] => if z then lzero else one_heap | _ => lzero end))) xs.

(* let mut value = Default::default(); merge(wire_type, &mut value, buf, ctx)?; values.push(value) *)
Definition pmerge_one (m : codec_module) (wt : wire_type) : PM (list val) :=
  local (if is_len_mod m then VB [] else VI 0) (own_scalar m) (pmerge_scalar m wt) (ppush false).

(* <module>::merge_repeated *)
Definition pmerge_repeated (m : codec_module) (wt : wire_type) : PM (list val) :=
  if is_len_mod m then
    with_m (check_wire_type LengthDelimited wt) (fun _ => pmerge_one m wt)
  else
    match wt with
    | LengthDelimited => pmerge_loop (pmerge_one m (mod_wire_type m))
    | _ => with_m (check_wire_type (mod_wire_type m) wt) (fun _ => pmerge_one m wt)
    end.

(* message::merge over a target of any representation *)
Definition pmessage_merge {T} (mf : Z -> wire_type -> Z -> PM T) (wt : wire_type) (ctx : Z) : PM T :=
  with_m (check_wire_type LengthDelimited wt) (fun _ =>
  with_m (limit_reached ctx) (fun _ =>
  with_m (enter_recursion ctx) (fun ctx' =>
  pmerge_loop (with_m decode_key (fun kw => mf (fst kw) (snd kw) ctx'))))).

(* AHashMap::insert on a key that is present: the slot keeps its key, the NEW key and the OLD value are dropped *)
Fixpoint map_old (k : val) (es : list val) : option val :=
  match es with
  | [] => None
  | VL NPair [k'; v'] :: more => if key_eqb k' k then Some v' else map_old k more
  | _ :: more => map_old k more
  end.

(* ---------------------------------------------------------------- the generated merge_field arms *)
Section OwnStep.
  Variable prec : nat -> Z -> wire_type -> Z -> PM val.   (* merge_field of message #i on its target *)
  Variable dflt : ty -> val.
  Variable own_rec : nat -> val -> ledger.
  Variable zst : ty -> bool.

  Local Notation oty := (own_ty own_rec).

  Definition pmerge_ty (t : ty) (wt : wire_type) (ctx : Z) : PM val :=
    match t with
    | TScalar p => match scalar_module p with Some m => pmerge_scalar m wt | None => pfail PIllTyped end
    | TMsg i => pmessage_merge (prec i) wt ctx
    end.

  Definition pmerge_rep (t : ty) (wt : wire_type) (ctx : Z) : PM (list val) :=
    match t with
    | TScalar p => match scalar_module p with Some m => pmerge_repeated m wt | None => pfail PIllTyped end
    | TMsg i =>
        (* let mut msg = M::default(); message::merge(.., &mut msg, ..)?; values.push(msg) *)
        with_m (check_wire_type LengthDelimited wt) (fun _ =>
        local (dflt t) (oty t) (pmessage_merge (prec i) LengthDelimited ctx) (ppush (zst t)))
    end.

  (* hash_map::merge: let mut key = Default::default(); let mut val = Default::default();
     merge_loop(&mut (&mut key, &mut val), ..)?; values.insert(key, val) *)
  Definition pentry_body (k : proto_type) (vt : ty) (ctx' : Z) : PM (val * val) :=
    with_m decode_key (fun kw =>
      let tag := fst kw in let wt := snd kw in
      if tag =? 1 then zoom fst (fun kv x => (x, snd kv)) (pmerge_ty (TScalar k) wt ctx')
      else if tag =? 2 then zoom snd (fun kv x => (fst kv, x)) (pmerge_ty vt wt ctx')
      else with_m (skip_field depth_fuel wt tag ctx') (fun _ => pret)).

  Definition pmap_entry_merge (k : proto_type) (vt : ty) (ctx : Z) : PM (val * val) :=
    with_m (limit_reached ctx) (fun _ =>
    with_m (enter_recursion ctx) (fun ctx' => pmerge_loop (pentry_body k vt ctx'))).

  Definition insert_delta (k : proto_type) (vt : ty) (kv : val * val) (es : list val) : ledger :=
    ladd (match es with [] => one_heap | _ => lzero end)                      (* the first insert allocates the table *)
         (match map_old (fst kv) es with
          | Some old => lsub lzero (ladd (oty (TScalar k) (fst kv)) (oty vt old))
          | None => lzero
          end).

  Definition pinsert (k : proto_type) (vt : ty) (kv : val * val) : PM (list val) :=
    fun es => with_m (charge 1) (fun _ => fun _ s L =>
                POk (map_insert (fst kv) (snd kv) es) s (ladd L (insert_delta k vt kv es))) es.

  Definition pmerge_map (k : proto_type) (vt : ty) (ctx : Z) : PM (list val) :=
    local (dflt (TScalar k), dflt vt) (own_pair own_rec k vt) (pmap_entry_merge k vt ctx) (pinsert k vt).

  (* <Oneof>::merge: the variant that is already there is merged in place; otherwise
     let mut owned_value = Default::default(); merge(.., &mut owned_value, ..)?; *field = Some(Variant(owned_value)) *)
  Definition pmerge_oneof (ms : list (Z * ty)) (tag : Z) (wt : wire_type) (ctx : Z) : PM val :=
    fun cur =>
      match find_member ms tag 0 with
      | None => ppanic SOneofTag cur
      | Some (idx, t) =>
          let fresh := local (dflt t) (oty t) (pmerge_ty t wt ctx)
                             (fun x => fun old s L => POk (VL (NOne idx) [x]) s (lsub L (own_field own_rec zst (FOneof ms) old))) in
          match cur with
          | VL (NOne j) [v] =>
              if Nat.eqb j idx then zoom (fun _ => v) (fun _ x => VL (NOne idx) [x]) (pmerge_ty t wt ctx) cur
              else fresh cur
          | _ => fresh cur
          end
      end.

  Definition pmerge_fieldval (f : field) (tag : Z) (wt : wire_type) (ctx : Z) : PM val :=
    match f with
    | FSingular _ t => pmerge_ty t wt ctx
    | FOptional _ t =>                                  (* get_or_insert_with(Default::default), then merged in place *)
        zoom (fun x => match x with VL NSome [v] => v | _ => dflt t end) (fun _ v => VL NSome [v]) (pmerge_ty t wt ctx)
    | FRepeated _ t =>
        fun x => match x with
                 | VL NRep xs => zoom (fun _ => xs) (fun _ xs' => VL NRep xs') (pmerge_rep t wt ctx) x
                 | _ => pfail PIllTyped x
                 end
    | FMap _ k vt =>
        fun x => match x with
                 | VL NMap es => zoom (fun _ => es) (fun _ es' => VL NMap es') (pmerge_map k vt ctx) x
                 | _ => pfail PIllTyped x
                 end
    | FOneof ms => pmerge_oneof ms tag wt ctx
    end.

  Fixpoint pmerge_in_fields (fs : list field) (tag : Z) (wt : wire_type) (ctx : Z) : PM (list val) :=
    fun xs =>
      match fs, xs with
      | f :: fs', x :: xs' =>
          if existsb (Z.eqb tag) (field_tags f) then
            zoom (fun _ => x) (fun _ x' => x' :: xs') (pmerge_fieldval f tag wt ctx) xs
          else
            zoom (fun _ => xs') (fun _ r => x :: r) (pmerge_in_fields fs' tag wt ctx) xs
      | _, _ => with_m (skip_field depth_fuel wt tag ctx) (fun _ => pret) xs
      end.
End OwnStep.

Fixpoint pmerge_field (d : nat) (sc : schema) (i : nat) (tag : Z) (wt : wire_type) (ctx : Z) : PM val :=
  fun x =>
    match d with
    | O => pfail POutOfFuel x
    | S d' =>
        match nth_error sc i, x with
        | Some fs, VL NMsg xs =>
            zoom (fun _ => xs) (fun _ xs' => VL NMsg xs')
                 (pmerge_in_fields (pmerge_field d' sc) (default_ty d' sc) (own_msg d' sc) (elem_zst sc) fs tag wt ctx) x
        | _, _ => pfail PIllTyped x
        end
    end.

(* Message::merge(&mut self, buf) *)
Definition pmsg_merge (sc : schema) (i : nat) : PM val :=
  pwhile_rem 0 (with_m decode_key (fun kw => pmerge_field depth_fuel sc i (fst kw) (snd kw) ctx_default)).

(* what the caller of a function that returned holds: on `?` / unwinding the owner of [st] drops it *)
Definition settle {S} (own : S -> ledger) (r : pout S) : out S * ledger :=
  match r with
  | POk st s L => (OOk st s, L)
  | PErr e st s L => (OErr e s, cut_tail 0 (lsub L (own st)))
  | PPanic p st L => (OPanic p, cut_tail 0 (lsub L (own st)))
  end.

(* Message::decode(buf): let mut message = Self::default(); Self::merge(&mut message, &mut buf)?; Ok(message)
   -> (outcome, ledger when decode has returned: on success the caller holds the message, on failure `message` is gone) *)
Definition own_decode (sc : schema) (i : nat) (s : rd) : out val * ledger :=
  settle (own_msg depth_fuel sc i) (pmsg_merge sc i (default_msg depth_fuel sc i) s lzero).

(* x.merge(buf) on a message x the caller owns, followed -- when it failed -- by dropping x
   (the ledger starts with what x holds and nothing else) *)
Definition own_merge_then_drop (sc : schema) (i : nat) (x : val) (s : rd) : out val * ledger :=
  settle (own_msg depth_fuel sc i) (pmsg_merge sc i x s (own_msg depth_fuel sc i x)).

(* ---------------------------------------------------------------- wrapper impls (types.rs) *)
Definition pwrapper_merge_field (m : option codec_module) (tag : Z) (wt : wire_type) (ctx : Z) : PM val :=
  match m with
  | Some m' => if tag =? 1 then pmerge_scalar m' wt else with_m (skip_field depth_fuel wt tag ctx) (fun _ => pret)
  | None => with_m (skip_field depth_fuel wt tag ctx) (fun _ => pret)
  end.

Definition own_wrapper (m : option codec_module) (v : val) : ledger :=
  match m with Some m' => own_scalar m' v | None => lzero end.

Definition pwrapper_merge (m : option codec_module) : PM val :=
  pwhile_rem 0 (with_m decode_key (fun kw => pwrapper_merge_field m (fst kw) (snd kw) ctx_default)).

Definition own_wrapper_decode (m : option codec_module) (s : rd) : out val * ledger :=
  settle (own_wrapper m) (pwrapper_merge m (wrapper_default m) s lzero).
