(* C08 core: the emitted (schema-directed) decoder refines the specification [view] on EVERY input the
   self-describing value interpreter accepts.

     evo_sim : read_val p fuel (ttype_of_ty R t) s = Ok (v, s')  ->  (v in the domain: evo_dom, no_retyped_variant)
               -> gen_decode R p fuel t s = lift_view (view R t v) s'

   i.e. whenever the bytes in front of the reader are a well-formed Thrift value v of the declared wire type -- no
   matter which writer schema, which field order, which unknown fields produced them -- the decoder generated for
   the reader schema R returns exactly [view R t v] (or fails exactly when [view] fails, with the same error
   class) and stops exactly where the value ends, with the same reader context.  Proof: induction on the fuel,
   the reader loops of Gen.v against those of Interp.v; unknown fields are skipped by Gen.skip, which by
   definition is read-and-discard of that very value.  No hypothesis on the schema is needed. *)
From PVGen Require Import Gen GenSpec EvoSpec Proofs.GenBase Proofs.EncP Proofs.EvoBase.
From PV Require Import Proofs.TablesP Proofs.PrimP Proofs.HeaderP Proofs.RoundtripP.
From Coq Require Import ZifyN ZifyNat ZifyBool.
Open Scope Z_scope.

Section Sim.
  Variable R : schema.
  Variable p : pk.

  Notation W1 := (walk R (skippable) true).
  Notation W2 := (walk R (fun _ => true) false).

  Definition SIM (f : nat) : Prop :=
    forall ty s v s', read_val p f ty s = Ok (v, s') -> npf s ->
    forall t, ttype_of_ty R t = ty -> W1 t v = true -> W2 t v = true ->
      gen_decode R p f t s = lift_view (view R t v) s'.

  Section Loops.
    Variable f : nat.
    Hypothesis IHf : SIM f.

    Lemma sim_elems et a : forall m n s acc l s',
      elems_loop (read_val p f) m a n s acc = Ok (l, s') -> npf s ->
      exists new, l = rev acc ++ new /\
        forall gacc, (new <> [] -> ttype_of_ty R et = a) ->
          walk_elems R skippable true et new = true -> walk_elems R (fun _ => true) false et new = true ->
          dec_elems (gen_decode R p f) m et n s gacc
          = lift_view (let* ys := view_elems R et new in Ok (rev gacc ++ ys)) s'.
    Proof.
      induction m as [|m IH]; intros n s acc l s' H Hn; cbn [elems_loop] in H.
      - destruct (n <=? 0) eqn:En; [|discriminate]. injection H as <- <-. exists []. rewrite app_nil_r.
        split; [reflexivity|]. intros gacc _ _ _. cbn [dec_elems]. rewrite En. cbn [view_elems bind lift_view].
        rewrite app_nil_r. reflexivity.
      - destruct (n <=? 0) eqn:En.
        + injection H as <- <-. exists []. rewrite app_nil_r.
          split; [reflexivity|]. intros gacc _ _ _. cbn [dec_elems]. rewrite En. cbn [view_elems bind lift_view].
          rewrite app_nil_r. reflexivity.
        + binv H. destruct (read_val_npf p _ _ _ _ _ E Hn) as [Hn0 Hty].
          destruct (IH _ _ _ _ _ H Hn0) as (new & -> & Hsim).
          exists (x :: new). split; [cbn [rev]; rewrite <- app_assoc; reflexivity|].
          intros gacc Ha Hw1 Hw2. rewrite walk_elems_cons in Hw1, Hw2.
          apply andb_prop in Hw1 as [Hx1 Hr1]. apply andb_prop in Hw2 as [Hx2 Hr2].
          specialize (Ha ltac:(discriminate)).
          cbn [dec_elems]. rewrite En.
          rewrite (IHf _ _ _ _ E Hn et Ha Hx1 Hx2). rewrite view_elems_cons.
          destruct (view R et x) as [y|e|q]; cbn [lift_view bind]; try reflexivity.
          rewrite (Hsim (y :: gacc) (fun _ => Ha) Hr1 Hr2).
          destruct (view_elems R et new) as [ys|e|q]; cbn [lift_view bind rev]; try reflexivity.
          rewrite <- app_assoc. reflexivity.
    Qed.

    Lemma sim_pairs kt vt ka va : forall m n s acc l s',
      pairs_loop (read_val p f) m ka va n s acc = Ok (l, s') -> npf s ->
      exists new, l = rev acc ++ new /\
        forall gacc, (new <> [] -> ttype_of_ty R kt = ka /\ ttype_of_ty R vt = va) ->
          walk_pairs R skippable true kt vt new = true -> walk_pairs R (fun _ => true) false kt vt new = true ->
          dec_pairs (gen_decode R p f) m kt vt n s gacc
          = lift_view (let* ys := view_pairs R kt vt new in Ok (rev gacc ++ ys)) s'.
    Proof.
      induction m as [|m IH]; intros n s acc l s' H Hn; cbn [pairs_loop] in H.
      - destruct (n <=? 0) eqn:En; [|discriminate]. injection H as <- <-. exists []. rewrite app_nil_r.
        split; [reflexivity|]. intros gacc _ _ _. cbn [dec_pairs]. rewrite En. cbn [view_pairs bind lift_view].
        rewrite app_nil_r. reflexivity.
      - destruct (n <=? 0) eqn:En.
        + injection H as <- <-. exists []. rewrite app_nil_r.
          split; [reflexivity|]. intros gacc _ _ _. cbn [dec_pairs]. rewrite En. cbn [view_pairs bind lift_view].
          rewrite app_nil_r. reflexivity.
        + binv H. binv H. destruct (read_val_npf p _ _ _ _ _ E Hn) as [Hn0 Hty].
          destruct (read_val_npf p _ _ _ _ _ E0 Hn0) as [Hn1 Hty1].
          destruct (IH _ _ _ _ _ H Hn1) as (new & -> & Hsim).
          exists ((x, x0) :: new). split; [cbn [rev]; rewrite <- app_assoc; reflexivity|].
          intros gacc Ha Hw1 Hw2. rewrite walk_pairs_cons in Hw1, Hw2.
          apply andb_prop in Hw1 as [Hw1 Hr1]. apply andb_prop in Hw1 as [Ha1 Hb1].
          apply andb_prop in Hw2 as [Hw2 Hr2]. apply andb_prop in Hw2 as [Ha2 Hb2].
          destruct (Ha ltac:(discriminate)) as [Hk Hv].
          cbn [dec_pairs]. rewrite En.
          rewrite (IHf _ _ _ _ E Hn kt Hk Ha1 Ha2). rewrite view_pairs_cons.
          destruct (view R kt x) as [y|e|q]; cbn [lift_view bind]; try reflexivity.
          rewrite (IHf _ _ _ _ E0 Hn0 vt Hv Hb1 Hb2).
          destruct (view R vt x0) as [y0|e|q]; cbn [lift_view bind]; try reflexivity.
          rewrite (Hsim ((y, y0) :: gacc) (fun _ => conj Hk Hv) Hr1 Hr2).
          destruct (view_pairs R kt vt new) as [ys|e|q]; cbn [lift_view bind rev]; try reflexivity.
          rewrite <- app_assoc. reflexivity.
    Qed.

    (* one wire field after its header: the value reader of the generic interpreter returned x *)
    Lemma sim_fields dfs : forall n s acc fs s',
      fields_loop p (read_val p f) n s acc = Ok (fs, s') -> npf s ->
      exists new, fs = rev acc ++ new /\ npf s' /\
        forall vars, walk_fields R skippable true dfs new = true -> walk_fields R (fun _ => true) false dfs new = true ->
          dec_fields R p f (gen_decode R p f) n dfs vars s = lift_view (view_fields R dfs new vars) s'.
    Proof.
      induction n as [|n IH]; intros s acc fs s' H Hn; [discriminate|].
      cbn [fields_loop] in H. binv H. destruct x as [ft oid]. cbn [fst snd] in H.
      pose proof (r_field_begin_npf _ _ _ _ E Hn) as Hn0.
      destruct (ttype_eqb ft TStop) eqn:Es.
      - injection H as <- <-. exists []. rewrite app_nil_r. split; [reflexivity|]. split; [exact Hn0|].
        intros vars _ _. cbn [dec_fields]. rewrite E. cbn [bind fst]. rewrite Es.
        rewrite (r_field_stop_len_npf p _ Hn0). reflexivity.
      - binv H. destruct (r_field_begin_some _ _ _ _ _ E Es) as (id & ->).
        destruct (read_val_npf p _ _ _ _ _ E0 Hn0) as [Hn1 Hty].
        destruct (IH _ _ _ _ H Hn1) as (new & -> & Hn' & Hsim).
        exists ((id, x) :: new). split; [cbn [rev]; rewrite <- app_assoc; reflexivity|]. split; [exact Hn'|].
        intros vars Hw1 Hw2. rewrite walk_fields_cons in Hw1, Hw2. unfold walk_field in Hw1, Hw2.
        apply andb_prop in Hw1 as [Hx1 Hr1]. apply andb_prop in Hw2 as [Hx2 Hr2].
        assert (Hok : elem_ttype_ok ft = true) by (rewrite <- Hty; apply ttype_of_val_ok).
        destruct (fbl_ok R p ft id s0 Hn0 Hok) as (n1 & s1' & Hfbl & Hrv & Hgd).
        cbn [dec_fields]. rewrite E. cbn [bind fst snd]. rewrite Es, Hfbl. cbn [bind].
        rewrite view_fields_cons. rewrite Hty in *.
        destruct (match_field R dfs 0 (Some id) ft) as [[i fl]|] eqn:Em.
        + destruct (match_field_inv _ _ _ _ _ _ _ Em) as (_ & _ & Hft).
          rewrite (Hgd f _ Hft). rewrite (IHf _ _ _ _ E0 Hn0 _ Hft Hx1 Hx2).
          destruct (view R (f_ty fl) x) as [y|e|q]; cbn [lift_view bind]; try reflexivity.
          rewrite (r_field_end_len_npf p _ Hn1). cbn [bind]. apply Hsim; assumption.
        + unfold Gen.skip. rewrite Hrv, E0. cbn [bind]. unfold skippable in Hx1. rewrite Hx1. cbn [bind].
          rewrite (r_field_end_len_npf p _ Hn1). cbn [bind]. apply Hsim; assumption.
    Qed.

    Lemma sim_variants vs : forall n s acc fs s',
      fields_loop p (read_val p f) n s acc = Ok (fs, s') -> npf s ->
      exists new, fs = rev acc ++ new /\ npf s' /\
        forall ret, walk_variants R skippable true vs new = true -> walk_variants R (fun _ => true) false vs new = true ->
          dec_variants R p f (gen_decode R p f) n vs ret s = lift_view (view_variants R vs new ret) s'.
    Proof.
      induction n as [|n IH]; intros s acc fs s' H Hn; [discriminate|].
      cbn [fields_loop] in H. binv H. destruct x as [ft oid]. cbn [fst snd] in H.
      pose proof (r_field_begin_npf _ _ _ _ E Hn) as Hn0.
      destruct (ttype_eqb ft TStop) eqn:Es.
      - injection H as <- <-. exists []. rewrite app_nil_r. split; [reflexivity|]. split; [exact Hn0|].
        intros ret _ _. cbn [dec_variants]. rewrite E. cbn [bind fst]. rewrite Es.
        rewrite (r_field_stop_len_npf p _ Hn0). reflexivity.
      - binv H. destruct (r_field_begin_some _ _ _ _ _ E Es) as (id & ->).
        destruct (read_val_npf p _ _ _ _ _ E0 Hn0) as [Hn1 Hty].
        destruct (IH _ _ _ _ H Hn1) as (new & -> & Hn' & Hsim).
        exists ((id, x) :: new). split; [cbn [rev]; rewrite <- app_assoc; reflexivity|]. split; [exact Hn'|].
        intros ret Hw1 Hw2. rewrite walk_variants_cons in Hw1, Hw2. unfold walk_variant in Hw1, Hw2.
        apply andb_prop in Hw1 as [Hx1 Hr1]. apply andb_prop in Hw2 as [Hx2 Hr2].
        assert (Hok : elem_ttype_ok ft = true) by (rewrite <- Hty; apply ttype_of_val_ok).
        destruct (fbl_ok R p ft id s0 Hn0 Hok) as (n1 & s1' & Hfbl & Hrv & Hgd).
        cbn [dec_variants]. rewrite E. cbn [bind fst snd]. rewrite Es, Hfbl. cbn [bind].
        rewrite view_variants_cons. unfold known_variant. rewrite Hty in *.
        assert (Hskip : skippable x = true ->
          (let* (_, s) := Gen.skip p f ft s1' in dec_variants R p f (gen_decode R p f) n vs ret s)
          = lift_view (view_variants R vs new ret) s').
        { intros Hd. unfold Gen.skip. rewrite Hrv, E0. cbn [bind]. unfold skippable in Hd. rewrite Hd. cbn [bind].
          apply Hsim; assumption. }
        destruct (find_variant vs id) as [vt|] eqn:Ev; [|apply Hskip; exact Hx1].
        destruct (is_void (resolve R vt)) eqn:Evoid; [apply Hskip; exact Hx1|].
        destruct (ttype_eqb_spec (ttype_of_ty R vt) ft) as [Hft|Hne]; [|discriminate Hx2].
        destruct ret as [r0|]; [reflexivity|].
        rewrite (Hgd f _ Hft). rewrite (IHf _ _ _ _ E0 Hn0 _ Hft Hx1 Hx2).
        destruct (view R vt x) as [y|e|q]; cbn [lift_view bind]; try reflexivity.
        apply Hsim; assumption.
    Qed.
  End Loops.

  Ltac scalar_case H Ht :=
    binv H; injection H as <- <-; cbn [view]; tycases Ht;
    match goal with E : _ = Ok (_, _) |- _ => rewrite E end; reflexivity.

  Theorem evo_sim : forall f, SIM f.
  Proof.
    induction f as [|f IH]; intros ty s v s' H Hn t Ht Hw1 Hw2; [discriminate|].
    rewrite read_val_S in H. rewrite gen_decode_eq.
    destruct ty; try discriminate.
    - scalar_case H Ht.
    - scalar_case H Ht.
    - scalar_case H Ht.
    - scalar_case H Ht.
    - scalar_case H Ht.
    - scalar_case H Ht.
    - scalar_case H Ht.
    - (* struct *)
      binv H. binv H. binv H. injection H as <- <-. rewrite view_struct. rewrite walk_struct in Hw1, Hw2.
      pose proof (r_struct_begin_npf _ _ _ _ E Hn) as Hn0.
      tycases Ht; try reflexivity.
      + rewrite E. cbn [bind].
        destruct (sim_fields f IH dfs _ _ _ _ _ E0 Hn0) as (new & Hnew & Hn1 & Hsim). cbn [rev app] in Hnew. subst x0.
        rewrite (Hsim _ Hw1 Hw2).
        destruct (view_fields R dfs new (map init_var dfs)) as [vars|e|q]; cbn [lift_view bind]; try reflexivity.
        rewrite E1. cbn [bind]. destruct (finish_fields dfs vars); reflexivity.
      + rewrite E. cbn [bind].
        destruct (sim_variants f IH vs _ _ _ _ _ E0 Hn0) as (new & Hnew & Hn1 & Hsim). cbn [rev app] in Hnew. subst x0.
        rewrite (Hsim _ Hw1 Hw2).
        destruct (view_variants R vs new None) as [ret|e|q]; cbn [lift_view bind]; try reflexivity.
        rewrite E1. cbn [bind]. unfold union_result.
        destruct ret as [[id y]|]; [reflexivity|]. destruct vok; [|reflexivity]. destruct vs as [|[id0 t0] r]; reflexivity.
    - (* map *)
      binv H. binv H. injection H as <- <-. rewrite view_map. rewrite walk_map in Hw1, Hw2.
      tycases Ht.
      apply andb_prop in Hw1 as [Ha1 Hw1]. apply andb_prop in Hw2 as [_ Hw2].
      rewrite E. cbn [bind].
      pose proof (RCP_npf _ _ _ _ (RCP_map_begin p) E Hn) as Hn0.
      destruct (sim_pairs f IH kt vt _ _ _ _ _ _ _ _ E0 Hn0) as (new & Hnew & Hsim). cbn [rev app] in Hnew. subst x0.
      rewrite (Hsim []); auto.
      + cbn [rev app]. destruct (view_pairs R kt vt new) as [ys|e|q]; reflexivity.
      + intros Hne. destruct new; [congruence|]. cbn [nonempty_is] in Ha1. apply andb_prop in Ha1 as [A1 A2].
        destruct (ttype_eqb_spec (fst (fst x)) (ttype_of_ty R kt)); [|discriminate].
        destruct (ttype_eqb_spec (snd (fst x)) (ttype_of_ty R vt)); [|discriminate]. split; congruence.
    - (* set *)
      binv H. binv H. injection H as <- <-. rewrite view_set. rewrite walk_set in Hw1, Hw2.
      tycases Ht.
      apply andb_prop in Hw1 as [Ha1 Hw1]. apply andb_prop in Hw2 as [_ Hw2].
      rewrite E. cbn [bind].
      pose proof (RCP_npf _ _ _ _ (RCP_coll_begin p) E Hn) as Hn0.
      destruct (sim_elems f IH et _ _ _ _ _ _ _ E0 Hn0) as (new & Hnew & Hsim). cbn [rev app] in Hnew. subst x0.
      rewrite (Hsim []); auto.
      + cbn [rev app]. destruct (view_elems R et new) as [ys|e|q]; reflexivity.
      + intros Hne. destruct new; [congruence|]. cbn [nonempty_is] in Ha1.
        destruct (ttype_eqb_spec (fst x) (ttype_of_ty R et)); congruence.
    - (* list *)
      binv H. binv H. injection H as <- <-. rewrite view_list. rewrite walk_list in Hw1, Hw2.
      tycases Ht.
      apply andb_prop in Hw1 as [Ha1 Hw1]. apply andb_prop in Hw2 as [_ Hw2].
      rewrite E. cbn [bind].
      pose proof (RCP_npf _ _ _ _ (RCP_coll_begin p) E Hn) as Hn0.
      destruct (sim_elems f IH et _ _ _ _ _ _ _ E0 Hn0) as (new & Hnew & Hsim). cbn [rev app] in Hnew. subst x0.
      rewrite (Hsim []); auto.
      + cbn [rev app]. destruct (view_elems R et new) as [ys|e|q]; reflexivity.
      + intros Hne. destruct new; [congruence|]. cbn [nonempty_is] in Ha1.
        destruct (ttype_eqb_spec (fst x) (ttype_of_ty R et)); congruence.
    - scalar_case H Ht.
  Qed.
End Sim.
