#!/bin/bash
# thorough_all.sh <name> <Cxx> [...]: runs the thorough tier of the given checks on the unchanged /repo in an isolated copy
# of /verif at its committed state (/tmp/vth_<name>); one result line per check in .cache/THOROUGH_<name>.txt of /verif.
set -u
NAME=$1; shift
SRC=$(cd "$(dirname "$0")/.." && pwd)
V=/tmp/vth_$NAME
mkdir -p $V && rsync -a --delete --exclude '.cache/target*' $SRC/ $V/ || exit 2
git -C $V checkout -q -- . || exit 2
OUT=$SRC/.cache/THOROUGH_$NAME.txt; : > $OUT
cd $V
for c in "$@"; do
  start=$(date +%s)
  out=$(PV_EVIDENCE_DIR=$V/evidence_th nice -n 5 timeout -k 10 10800 ./check $c --tier thorough 2>&1); rc=$?
  echo "$c exit=$rc $(echo "$out" | grep -c '^VIOLATION') violation line(s), $(echo "$out" | grep -c '^KNOWN-FINDING') known-finding line(s) ($(( $(date +%s) - start )) s) $(echo "$out" | grep -m1 '^#' | cut -c1-200)" >> $OUT
  [ $rc -ne 0 ] && echo "$out" | tail -30 > $SRC/.cache/THOROUGH_${NAME}_$c.log
done
echo done >> $OUT
rm -rf $V
