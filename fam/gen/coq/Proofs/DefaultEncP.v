(* C20, last clause: encoding the Default value yields a valid message that conforms to the schema.
   default_val (ImplDefaultPlugin's model) produces values that are well-typed for the schema (has_type); hence the
   emitted encoder succeeds on them (C02), what it writes is the runtime writer's output on the value's self-describing
   tree (C02_encode_is_write_val), that output is a LEGAL encoding of the tree under the protocol specifications
   (C03_written_is_legal) which the generic reader reads back to exactly the tree (C01 / C03), and the emitted decoder
   reads it back to the value. *)
From PVGen Require Import Gen GenSpec Defaults ErrSpec Proofs.GenBase Proofs.EncP Proofs.RoundP Proofs.DefaultP.
From PVGen Require Import Lit LitSpec LitClass Proofs.LitTopP.
From PV Require Import Proofs.HeaderP Proofs.RoundtripP Proofs.SpecTreeP.
From Coq Require Import Lia ZifyBool.
Open Scope Z_scope.

Lemma nonvoid_ttype_ok S t : is_void (resolve S t) = false -> ttype_ok S t = true.
Proof.
  unfold ttype_ok, ttype_of_ty. destruct (resolve S t); try reflexivity; try discriminate.
  destruct (lookup S n) as [[]|]; reflexivity.
Qed.

Section Typed.
  Variable S : schema.
  Hypothesis Hwf : wf_schema S = true.
  Hypothesis He : elems_ok S = true.

  Lemma elems_lookup n d : lookup S n = Some d -> decl_elems_ok S d = true.
  Proof. intros H. unfold elems_ok in He. rewrite forallb_forall in He. apply He. eapply nth_error_In. exact H. Qed.

  Lemma resolve_n_elems f : forall t, ty_elems_ok S t = true -> ty_elems_ok S (resolve_n S f t) = true.
  Proof.
    induction f as [|f IH]; intros t H; [exact H|]. destruct t; try exact H.
    cbn [resolve_n]. destruct (lookup S n) as [[]|] eqn:El; try exact H.
    apply IH. exact (elems_lookup _ _ El).
  Qed.
  Lemma resolve_elems t : ty_elems_ok S t = true -> ty_elems_ok S (resolve S t) = true.
  Proof. apply resolve_n_elems. Qed.

  (* an optional field that the value does not mention is skipped by the typing of struct values *)
  Lemma ht_fields_skip l f r : f_req f = Optional -> (forall id, In id (map fst l) -> id <> f_id f) ->
    ht_fields S l (f :: r) = ht_fields S l r.
  Proof.
    intros Ho Hn. destruct l as [|[id x] l'].
    - cbn [ht_fields all_optional forallb]. rewrite Ho. reflexivity.
    - cbn [ht_fields split_at]. assert (Hne : (f_id f =? id) = false).
      { apply Z.eqb_neq. intros E. apply (Hn id); [left; reflexivity|symmetry; exact E]. }
      rewrite Hne, Ho. destruct (split_at r id) as [[[pre g] rest]|]; reflexivity.
  Qed.

  Definition dv_ok (k : nat) : Prop := forall t v, ty_elems_ok S t = true -> default_val S k t = Some v ->
    if is_void (resolve S t) then v = GVoid else has_type S t v = true.

  Lemma dv_fields_typed k (IH : dv_ok k) : forall fs l,
    (forall f, In f fs -> field_ok S f = true /\ ty_elems_ok S (f_ty f) = true) ->
    nodup_ids (map f_id fs) = true ->
    dv_fields S k fs = Some l ->
    ht_fields S l fs = true /\ (forall id, In id (map fst l) -> In id (map f_id fs)).
  Proof.
    induction fs as [|f r IHr]; intros l Hok Hnd Hd.
    - injection Hd as <-. split; [reflexivity|intros id []].
    - cbn [dv_fields] in Hd. fold (dv_fields S k) in Hd.
      destruct (dv_fields S k r) as [rest|] eqn:Er; [|discriminate].
      cbn [map nodup_ids] in Hnd. apply andb_prop in Hnd as [Hnf Hnr].
      destruct (IHr rest (fun g Hg => Hok g (or_intror Hg)) Hnr eq_refl) as [Ht Hids].
      destruct (Hok f (or_introl eq_refl)) as [Hf Hfe].
      destruct (field_ok_inv _ _ Hf) as (_ & _ & Hnv & Hdf).
      assert (Hfresh : forall id, In id (map fst rest) -> id <> f_id f).
      { intros id Hin E. subst id. apply Hids in Hin. apply Bool.negb_true_iff in Hnf.
        assert (existsb (Z.eqb (f_id f)) (map f_id r) = true); [|congruence].
        apply existsb_exists. exists (f_id f). split; [exact Hin|apply Z.eqb_refl]. }
      destruct (f_dflt f) as [[c d]|] eqn:Edf.
      + injection Hd as <-. split.
        * cbn [ht_fields split_at fst]. rewrite Z.eqb_refl. rewrite Hdf, Ht. reflexivity.
        * intros id [<-|Hin]; [left; reflexivity|right; apply Hids; exact Hin].
      + destruct (f_req f) eqn:Erq.
        * destruct (default_val S k (f_ty f)) as [d|] eqn:Ed; [|discriminate]. injection Hd as <-.
          pose proof (IH _ _ Hfe Ed) as Hd'. rewrite Hnv in Hd'. split.
          -- cbn [ht_fields split_at fst]. rewrite Z.eqb_refl. rewrite Hd', Ht. reflexivity.
          -- intros id [<-|Hin]; [left; reflexivity|right; apply Hids; exact Hin].
        * injection Hd as <-. split.
          -- rewrite (ht_fields_skip rest f r Erq Hfresh). exact Ht.
          -- intros id Hin. right. apply Hids. exact Hin.
  Qed.

  Lemma dv_typed : forall k, dv_ok k.
  Proof.
    induction k as [|k IH]; intros t v Hte Hd; [discriminate|].
    cbn [default_val] in Hd. pose proof (resolve_elems t Hte) as Hre.
    destruct (resolve S t) eqn:Er; cbn [is_void].
    1-9: injection Hd as <-; cbn [has_type]; rewrite Er; reflexivity.
    - injection Hd as <-. reflexivity.
    - injection Hd as <-. rewrite has_type_list, Er. cbn [ty_elems_ok] in Hre. apply andb_prop in Hre as [Hv _].
      apply Bool.negb_true_iff in Hv. rewrite (nonvoid_ttype_ok _ _ Hv). reflexivity.
    - injection Hd as <-. rewrite has_type_set, Er. cbn [ty_elems_ok] in Hre. apply andb_prop in Hre as [Hv _].
      apply Bool.negb_true_iff in Hv. rewrite (nonvoid_ttype_ok _ _ Hv). reflexivity.
    - injection Hd as <-. rewrite has_type_map, Er. cbn [ty_elems_ok] in Hre.
      apply andb_prop in Hre as [Hre _]. apply andb_prop in Hre as [Hre _]. apply andb_prop in Hre as [Hk Hv].
      apply Bool.negb_true_iff in Hk. apply Bool.negb_true_iff in Hv.
      rewrite (nonvoid_ttype_ok _ _ Hk), (nonvoid_ttype_ok _ _ Hv). reflexivity.
    - destruct (lookup S n) as [[fs kp ia|vs vo kp|ms|t']|] eqn:El; try discriminate.
      + (* struct *)
        change (match dv_fields S k fs with Some l => Some (GStruct l []) | None => None end = Some v) in Hd.
        destruct (dv_fields S k fs) as [l|] eqn:Ef; [|discriminate]. injection Hd as <-.
        rewrite has_type_struct, Er, El.
        destruct (wf_struct S Hwf _ _ _ _ El) as [Hnd Hfo].
        pose proof (elems_lookup _ _ El) as Hde. cbn [decl_elems_ok] in Hde. rewrite forallb_forall in Hde.
        exact (proj1 (dv_fields_typed k IH fs l (fun f Hf => conj (Hfo f Hf) (Hde f Hf)) Hnd Ef)).
      + (* union *)
        destruct vs as [|[id vt] vr]; [discriminate|].
        destruct (default_val S k vt) as [d|] eqn:Ed; [|discriminate]. injection Hd as <-.
        rewrite has_type_union, Er, El. cbn [find_variant]. rewrite Z.eqb_refl.
        pose proof (elems_lookup _ _ El) as Hde. cbn [decl_elems_ok forallb snd] in Hde. apply andb_prop in Hde as [Hvt _].
        pose proof (IH _ _ Hvt Ed) as Hd'. destruct (is_void (resolve S vt)); [subst d; reflexivity|exact Hd'].
      + (* enum *)
        injection Hd as <-. cbn [has_type]. rewrite Er, El. reflexivity.
  Qed.
End Typed.

(* ---------- the encoding of a Default value conforms ---------- *)
Theorem default_encoding S (Hwf : wf_schema S = true) (He : elems_ok S = true) n fs kp ia v :
  lookup S n = Some (DStruct fs kp ia) -> default_of S (TyRef n) = Some v ->
  has_type S (TyRef n) v = true /\
  wt (to_tval S (TyRef n) v) = true /\ ttype_of (to_tval S (TyRef n) v) = ttype_of_ty S (TyRef n) /\
  forall p k c, w_pend c = None ->
    exists ss,
      enc_ty S p k (TyRef n) v c = Ok (ss, c) /\
      write_val p k (to_tval S (TyRef n) v) c = Ok (ss, c) /\
      (p <> PBinaryLE -> legal p (to_tval S (TyRef n) v) (flat ss)) /\
      (forall fuel r rcx, (vsize (to_tval S (TyRef n) v) <= fuel)%nat -> idle rcx ->
         read_val p fuel (ttype_of_ty S (TyRef n)) (mkS (flat ss ++ r) rcx)
         = Ok (canon p (to_tval S (TyRef n) v), mkS r rcx)) /\
      (forall fuel r rcx, (vsize (to_tval S (TyRef n) v) <= fuel)%nat -> idle rcx ->
         gen_decode S p fuel (TyRef n) (mkS (flat ss ++ r) rcx) = Ok (fill_defaults S (TyRef n) v, mkS r rcx)).
Proof.
  intros Hl Hd. unfold default_of in Hd.
  pose proof (dv_typed S Hwf He _ (TyRef n) v eq_refl Hd) as Ht.
  rewrite (resolve_struct _ _ _ _ _ Hl) in Ht. cbn [is_void] in Ht.
  split; [exact Ht|].
  pose proof (EncP.to_tval_wt S Hwf v _ Ht) as Hwt.
  pose proof (EncP.to_tval_ttype S v _ Ht) as Htt.
  split; [exact Hwt|]. split; [exact Htt|].
  intros p k c Hc.
  destruct (gen_roundtrip S p k (TyRef n) v Hwf Ht c Hc) as (ss & Henc & Hdec).
  exists ss. split; [exact Henc|].
  assert (Hw : write_val p k (to_tval S (TyRef n) v) c = Ok (ss, c)).
  { rewrite <- (EncP.enc_as_tval S Hwf p k v _ Ht c). exact Henc. }
  split; [exact Hw|]. split.
  - intros Hp. exact (written_is_legal p k _ c ss c Hp Hwt Hc Hw).
  - split; [|exact Hdec].
    destruct (roundtrip_val p k (to_tval S (TyRef n) v) Hwt c Hc) as (ss' & Hw' & _ & Hr).
    rewrite Hw in Hw'. injection Hw' as <-. rewrite <- Htt. exact Hr.
Qed.

(* ---------- ... and the Default value is the one the IDL determines ---------- *)
(* [S]: the literal schema (types after resolve.rs, default LITERALS); [proj parse_f64 S]: the schema of Gen.v whose field
   defaults are the lowered literals.  For every struct: the value the IDL alone determines (expected_default: each field
   with an IDL default holds the meaning of its literal -- present also when the field is optional -- every other field is
   absent or holds its type's empty value) IS the emitted Default value, is well-typed for the schema, and its encoding by
   the emitted encoder, under each of the three protocols and every buffer kind,
     - is what the runtime writer emits for the value's self-describing tree (every field with its declared wire type),
     - is a legal encoding of that tree under the Apache protocol specifications (binary, compact; binary-LE is pilota's own),
     - is read back by the generic reader to exactly that tree, consuming exactly the message,
     - is read back by the emitted decoder to the value (up to the permitted filling of absent optional members of
       nested struct literals, fill_defaults). *)
Theorem default_encoding_conforms parse_f64 (S : lschema) :
  class_free_schema S = true -> lits_typed parse_f64 S = true ->
  wf_schema (proj parse_f64 S) = true -> elems_ok (proj parse_f64 S) = true ->
  forall n fs kp ia v, nth_error (ls_items S) n = Some (IStruct fs kp ia) -> expected_default parse_f64 S n = Some v ->
  let G := proj parse_f64 S in
  let tv := to_tval G (TyRef n) v in
  default_of G (TyRef n) = Some v /\ has_type G (TyRef n) v = true /\
  wt tv = true /\ ttype_of tv = TStruct /\
  forall p k c, w_pend c = None ->
    exists ss,
      enc_ty G p k (TyRef n) v c = Ok (ss, c) /\
      write_val p k tv c = Ok (ss, c) /\
      (p <> PBinaryLE -> legal p tv (flat ss)) /\
      (forall fuel r rcx, (vsize tv <= fuel)%nat -> idle rcx ->
         read_val p fuel TStruct (mkS (flat ss ++ r) rcx) = Ok (canon p tv, mkS r rcx)) /\
      (forall fuel r rcx, (vsize tv <= fuel)%nat -> idle rcx ->
         gen_decode G p fuel (TyRef n) (mkS (flat ss ++ r) rcx) = Ok (fill_defaults G (TyRef n) v, mkS r rcx)).
Proof.
  intros Hcf Hlt Hwf He n fs kp ia v Hn Hv G tv.
  assert (Hl : lookup G n = Some (DStruct (map (proj_field parse_f64 S (efuel S)) fs) kp ia)).
  { unfold G, proj. rewrite (lookup_proj parse_f64 S n), Hn. reflexivity. }
  assert (Hd : default_of G (TyRef n) = Some v) by (unfold G; rewrite (default_is_idl parse_f64 S Hcf Hlt n); exact Hv).
  destruct (default_encoding G Hwf He n _ kp ia v Hl Hd) as (Ht & Hwt & Htt & Henc).
  assert (Hts : ttype_of_ty G (TyRef n) = TStruct).
  { unfold ttype_of_ty. rewrite (resolve_struct _ _ _ _ _ Hl), Hl. reflexivity. }
  rewrite Hts in Htt, Henc.
  split; [exact Hd|]. split; [exact Ht|]. split; [exact Hwt|]. split; [exact Htt|]. exact Henc.
Qed.

(* non-vacuity: the schema of LitTopP (14 defaults of every kind) satisfies every hypothesis; its Default value is encoded,
   e.g. under the binary protocol, to 173 bytes that the emitted decoder reads back *)
Example default_encoding_nonvacuous :
  wf_schema (proj pf0 S_ex) = true /\ elems_ok (proj pf0 S_ex) = true /\
  (exists v, expected_default pf0 S_ex 4 = Some v /\
     forall p, exists ss, enc_ty (proj pf0 S_ex) p BContig (TyRef 4) v w0 = Ok (ss, w0) /\
                          (p <> PBinaryLE -> legal p (to_tval (proj pf0 S_ex) (TyRef 4) v) (flat ss))) /\
  (forall p, match default_of (proj pf0 S_ex) (TyRef 4) with
             | Some v => match gen_encode (proj pf0 S_ex) p BContig (TyRef 4) v with
                         | Ok b => gen_decode_top (proj pf0 S_ex) p (TyRef 4) b = Ok (fill_defaults (proj pf0 S_ex) (TyRef 4) v, [])
                         | _ => False
                         end
             | None => False
             end).
Proof.
  assert (H1 : class_free_schema S_ex = true) by (vm_compute; reflexivity).
  assert (H2 : lits_typed pf0 S_ex = true) by (vm_compute; reflexivity).
  assert (H3 : wf_schema (proj pf0 S_ex) = true) by (vm_compute; reflexivity).
  assert (H4 : elems_ok (proj pf0 S_ex) = true) by (vm_compute; reflexivity).
  split; [exact H3|]. split; [exact H4|]. split.
  - destruct (expected_default pf0 S_ex 4) as [v|] eqn:Ev; [|vm_compute in Ev; discriminate].
    exists v. split; [reflexivity|]. intros p.
    destruct (default_encoding_conforms pf0 S_ex H1 H2 H3 H4 4 _ _ _ v eq_refl Ev) as (_ & _ & _ & _ & H).
    destruct (H p BContig w0 eq_refl) as (ss & Henc & _ & Hleg & _). exists ss. split; [exact Henc|exact Hleg].
  - intros p; destruct p; vm_compute; reflexivity.
Qed.
