"""gen family -- shared run-time of the checks C02 C08 C13 C19 C20 (and the generated-code halves of
C04 C09 C11 C12): build once, run case lines on the driver, interpret result lines, the oracles."""
import os, re
from . import core, gengen, gendebug, genref, genbuild

FAM = core.Family('gen')
SYNC_PROTOS = ('binary', 'binary_le', 'compact', 'unchecked')
ASYNC_PROTOS = ('binary', 'binary_le', 'compact')
SCHEDULES = ('all', '1', 'c3', 'p2', 'c7')

TRUSTED = [
    "pv/gengen.py: corpus, IDL emission, independent lowering to the schema, IDL literal semantics (lit_value / expected_default / fill_defaults / view)",
    "pv/genref.py: reference binary / compact codec written from the Apache protocol specs (self-tested on spec examples)",
    "pv/gendebug.py: parser of Rust Debug renderings (self-tested); positional mapping of printed struct fields to IDL fields; union variant names scraped from the emitted text",
    "fam/gen/harness: pv-gen-build (calls the real pilota_build::Builder of the working tree) and the driver pv-harness-gen (generic over Message + Debug + Default; counting allocator; scripted AsyncRead)",
    "rustc / cargo (offline), rustfmt as invoked by pilota-build",
]


def ref_proto(proto):
    return 'binary' if proto == 'unchecked' else proto


def setup(chk, configs=None, docs=None, defer=False):
    """builds (or reuses) the driver for the working tree.  On failure reports a violation without input.
    defer: the caller reports the documents that do not compile itself (flush_excluded), after the failures of its oracles"""
    if configs is None:
        configs = genbuild.CONFIGS_QUICK if chk.tier == 'quick' else genbuild.CONFIGS_QUICK + ('split',)
    if docs is None and chk.tier != 'quick':
        # thorough: the hand-written corpus plus seeded random documents
        docs = gengen.corpus() + gengen.random_docs(chk.seed, 6)
    gb = genbuild.build(configs, docs=docs)
    # the emitted code of some corpus documents does not compile: each such document is a failing input of its own; the build is
    # repeated without them (and without the documents that include them) so that the oracles still run on the rest of the corpus
    excluded = []
    for _ in range(3):
        if gb.ok or gb.docs is None or not gb.stage.startswith('cargo build pv-harness-gen'):
            break
        bad = _locate_failing_documents(gb)
        names = set(b['name'] for b in bad)
        rest = [d for d in gb.docs if d.name not in names and not (set(d.includes) & names)]
        if not bad or not rest:
            break
        stage = gb.stage
        gb2 = genbuild.build(configs, docs=rest)
        if not gb2.ok and not _locate_failing_documents(gb2):
            break
        excluded += [dict(b, stage=stage, output=gb.error) for b in bad]
        gb = gb2
    gb.excluded = excluded
    chk.cov['build'] = dict(stage=gb.stage, configs=list(configs), documents_that_do_not_compile=[b['name'] for b in excluded])
    if excluded and not (defer and gb.ok):
        flush_excluded(chk, gb)
    if not gb.ok:
        kind = 'corpus' if gb.stage == 'corpus' else 'build'
        doc = _locate_failing_document(gb)
        if doc is not None:
            # the emitted code of ONE corpus document does not compile: that document is the failing input
            chk.violation('the code pilota-build emits for corpus document `%s` does not compile (%s): %s' % (doc['name'], gb.stage, doc['error'][:300]),
                          dict(kind='document', stage=gb.stage, document=doc['name'], idl=doc['idl'], emitted_at=doc['where'], output=gb.error,
                               repo=core.REPO))
        else:
            chk.violation('the code pilota-build emits for the corpus cannot be built and run (%s): %s' % (gb.stage, gb.error[:400]),
                          dict(kind=kind, stage=gb.stage, output=gb.error, repo=core.REPO), no_input=True)
    if gb.ok:
        chk.cov['argument_types'] = dict(compared=sum(1 for cfg in gb.configs if 'keep' in cfg for n in gb.schema.names_in(cfg)
                                                      if gb.schema.types[n]['kind'] == 'struct' and 'k' not in gb.schema.types[n]['flags']),
                                         model=sum(1 for n, d in gb.schema.types.items() if d['kind'] == 'struct' and 'a' in d['flags'] and 'k' not in d['flags']),
                                         mismatches=[list(x) for x in gb.arg_mismatch[:10]])
        if gb.arg_mismatch:
            cfg, n, side = gb.arg_mismatch[0]
            doc = (gb.schema.docs or {}).get(n.split('.')[0])
            chk.violation('the argument types of the generator differ from the model\'s is_arg (%d types): in the %s build struct %s %s'
                          % (len(gb.arg_mismatch), cfg, n,
                             'is decoded as an ARGUMENT type (its emitted decoder counts the declared fields down and takes the rest of the '
                             'input as unknown fields) although no method names it as a parameter or result type' if side == 'generator' else
                             'is a parameter / result type of a method but its emitted decoder is the ordinary one'),
                          dict(kind='argument-types', mismatches=[list(x) for x in gb.arg_mismatch[:20]], document=doc.name if doc else None,
                               idl=gengen.doc_idl(doc) if doc else None, repo=core.REPO), no_input=True)
    chk.cov['trusted_base'] = (chk.cov.get('trusted_base') or []) + [t for t in TRUSTED if t not in (chk.cov.get('trusted_base') or [])]
    return gb


def flush_excluded(chk, gb):
    for b in getattr(gb, 'excluded', None) or []:
        chk.violation('the code pilota-build emits for corpus document `%s` does not compile (%s): %s' % (b['name'], b['stage'], b['error'][:300]),
                      dict(kind='document', stage=b['stage'], document=b['name'], idl=b['idl'], emitted_at=b['where'], output=b['output'],
                           repo=core.REPO))
    gb.excluded = []


def _locate_failing_documents(gb):
    """every corpus document some rustc diagnostic points into"""
    out, seen = [], set()
    try:
        odir = os.path.realpath(gb.out_dir or '')
        names = {d.name: d for d in (gb.docs or [])}
        cache = {}
        for m in re.finditer(r'--> (\S+\.rs):(\d+)', gb.error or ''):
            path, line = os.path.realpath(m.group(1)), int(m.group(2))
            if not odir or not path.startswith(odir) or not os.path.exists(path):
                continue
            if path not in cache:
                cache[path] = open(path, encoding='utf-8', errors='replace').read().split('\n')
            lines = cache[path]
            for i in range(min(line, len(lines)) - 1, -1, -1):
                mm = re.match(r'\s*pub mod (\w+)\s*\{', lines[i])
                if mm and mm.group(1) in names:
                    d = names[mm.group(1)]
                    if d.name not in seen:
                        seen.add(d.name)
                        msg = (gb.error or '')[max(0, m.start() - 300):m.end() + 100].strip()
                        out.append(dict(name=d.name, idl=gengen.doc_idl(d), where='%s:%d' % (os.path.basename(path), line), error=' '.join(msg.split())))
                    break
    except Exception:
        pass
    return out


def _locate_failing_document(gb):
    """maps the first rustc diagnostic that points into the emitted code to the corpus document (top-level module) it lies in"""
    try:
        out = os.path.realpath(gb.out_dir or '')
        for m in re.finditer(r'--> (\S+\.rs):(\d+)', gb.error or ''):
            path, line = os.path.realpath(m.group(1)), int(m.group(2))
            if not out or not path.startswith(out) or not os.path.exists(path):
                continue
            lines = open(path, encoding='utf-8', errors='replace').read().split('\n')
            names = {d.name: d for d in (gb.docs or [])}
            for i in range(min(line, len(lines)) - 1, -1, -1):
                mm = re.match(r'\s*pub mod (\w+)\s*\{', lines[i])
                if mm and mm.group(1) in names:
                    d = names[mm.group(1)]
                    msg = (gb.error or '')[max(0, m.start() - 300):m.end() + 100].strip()
                    return dict(name=d.name, idl=gengen.doc_idl(d), where='%s:%d' % (os.path.basename(path), line), error=' '.join(msg.split()))
        return None
    except Exception:
        return None


def case_line(op, cfg, tname, proto, mode='sync', data=b''):
    if op == 'dflt':
        return 'dflt %s %s %s' % (cfg, tname, proto)
    return '%s %s %s %s %s %s' % (op, cfg, tname, proto, mode, data.hex() or '-')


# ------------------------------------------------------------------ result lines

class Res:
    """parsed driver result line"""
    def __init__(self, line):
        self.line = line or ''
        self.kind = 'bad'
        self.debug = self.rem = self.size = self.enc = None
        self.err = self.note = None
        ln = self.line
        if ln.startswith('ok '):
            self.kind = 'ok'
            body = ln[3:]
            m = re.search(r' REM (\d+)(?: SIZE (\d+) ENC ([0-9a-f-]+)((?: NOTE [^\n]*)?))?$', body)
            if not m:
                self.kind = 'bad'
                return
            self.debug = body[:m.start()]
            self.rem = int(m.group(1))
            if m.group(2) is not None:
                self.size = int(m.group(2))
                self.enc = b'' if m.group(3) == '-' else bytes.fromhex(m.group(3))
                self.note = (m.group(4) or '').strip() or None
        elif ln.startswith('err '):
            self.kind = 'err'
            t = ln.split(' ', 2)
            self.err = t[1]
            self.msg = t[2] if len(t) > 2 else ''
        elif ln.startswith('encerr '):
            self.kind = 'encerr'
            self.err = ln.split(' ')[1]
        elif ln == 'panic':
            self.kind = 'panic'
        elif ln == 'hang' or ln.startswith('HANG'):
            self.kind = 'hang'
        elif ln.startswith('CRASH'):
            self.kind = 'crash'
        elif ln.startswith('BADCASE'):
            self.kind = 'badcase'

    def coarse(self):
        return self.kind if self.kind != 'ok' else 'ok'


def diff_text(got, want):
    g, w = got.split(' '), want.split(' ')
    i = 0
    while i < len(g) and i < len(w) and g[i] == w[i]:
        i += 1
    a = max(0, i - 4)
    return 'at token %d: got `%s`, want `%s`' % (i, ' '.join(g[a:i + 4])[:200], ' '.join(w[a:i + 4])[:200])


def canon_nan_text(text):
    def rep(m):
        b = int(m.group(1))
        return 'dNaN' if gengen.is_nan_bits(b) else m.group(0)
    return re.sub(r'\bd(\d+)\b', rep, text)


def debug_value(gb, cfg, ty, debug):
    """Debug text -> (value, None) or (None, reason)"""
    try:
        tree = gendebug.parse(debug)
        return gengen.from_debug(gb.schema, ty, tree, gb.variant_names(cfg)), None
    except (gendebug.ParseError, gengen.DebugMismatch, KeyError, IndexError, ValueError) as e:
        return None, 'Debug output not understood under the schema: %r' % (e,)


def value_text(gb, cfg, ty, debug):
    v, why = debug_value(gb, cfg, ty, debug)
    if why:
        return None, why
    return gengen.show(gb.schema, ty, v, nan_canon=True), None


# ------------------------------------------------------------------ the round-trip oracle (C02; size part = C04g)

def check_roundtrip(gb, cfg, tname, proto, res, want_exact, restlen, check_size=True, want_nan=None):
    """res: Res of a `renc` line whose input was ref_encode(v) ++ rest; want_exact = show(fill_defaults(v)).
    Returns (reason | None, size_reason | None)."""
    sch = gb.schema
    ty = ('ref', tname)
    if res.kind != 'ok':
        return 'decoding a reference encoding of a well-typed value gives %s' % res.line[:200], None
    got, why = value_text(gb, cfg, ty, res.debug)
    if why:
        return why, None
    want_nan = want_nan if want_nan is not None else canon_nan_text(want_exact)
    if got != want_nan:
        return 'decoded value differs from the value written (%s)' % diff_text(got, want_nan), None
    if res.rem != restlen:
        return 'decoder left %d bytes, %d trailing bytes were supplied' % (res.rem, restlen), None
    if res.enc is None:
        return None, None
    if res.note:
        return 'writer flavours disagree: ' + res.note, None
    try:
        v2, n, notes = genref.decode(sch, ty, res.enc, ref_proto(proto))
    except (genref.RefError, Exception) as e:
        return 're-encoded bytes are not a valid %s encoding of the type: %r' % (proto, e), None
    if n != len(res.enc):
        return 're-encoded message has %d trailing bytes' % (len(res.enc) - n), None
    if notes:
        return 're-encoded message does not conform to the schema: %r' % (notes[:3],), None
    back = gengen.show(sch, ty, v2)
    if back != want_exact:
        return 're-encoded value differs (exact bits) (%s)' % diff_text(back, want_exact), None
    size_why = None
    if check_size and res.size != len(res.enc):
        size_why = 'size() reported %d, encode() wrote %d bytes' % (res.size, len(res.enc))
    return None, size_why


def typedef_bool_under_compact(sch, tname, v=None):
    """F-04a class: a struct field / union variant whose declared type is a typedef that resolves to bool
    (size() goes through struct_field_len(TType::Struct) and counts the bool separately)."""
    seen = set()

    def has(ty):
        if ty[0] in ('list', 'set'):
            return has(ty[1])
        if ty[0] == 'map':
            return has(ty[1]) or has(ty[2])
        if ty[0] != 'ref':
            return False
        if ty[1] in seen:
            return False
        seen.add(ty[1])
        d = sch.types[ty[1]]
        if d['kind'] == 'typedef':
            return has(d['ty'])
        if d['kind'] == 'struct':
            return any(field_hits(f['ty']) or has(f['ty']) for f in d['fields'])
        if d['kind'] == 'union':
            return any(field_hits(x['ty']) or has(x['ty']) for x in d['variants'])
        return False

    def field_hits(ty):
        return sch.through_typedef(ty) and sch.resolve(ty) == ('bool',)
    return has(('ref', tname))


def nontrivial_type(sch, tname):
    return sch.types[tname]['kind'] in ('struct', 'union')


# ------------------------------------------------------------------ running the driver (crash isolating)

def run_driver(binary, lines, shards=None, timeout=900, args=()):
    """core.run_lines for the driver: a process that dies (abort, stack overflow, allocation failure) only costs the
    line it was working on (`CRASH ...`), a case without an answer within the stall limit is `HANG ...`; the remaining
    lines of the shard are fed to a fresh process"""
    return core.run_lines(binary, lines, shards=shards, timeout=timeout, args=args, per=150,
                          stall=float(os.environ.get('PV_STALL_S', '30')))


# ------------------------------------------------------------------ known-finding classes (decidable on the case)

def reaches(sch, tname, pred):
    """does a value of type tname (transitively) contain a declared type satisfying pred(name, decl)?"""
    seen = set()

    def go_ty(ty):
        if ty[0] in ('list', 'set'):
            return go_ty(ty[1])
        if ty[0] == 'map':
            return go_ty(ty[1]) or go_ty(ty[2])
        if ty[0] != 'ref' or ty[1] in seen:
            return False
        seen.add(ty[1])
        d = sch.types[ty[1]]
        if pred(ty[1], d):
            return True
        if d['kind'] == 'typedef':
            return go_ty(d['ty'])
        if d['kind'] == 'struct':
            return any(go_ty(f['ty']) for f in d['fields'])
        if d['kind'] == 'union':
            return any(go_ty(x['ty']) for x in d['variants'])
        return False
    return go_ty(('ref', tname))


def keeps(sch, name):
    """is the type compiled with unknown-field retention in a keep build?"""
    d = sch.types[name]
    return d['kind'] in ('struct', 'union') and 'k' not in d['flags']


def is_arg_swallow(sch, cfg, tname, mode):
    """F-13a class: keep build, sync decoder, the value contains a struct that is in pilota-build's `args` set
    (once its known fields are seen it takes `remaining - 2` bytes of the WHOLE input as unknown fields).
    Membership in the class is only the PRECONDITION of the attribution: gencheck.confirm_known keeps a failing case in
    the class only if the extracted model of that defect (GenKeep's is_arg clause) predicts the code's outcome on the
    input exactly; any other deviation on such a struct is reported as a violation with that case."""
    if 'keep' not in cfg or mode != 'sync':
        return False
    return reaches(sch, tname, lambda n, d: d['kind'] == 'struct' and 'a' in d['flags'] and 'k' not in d['flags'])
