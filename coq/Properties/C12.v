(* C12 -- asynchronous decoding equals in-memory decoding for every delivery schedule (primitive
   level).  A stream is modelled by the byte string it delivers: tokio's read_exact / read_u8
   contracts (trusted base) make the result independent of chunk boundaries and Pending wake-ups;
   the correspondence run exercises the real readers under explicit schedules. *)
From PV Require Import Thrift.Async Proofs.HeaderP Proofs.RoundtripP Proofs.AsyncP Proofs.AsyncErrP.
Open Scope Z_scope.

(* same value, same stopping position: whenever the in-memory reader returns [v] leaving state [s']
   (in particular the unread rest of the buffer), the asynchronous reader returns [v] and has
   pulled exactly the same bytes -- it never reads past the end of the message *)
Theorem C12_value : forall p f ty l rcx v s',
  r_pfield rcx = false -> Z.of_nat (length l) < 2 ^ 63 ->
  read_val p f ty (mkS l rcx) = Ok (v, s') ->
  aread_val p f ty (mkS l rcx) = Ok (v, s').
Proof. exact async_value. Qed.
Print Assumptions C12_value.

(* composed with C01: what pilota writes is decoded asynchronously to the same value, consuming
   exactly the bytes of the message and nothing of what follows on the stream *)
Theorem C12_roundtrip : forall p k v c,
  wt v = true -> w_pend c = None ->
  exists ss, write_val p k v c = Ok (ss, c) /\
    forall fuel r, (vsize v <= fuel)%nat -> Z.of_nat (length (flat ss ++ r)) < 2 ^ 63 ->
      aread_val p fuel (ttype_of v) (mkS (flat ss ++ r) r0) = Ok (canon p v, mkS r r0).
Proof. exact async_roundtrip. Qed.
Print Assumptions C12_roundtrip.

(* the error direction: a reader started idle (no bool value pending, no bool field announced) on ANY
   byte string: whenever the in-memory decoder reports an error, the asynchronous decoder reports an
   error as well -- it never returns a value and never panics.  The two do not fail at the same
   place: the in-memory readers reject container sizes and byte-string lengths that exceed the
   remaining input, the asynchronous readers start reading and run out of stream (every value costs
   at least one byte; the compact bool carried by a field header is covered by an invariant on the
   pending value -- Proofs/AsyncErrP.v). *)
Theorem C12_error : forall p f ty l rcx e,
  idle rcx -> Z.of_nat (length l) < 2 ^ 63 ->
  read_val p f ty (mkS l rcx) = Err e ->
  exists e', aread_val p f ty (mkS l rcx) = Err e'.
Proof. exact async_error. Qed.
Print Assumptions C12_error.

(* with fuel beyond the length of the input, neither error is the model's out-of-fuel artefact *)
Theorem C12_error_fuel : forall p f ty l rcx e,
  idle rcx -> Z.of_nat (length l) < 2 ^ 63 -> (length l < f)%nat ->
  read_val p f ty (mkS l rcx) = Err e ->
  e <> EOutOfFuel /\ exists e', aread_val p f ty (mkS l rcx) = Err e' /\ e' <> EOutOfFuel.
Proof. exact async_error_fuel. Qed.
Print Assumptions C12_error_fuel.

(* both directions in one statement: same value and same stopping position on success, an error
   whenever the in-memory decoder reports one *)
Theorem C12_outcome : forall p f ty l rcx,
  idle rcx -> Z.of_nat (length l) < 2 ^ 63 ->
  match read_val p f ty (mkS l rcx) with
  | Ok (v, s') => aread_val p f ty (mkS l rcx) = Ok (v, s')
  | Err _ => exists e', aread_val p f ty (mkS l rcx) = Err e'
  | Panic _ => True
  end.
Proof. exact async_outcome. Qed.
Print Assumptions C12_outcome.

(* the asynchronous decoder on an arbitrary stream: never a panic, never out of fuel when the fuel
   exceeds the length of the stream, and a value costs at least one byte *)
Theorem C12_async_total : forall p f ty l rcx,
  r_pbool rcx = None ->
  match aread_val p f ty (mkS l rcx) with
  | Ok (_, s') => (blen s' + 1 <= length l)%nat
  | Err e => (length l < f)%nat -> e <> EOutOfFuel
  | Panic _ => False
  end.
Proof. exact async_total. Qed.
Print Assumptions C12_async_total.
