(* C15 -- the Thrift IDL parser inverts printing, independent of layout.
   Only statements, each closed by [exact] of a lemma proved in Proofs/, with Print Assumptions beneath.

   Print.v defines the printer: a layout is a concrete syntax tree (the document plus, at every slot, the blank,
   separator, quote style and numeric spelling chosen there); [pr_file c k] is the text of c followed by k,
   [erase_file c] the document (descriptor AST of Ast.v), [wf_file c] what the grammar demands of a layout.

   FULL STATEMENT (DESIGN.md 5.15) -- proved:
     C15_roundtrip      : wf_file c -> parse_file (pr_file c []) = POk [] (erase_file c)
     C15_layout_free    : wf_file c1 -> wf_file c2 -> erase_file c1 = erase_file c2 ->
                          parse_file (pr_file c1 []) = parse_file (pr_file c2 [])
     C15_keyword_prefix : an identifier that merely begins with a keyword is not read as the keyword (token level), and
     C15_keyword_prefix_document : a document that uses such identifiers in every position where the keyword is tried
                          first is well-formed and hence read back with these names as identifiers.
   The theorems per production (C15_roundtrip_<production>) are kept: they hold for any continuation of the text, not only
   at the end of a file.

   CONVERSE (parser soundness with respect to the printer) -- proved, without exclusion:
     C15_accepted_iff_printed : parse_file s = POk [] doc <-> exists c, wf_file c = true /\ pr_file c [] = s /\ erase_file c = doc
       the parser accepts exactly the prints of the well-formed trees and returns the document the tree denotes
       (C15_accepted_is_printed is the direction ->).
     C15_layout_free_texts   : two accepted texts are prints of trees c1, c2 with erase_file ci = di; if the trees denote
                               the same document (same tokens modulo layout) the parsed documents are equal (a restatement
                               of the above in terms of pairs of texts; its last conjunct follows from the others).
   DOMAIN (which documents these statements are about) -- proved:
     C15_every_document_printable : doc_ok d = true -> exists c, wf_file c = true /\ erase_file c = d
     C15_every_document_parses_back : doc_ok d = true -> parse_file (pr_file (canon_file d) []) = POk [] d
       [doc_ok] is a decidable predicate on the abstract documents of Ast.v (Proofs/Canon.v; what it excludes and why is
       listed in fam/idl/NOTES.md). *)
From PVIdl Require Import Comb Ast Parser Print Proofs.Total Proofs.RoundTok Proofs.RoundPath Proofs.RoundAnn Proofs.RoundTy
  Proofs.RoundKit Proofs.Lex Proofs.RoundNum Proofs.RoundConst Proofs.RoundDecl Proofs.RoundItem Proofs.RoundField Proofs.RoundStruct
  Proofs.RoundFn Proofs.RoundFile Proofs.InvTok Proofs.InvTy Proofs.InvConst Proofs.InvDecl Proofs.InvItems Proofs.InvFile Proofs.Canon.

(* identifiers, followed by anything that does not continue a word *)
Theorem C15_roundtrip_ident : forall s k,
  is_ident s = true -> hd_sat (fun b => negb (identch b)) k = true -> p_ident (s ++ k) = POk k s.
Proof. exact rt_ident. Qed.
Print Assumptions C15_roundtrip_ident.

(* a keyword is read as the keyword only as a whole word ... *)
Theorem C15_keyword_whole_word : forall kw k, wordend k = true -> p_keyword kw (kw ++ k) = POk k tt.
Proof. exact rt_keyword. Qed.
Print Assumptions C15_keyword_whole_word.

(* ... and an identifier that merely begins with a keyword (optionalFoo, trueish, i32x, required_t), or does not
   begin with it, is not read as the keyword *)
Theorem C15_keyword_prefix : forall kw s k,
  forallb identch kw = true -> is_ident s = true -> hd_sat (fun b => negb (identch b)) k = true ->
  bytes_eq s kw = false -> is_perr (p_keyword kw (s ++ k)).
Proof. exact keyword_not_ident. Qed.
Print Assumptions C15_keyword_prefix.

(* blanks: any non-empty sequence of white-space runs and comments in the three styles *)
Theorem C15_roundtrip_blank : forall lf bl k,
  wf_blank bl = true -> bl <> [] -> nb k = true -> (length (pr_blank bl k) < lf)%nat ->
  p_blank lf (pr_blank bl k) = POk k tt.
Proof. exact rt_blank. Qed.
Print Assumptions C15_roundtrip_blank.

(* optional blank slots, empty or not *)
Theorem C15_roundtrip_opt_blank : forall lf bl k,
  wf_blank bl = true -> nb k = true -> (length (pr_blank bl k) < lf)%nat ->
  exists o, opt (p_blank lf) (pr_blank bl k) = POk k o.
Proof. exact rt_oblank. Qed.
Print Assumptions C15_roundtrip_opt_blank.

(* optional list separators: none, ',' or ';' (followed by an optional blank) *)
Theorem C15_roundtrip_separator : forall lf s k,
  wf_sep s = true -> nb k = true -> hd_sat (fun b => negb (bmem b set_list_separator)) k = true ->
  (length (pr_sep s k) < lf)%nat ->
  exists o, opt (p_list_separator lf) (pr_sep s k) = POk k o.
Proof. exact rt_sep. Qed.
Print Assumptions C15_roundtrip_separator.

(* literals in both quote styles, with the four escapes; followed by anything *)
Theorem C15_roundtrip_literal : forall lf l k,
  wf_lit l = true -> (length (pr_lit l k) < lf)%nat -> p_literal lf (pr_lit l k) = POk k (erase_lit l).
Proof. exact rt_literal. Qed.
Print Assumptions C15_roundtrip_literal.

(* paths: identifiers separated by '.', with any blanks around the dots; followed by something that does not
   continue the last word and is not a path separator with an identifier after it ([pfollow]; a '.' that is not
   followed by an identifier -- the double .5 after the path a -- ends the path before the '.') *)
Theorem C15_roundtrip_path : forall lf whole, (length whole < lf)%nat -> forall p k,
  wf_path p = true -> pfollow lf k -> sfx (pr_path p k) whole ->
  p_path lf (pr_path p k) = POk k (erase_path p).
Proof. exact rt_path. Qed.
Print Assumptions C15_roundtrip_path.

(* annotation lists  ( key = 'value' [,;] ... )  with every blank slot, both quote styles, optional separators; followed
   by anything *)
Theorem C15_roundtrip_annotations : forall lf whole, (length whole < lf)%nat -> forall l k,
  wf_anns l = true -> sfx (pr_anns l k) whole -> p_annotations lf (pr_anns l k) = POk k (erase_anns l).
Proof. exact rt_anns. Qed.
Print Assumptions C15_roundtrip_annotations.

(* the cpp_type clause of a container type *)
Theorem C15_roundtrip_cpp_type : forall lf whole, (length whole < lf)%nat -> forall c k,
  wf_cpp c = true -> sfx (pr_cpp c k) whole ->
  (fun i => pbind (p_blank lf i) (fun i _ => p_cpp_type lf i)) (pr_cpp c k) = POk k (erase_lit (cc_lit c)).
Proof. exact rt_cpp. Qed.
Print Assumptions C15_roundtrip_cpp_type.

(* TYPES, recursive to any depth (base types, list / set / map with cpp_type clauses, paths incl. keyword-prefixed
   names, annotation lists on every type), every layout: Type::parse inverts printing.  The parser tries a cpp_type
   clause, a '.' and an annotation list after every type; [tyfollow] says the text that follows is not mistaken for them.
   [whole] is any text the printed type is a suffix of, [lf] any loop fuel above its length (parse_file uses |s|+1),
   [df] any depth fuel above the nesting of the type. *)
Theorem C15_roundtrip_type : forall lf whole, (length whole < lf)%nat -> forall df t k,
  (type_depth t < df)%nat -> wf_type t = true -> tyfollow lf (type_ends_word t) k ->
  sfx (pr_type t k) whole ->
  p_type lf df (pr_type t k) = POk k (erase_type t).
Proof. exact rt_type. Qed.
Print Assumptions C15_roundtrip_type.

(* layout independence, for the part proved: two layouts of the same type give the same tree *)
Theorem C15_layout_free_type : forall lf whole1 whole2 df t1 t2 k1 k2,
  (length whole1 < lf)%nat -> (length whole2 < lf)%nat ->
  (type_depth t1 < df)%nat -> wf_type t1 = true -> tyfollow lf (type_ends_word t1) k1 -> sfx (pr_type t1 k1) whole1 ->
  (type_depth t2 < df)%nat -> wf_type t2 = true -> tyfollow lf (type_ends_word t2) k2 -> sfx (pr_type t2 k2) whole2 ->
  erase_type t1 = erase_type t2 ->
  exists a, p_type lf df (pr_type t1 k1) = POk k1 a /\ p_type lf df (pr_type t2 k2) = POk k2 a.
Proof. exact type_layout_free. Qed.
Print Assumptions C15_layout_free_type.

(* integer constants as spelled by the layout: any number of minus signs, decimal or 0x hexadecimal digits, magnitude
   within i64; the value is positional notation, negated for an odd number of signs.  [int_stops i k] (Print.v) is the
   exact condition on the text k that follows: it does not continue the digits (nor turn the digit 0 into 0x..) *)
Theorem C15_roundtrip_int : forall lf i k,
  wf_int i = true -> int_stops i k = true -> (length (pr_int i k) < lf)%nat ->
  p_int_constant lf (pr_int i k) = POk k (erase_int i).
Proof. exact rt_int. Qed.
Print Assumptions C15_roundtrip_int.

(* double constants (the parser keeps the text): optional '-', optional '+', the three body forms, exponents that are
   integer constants *)
Theorem C15_roundtrip_double : forall lf d k,
  wf_dbl d = true -> dbl_stops d k = true -> (length (pr_dbl d k) < lf)%nat ->
  p_double_constant lf (pr_dbl d k) = POk k (erase_dbl d).
Proof. exact rt_dbl. Qed.
Print Assumptions C15_roundtrip_double.

(* CONSTANT VALUES: ConstValue::parse with its eight alternatives, lists and maps nested to any depth, every blank slot,
   separators ',' ';' or none between the elements -- incl. values that touch (5x is 5 and x, true.5 is true and .5,
   0x1fg is 31 and g).  [cfollow]: the text after a value that ends with a word or a number does not continue it
   ([cont_ok], Print.v: the exact longest-match condition), begins with an ASCII byte, and after a path is not a path
   separator followed by an identifier *)
Theorem C15_roundtrip_const_value : forall lf whole, (length whole < lf)%nat -> forall d v k,
  (cv_depth v < d)%nat -> wf_const v = true -> cfollow lf v k ->
  sfx (pr_const v k) whole ->
  p_const_value lf d (pr_const v k) = POk k (erase_const v).
Proof. exact rt_const. Qed.
Print Assumptions C15_roundtrip_const_value.

(* the typedef production (typedef <blank> T <blank> alias [blank] [annotations] [separator]).  [eof]: the declaration
   is the last thing of the text (then its last blank slot may end with an unterminated line comment); what follows is not
   a separator, and -- if the declaration ends in a blank slot -- not something that would continue it ([stop]), and -- if
   it ends with a word -- something that ends the word ([wstop]).  [lf], [df]: loop and depth fuel above the text length *)
Theorem C15_roundtrip_typedef : forall lf whole, (length whole < lf)%nat -> forall df, (length whole < df)%nat -> forall eof c k,
  wf_typedef eof c = true -> (eof = true -> k = []) -> nosep k = true ->
  (tail_open (ctd_tail c) = true -> stop k = true) -> (typedef_ends_word c = true -> wstop k = true) ->
  sfx (pr_typedef c k) whole ->
  p_typedef lf df (pr_typedef c k) = POk k (erase_typedef c).
Proof. exact rt_typedef. Qed.
Print Assumptions C15_roundtrip_typedef.

Theorem C15_roundtrip_constant : forall lf whole, (length whole < lf)%nat -> forall df, (length whole < df)%nat -> forall eof c k,
  wf_constant eof c = true -> (eof = true -> k = []) -> nosep k = true ->
  (tail_open (ck_tail c) = true -> stop k = true) -> (tail_bare (ck_tail c) = true -> cfollow lf (ck_val c) k) ->
  sfx (pr_constant c k) whole ->
  p_constant lf df (pr_constant c k) = POk k (erase_constant c).
Proof. exact rt_constant. Qed.
Print Assumptions C15_roundtrip_constant.

(* fields: id, requiredness (type names such as optionalFoo / required_t are legal), type, name, default value,
   annotations, separator *)
Theorem C15_roundtrip_field : forall lf whole, (length whole < lf)%nat -> forall df, (length whole < df)%nat -> forall f k,
  wf_field f = true -> stop k = true -> (field_ends_word f = true -> wstop k = true) -> sfx (pr_field f k) whole ->
  p_field lf df (pr_field f k) = POk k (erase_field f).
Proof. exact rt_field. Qed.
Print Assumptions C15_roundtrip_field.

Theorem C15_roundtrip_struct_like : forall lf whole, (length whole < lf)%nat -> forall df, (length whole < df)%nat -> forall eof c k,
  wf_struct eof c = true -> (eof = true -> k = []) -> nosep k = true -> (tail_open (cs_tail c) = true -> stop k = true) ->
  sfx (pr_struct_like c k) whole ->
  p_struct_like lf df (pr_struct_like c k) = POk k (erase_struct c).
Proof. exact rt_struct_like. Qed.
Print Assumptions C15_roundtrip_struct_like.

Theorem C15_roundtrip_enum : forall lf whole, (length whole < lf)%nat -> forall df, (length whole < df)%nat -> forall eof c k,
  wf_enum eof c = true -> (eof = true -> k = []) -> (ce_anns c = None -> stop k = true) -> sfx (pr_enum c k) whole ->
  p_enum lf (pr_enum c k) = POk k (erase_enum c).
Proof. exact rt_enum. Qed.
Print Assumptions C15_roundtrip_enum.

(* functions: oneway, result type (onewayx / throwsX are type names), arguments, throws clause *)
Theorem C15_roundtrip_function : forall lf whole, (length whole < lf)%nat -> forall df, (length whole < df)%nat -> forall f k,
  wf_function f = true -> nosep k = true -> (function_closed f = false -> stop k = true) ->
  (fn_bare f = true -> is_perr (p_throws lf df k)) -> sfx (pr_function f k) whole ->
  p_function lf df (pr_function f k) = POk k (erase_function f).
Proof. exact rt_function. Qed.
Print Assumptions C15_roundtrip_function.

Theorem C15_roundtrip_service : forall lf whole, (length whole < lf)%nat -> forall df, (length whole < df)%nat -> forall eof c k,
  wf_service eof c = true -> (eof = true -> k = []) -> nosep k = true -> (tail_open (sv_tail c) = true -> stop k = true) ->
  sfx (pr_service c k) whole ->
  p_service lf df (pr_service c k) = POk k (erase_service c).
Proof. exact rt_service. Qed.
Print Assumptions C15_roundtrip_service.

Theorem C15_roundtrip_namespace : forall lf whole, (length whole < lf)%nat -> forall eof c k,
  wf_namespace eof c = true -> (eof = true -> k = []) -> stop k = true ->
  (is_nil (ns_b3 c) && is_none (ns_canns c) && sep_none (ns_sep c) = true -> wstop k = true) ->
  sfx (pr_namespace c k) whole -> p_namespace lf (pr_namespace c k) = POk k (erase_namespace c).
Proof. exact rt_namespace. Qed.
Print Assumptions C15_roundtrip_namespace.

(* the item dispatch (include, cpp_include, namespace, typedef, const, enum, struct, union, exception, service) *)
Theorem C15_roundtrip_item : forall lf whole, (length whole < lf)%nat -> forall df, (length whole < df)%nat -> forall eof it k,
  wf_item eof it = true -> item_follow lf eof it k -> sfx (pr_item it k) whole ->
  p_item lf df (pr_item it k) = POk k (erase_item it).
Proof. exact rt_item. Qed.
Print Assumptions C15_roundtrip_item.

(* ---------- THE FULL STATEMENT ---------- *)
(* parsing the text of any well-formed layout of any document yields exactly the document's declarations, in order, with
   nothing left unparsed *)
Theorem C15_roundtrip : forall c : cfile, wf_file c = true -> parse_file (pr_file c []) = POk [] (erase_file c).
Proof. exact roundtrip_file. Qed.
Print Assumptions C15_roundtrip.

(* the result does not depend on the choices the IDL leaves free *)
Theorem C15_layout_free : forall c1 c2 : cfile, wf_file c1 = true -> wf_file c2 = true -> erase_file c1 = erase_file c2 ->
  parse_file (pr_file c1 []) = parse_file (pr_file c2 []).
Proof. exact layout_free_file. Qed.
Print Assumptions C15_layout_free.

(* identifiers that merely begin with a keyword, in the positions where the keyword is tried first (field types
   optionalFoo / required_t / listing / i32x / mapper / settle / stringy / i8_, constant values trueish / falsey / true_,
   result types onewayx / throwsX / voidx, names structure / constx / enumerate / includes / services), are legal and are
   read as identifiers *)
Theorem C15_keyword_prefix_document :
  wf_file keyword_prefix_file = true /\
  parse_file (pr_file keyword_prefix_file []) = POk [] (erase_file keyword_prefix_file).
Proof. exact keyword_prefix_roundtrip. Qed.
Print Assumptions C15_keyword_prefix_document.

(* ---------- THE CONVERSE: every accepted text is the print of a WELL-FORMED concrete syntax tree ----------
   No exclusion is left: list / set / map as type names, result types that begin with the words oneway / throws, constant
   values / enum values / constant items that touch (5x, true.5, A=5B, const i8 c=5struct S{}) are well-formed layouts
   (the longest-match rule of the number and word syntax is part of wf: Print.cont_ok), and the readings that would need
   a non-ASCII letter directly after a keyword (i32 / true / required as a path) are shown not to occur in an accepted
   text, because everything that can follow begins with an ASCII byte. *)
Theorem C15_accepted_is_printed : forall s doc, parse_file s = POk [] doc ->
  exists c : cfile, pr_file c [] = s /\ erase_file c = doc /\ wf_file c = true.
Proof. exact accepted_is_printed. Qed.
Print Assumptions C15_accepted_is_printed.

(* both directions in one statement: the parser accepts exactly the prints of the well-formed trees, and returns the
   document the tree denotes.  (<-) is C15_roundtrip, (->) is C15_accepted_is_printed. *)
Theorem C15_accepted_iff_printed : forall s doc,
  parse_file s = POk [] doc <-> exists c : cfile, wf_file c = true /\ pr_file c [] = s /\ erase_file c = doc.
Proof. exact accepted_iff_printed. Qed.
Print Assumptions C15_accepted_iff_printed.

Theorem C15_layout_free_texts : forall s1 s2 d1 d2, parse_file s1 = POk [] d1 -> parse_file s2 = POk [] d2 ->
  exists c1 c2 : cfile, pr_file c1 [] = s1 /\ pr_file c2 [] = s2 /\ erase_file c1 = d1 /\ erase_file c2 = d2 /\
                        (erase_file c1 = erase_file c2 -> d1 = d2).
Proof. exact layout_free_texts. Qed.
Print Assumptions C15_layout_free_texts.

(* the same, production by production (the consumed text is the print of a tree that erases to the value; the tree is
   well-formed under the exclusion of that production) *)
Theorem C15_accepted_is_printed_type : forall lf d i r t, p_type lf d i = POk r t ->
  exists c, i = pr_type c r /\ erase_type c = t /\ typeP c r.
Proof. exact type_inv. Qed.
Print Assumptions C15_accepted_is_printed_type.

Theorem C15_accepted_is_printed_const_value : forall lf d i r v, p_const_value lf d i = POk r v ->
  exists c, i = pr_const c r /\ erase_const c = v /\ constP c r.
Proof. exact const_inv. Qed.
Print Assumptions C15_accepted_is_printed_const_value.

Theorem C15_accepted_is_printed_field : forall lf df i r f, p_field lf df i = POk r f ->
  exists c, i = pr_field c r /\ erase_field c = f /\ (r <> [] -> hd_ascii r = true -> wf_field c = true) /\ noblank r /\
            (cf_sep c = SepNone -> nosep r = true) /\ dhead (pr_field c r) /\
            (field_ends_word c = true -> hd_is is_digit r = false).
Proof. exact field_inv. Qed.
Print Assumptions C15_accepted_is_printed_field.

Theorem C15_accepted_is_printed_item : forall lf df i r a, p_item lf df i = POk r a ->
  exists it, i = pr_item it r /\ erase_item it = a /\ itemP it r.
Proof. exact item_inv. Qed.
Print Assumptions C15_accepted_is_printed_item.

(* ---------- THE DOMAIN: which documents the statements above are about ----------
   [doc_ok] (Proofs/Canon.v) is a decidable predicate on the abstract documents of Ast.v: identifiers are identifiers, type
   names are not base-type words, path constants do not begin with true / false, integers lie in [-i64::MAX, i64::MAX]
   (i64::MIN cannot be written: the grammar negates a magnitude), field ids in [0, i32::MAX], double constants are texts of
   the double syntax (doubles are TEXT in the document: 1.0 and 1.00 are different documents), string bodies can be
   written between single or double quotes, `Some []` annotations / default-requiredness arguments / a bare result type
   `oneway` of a function that is not oneway do not occur, the package is the first rs namespace.  Every such document is
   the erasure of a well-formed tree (a canonical layout is the witness), hence -- with C15_roundtrip -- has a text that
   parses back to exactly it. *)
Theorem C15_every_document_printable : forall d : File, doc_ok d = true ->
  exists c : cfile, wf_file c = true /\ erase_file c = d.
Proof. exact document_printable. Qed.
Print Assumptions C15_every_document_printable.

Theorem C15_every_document_parses_back : forall d : File, doc_ok d = true ->
  parse_file (pr_file (canon_file d) []) = POk [] d.
Proof. exact document_parses_back. Qed.
Print Assumptions C15_every_document_parses_back.
