(* C05 for the group codec: group::encode / encoded_len / merge and the repeated helpers frame the body of a message
   between a StartGroup and an EndGroup key; what is written is read back, the reported length is the number of bytes. *)
From PVPb Require Import GroupMsg Proofs.BitsP Proofs.VarintP Proofs.WireP Proofs.CastP Proofs.CodecP Proofs.TotalP Proofs.DepthP
  Proofs.ShapeP Proofs.MsgLenP Proofs.MergeP Proofs.MergeCor Proofs.UnknownP Proofs.MsgRtP.
From Coq Require Import Lia.
Open Scope Z_scope.

(* ------------------------------------------------------------------ the loop of group::merge on keyed records *)
Section GroupLoop.
  Variable sc : schema.
  Variables (dm : nat) (j : nat) (c : Z) (tag : Z).
  Hypothesis Hc : 1 <= c.
  Hypothesis Htag : tag_ok tag.

  Local Notation gbody := (fun msg ftag fwt => let+ ctx' := enter_recursion c in merge_field dm sc j msg ftag fwt ctx').

  Lemma group_loop_ksteps x b x' : ksteps sc dm j (c - 1) x b x' -> forall r a fuel,
    (length (b ++ encode_key tag EndGroup ++ r) < fuel)%nat ->
    exists a', group_loop_f fuel tag gbody x (mkR (b ++ encode_key tag EndGroup ++ r) a) = OOk x' (mkR r a').
  Proof.
    induction 1 as [x|x t wt payload x1 b x2 Ht Hw Hm Hs IH]; intros r a fuel Hf.
    - destruct fuel as [|f]; [cbn in Hf; lia|]. cbn [group_loop_f app].
      rewrite (bind_ok _ _ _ _ _ (decode_key_rt tag EndGroup r a Htag)). cbn beta iota. rewrite Z.eqb_refl. exists a. reflexivity.
    - destruct fuel as [|f]; [cbn in Hf; lia|]. cbn [group_loop_f]. rewrite <- !app_assoc.
      rewrite (bind_ok _ _ _ _ _ (decode_key_rt t wt _ a Ht)). cbn beta iota.
      destruct (Hm (b ++ encode_key tag EndGroup ++ r) a) as [a1 E1].
      assert (Hlen : (length (b ++ encode_key tag EndGroup ++ r) < f)%nat).
      { rewrite <- !app_assoc, !app_length in Hf. pose proof (encode_key_nonempty t wt) as Hne.
        destruct (encode_key t wt); [congruence|]. cbn [length] in Hf. rewrite !app_length. lia. }
      destruct (IH r a1 f Hlen) as [a' E2]. exists a'.
      destruct wt; try congruence;
        (rewrite (bind_bind_ok _ _ _ _ _ _ (enter_ok c _ Hc)); cbv beta; rewrite (bind_ok _ _ _ _ _ E1); exact E2).
  Qed.

  Lemma group_merge_ksteps x b x' r a : ksteps sc dm j (c - 1) x b x' ->
    exists a', group_merge (merge_field dm sc j) tag StartGroup x c (mkR (b ++ encode_key tag EndGroup ++ r) a) = OOk x' (mkR r a').
  Proof.
    intros Hs. unfold group_merge. rewrite (bind_ok _ _ _ _ _ (check_wire_type_same _ _)).
    rewrite (bind_ok _ _ _ _ _ (limit_ok c _ ltac:(lia))). unfold group_loop.
    rewrite (bind_ok _ _ _ _ _ (remaining_eq _)). cbn [rb].
    apply (group_loop_ksteps x b x' Hs r a). lia.
  Qed.
End GroupLoop.

(* ------------------------------------------------------------------ C05_group_rt *)
(* the body of a group as the generated encoder writes it, then the EndGroup key: group::merge reads the value back and
   stops behind the key.  Budget: the group itself costs one unit (every field of the body is merged at ctx - 1). *)
Theorem group_merge_rt edv sc d i v tag c r a : schema_ok sc = true -> wt_msg d sc i v = true -> lossless edv d sc i v ->
  zlen (enc_msg edv d sc i v) < two64 -> tag_ok tag -> 2 * Z.of_nat d <= c -> 1 <= c <= recursion_limit ->
  exists a', group_merge (merge_field depth_fuel sc i) tag StartGroup (default_msg depth_fuel sc i) c
               (mkR (enc_msg edv d sc i v ++ encode_key tag EndGroup ++ r) a) = OOk v (mkR r a').
Proof.
  intros Hs Hw Hl Hz Ht Hc [H1 H2].
  assert (Hd : (d <= depth_fuel)%nat) by (unfold depth_fuel; lia).
  apply group_merge_ksteps; [exact H1|exact Ht|].
  apply (msg_rt_ksteps edv sc Hs d i v depth_fuel (c - 1) depth_fuel Hw Hl Hz Hd Hd). lia.
Qed.

(* the whole record: StartGroup key, body, EndGroup key -- read as the generated merge_field arm reads it *)
Theorem group_record_rt edv sc d i v tag c r a : schema_ok sc = true -> wt_msg d sc i v = true -> lossless edv d sc i v ->
  zlen (enc_msg edv d sc i v) < two64 -> tag_ok tag -> 2 * Z.of_nat d <= c -> 1 <= c <= recursion_limit ->
  exists a', (let+ (t, w) := decode_key in group_merge (merge_field depth_fuel sc i) t w (default_msg depth_fuel sc i) c)
               (mkR (group_encode tag (enc_msg edv d sc i v) ++ r) a) = OOk v (mkR r a').
Proof.
  intros Hs Hw Hl Hz Ht Hc H1. unfold group_encode. rewrite <- !app_assoc.
  rewrite (bind_ok _ _ _ _ _ (decode_key_rt tag StartGroup _ a Ht)). cbn beta iota.
  apply group_merge_rt; assumption.
Qed.

(* ------------------------------------------------------------------ C05_group_len *)
Lemma zlen_app' (a b : list byte) : zlen (a ++ b) = zlen a + zlen b.
Proof. unfold zlen. rewrite app_length. lia. Qed.

Theorem group_len edv sc d i v tag : schema_ok sc = true -> wt_msg d sc i v = true -> zlen (enc_msg edv d sc i v) < two64 -> tag_ok tag ->
  group_encoded_len tag (len_msg edv d sc i v) = zlen (group_encode tag (enc_msg edv d sc i v)).
Proof.
  intros Hs Hw Hz Ht. unfold group_encoded_len, group_encode. rewrite !zlen_app'.
  rewrite (msg_len_correct edv sc Hs d i v Hw Hz). unfold zlen.
  rewrite <- (key_len_correct tag StartGroup Ht), <- (key_len_correct tag EndGroup Ht). lia.
Qed.

Theorem group_len_repeated edv sc d i tag : schema_ok sc = true -> tag_ok tag -> forall vs,
  Forall (fun v => wt_msg d sc i v = true /\ zlen (enc_msg edv d sc i v) < two64) vs ->
  group_encoded_len_repeated tag (map (len_msg edv d sc i) vs) = zlen (group_encode_repeated tag (map (enc_msg edv d sc i) vs)).
Proof.
  intros Hs Ht. unfold group_encoded_len_repeated, group_encode_repeated.
  induction vs as [|v vs IH]; intros Hall; cbn [map flat_map length sumZ fold_right]; [unfold zlen; cbn [length]; lia|].
  inversion Hall as [|? ? [Hw Hz] Hrest]; subst. rewrite zlen_app'. rewrite <- (IH Hrest).
  rewrite <- (group_len edv sc d i v tag Hs Hw Hz Ht). unfold group_encoded_len, sumZ. rewrite map_length. lia.
Qed.

(* ------------------------------------------------------------------ the holder: presence, count and order survive *)
Section HolderRt.
  Variable edv : bool.
  Variable sc : schema.
  Variable i : nat.
  Variable d : nat.
  Hypothesis Hs : schema_ok sc = true.
  Hypothesis Hd : 2 * Z.of_nat d <= recursion_limit.

  (* a body the group codec can carry: a typed value of message #i that the encoder does not mutilate *)
  Definition body_ok (v : val) : Prop :=
    wt_msg d sc i v = true /\ lossless edv d sc i v /\ zlen (enc_msg edv d sc i v) < two64.

  Local Notation hbody := (fun x => let+ (tag, wt) := decode_key in gh_merge_field sc i x tag wt ctx_default).

  Lemma ctx_ok : 2 * Z.of_nat d <= ctx_default /\ 1 <= ctx_default <= recursion_limit.
  Proof. unfold ctx_default. split; [exact Hd|]. split; [vm_compute; discriminate|apply Z.le_refl]. Qed.

  Lemma opt_step v r ms t cur0 rest a : body_ok v ->
    (cur0 = VL NNone []) ->
    exists a', hbody (VL NMsg [cur0; r; VL NRep ms; t]) (mkR (group_encode gh_opt_tag (enc_msg edv d sc i v) ++ rest) a)
               = OOk (VL NMsg [VL NSome [v]; r; VL NRep ms; t]) (mkR rest a').
  Proof.
    intros (Hw & Hl & Hz) ->. destruct ctx_ok as [H1 H2]. unfold group_encode. rewrite <- !app_assoc.
    rewrite (bind_ok _ _ _ _ _ (decode_key_rt gh_opt_tag StartGroup _ a ltac:(vm_compute; split; discriminate))). cbn beta iota.
    cbn [gh_merge_field]. change (gh_opt_tag =? gh_opt_tag) with true. cbv iota.
    destruct (group_merge_rt edv sc d i v gh_opt_tag ctx_default rest a Hs Hw Hl Hz ltac:(vm_compute; split; discriminate) H1 H2) as [a' E].
    exists a'. unfold gh_body_default. rewrite (bind_ok _ _ _ _ _ E). reflexivity.
  Qed.

  Lemma req_step v o ms t rest a : body_ok v ->
    exists a', hbody (VL NMsg [o; gh_body_default sc i; VL NRep ms; t]) (mkR (group_encode gh_req_tag (enc_msg edv d sc i v) ++ rest) a)
               = OOk (VL NMsg [o; v; VL NRep ms; t]) (mkR rest a').
  Proof.
    intros (Hw & Hl & Hz). destruct ctx_ok as [H1 H2]. unfold group_encode. rewrite <- !app_assoc.
    rewrite (bind_ok _ _ _ _ _ (decode_key_rt gh_req_tag StartGroup _ a ltac:(vm_compute; split; discriminate))). cbn beta iota.
    cbn [gh_merge_field]. change (gh_req_tag =? gh_opt_tag) with false. change (gh_req_tag =? gh_req_tag) with true. cbv iota.
    destruct (group_merge_rt edv sc d i v gh_req_tag ctx_default rest a Hs Hw Hl Hz ltac:(vm_compute; split; discriminate) H1 H2) as [a' E].
    exists a'. unfold gh_body_default. rewrite (bind_ok _ _ _ _ _ E). reflexivity.
  Qed.

  Lemma many_step v o r ms t rest a : body_ok v ->
    exists a', hbody (VL NMsg [o; r; VL NRep ms; t]) (mkR (group_encode gh_many_tag (enc_msg edv d sc i v) ++ rest) a)
               = OOk (VL NMsg [o; r; VL NRep (ms ++ [v]); t]) (mkR rest a').
  Proof.
    intros (Hw & Hl & Hz). destruct ctx_ok as [H1 H2]. unfold group_encode. rewrite <- !app_assoc.
    rewrite (bind_ok _ _ _ _ _ (decode_key_rt gh_many_tag StartGroup _ a ltac:(vm_compute; split; discriminate))). cbn beta iota.
    cbn [gh_merge_field]. change (gh_many_tag =? gh_opt_tag) with false. change (gh_many_tag =? gh_req_tag) with false.
    change (gh_many_tag =? gh_many_tag) with true. cbv iota. unfold group_merge_repeated.
    destruct (group_merge_rt edv sc d i v gh_many_tag ctx_default rest a Hs Hw Hl Hz ltac:(vm_compute; split; discriminate) H1 H2) as [a' E].
    eexists. rewrite (bind_bind_ok _ _ _ _ _ _ (check_wire_type_same _ _)). cbv beta.
    unfold gh_body_default. rewrite (bind_bind_ok _ _ _ _ _ _ E). cbv beta. reflexivity.
  Qed.

  Lemma tail_step o r ms t0 t rest a : 0 <= t < two32 ->
    exists a', hbody (VL NMsg [o; r; VL NRep ms; t0]) (mkR (encode_scalar MUInt32 gh_tail_tag (VI t) ++ rest) a)
               = OOk (VL NMsg [o; r; VL NRep ms; VI t]) (mkR rest a').
  Proof.
    intros Ht. unfold encode_scalar. rewrite <- !app_assoc.
    rewrite (bind_ok _ _ _ _ _ (decode_key_rt gh_tail_tag (mod_wire_type MUInt32) _ a ltac:(vm_compute; split; discriminate))). cbn beta iota.
    cbn [gh_merge_field]. change (gh_tail_tag =? gh_opt_tag) with false. change (gh_tail_tag =? gh_req_tag) with false.
    change (gh_tail_tag =? gh_many_tag) with false. change (gh_tail_tag =? gh_tail_tag) with true. cbv iota.
    eexists. rewrite (bind_ok _ _ _ _ _ (payload_rt MUInt32 (VI t) rest a eq_refl ltac:(cbn; unfold two32 in Ht; lia))). reflexivity.
  Qed.

  Lemma many_steps : forall vs o r ms t, Forall body_ok vs ->
    gsteps hbody (VL NMsg [o; r; VL NRep ms; t]) (group_encode_repeated gh_many_tag (map (enc_msg edv d sc i) vs))
           (VL NMsg [o; r; VL NRep (ms ++ vs); t]).
  Proof.
    induction vs as [|v vs IH]; intros o r ms t Hall; cbn [map group_encode_repeated flat_map].
    - rewrite app_nil_r. constructor.
    - inversion Hall as [|? ? Hv Hvs]; subst. replace (ms ++ v :: vs) with ((ms ++ [v]) ++ vs) by (rewrite <- app_assoc; reflexivity).
      econstructor; [|intros rest a; apply many_step; exact Hv|apply (IH o r (ms ++ [v]) t Hvs)].
      unfold group_encode. intros E. apply app_eq_nil in E. destruct E as [E _]. exact (encode_key_nonempty _ _ E).
  Qed.

  (* C05 for the holder: an optional group that is present -- with an EMPTY body too -- is present after the round trip, a
     repeated group keeps every element (empty ones included) in order, the required group and the scalar come back *)
  Theorem holder_roundtrip (o : option val) r ms t a :
    match o with Some v => body_ok v | None => True end -> body_ok r -> Forall body_ok ms -> 0 <= t < two32 ->
    let x := VL NMsg [match o with Some v => VL NSome [v] | None => VL NNone [] end; r; VL NRep ms; VI t] in
    exists a', gh_decode sc i (mkR (gh_enc sc i edv d x) a) = OOk x (mkR [] a').
  Proof.
    intros Ho Hr Hms Ht x.
    assert (St : gsteps hbody (gh_default sc i) (gh_enc sc i edv d x) x).
    { unfold gh_default, x, gh_enc.
      apply gsteps_app with (x1 := VL NMsg [match o with Some v => VL NSome [v] | None => VL NNone [] end; gh_body_default sc i; VL NRep []; VI 0]).
      { destruct o as [v|]; [|constructor]. apply gsteps_one; [|intros rest a0; apply opt_step; [exact Ho|reflexivity]].
        unfold group_encode. intros E. apply app_eq_nil in E. destruct E as [E _]. exact (encode_key_nonempty _ _ E). }
      apply gsteps_app with (x1 := VL NMsg [match o with Some v => VL NSome [v] | None => VL NNone [] end; r; VL NRep []; VI 0]).
      { apply gsteps_one; [|intros rest a0; apply req_step; exact Hr].
        unfold group_encode. intros E. apply app_eq_nil in E. destruct E as [E _]. exact (encode_key_nonempty _ _ E). }
      apply gsteps_app with (x1 := VL NMsg [match o with Some v => VL NSome [v] | None => VL NNone [] end; r; VL NRep ([] ++ ms); VI 0]).
      { apply many_steps. exact Hms. }
      cbn [app]. apply gsteps_one; [|intros rest a0; apply tail_step; exact Ht].
      unfold encode_scalar. intros E. apply app_eq_nil in E. destruct E as [E _]. exact (encode_key_nonempty _ _ E). }
    destruct (gsteps_loop _ _ _ _ St [] a (S (length (gh_enc sc i edv d x ++ []))) ltac:(lia)) as [a' E].
    exists a'. unfold gh_decode, gh_merge, while_rem. rewrite (bind_ok _ _ _ _ _ (remaining_eq _)). cbn [rb length] in *.
    rewrite app_nil_r in E. exact E.
  Qed.
End HolderRt.

(* non-vacuity: an EMPTY body (all members optional / repeated): the group is the two keys -- 4 bytes for tag 1000 --, is
   read back as the default message, and a repeated group keeps its empty elements *)
Definition grp_schema : schema := [[FOptional 1 (TScalar TYPE_INT32); FRepeated 2 (TScalar TYPE_STRING)]].
Definition grp_empty : val := VL NMsg [VL NNone []; VL NRep []].
Definition grp_full : val := VL NMsg [VL NSome [VI 7]; VL NRep [VB [x61]]].

Example group_empty_body :
  group_encode 1000 (enc_msg false 1 grp_schema 0 grp_empty) = [xc3; x3e; xc4; x3e] /\
  group_encoded_len 1000 (len_msg false 1 grp_schema 0 grp_empty) = 4 /\
  group_encoded_len_repeated 1000 (map (len_msg false 1 grp_schema 0) [grp_full; grp_empty; grp_full])
  = zlen (group_encode_repeated 1000 (map (enc_msg false 1 grp_schema 0) [grp_full; grp_empty; grp_full])) /\
  exists a', gh_decode grp_schema 0 (mkR (gh_enc grp_schema 0 false 1 (VL NMsg [VL NSome [grp_empty]; grp_empty; VL NRep [grp_full; grp_empty; grp_full]; VI 1])) 0)
             = OOk (VL NMsg [VL NSome [grp_empty]; grp_empty; VL NRep [grp_full; grp_empty; grp_full]; VI 1]) (mkR [] a').
Proof. vm_compute. repeat split. eexists. reflexivity. Qed.
