(* The asynchronous readers: TAsyncBinaryProtocol (binary.rs, binary_le.rs) and
   TAsyncCompactProtocol (compact.rs 963-1250), transcribed method by method, and the value
   interpreter over them.  The primitive reads are specified by tokio's documented contracts:
   read_exact(n) / read_u8 ... return the next n bytes of the stream or fail with UnexpectedEof
   (an io::Error, i.e. ThriftException::Transport), regardless of how the stream is chunked or
   how often it returns Pending -- so a stream is modelled by the byte string it will deliver.
   The reader state type is shared with the sync readers ([r_pfield] is unused: the async
   protocols implement no length methods). *)
From PV Require Export Thrift.Interp.
Open Scope Z_scope.

(* EOF of the stream is an io::Error *)
Definition a_take (n : nat) : rm (list byte) := fun s =>
  match take n (rbuf s) with
  | Some (a, r) => Ok (a, set_buf s r)
  | None => Err ETransport
  end.

Definition a_byte : rm Z := fun s => let* (a, s) := a_take 1 s in Ok (of_le a, s).
Definition a_i8 : rm Z := fun s => let* (a, s) := a_take 1 s in Ok (wrap_s 8 (of_le a), s).

(* read_varint_async: EOF and "Unterminated varint" are both io::Errors *)
Definition a_varint (maxsize : nat) : rm Z := fun s =>
  match read_var_u64 maxsize (rbuf s) with
  | Ok (n, r) => Ok (n, set_buf s r)
  | Err _ => Err ETransport
  | Panic st => Panic st
  end.

Definition a_fixed (p : pk) (n : nat) (bits : Z) : rm Z := fun s =>
  let* (a, s) := a_take n s in Ok (wrap_s bits (unfx p a), s).

Definition a_i16 (p : pk) : rm Z :=
  match p with
  | PCompact => fun s => let* (n, s) := a_varint maxsize_16 s in Ok (wrap_s 16 (unzigzag n), s)
  | _ => a_fixed p 2 16
  end.
Definition a_i32 (p : pk) : rm Z :=
  match p with
  | PCompact => fun s => let* (n, s) := a_varint maxsize_32 s in Ok (wrap_s 32 (unzigzag n), s)
  | _ => a_fixed p 4 32
  end.
Definition a_i64 (p : pk) : rm Z :=
  match p with
  | PCompact => fun s => let* (n, s) := a_varint maxsize_64 s in Ok (wrap_s 64 (unzigzag n), s)
  | _ => a_fixed p 8 64
  end.
Definition a_double (p : pk) : rm Z := fun s =>
  let* (a, s) := a_take 8 s in
  Ok (match p with PBinary => of_be a | _ => of_le a end, s).
Definition a_uuid : rm (list byte) := a_take 16.

(* read_bytes_vec: binary rejects negative lengths (NegativeSize); then read_exact_to_vec *)
Definition a_bytes (p : pk) : rm (list byte) :=
  match p with
  | PCompact => fun s =>
      let* (n, s) := a_varint maxsize_32 s in
      let n := wrap_u 32 n in
      if n <=? Z.of_nat (length (rbuf s)) then a_take (Z.to_nat n) s else Err ETransport
  | _ => fun s =>
      let* (n, s) := a_i32 p s in
      if n <? 0 then Err ENegativeSize
      else if n <=? Z.of_nat (length (rbuf s)) then a_take (Z.to_nat n) s else Err ETransport
  end.

Definition a_ttype : rm ttype := fun s =>
  let* (b, s) := a_byte s in
  match ttype_of_byte b with
  | Some t => Ok (t, s)
  | None => Err EInvalidData
  end.

Definition a_bool (p : pk) : rm bool :=
  match p with
  | PCompact => fun s =>
      let c := rc s in
      match r_pbool c with
      | Some b => Ok (b, set_rc s (mkR (r_last c) (r_stack c) None (r_pfield c)))
      | None =>
          let* (b, s) := a_byte s in
          match ctype_of_code b with
          | Some CBooleanTrue => Ok (true, s)
          | Some CBooleanFalse => Ok (false, s)
          | Some CStop => Ok (false, s)          (* 0: false as the protocol document spells it *)
          | _ => Err EInvalidData
          end
      end
  | _ => fun s => let* (b, s) := a_i8 s in Ok (negb (b =? 0), s)
  end.

Definition a_struct_begin (p : pk) : rm unit := r_struct_begin p.
Definition a_struct_end (p : pk) : rm unit := r_struct_end p.

Definition a_field_begin (p : pk) : rm (ttype * option Z) :=
  match p with
  | PCompact => fun s =>
      let* (b, s) := a_byte s in
      let delta := b / 16 in
      let lo := b mod 16 in
      let c := rc s in
      let* (ty, s) :=
        (if lo =? ctype_code CBooleanTrue then Ok (TBool, set_rc s (mkR (r_last c) (r_stack c) (Some true) (r_pfield c)))
         else if lo =? ctype_code CBooleanFalse then Ok (TBool, set_rc s (mkR (r_last c) (r_stack c) (Some false) (r_pfield c)))
         else match ctype_of_code lo with
              | None => Err EInvalidData
              | Some ct => match ttype_of_ctype ct with
                           | Some t => Ok (t, s)
                           | None => Err EInvalidData
                           end
              end) in
      match ty with
      | TStop => Ok ((TStop, None), s)
      | _ =>
          let c := rc s in
          if negb (delta =? 0) then
            let id := wrap_s 16 (r_last c + delta) in
            Ok ((ty, Some id), set_rc s (mkR id (r_stack c) (r_pbool c) (r_pfield c)))
          else
            let* (id, s) := a_i16 PCompact s in
            let c := rc s in
            Ok ((ty, Some id), set_rc s (mkR id (r_stack c) (r_pbool c) (r_pfield c)))
      end
  | _ => fun s =>
      let* (ty, s) := a_ttype s in
      match ty with
      | TStop => Ok ((TStop, Some 0), s)
      | _ => let* (id, s) := a_i16 p s in Ok ((ty, Some id), s)
      end
  end.

(* no remaining length to compare with: the i32 size is cast to usize as is *)
Definition a_coll_begin (p : pk) : rm (ttype * Z) :=
  match p with
  | PCompact => fun s =>
      let* (h, s) := a_byte s in
      let* et := ttype_of_nibble (h mod 16) in
      let cnt := h / 16 in
      if negb (cnt =? 15) then Ok ((et, cnt), s)
      else let* (n, s) := a_varint maxsize_32 s in
           Ok ((et, wrap_u 64 (wrap_s 32 n)), s)
  | _ => fun s =>
      let* (et, s) := a_ttype s in
      let* (n, s) := a_i32 p s in
      Ok ((et, wrap_u 64 n), s)
  end.

Definition a_map_begin (p : pk) : rm (ttype * ttype * Z) :=
  match p with
  | PCompact => fun s =>
      let* (n, s) := a_varint maxsize_32 s in
      let cnt := wrap_s 32 n in
      if cnt =? 0 then Ok ((TStop, TStop, 0), s)
      else
        let* (h, s) := a_byte s in
        let* kt := ttype_of_nibble (h / 16) in
        let* vt := ttype_of_nibble (h mod 16) in
        Ok ((kt, vt, wrap_u 64 cnt), s)
  | _ => fun s =>
      let* (kt, s) := a_ttype s in
      let* (vt, s) := a_ttype s in
      let* (n, s) := a_i32 p s in
      Ok ((kt, vt, wrap_u 64 n), s)
  end.

Section AInterp.
  Variable p : pk.

  Section Loops.
    Variable rec : ttype -> rst -> res (tval * rst).
    Fixpoint afields_loop (n : nat) (s : rst) (acc : list (Z * tval)) {struct n}
      : res (list (Z * tval) * rst) :=
      match n with
      | O => Err EOutOfFuel
      | S n' =>
          let* (h, s) := a_field_begin p s in
          if ttype_eqb (fst h) TStop then Ok (rev acc, s)
          else
            let* (x, s) := rec (fst h) s in
            afields_loop n' s ((match snd h with Some i => i | None => 0 end, x) :: acc)
      end.
  End Loops.

  Fixpoint aread_val (fuel : nat) (ty : ttype) (s : rst) {struct fuel} : res (tval * rst) :=
    match fuel with
    | O => Err EOutOfFuel
    | S f =>
        match ty with
        | TBool => let* (b, s) := a_bool p s in Ok (VBool b, s)
        | TI8 => let* (z, s) := a_i8 s in Ok (VI8 z, s)
        | TI16 => let* (z, s) := a_i16 p s in Ok (VI16 z, s)
        | TI32 => let* (z, s) := a_i32 p s in Ok (VI32 z, s)
        | TI64 => let* (z, s) := a_i64 p s in Ok (VI64 z, s)
        | TDouble => let* (z, s) := a_double p s in Ok (VDouble z, s)
        | TBinary => let* (l, s) := a_bytes p s in Ok (VBinary l, s)
        | TUuid => let* (l, s) := a_uuid s in Ok (VUuid l, s)
        | TStruct =>
            let* (_, s) := a_struct_begin p s in
            let* (fs, s) := afields_loop (aread_val f) (S f) s [] in
            let* (_, s) := a_struct_end p s in
            Ok (VStruct fs, s)
        | TList =>
            let* (h, s) := a_coll_begin p s in
            let* (l, s) := elems_loop (aread_val f) (S f) (fst h) (snd h) s [] in
            Ok (VList (fst h) l, s)
        | TSet =>
            let* (h, s) := a_coll_begin p s in
            let* (l, s) := elems_loop (aread_val f) (S f) (fst h) (snd h) s [] in
            Ok (VSet (fst h) l, s)
        | TMap =>
            let* (h, s) := a_map_begin p s in
            let* (l, s) := pairs_loop (aread_val f) (S f) (fst (fst h)) (snd (fst h)) (snd h) s [] in
            Ok (VMap (fst (fst h)) (snd (fst h)) l, s)
        | TStop | TVoid => Err EInvalidData
        end
    end.

  Fixpoint aread_vals (fuel : nat) (tys : list ttype) (s : rst) : res (list tval * rst) :=
    match tys with
    | [] => Ok ([], s)
    | ty :: t =>
        let* (v, s) := aread_val fuel ty s in
        let* (vs, s) := aread_vals fuel t s in
        Ok (v :: vs, s)
    end.
End AInterp.
