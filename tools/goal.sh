#!/bin/bash
# goal.sh <file.v (relative to coq dir)> <line> : shows the goals just before <line> (main family)
F=$1; L=$2; D=${3:-/verif/coq}
T=/verif/.cache/scratch/Goal_$$.v
head -n $((L-1)) $D/$F > $T
echo 'Show. ' >> $T
cd /verif/.cache/scratch && timeout 300 coqc -Q /verif/coq PV ${EXTRAQ:-} $T 2>&1 | tail -${TAILN:-60}
rm -f /verif/.cache/scratch/Goal_$$.*  /verif/.cache/scratch/.Goal_$$.aux
