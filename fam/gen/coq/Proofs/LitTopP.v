(* C20: the final literal theorems -- meaning, totality up to the registered panic classes (each with a witness),
   and Default::default() of the projected schema = the expected default computed from the IDL alone. *)
From PVGen Require Import Lit LitSpec LitClass Defaults Proofs.LitNum Proofs.LitP Proofs.DefaultP.
From Coq Require Import Lia ZifyBool.
Open Scope Z_scope.

Section Top.
  Variable parse_f64 : list byte -> option Z.
  Variable S : lschema.
  Hypothesis Hcf : class_free_schema S = true.

  (* lowering of a well-typed literal outside the panic classes succeeds with the value the IDL gives it *)
  Theorem literal_meaning_n t l v :
    lit_value_n parse_f64 S (efuel S) (erase t) l = Some v -> pclass_top S l (item_cty t) = None ->
    exists c, default_val_lit parse_f64 S t l = LOk (v, c).
  Proof.
    intros Hv Hp. destruct (ev_sv parse_f64 S Hcf (efuel S) (le_n _)) as (HC & HD & HI).
    exact (top_good parse_f64 S (efuel S) HC HD HI l t v Hv Hp).
  Qed.

  Theorem literal_meaning t l :
    well_typed_lit parse_f64 S (erase t) l = true -> pclass_top S l (item_cty t) = None ->
    exists v c, default_val_lit parse_f64 S t l = LOk (v, c) /\ lit_value_top parse_f64 S (erase t) l = Some v.
  Proof.
    unfold well_typed_lit, well_typed_lit_n, lit_value_top. intros Hw Hp.
    destruct (lit_value_n parse_f64 S (efuel S) (erase t) l) as [v|] eqn:Ev; [|discriminate].
    destruct (literal_meaning_n _ _ _ Ev Hp) as (c & Hc). exists v, c. split; [exact Hc|reflexivity].
  Qed.

  (* totality: on a well-typed literal the lowering neither errs nor panics outside the classes *)
  Theorem lowering_total t l :
    well_typed_lit parse_f64 S (erase t) l = true ->
    match default_val_lit parse_f64 S t l with
    | LOk _ => True
    | LErr _ | LPanic _ => pclass_top S l (item_cty t) <> None
    end.
  Proof.
    intros Hw. destruct (pclass_top S l (item_cty t)) eqn:Ep.
    - destruct (default_val_lit parse_f64 S t l); [exact I|discriminate|discriminate].
    - destruct (literal_meaning t l Hw Ep) as (v & c & -> & _). exact I.
  Qed.

  (* ---------- Default::default() ---------- *)
  Hypothesis Hwt : lits_typed parse_f64 S = true.

  Let F := efuel S.
  Let PS := proj_n parse_f64 S F.

  Lemma lookup_proj n : lookup PS n = option_map (proj_item parse_f64 S F) (nth_error (ls_items S) n).
  Proof. unfold lookup, PS, proj_n. apply nth_error_map. Qed.

  Lemma resolve_proj f : forall t, resolve_n PS f t = sresolve_n S f t.
  Proof.
    induction f as [|f IH]; intros t; [reflexivity|]. destruct t; try reflexivity.
    cbn [resolve_n sresolve_n]. rewrite lookup_proj. unfold sitem.
    destruct (nth_error (ls_items S) n) as [[]|]; cbn [option_map proj_item]; auto.
  Qed.

  Lemma resolve_proj_top t : resolve PS t = sresolve S t.
  Proof. unfold resolve, sresolve, PS, proj_n. rewrite map_length. apply resolve_proj. Qed.

  Lemma field_default n fs k a f l : nth_error (ls_items S) n = Some (IStruct fs k a) -> In f fs -> lf_dflt f = Some l ->
    exists v c, default_val_lit_n parse_f64 S F (lf_ty f) l = LOk (v, c) /\ lit_value_n parse_f64 S F (erase (lf_ty f)) l = Some v.
  Proof.
    intros Hn Hin Hd. unfold lits_typed in Hwt. rewrite forallb_forall in Hwt.
    specialize (Hwt _ (nth_error_In _ _ Hn)). cbn in Hwt. rewrite forallb_forall in Hwt. specialize (Hwt _ Hin).
    rewrite Hd in Hwt. unfold well_typed_lit, well_typed_lit_n in Hwt. fold F in Hwt.
    destruct (lit_value_n parse_f64 S F (erase (lf_ty f)) l) as [v|] eqn:Ev; [|discriminate].
    destruct (literal_meaning_n _ _ _ Ev (field_class_free S Hcf _ _ _ _ _ _ Hn Hin Hd)) as (c & Hc).
    exists v, c. split; [exact Hc|reflexivity].
  Qed.

  Lemma dv_fields_proj k (IH : forall t, default_val PS k t = sempty_n parse_f64 S F k t) n fs0 kp ia :
    nth_error (ls_items S) n = Some (IStruct fs0 kp ia) -> forall fs, incl fs fs0 ->
    dv_fields PS k (map (proj_field parse_f64 S F) fs) =
    sempty_fields (fun l t => lit_value_n parse_f64 S F t l) (sempty_n parse_f64 S F k) fs.
  Proof.
    intros Hn. induction fs as [|fd r IHr]; intros Hin; [reflexivity|].
    cbn [map dv_fields sempty_fields]. fold (dv_fields PS k).
    rewrite (IHr (fun x Hx => Hin x (or_intror Hx))).
    cbn [proj_field f_dflt f_req f_id f_ty].
    destruct (lf_dflt fd) as [l|] eqn:Ed.
    - destruct (field_default _ _ _ _ fd l Hn (Hin fd (or_introl eq_refl)) Ed) as (v & c & Hc & Hv).
      rewrite Hc, Hv. destruct (sempty_fields _ _ r); reflexivity.
    - destruct (lf_req fd).
      + rewrite IH. destruct (sempty_fields _ _ r); destruct (sempty_n parse_f64 S F k (erase (lf_ty fd))); reflexivity.
      + destruct (sempty_fields _ _ r); reflexivity.
  Qed.

  Theorem default_val_proj k : forall t, default_val PS k t = sempty_n parse_f64 S F k t.
  Proof.
    induction k as [|k IH]; intros t; [reflexivity|].
    cbn [default_val sempty_n]. unfold sempty_step. rewrite resolve_proj_top.
    destruct (sresolve S t); try reflexivity.
    rewrite lookup_proj. unfold sitem.
    destruct (nth_error (ls_items S) n) as [[fs kp ia|ms|vs vo kp|a]|] eqn:En; cbn [option_map proj_item]; try reflexivity.
    - change (match dv_fields PS k (map (proj_field parse_f64 S F) fs) with Some l => Some (GStruct l []) | None => None end =
              match sempty_fields (fun l t => lit_value_n parse_f64 S F t l) (sempty_n parse_f64 S F k) fs with
              | Some l => Some (GStruct l []) | None => None end).
      rewrite (dv_fields_proj k IH n fs kp ia En fs (incl_refl _)). reflexivity.
    - destruct vs as [|[id vt] vr]; [reflexivity|]. cbn [map]. rewrite IH. reflexivity.
  Qed.

  (* T::default() of the emitted type, computed by the model of ImplDefaultPlugin over the schema whose field defaults
     are the LOWERED literals, is the expected default computed from the IDL alone *)
  Theorem default_is_idl n : default_of (proj parse_f64 S) (TyRef n) = expected_default parse_f64 S n.
  Proof.
    unfold default_of, expected_default, proj. fold F. fold PS.
    replace (length PS) with (length (ls_items S)) by (unfold PS, proj_n; rewrite map_length; reflexivity).
    apply default_val_proj.
  Qed.
End Top.

(* ---------- the expected default EXISTS: default_is_idl is not an equality of two Nones ---------- *)
(* the shape of the declarations alone (no literal is looked at): a type has an empty value unless a chain of required by-value
   members without default is deeper than k, ends at an empty union, or a typedef does not resolve *)
Fixpoint default_shape_ok (S : lschema) (k : nat) (t : ty) : bool :=
  match k with
  | O => false
  | Datatypes.S k' =>
      match sresolve S t with
      | TyRef n =>
          match sitem S n with
          | Some (IEnum _) => true
          | Some (IStruct fs _ _) =>
              forallb (fun fd => match lf_dflt fd, lf_req fd with
                                 | Some _, _ => true
                                 | None, Optional => true
                                 | None, Required => default_shape_ok S k' (erase (lf_ty fd))
                                 end) fs
          | Some (IUnion ((_, vt) :: _) _ _) => default_shape_ok S k' (erase vt)
          | _ => false
          end
      | _ => true
      end
  end.

Section Exists.
  Variable parse_f64 : list byte -> option Z.
  Variable S : lschema.
  Hypothesis Hwt : lits_typed parse_f64 S = true.
  Let F := efuel S.

  Lemma fields_exist k (IH : forall t, default_shape_ok S k t = true -> exists v, sempty_n parse_f64 S F k t = Some v)
    n fs0 kp ia : nth_error (ls_items S) n = Some (IStruct fs0 kp ia) -> forall fs, incl fs fs0 ->
    forallb (fun fd => match lf_dflt fd, lf_req fd with
                       | Some _, _ => true
                       | None, Optional => true
                       | None, Required => default_shape_ok S k (erase (lf_ty fd))
                       end) fs = true ->
    exists out, sempty_fields (fun l t => lit_value_n parse_f64 S F t l) (sempty_n parse_f64 S F k) fs = Some out.
  Proof.
    intros Hn. induction fs as [|fd r IHr]; intros Hin Hok; [eexists; reflexivity|].
    cbn [forallb] in Hok. apply Bool.andb_true_iff in Hok. destruct Hok as [Hfd Hr].
    destruct (IHr (fun x Hx => Hin x (or_intror Hx)) Hr) as (rest & Er).
    cbn [sempty_fields]. fold (sempty_fields (fun l t => lit_value_n parse_f64 S F t l) (sempty_n parse_f64 S F k)). rewrite Er.
    destruct (lf_dflt fd) as [l|] eqn:Ed.
    - unfold lits_typed in Hwt. rewrite forallb_forall in Hwt. specialize (Hwt _ (nth_error_In _ _ Hn)). cbn in Hwt.
      rewrite forallb_forall in Hwt. specialize (Hwt _ (Hin fd (or_introl eq_refl))). rewrite Ed in Hwt.
      unfold well_typed_lit, well_typed_lit_n in Hwt. fold F in Hwt.
      destruct (lit_value_n parse_f64 S F (erase (lf_ty fd)) l); [eexists; reflexivity|discriminate].
    - destruct (lf_req fd).
      + destruct (IH _ Hfd) as (x & ->). eexists; reflexivity.
      + eexists; reflexivity.
  Qed.

  Lemma default_exists_n k : forall t, default_shape_ok S k t = true -> exists v, sempty_n parse_f64 S F k t = Some v.
  Proof.
    induction k as [|k IH]; intros t H; [discriminate|].
    cbn [default_shape_ok sempty_n] in *. unfold sempty_step.
    destruct (sresolve S t); try (eexists; reflexivity).
    destruct (sitem S n) as [[fs kp ia|ms|vs vo kp|a]|] eqn:En; try discriminate.
    - unfold sitem in En. destruct (fields_exist k IH n fs kp ia En fs (incl_refl _) H) as (out & ->). eexists; reflexivity.
    - eexists; reflexivity.
    - destruct vs as [|[id vt] vr]; [discriminate|]. destruct (IH _ H) as (x & ->). eexists; reflexivity.
  Qed.

  (* every struct / union / enum whose declarations have the shape: the expected default exists, and (class-free schema) it is
     the Default value of the emitted type *)
  Theorem default_exists (Hcf : class_free_schema S = true) n :
    default_shape_ok S (Datatypes.S (Datatypes.S (length (ls_items S)))) (TyRef n) = true ->
    exists v, expected_default parse_f64 S n = Some v /\ default_of (proj parse_f64 S) (TyRef n) = Some v.
  Proof.
    intros H. destruct (default_exists_n _ _ H) as (v & Hv). exists v. split; [exact Hv|].
    rewrite (default_is_idl parse_f64 S Hcf Hwt n). exact Hv.
  Qed.
End Exists.

(* ---------- the integer -> double arm, whatever the schema ---------- *)
Lemma int_at_double pf S i : default_val_lit pf S RF64 (LInt i) = LOk (GDouble (f64_enc (z2f 53 i)), true).
Proof. reflexivity. Qed.
Lemma int_at_double_spec pf S i : in_sb 64 i = true -> lit_value_top pf S TyDouble (LInt i) = Some (GDouble (f64_enc (z2f 53 i))).
Proof.
  intros H. unfold lit_value_top, lit_value_n. cbn [lit_value]. unfold sresolve. cbn [sresolve_n]. rewrite H.
  rewrite int_to_double_model. reflexivity.
Qed.

(* ---------- the shapes repaired in pilota-build: the former panic witnesses now lower to the IDL value ---------- *)
Definition pf0 (s : list byte) : option Z :=
  if bytes_eqb s [x32; x2e; x35] then Some 4612811918334230528                 (* "2.5" *)
  else if bytes_eqb s [x2d; x31; x2e; x35] then Some 13832806255468478464        (* "-1.5" *)
  else if bytes_eqb s [x31; x2e; x35; x65; x33] then Some 4654311885213007872    (* "1.5e3" *)
  else if bytes_eqb s [x31; x65; x31; x36] then Some 4846369599423283200         (* "1e16" *)
  else if bytes_eqb s [x31; x65; x2d; x31; x36] then Some 4367597403136100796    (* "1e-16" *)
  else if bytes_eqb s [x2d; x31; x65; x2d; x32] then Some 13800290266158863483   (* "-1e-2" *)
  else None.

(* F-14g: a map literal inside a list literal, inside a map literal, behind a typedef, as a struct-literal member *)
Definition W_nested_map : lschema :=
  mkLS [IStruct [mkLF [x66] 1 Optional (RVec (RMap RI8 RFastStr)) (Some (LList [LMap [(LInt 1, LString [x78])]]))] false false;
        INewType (RMap RI8 RI8);
        IStruct [mkLF [x61] 1 Required RI32 None; mkLF [x6d] 2 Optional (RMap RFastStr RI32) None] false false] [].
Example nested_map_repaired :
  well_typed_lit pf0 W_nested_map (erase (RVec (RMap RI8 RFastStr))) (LList [LMap [(LInt 1, LString [x78])]]) = true /\
  pclass_top W_nested_map (LList [LMap [(LInt 1, LString [x78])]]) (item_cty (RVec (RMap RI8 RFastStr))) = None /\
  default_val_lit pf0 W_nested_map (RVec (RMap RI8 RFastStr)) (LList [LMap [(LInt 1, LString [x78])]])
    = LOk (GList [GMap [(GI8 1, GBytes [x78])]], false) /\
  (* the shape of the registered finding: map<i8, map<i8, string>> = {1: {2: "x"}}, and `[]` for a nested empty map *)
  default_val_lit pf0 W_nested_map (RMap RI8 (RMap RI8 RFastStr)) (LMap [(LInt 1, LMap [(LInt 2, LString [x78])]); (LInt 3, LList [])])
    = LOk (GMap [(GI8 1, GMap [(GI8 2, GBytes [x78])]); (GI8 3, GMap [])], false) /\
  (* a typedef of a map type *)
  default_val_lit pf0 W_nested_map (RPath 1) (LMap [(LInt 1, LInt 2)]) = LOk (GMap [(GI8 1, GI8 2)], false) /\
  (* a map-typed member of a struct literal *)
  default_val_lit pf0 W_nested_map (RPath 2) (LMap [(LString [x61], LInt 1); (LString [x6d], LMap [(LString [x6b], LInt 5)])])
    = LOk (GStruct [(1, GI32 1); (2, GMap [(GBytes [x6b], GI32 5)])] [], false).
Proof. vm_compute. repeat split; reflexivity. Qed.

(* F-14l and its siblings: an enum member / a const at a typedef'd target *)
Definition W_enum_typedef : lschema :=
  mkLS [IEnum [0; 1]; INewType (RPath 0); INewType RI32; INewType RFastStr; INewType (RPath 2)]
       [(RI32, LInt 7); (RFastStr, LString [x6c])].
Example enum_typedef_repaired :
  well_typed_lit pf0 W_enum_typedef (erase (RPath 1)) (LMember 0 1) = true /\
  pclass_top W_enum_typedef (LMember 0 1) (item_cty (RPath 1)) = None /\
  default_val_lit pf0 W_enum_typedef (RPath 1) (LMember 0 1) = LOk (GEnum 1, true) /\
  default_val_lit pf0 W_enum_typedef (RPath 1) (LInt 1) = LOk (GEnum 1, true) /\
  (* a const through one and through two typedefs, a string const at a typedef of string *)
  default_val_lit pf0 W_enum_typedef (RPath 2) (LConst 0) = LOk (GI32 7, true) /\
  default_val_lit pf0 W_enum_typedef (RPath 4) (LConst 0) = LOk (GI32 7, true) /\
  default_val_lit pf0 W_enum_typedef (RPath 3) (LConst 1) = LOk (GBytes [x6c], true) /\
  pclass_top W_enum_typedef (LConst 0) (item_cty (RPath 4)) = None.
Proof. vm_compute. repeat split; reflexivity. Qed.

(* F-14i: a const of set type has a definition now *)
Definition W_const_set : lschema := mkLS [] [(RSet RI32, LList [LInt 1; LInt 2]); (RSet RI32, LList []); (RBTreeSet RFastStr, LList [LString [x61]])].
Example const_set_repaired :
  const_value pf0 W_const_set 0 = LOk (GSet [GI32 1; GI32 2]) /\ const_value pf0 W_const_set 1 = LOk (GSet []) /\
  const_value pf0 W_const_set 2 = LOk (GSet [GBytes [x61]]).
Proof. vm_compute. repeat split; reflexivity. Qed.

(* F-14x / F-14y: a set literal (or `[]` for a map) nested in a const container goes through a nested lazily initialised
   static; a list nested in a const list is a Vec (only the outermost list of a const is an array) *)
Definition W_const_nested : lschema :=
  mkLS [] [ (RVec (RSet RI64), LList [LList [LInt 1]; LList []]);
            (RMap RI32 (RSet RFastStr), LMap [(LInt 1, LList [LString [x61]])]);
            (RVec (RVec RI32), LList [LList [LInt 1]; LList [LInt 2]]);
            (RVec (RMap RI32 RI32), LList [LList []; LMap [(LInt 1, LInt 2)]]) ].
Example const_nested_repaired :
  const_cty (RVec (RVec RI32)) = CArray (CVec Lit.CI32) /\
  const_value pf0 W_const_nested 0 = LOk (GList [GSet [GI64 1]; GSet []]) /\
  const_value pf0 W_const_nested 1 = LOk (GMap [(GI32 1, GSet [GBytes [x61]])]) /\
  const_value pf0 W_const_nested 2 = LOk (GList [GList [GI32 1]; GList [GI32 2]]) /\
  const_value pf0 W_const_nested 3 = LOk (GList [GMap []; GMap [(GI32 1, GI32 2)]]).
Proof. vm_compute. repeat split; reflexivity. Qed.

(* an integer at a set<double> element / map key; a string const at a `pilota.rust_type = "string"` field *)
Example other_arms_repaired :
  default_val_lit pf0 (mkLS [] []) (RSet ROrderedF64) (LList [LInt 1; LFloat [x32; x2e; x35]])
    = LOk (GSet [GDouble 4607182418800017408; GDouble 4612811918334230528], false) /\
  pclass_top (mkLS [] []) (LList [LInt 1]) (item_cty (RSet ROrderedF64)) = None /\
  default_val_lit pf0 (mkLS [] []) (RMap ROrderedF64 RFastStr) (LMap [(LInt 3, LString [x78])])
    = LOk (GMap [(GDouble 4613937818241073152, GBytes [x78])], false) /\
  default_val_lit pf0 (mkLS [] [(RFastStr, LString [x78])]) RString (LConst 0) = LOk (GBytes [x78], false) /\
  pclass_top (mkLS [] [(RFastStr, LString [x78])]) (LConst 0) (item_cty RString) = None.
Proof. vm_compute. repeat split; reflexivity. Qed.

(* ---------- three repairs that are proposed (fam/gen/patches) and may or may not be in the tree: the regenerated tables say
   which form the generator has; each statement holds in BOTH forms (if repaired: the IDL value; else: the panic) ---------- *)
(* arc-field-default: a default on a `pilota.rust_wrapper_arc` field *)
Definition W_arc : lschema :=
  mkLS [IStruct [mkLF [x6e; x6f; x74; x65] 1 Optional RFastStr None; mkLF [x6e] 2 Required RI32 None] false false]
       [(RFastStr, LString [x6b])].
Example arc_default_cases :
  well_typed_lit pf0 W_arc (erase (RArc (RPath 0))) (LMap [(LString [x6e], LInt 1)]) = true /\
  if arc_ok then
    pclass_top W_arc (LMap [(LString [x6e], LInt 1)]) (item_cty (RArc (RPath 0))) = None /\
    pclass_top W_arc (LConst 0) (item_cty (RArc RString)) = None /\
    default_val_lit pf0 W_arc (RArc (RPath 0)) (LMap [(LString [x6e], LInt 1)]) = LOk (GStruct [(2, GI32 1)] [], false) /\
    default_val_lit pf0 W_arc (RArc RString) (LString [x61]) = LOk (GBytes [x61], false) /\
    default_val_lit pf0 W_arc (RArc RString) (LConst 0) = LOk (GBytes [x6b], false) /\
    default_val_lit pf0 W_arc (RVec (RArc (RPath 0))) (LList [LMap [(LString [x6e], LInt 4)]]) = LOk (GList [GStruct [(2, GI32 4)] []], false) /\
    default_val_lit pf0 W_arc (RMap RFastStr (RArc (RPath 0))) (LMap [(LString [x61], LMap [(LString [x6e], LInt 5)])])
      = LOk (GMap [(GBytes [x61], GStruct [(2, GI32 5)] [])], false)
  else
    pclass_top W_arc (LMap [(LString [x6e], LInt 1)]) (item_cty (RArc (RPath 0))) = Some PCNoArm /\
    default_val_lit pf0 W_arc (RArc (RPath 0)) (LMap [(LString [x6e], LInt 1)]) = LPanic PUnexpectedLiteral /\
    default_val_lit pf0 W_arc (RArc RString) (LString [x61]) = LPanic PUnexpectedLiteral /\
    default_val_lit pf0 W_arc (RArc RString) (LConst 0) = LPanic PInvalidConvert.
Proof. vm_compute. repeat split; reflexivity. Qed.

(* container-const-reference: a default (or an element of a container literal) that names a const of list / set / map type *)
Definition W_const_ref : lschema :=
  mkLS [INewType (RVec RI32)]
       [(RVec RI32, LList [LInt 1; LInt 2]); (RSet RFastStr, LList [LString [x61]]); (RMap RFastStr RI32, LMap [(LString [x6b], LInt 1)])].
Example container_const_reference_cases :
  well_typed_lit pf0 W_const_ref (erase (RSet RFastStr)) (LConst 1) = true /\
  if const_inline_present then
    pclass_top W_const_ref (LConst 1) (item_cty (RSet RFastStr)) = None /\
    pclass_top W_const_ref (LList [LConst 0; LList []]) (item_cty (RVec (RVec RI32))) = None /\
    default_val_lit pf0 W_const_ref (RVec RI32) (LConst 0) = LOk (GList [GI32 1; GI32 2], false) /\
    default_val_lit pf0 W_const_ref (RSet RFastStr) (LConst 1) = LOk (GSet [GBytes [x61]], false) /\
    default_val_lit pf0 W_const_ref (RBTreeSet RFastStr) (LConst 1) = LOk (GSet [GBytes [x61]], false) /\
    default_val_lit pf0 W_const_ref (RMap RFastStr RI32) (LConst 2) = LOk (GMap [(GBytes [x6b], GI32 1)], false) /\
    default_val_lit pf0 W_const_ref (RPath 0) (LConst 0) = LOk (GList [GI32 1; GI32 2], false) /\
    default_val_lit pf0 W_const_ref (RVec (RVec RI32)) (LList [LConst 0; LList []]) = LOk (GList [GList [GI32 1; GI32 2]; GList []], false)
  else
    pclass_top W_const_ref (LConst 1) (item_cty (RSet RFastStr)) = Some PCPathConvert /\
    default_val_lit pf0 W_const_ref (RVec RI32) (LConst 0) = LPanic PInvalidConvert /\
    default_val_lit pf0 W_const_ref (RSet RFastStr) (LConst 1) = LPanic PInvalidConvert /\
    default_val_lit pf0 W_const_ref (RMap RFastStr RI32) (LConst 2) = LPanic PInvalidConvert.
Proof. vm_compute. repeat split; reflexivity. Qed.

(* double-sign-run: the double constant `-+1.5` *)
Example double_sign_run_cases :
  well_typed_lit pf0 (mkLS [] []) TyDouble (LFloat [x2d; x2b; x31; x2e; x35]) = true /\
  if double_sign_run_ok then
    default_val_lit pf0 (mkLS [] []) RF64 (LFloat [x2d; x2b; x31; x2e; x35]) = LOk (GDouble 13832806255468478464, true) /\
    default_val_lit pf0 (mkLS [] []) (RSet ROrderedF64) (LList [LFloat [x2d; x2b; x31; x2e; x35]]) = LOk (GSet [GDouble 13832806255468478464], false) /\
    pclass_top (mkLS [] []) (LFloat [x2d; x2b; x31; x2e; x35]) (item_cty RF64) = None
  else
    default_val_lit pf0 (mkLS [] []) RF64 (LFloat [x2d; x2b; x31; x2e; x35]) = LPanic PParseFloat /\
    pclass_top (mkLS [] []) (LFloat [x2d; x2b; x31; x2e; x35]) (item_cty RF64) = Some PCFloatSigns.
Proof. vm_compute. repeat split; reflexivity. Qed.

(* double-exponent-form: the exponent of a double constant is an IDL integer constant.  The meaning, whatever the source:
   1.5e--3 = 1.5e3, 1e0x10 = 1e16, 1E-0x10 = 1e-16, -1e---2 = -1e-2; an exponent f64::from_str understands is left alone *)
Example exp_norm_cases :
  exp_norm [x31; x2e; x35; x65; x2d; x2d; x33] = [x31; x2e; x35; x65; x33] /\
  exp_norm [x31; x65; x30; x78; x31; x30] = [x31; x65; x31; x36] /\
  exp_norm [x31; x45; x2d; x30; x78; x31; x30] = [x31; x65; x2d; x31; x36] /\
  exp_norm [x2d; x31; x65; x2d; x2d; x2d; x32] = [x2d; x31; x65; x2d; x32] /\
  exp_norm [x31; x65; x2d; x35] = [x31; x65; x2d; x35] /\
  exp_norm [x31; x2e; x35; x45; x30; x35] = [x31; x2e; x35; x45; x30; x35] /\
  exp_norm [x32; x2e; x35] = [x32; x2e; x35].
Proof. vm_compute. repeat split; reflexivity. Qed.

Example double_exponent_cases :
  well_typed_lit pf0 (mkLS [] []) TyDouble (LFloat [x31; x2e; x35; x65; x2d; x2d; x33]) = true /\
  lit_value_top pf0 (mkLS [] []) TyDouble (LFloat [x31; x2e; x35; x65; x2d; x2d; x33]) = Some (GDouble 4654311885213007872) /\
  lit_value_top pf0 (mkLS [] []) TyDouble (LFloat [x31; x65; x30; x78; x31; x30]) = Some (GDouble 4846369599423283200) /\
  if double_exponent_ok then
    default_val_lit pf0 (mkLS [] []) RF64 (LFloat [x31; x2e; x35; x65; x2d; x2d; x33]) = LOk (GDouble 4654311885213007872, true) /\
    default_val_lit pf0 (mkLS [] []) RF64 (LFloat [x31; x65; x30; x78; x31; x30]) = LOk (GDouble 4846369599423283200, true) /\
    default_val_lit pf0 (mkLS [] []) RF64 (LFloat [x31; x45; x2d; x30; x78; x31; x30]) = LOk (GDouble 4367597403136100796, true) /\
    default_val_lit pf0 (mkLS [] []) (RSet ROrderedF64) (LList [LFloat [x2d; x31; x65; x2d; x2d; x2d; x32]]) = LOk (GSet [GDouble 13800290266158863483], false) /\
    pclass_top (mkLS [] []) (LFloat [x31; x2e; x35; x65; x2d; x2d; x33]) (item_cty RF64) = None
  else
    default_val_lit pf0 (mkLS [] []) RF64 (LFloat [x31; x2e; x35; x65; x2d; x2d; x33]) = LPanic PParseFloat /\
    default_val_lit pf0 (mkLS [] []) RF64 (LFloat [x31; x65; x30; x78; x31; x30]) = LPanic PParseFloat /\
    pclass_top (mkLS [] []) (LFloat [x31; x2e; x35; x65; x2d; x2d; x33]) (item_cty RF64) = Some PCFloatExp /\
    pclass_top (mkLS [] []) (LFloat [x31; x65; x30; x78; x31; x30]) (item_cty RF64) = Some PCFloatExp.
Proof. vm_compute. repeat split; reflexivity. Qed.

(* the two readings of each case, as implications (one of each pair is vacuous in a given tree) *)
Lemma arc_field_default_refuted : arc_ok = false ->
  well_typed_lit pf0 W_arc (erase (RArc (RPath 0))) (LMap [(LString [x6e], LInt 1)]) = true /\
  pclass_top W_arc (LMap [(LString [x6e], LInt 1)]) (item_cty (RArc (RPath 0))) = Some PCNoArm /\
  default_val_lit pf0 W_arc (RArc (RPath 0)) (LMap [(LString [x6e], LInt 1)]) = LPanic PUnexpectedLiteral /\
  default_val_lit pf0 W_arc (RArc RString) (LString [x61]) = LPanic PUnexpectedLiteral /\
  default_val_lit pf0 W_arc (RArc RString) (LConst 0) = LPanic PInvalidConvert.
Proof. intros H. pose proof arc_default_cases as E. rewrite H in E. exact E. Qed.

Lemma arc_field_default_repaired : arc_ok = true ->
  pclass_top W_arc (LMap [(LString [x6e], LInt 1)]) (item_cty (RArc (RPath 0))) = None /\
  pclass_top W_arc (LConst 0) (item_cty (RArc RString)) = None /\
  default_val_lit pf0 W_arc (RArc (RPath 0)) (LMap [(LString [x6e], LInt 1)]) = LOk (GStruct [(2, GI32 1)] [], false) /\
  default_val_lit pf0 W_arc (RArc RString) (LString [x61]) = LOk (GBytes [x61], false) /\
  default_val_lit pf0 W_arc (RArc RString) (LConst 0) = LOk (GBytes [x6b], false) /\
  default_val_lit pf0 W_arc (RVec (RArc (RPath 0))) (LList [LMap [(LString [x6e], LInt 4)]]) = LOk (GList [GStruct [(2, GI32 4)] []], false) /\
  default_val_lit pf0 W_arc (RMap RFastStr (RArc (RPath 0))) (LMap [(LString [x61], LMap [(LString [x6e], LInt 5)])])
    = LOk (GMap [(GBytes [x61], GStruct [(2, GI32 5)] [])], false).
Proof. intros H. pose proof arc_default_cases as E. rewrite H in E. exact (proj2 E). Qed.

Lemma container_const_reference_refuted : const_inline_present = false ->
  well_typed_lit pf0 W_const_ref (erase (RSet RFastStr)) (LConst 1) = true /\
  pclass_top W_const_ref (LConst 1) (item_cty (RSet RFastStr)) = Some PCPathConvert /\
  default_val_lit pf0 W_const_ref (RVec RI32) (LConst 0) = LPanic PInvalidConvert /\
  default_val_lit pf0 W_const_ref (RSet RFastStr) (LConst 1) = LPanic PInvalidConvert /\
  default_val_lit pf0 W_const_ref (RMap RFastStr RI32) (LConst 2) = LPanic PInvalidConvert.
Proof. intros H. pose proof container_const_reference_cases as E. rewrite H in E. exact E. Qed.

Lemma container_const_reference_repaired : const_inline_present = true ->
  pclass_top W_const_ref (LConst 1) (item_cty (RSet RFastStr)) = None /\
  pclass_top W_const_ref (LList [LConst 0; LList []]) (item_cty (RVec (RVec RI32))) = None /\
  default_val_lit pf0 W_const_ref (RVec RI32) (LConst 0) = LOk (GList [GI32 1; GI32 2], false) /\
  default_val_lit pf0 W_const_ref (RSet RFastStr) (LConst 1) = LOk (GSet [GBytes [x61]], false) /\
  default_val_lit pf0 W_const_ref (RBTreeSet RFastStr) (LConst 1) = LOk (GSet [GBytes [x61]], false) /\
  default_val_lit pf0 W_const_ref (RMap RFastStr RI32) (LConst 2) = LOk (GMap [(GBytes [x6b], GI32 1)], false) /\
  default_val_lit pf0 W_const_ref (RPath 0) (LConst 0) = LOk (GList [GI32 1; GI32 2], false) /\
  default_val_lit pf0 W_const_ref (RVec (RVec RI32)) (LList [LConst 0; LList []]) = LOk (GList [GList [GI32 1; GI32 2]; GList []], false).
Proof. intros H. pose proof container_const_reference_cases as E. rewrite H in E. exact (proj2 E). Qed.

Lemma double_sign_run_refuted : double_sign_run_ok = false ->
  well_typed_lit pf0 (mkLS [] []) TyDouble (LFloat [x2d; x2b; x31; x2e; x35]) = true /\
  default_val_lit pf0 (mkLS [] []) RF64 (LFloat [x2d; x2b; x31; x2e; x35]) = LPanic PParseFloat /\
  pclass_top (mkLS [] []) (LFloat [x2d; x2b; x31; x2e; x35]) (item_cty RF64) = Some PCFloatSigns.
Proof. intros H. pose proof double_sign_run_cases as E. rewrite H in E. exact E. Qed.

Lemma double_sign_run_repaired : double_sign_run_ok = true ->
  default_val_lit pf0 (mkLS [] []) RF64 (LFloat [x2d; x2b; x31; x2e; x35]) = LOk (GDouble 13832806255468478464, true) /\
  default_val_lit pf0 (mkLS [] []) (RSet ROrderedF64) (LList [LFloat [x2d; x2b; x31; x2e; x35]]) = LOk (GSet [GDouble 13832806255468478464], false) /\
  pclass_top (mkLS [] []) (LFloat [x2d; x2b; x31; x2e; x35]) (item_cty RF64) = None.
Proof. intros H. pose proof double_sign_run_cases as E. rewrite H in E. exact (proj2 E). Qed.

Lemma double_exponent_refuted : double_exponent_ok = false ->
  well_typed_lit pf0 (mkLS [] []) TyDouble (LFloat [x31; x2e; x35; x65; x2d; x2d; x33]) = true /\
  default_val_lit pf0 (mkLS [] []) RF64 (LFloat [x31; x2e; x35; x65; x2d; x2d; x33]) = LPanic PParseFloat /\
  default_val_lit pf0 (mkLS [] []) RF64 (LFloat [x31; x65; x30; x78; x31; x30]) = LPanic PParseFloat /\
  pclass_top (mkLS [] []) (LFloat [x31; x2e; x35; x65; x2d; x2d; x33]) (item_cty RF64) = Some PCFloatExp /\
  pclass_top (mkLS [] []) (LFloat [x31; x65; x30; x78; x31; x30]) (item_cty RF64) = Some PCFloatExp.
Proof.
  intros H. pose proof double_exponent_cases as E. rewrite H in E. exact (conj (proj1 E) (proj2 (proj2 (proj2 E)))).
Qed.

Lemma double_exponent_repaired : double_exponent_ok = true ->
  default_val_lit pf0 (mkLS [] []) RF64 (LFloat [x31; x2e; x35; x65; x2d; x2d; x33]) = LOk (GDouble 4654311885213007872, true) /\
  default_val_lit pf0 (mkLS [] []) RF64 (LFloat [x31; x65; x30; x78; x31; x30]) = LOk (GDouble 4846369599423283200, true) /\
  default_val_lit pf0 (mkLS [] []) RF64 (LFloat [x31; x45; x2d; x30; x78; x31; x30]) = LOk (GDouble 4367597403136100796, true) /\
  default_val_lit pf0 (mkLS [] []) (RSet ROrderedF64) (LList [LFloat [x2d; x31; x65; x2d; x2d; x2d; x32]]) = LOk (GSet [GDouble 13800290266158863483], false) /\
  pclass_top (mkLS [] []) (LFloat [x31; x2e; x35; x65; x2d; x2d; x33]) (item_cty RF64) = None.
Proof. intros H. pose proof double_exponent_cases as E. rewrite H in E. exact (proj2 (proj2 (proj2 E))). Qed.

(* string-at-bytesvec: a string default on a `binary` field with pilota.rust_type = "vec" *)
Example string_at_bytesvec_cases :
  well_typed_lit pf0 (mkLS [] []) (erase RBytesVec) (LString [x61]) = true /\
  if string_at_bytesvec_ok then
    default_val_lit pf0 (mkLS [] []) RBytesVec (LString [x61]) = LOk (GBytes [x61], false) /\
    default_val_lit pf0 (mkLS [] []) RBytesVec (LString [x5c; x6e; x22]) = LOk (GBytes [x0a; x22], false) /\
    pclass_top (mkLS [] []) (LString [x61]) (item_cty RBytesVec) = None
  else
    default_val_lit pf0 (mkLS [] []) RBytesVec (LString [x61]) = LPanic PUnexpectedLiteral /\
    pclass_top (mkLS [] []) (LString [x61]) (item_cty RBytesVec) = Some PCNoArm.
Proof. vm_compute. repeat split; reflexivity. Qed.
Lemma string_at_bytesvec_refuted : string_at_bytesvec_ok = false ->
  well_typed_lit pf0 (mkLS [] []) (erase RBytesVec) (LString [x61]) = true /\
  default_val_lit pf0 (mkLS [] []) RBytesVec (LString [x61]) = LPanic PUnexpectedLiteral /\
  pclass_top (mkLS [] []) (LString [x61]) (item_cty RBytesVec) = Some PCNoArm.
Proof. intros H. pose proof string_at_bytesvec_cases as E. rewrite H in E. exact E. Qed.
Lemma string_at_bytesvec_repaired : string_at_bytesvec_ok = true ->
  default_val_lit pf0 (mkLS [] []) RBytesVec (LString [x61]) = LOk (GBytes [x61], false) /\
  default_val_lit pf0 (mkLS [] []) RBytesVec (LString [x5c; x6e; x22]) = LOk (GBytes [x0a; x22], false) /\
  pclass_top (mkLS [] []) (LString [x61]) (item_cty RBytesVec) = None.
Proof. intros H. pose proof string_at_bytesvec_cases as E. rewrite H in E. exact (proj2 E). Qed.

(* map-key-rvalue: a map literal as a map KEY (map<map<i8,i8>, i8> with rust_type = "btree": a BTreeMap is Ord) *)
Example map_key_cases :
  well_typed_lit pf0 (mkLS [] []) (erase (RBTreeMap (RBTreeMap RI8 RI8) RI8)) (LMap [(LMap [(LInt 1, LInt 2)], LInt 3)]) = true /\
  if map_key_rvalue then
    default_val_lit pf0 (mkLS [] []) (RBTreeMap (RBTreeMap RI8 RI8) RI8) (LMap [(LMap [(LInt 1, LInt 2)], LInt 3)])
      = LOk (GMap [(GMap [(GI8 1, GI8 2)], GI8 3)], false) /\
    default_val_lit pf0 (mkLS [] []) (RBTreeMap (RBTreeMap RI8 RI8) RI8) (LMap [(LList [], LInt 3)]) = LOk (GMap [(GMap [], GI8 3)], false) /\
    pclass_top (mkLS [] []) (LMap [(LMap [(LInt 1, LInt 2)], LInt 3)]) (item_cty (RBTreeMap (RBTreeMap RI8 RI8) RI8)) = None
  else
    default_val_lit pf0 (mkLS [] []) (RBTreeMap (RBTreeMap RI8 RI8) RI8) (LMap [(LMap [(LInt 1, LInt 2)], LInt 3)]) = LPanic PUnexpectedLiteral /\
    pclass_top (mkLS [] []) (LMap [(LMap [(LInt 1, LInt 2)], LInt 3)]) (item_cty (RBTreeMap (RBTreeMap RI8 RI8) RI8)) = Some PCNestedMap.
Proof. vm_compute. repeat split; reflexivity. Qed.
Lemma map_key_refuted : map_key_rvalue = false ->
  well_typed_lit pf0 (mkLS [] []) (erase (RBTreeMap (RBTreeMap RI8 RI8) RI8)) (LMap [(LMap [(LInt 1, LInt 2)], LInt 3)]) = true /\
  default_val_lit pf0 (mkLS [] []) (RBTreeMap (RBTreeMap RI8 RI8) RI8) (LMap [(LMap [(LInt 1, LInt 2)], LInt 3)]) = LPanic PUnexpectedLiteral /\
  pclass_top (mkLS [] []) (LMap [(LMap [(LInt 1, LInt 2)], LInt 3)]) (item_cty (RBTreeMap (RBTreeMap RI8 RI8) RI8)) = Some PCNestedMap.
Proof. intros H. pose proof map_key_cases as E. rewrite H in E. exact E. Qed.
Lemma map_key_repaired : map_key_rvalue = true ->
  default_val_lit pf0 (mkLS [] []) (RBTreeMap (RBTreeMap RI8 RI8) RI8) (LMap [(LMap [(LInt 1, LInt 2)], LInt 3)])
    = LOk (GMap [(GMap [(GI8 1, GI8 2)], GI8 3)], false) /\
  default_val_lit pf0 (mkLS [] []) (RBTreeMap (RBTreeMap RI8 RI8) RI8) (LMap [(LList [], LInt 3)]) = LOk (GMap [(GMap [], GI8 3)], false) /\
  pclass_top (mkLS [] []) (LMap [(LMap [(LInt 1, LInt 2)], LInt 3)]) (item_cty (RBTreeMap (RBTreeMap RI8 RI8) RI8)) = None.
Proof. intros H. pose proof map_key_cases as E. rewrite H in E. exact (proj2 E). Qed.

(* ---------- the class that is open whatever the flags: a witness that it does panic on a well-typed literal ---------- *)
(* path convert: a const of a typedef type used at the aliased type *)
Example path_convert_refuted :
  well_typed_lit pf0 (mkLS [INewType RI32] [(RPath 0, LInt 1)]) (erase RI32) (LConst 0) = true /\
  default_val_lit pf0 (mkLS [INewType RI32] [(RPath 0, LInt 1)]) RI32 (LConst 0) = LPanic PInvalidConvert /\
  pclass_top (mkLS [INewType RI32] [(RPath 0, LInt 1)]) (LConst 0) (item_cty RI32) = Some PCPathConvert.
Proof. vm_compute. repeat split; reflexivity. Qed.

(* ---------- non-vacuity: a schema with defaults of every kind satisfies the hypotheses ---------- *)
Definition S_ex : lschema := mkLS
  [ IEnum [0; 1; 5; -2];                                                                        (* 0: Mode *)
    IStruct [mkLF [x61] 1 Required RI32 None; mkLF [x62] 2 Optional RFastStr None;
             mkLF [x63] 3 Optional RBool (Some (LInt 1)); mkLF [x64] 4 Optional (RVec RI32) None] false false;   (* 1: Inner *)
    INewType (RPath 0);                                                                          (* 2: typedef Mode *)
    INewType (RVec (RPath 0));                                                                   (* 3: typedef list<Mode> *)
    IStruct [mkLF [x78] 1 Optional (RPath 1) (Some (LMap [(LString [x61], LInt 3); (LString [x64], LList [LInt 9])]));
             mkLF [x79] 2 Required RF64 (Some (LInt 1700000001));
             mkLF [x7a] 3 Optional (RMap RFastStr RI32) (Some (LList []));
             mkLF [x77] 4 Optional (RPath 3) (Some (LList [LMember 0 1; LInt 5]));
             mkLF [x76] 5 Optional RFastStr (Some (LConst 0));
             mkLF [x75] 6 Required (RPath 1) None;
             mkLF [x74] 7 Optional (RSet ROrderedF64) (Some (LList [LFloat [x32; x2e; x35]]));
             mkLF [x73] 8 Optional (RBTreeMap RI32 RF64) (Some (LMap [(LInt 1, LInt (-16777217)); (LInt 2, LFloat [x32; x2e; x35])]));
             mkLF [x72] 9 Optional RI8 (Some (LMember 0 3));
             mkLF [x71] 10 Optional RBytes (Some (LString [x62; x5c; x6e; x22]));
             mkLF [x70] 11 Optional (RPath 2) (Some (LInt (-2)));
             mkLF [x6f] 12 Required RBool (Some (LInt 3));
             mkLF [x6e] 13 Optional RString (Some (LString [x27]));
             mkLF [x6d] 14 Optional (RPath 0) (Some (LConst 1));
             (* the repaired shapes: Arc-wrapped targets, references to consts of container type, -+x and e--x doubles *)
             mkLF [x6c] 15 Optional (RArc (RPath 1)) (Some (LMap [(LString [x61], LInt 4)]));
             mkLF [x6b] 16 Optional (RArc RString) (Some (LConst 0));
             mkLF [x6a] 17 Optional (RVec (RArc (RPath 1))) (Some (LList [LMap [(LString [x61], LInt 6)]]));
             mkLF [x69] 18 Optional (RVec RI32) (Some (LConst 2));
             mkLF [x68] 19 Optional (RBTreeSet RFastStr) (Some (LConst 3));
             mkLF [x67] 20 Optional (RVec (RVec RI32)) (Some (LConst 4));
             mkLF [x66] 21 Optional RF64 (Some (LFloat [x2d; x2b; x31; x2e; x35]));
             mkLF [x65] 22 Optional RF64 (Some (LFloat [x31; x2e; x35; x65; x2d; x2d; x33]));
             mkLF [x64] 23 Optional (RArc (RPath 0)) (Some (LMember 0 1))] false false ]           (* 4: Dflt *)
  [ (RFastStr, LString [x68; x5c; x6e; x69]); (RPath 0, LMember 0 2);
    (RVec RI32, LList [LInt 1; LInt 2]); (RSet RFastStr, LList [LString [x61]]);
    (RVec (RVec RI32), LList [LConst 2; LList [LInt 3]]) ].

(* an enum-typed const used as a number: `(K.inner() as i32)` *)
Example enum_const_at_int :
  well_typed_lit pf0 S_ex (erase RI32) (LConst 1) = true /\ pclass_top S_ex (LConst 1) (item_cty RI32) = None /\
  default_val_lit pf0 S_ex RI32 (LConst 1) = LOk (GI32 5, true) /\ lit_value_top pf0 S_ex TyI32 (LConst 1) = Some (GI32 5).
Proof. vm_compute. repeat split; reflexivity. Qed.

Example literal_meaning_nonvacuous :
  class_free_schema S_ex = true /\ lits_typed pf0 S_ex = true /\
  default_of (proj pf0 S_ex) (TyRef 4) =
    Some (GStruct [(1, GStruct [(1, GI32 3); (4, GList [GI32 9])] []);
                   (2, GDouble 4744917124797956096);
                   (3, GMap []);
                   (4, GList [GEnum 1; GEnum 5]);
                   (5, GBytes [x68; x0a; x69]);
                   (6, GStruct [(1, GI32 0); (3, GBool true)] []);
                   (7, GSet [GDouble 4612811918334230528]);
                   (8, GMap [(GI32 1, GDouble 13938640846980120576); (GI32 2, GDouble 4612811918334230528)]);
                   (9, GI8 (-2));
                   (10, GBytes [x62; x0a; x22]);
                   (11, GEnum (-2));
                   (12, GBool true);
                   (13, GBytes [x27]);
                   (14, GEnum 5);
                   (15, GStruct [(1, GI32 4)] []);
                   (16, GBytes [x68; x0a; x69]);
                   (17, GList [GStruct [(1, GI32 6)] []]);
                   (18, GList [GI32 1; GI32 2]);
                   (19, GSet [GBytes [x61]]);
                   (20, GList [GList [GI32 1; GI32 2]; GList [GI32 3]]);
                   (21, GDouble 13832806255468478464);
                   (22, GDouble 4654311885213007872);
                   (23, GEnum 1)] []) /\
  expected_default pf0 S_ex 4 = default_of (proj pf0 S_ex) (TyRef 4).
Proof.
  assert (H1 : class_free_schema S_ex = true) by (vm_compute; reflexivity).
  assert (H2 : lits_typed pf0 S_ex = true) by (vm_compute; reflexivity).
  split; [exact H1|]. split; [exact H2|]. split; [vm_compute; reflexivity|].
  symmetry. exact (default_is_idl pf0 S_ex H1 H2 4).
Qed.

Example default_exists_nonvacuous :
  forallb (fun n => default_shape_ok S_ex (Datatypes.S (Datatypes.S (length (ls_items S_ex)))) (TyRef n)) [0; 1; 4]%nat = true /\
  (* a required by-value cycle has no empty value, and the shape says so *)
  default_shape_ok (mkLS [IStruct [mkLF [x61] 1 Required (RPath 0) None] false false] []) 3 (TyRef 0) = false /\
  expected_default pf0 (mkLS [IStruct [mkLF [x61] 1 Required (RPath 0) None] false false] []) 0 = None.
Proof. vm_compute. repeat split; reflexivity. Qed.
