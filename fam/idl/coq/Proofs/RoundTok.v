(* C15, stage 1: the token level.  Every lemma has the shape
     <well-formedness of the piece> -> <what may follow it> -> parser (printed piece ++ k) = POk k <piece>
   for identifiers (including the ones that begin with a keyword), keywords as whole words, blanks built from
   white space and the three comment styles, optional blanks, list separators and literals in both quote styles. *)
From PVIdl Require Import Comb Ast Parser Print.
From Coq Require Import ZifyN ZifyNat ZifyBool.
From Coq Require String.
Import String.StringSyntax.
Open Scope nat_scope.

(* ---------- outcomes ---------- *)
Definition is_perr {A} (r : pres A) : Prop := match r with PErr _ _ => True | _ => False end.

Lemma alt_err {A} (p : parser A) (q : parser A) ps i : is_perr (p i) -> alt (p :: q :: ps) i = alt (q :: ps) i.
Proof. intros H. cbn [alt]. destruct (p i); cbn in H; try contradiction. reflexivity. Qed.

Lemma alt_ok {A} (p : parser A) ps i r a : p i = POk r a -> alt (p :: ps) i = POk r a.
Proof. intros H. cbn [alt]. destruct ps; rewrite H; reflexivity. Qed.

Lemma alt_last_err {A} (p : parser A) i : is_perr (p i) -> is_perr (alt [p] i).
Proof. auto. Qed.

Lemma opt_ok {A} (p : parser A) i r a : p i = POk r a -> opt p i = POk r (Some a).
Proof. intros H. unfold opt. now rewrite H. Qed.

Lemma opt_err {A} (p : parser A) i : is_perr (p i) -> opt p i = POk i None.
Proof. intros H. unfold opt. destruct (p i); cbn in H; try contradiction. reflexivity. Qed.

Lemma pbind_err {A B} (r : pres A) (f : input -> A -> pres B) : is_perr r -> is_perr (pbind r f).
Proof. destruct r; cbn; intros H; auto; contradiction. Qed.

(* ---------- what may follow a token ---------- *)
Definition hd_sat (f : byte -> bool) (k : list byte) : bool := match k with [] => true | b :: _ => f b end.

Definition identch (b : byte) : bool := is_alnum b || is_underscore b.
(* the next byte does not continue a word: it is ASCII and neither alphanumeric nor '_' (or the text ends) *)
Definition wordend (k : list byte) : bool := hd_sat (fun b => N.ltb (bn b) 128 && negb (identch b)) k.
(* the next byte does not start a blank *)
Definition blank_start (b : byte) : bool := is_space b || Byte.eqb b x2f || Byte.eqb b x23.
Definition nb (k : list byte) : bool := hd_sat (fun b => negb (blank_start b)) k.

Lemma hd_sat_imp (f g : byte -> bool) k : (forall b, f b = true -> g b = true) -> hd_sat f k = true -> hd_sat g k = true.
Proof. destruct k; cbn; auto. Qed.

(* ---------- lists ---------- *)
Lemma strip_prefix_app_same t k : strip_prefix t (t ++ k) = Some k.
Proof.
  induction t as [|c t IH]; cbn [strip_prefix app]; [reflexivity|].
  assert (E : Byte.eqb c c = true) by (apply byte_dec_lb; reflexivity). now rewrite E.
Qed.

Lemma tag_ok t k : tag t (t ++ k) = POk k t.
Proof. unfold tag. now rewrite strip_prefix_app_same. Qed.

Lemma tag_hd_ne c t b k : Byte.eqb b c = false -> is_perr (tag (c :: t) (b :: k)).
Proof. intros H. unfold tag. cbn [strip_prefix]. rewrite H. exact I. Qed.

Lemma tag_nil_err c t : is_perr (tag (c :: t) []).
Proof. exact I. Qed.

(* a non-empty tag whose first byte does not satisfy f fails on every text whose head satisfies f *)
Lemma tag_hd_err (f : byte -> bool) c t k : f c = false -> hd_sat f k = true -> is_perr (tag (c :: t) k).
Proof.
  intros Hc Hk. destruct k as [|b k]; [exact I|]. cbn in Hk. apply tag_hd_ne.
  destruct (Byte.eqb b c) eqn:E; [|reflexivity]. apply byte_dec_bl in E. subst. congruence.
Qed.

Lemma span_app_stop cond s k :
  forallb cond s = true -> hd_sat (fun b => negb (cond b)) k = true -> span cond (s ++ k) = (s, k).
Proof.
  intros Hs Hk. induction s as [|b s IH]; cbn [app].
  - destruct k as [|c k]; cbn [span]; [reflexivity|]. cbn in Hk. apply negb_true_iff in Hk. now rewrite Hk.
  - cbn [forallb] in Hs. apply andb_prop in Hs. destruct Hs as [Hb Hs]. cbn [span]. rewrite Hb, (IH Hs). reflexivity.
Qed.

Lemma take_len_firstn {A B} (l : list A) (i : list B) : take_len l i = firstn (length l) i.
Proof. revert i; induction l as [|x l IH]; intros [|b i]; cbn [take_len firstn length]; try reflexivity. now rewrite IH. Qed.

Lemma drop_len_length {A B} (r : list A) (i : list B) : length (drop_len r i) = length i - length r.
Proof. revert i; induction r as [|x r IH]; intros [|b i]; cbn [drop_len length]; try lia. apply IH. Qed.

Lemma consumed_app s k : consumed (s ++ k) k = s.
Proof.
  unfold consumed. rewrite take_len_firstn, drop_len_length, app_length.
  replace (length s + length k - length k) with (length s) by lia.
  rewrite firstn_app, firstn_all, Nat.sub_diag. cbn [firstn]. apply app_nil_r.
Qed.

Lemma same_len_app_false {A} (a k : list A) : a <> [] -> same_len k (a ++ k) = false.
Proof.
  intros Ha. destruct (same_len k (a ++ k)) eqn:E; [|reflexivity].
  assert (L : length k = length (a ++ k)).
  { clear Ha. revert E. generalize (a ++ k) as l. induction k as [|x k IH]; intros [|y l]; cbn [same_len length]; try discriminate; auto. }
  rewrite app_length in L. destruct a; [contradiction|cbn [length] in L; lia].
Qed.

(* ---------- identifiers ---------- *)
Lemma identch_head h : (is_alpha h || is_underscore h) = true -> identch h = true.
Proof. unfold identch, is_alnum. destruct (is_alpha h), (is_underscore h), (is_digit h); cbn; auto. Qed.

Lemma rt_ident s k : is_ident s = true -> hd_sat (fun b => negb (identch b)) k = true -> p_ident (s ++ k) = POk k s.
Proof.
  intros Hs Hk. destruct s as [|h t]; [discriminate|]. cbn [is_ident] in Hs. apply andb_prop in Hs. destruct Hs as [Hh Ht].
  unfold p_ident, recognize. cbn [app satisfy_b pbind]. rewrite Hh. cbn [pbind]. unfold take_while.
  rewrite (span_app_stop _ t k Ht Hk). f_equal. apply (consumed_app (h :: t) k).
Qed.

Lemma ident_forall s : is_ident s = true -> forallb identch s = true.
Proof.
  destruct s as [|h t]; [discriminate|]. cbn [is_ident forallb]. intros H. apply andb_prop in H. destruct H as [Hh Ht].
  rewrite (identch_head _ Hh). exact Ht.
Qed.

Lemma wordend_identch k : wordend k = true -> hd_sat (fun b => negb (identch b)) k = true.
Proof. apply hd_sat_imp. intros b H. apply andb_prop in H. tauto. Qed.

(* ---------- keywords as whole words ---------- *)
Lemma ascii_class b : N.ltb (bn b) 128 = true ->
  (is_alphanumeric_cp (bn b) || N.eqb (bn b) 95) = identch b.
Proof. destruct b; vm_compute; intro H; try reflexivity; discriminate H. Qed.

Lemma identch_ascii b : identch b = true -> N.ltb (bn b) 128 = true.
Proof. destruct b; vm_compute; intro H; try reflexivity; discriminate H. Qed.

Lemma aoru_err k : wordend k = true -> is_perr (p_alphanumeric_or_underscore k).
Proof.
  intros H. destruct k as [|b r]; [exact I|]. cbn in H. apply andb_prop in H. destruct H as [Ha Hn].
  unfold p_alphanumeric_or_underscore, satisfy_c. cbn [utf8_head]. rewrite Ha. rewrite (ascii_class b Ha).
  apply negb_true_iff in Hn. now rewrite Hn.
Qed.

Lemma aoru_ok c r : identch c = true -> exists cp, p_alphanumeric_or_underscore (c :: r) = POk r cp.
Proof.
  intros H. pose proof (identch_ascii c H) as Ha. unfold p_alphanumeric_or_underscore, satisfy_c. cbn [utf8_head].
  rewrite Ha, (ascii_class c Ha), H. eauto.
Qed.

Lemma rt_keyword kw k : wordend k = true -> p_keyword kw (kw ++ k) = POk k tt.
Proof.
  intros H. unfold p_keyword. rewrite tag_ok. cbn [pbind]. unfold peek, not_.
  pose proof (aoru_err k H) as E. destruct (p_alphanumeric_or_underscore k); cbn in E; try contradiction. reflexivity.
Qed.

(* a keyword that is a proper prefix of an identifier, or no prefix at all, is not read as the keyword *)
Lemma strip_prefix_word kw : forall s k r,
  forallb identch kw = true -> forallb identch s = true -> hd_sat (fun b => negb (identch b)) k = true ->
  bytes_eq s kw = false -> strip_prefix kw (s ++ k) = Some r -> exists c r', r = c :: r' /\ identch c = true.
Proof.
  induction kw as [|a kw IH]; intros s k r Hkw Hs Hk Hne H.
  - cbn in H. inversion H; subst r. destruct s as [|c s]; [discriminate|]. cbn [forallb] in Hs. apply andb_prop in Hs.
    exists c, (s ++ k). tauto.
  - cbn [forallb] in Hkw. apply andb_prop in Hkw. destruct Hkw as [Ha Hkw]. destruct s as [|b s].
    + cbn [app] in H. destruct k as [|c k]; [discriminate|]. cbn [strip_prefix] in H.
      destruct (Byte.eqb c a) eqn:E; [|discriminate]. apply byte_dec_bl in E. subst c. cbn in Hk. rewrite Ha in Hk. discriminate.
    + cbn [app strip_prefix] in H. destruct (Byte.eqb b a) eqn:E; [|discriminate].
      cbn [forallb] in Hs. apply andb_prop in Hs. destruct Hs as [_ Hs]. cbn [bytes_eq] in Hne. rewrite E in Hne.
      cbn [andb] in Hne. exact (IH s k r Hkw Hs Hk Hne H).
Qed.

Lemma keyword_not_ident kw s k :
  forallb identch kw = true -> is_ident s = true -> hd_sat (fun b => negb (identch b)) k = true ->
  bytes_eq s kw = false -> is_perr (p_keyword kw (s ++ k)).
Proof.
  intros Hkw Hs Hk Hne. unfold p_keyword, tag. destruct (strip_prefix kw (s ++ k)) as [r|] eqn:E; [|exact I].
  destruct (strip_prefix_word kw s k r Hkw (ident_forall s Hs) Hk Hne E) as [c [r' [-> Hc]]].
  cbn [pbind]. unfold peek, not_. destruct (aoru_ok c r' Hc) as [cp ->]. exact I.
Qed.

(* ---------- blanks ---------- *)

Definition cmt1 : parser (list byte) := fun i => do i, _ <- tag cmt_line_open i ;; take_till (fun b => bmem b cmt_line_stop) i.
Definition cmt2 : parser (list byte) := fun i => do i, _ <- tag cmt_block_open i ;;
  do i, c <- take_until cmt_block_until i ;; do i, _ <- tag cmt_block_close i ;; POk i c.
Definition cmt3 : parser (list byte) := fun i => do i, _ <- tag cmt_hash_open i ;; take_till (fun b => bmem b cmt_hash_stop) i.
Lemma p_comment_eq k : p_comment k = alt [cmt1; cmt2; cmt3] k.
Proof. reflexivity. Qed.

Lemma comment_err_hd k : hd_sat (fun b => negb (Byte.eqb b x2f || Byte.eqb b x23)) k = true -> is_perr (p_comment k).
Proof.
  intros H. rewrite p_comment_eq.
  assert (T : forall c t, (Byte.eqb c x2f || Byte.eqb c x23) = true -> is_perr (tag (c :: t) k)).
  { intros c t Hc. destruct k as [|b k]; [exact I|]. apply tag_hd_ne. cbn in H.
    destruct (Byte.eqb b c) eqn:E; [|reflexivity]. apply byte_dec_bl in E. subst. rewrite Hc in H. discriminate. }
  rewrite alt_err by (apply pbind_err, (T x2f [x2f]); reflexivity).
  rewrite alt_err by (apply pbind_err, (T x2f [x2a]); reflexivity).
  apply alt_last_err, pbind_err, (T x23 []). reflexivity.
Qed.

Lemma nb_comment_err k : nb k = true -> is_perr (p_comment k).
Proof.
  intros H. apply comment_err_hd. revert H. apply hd_sat_imp. intros b. unfold blank_start.
  destruct (is_space b), (Byte.eqb b x2f), (Byte.eqb b x23); cbn; auto.
Qed.

Lemma nb_space_err k : nb k = true -> is_perr (multispace1 k).
Proof.
  intros H. unfold multispace1, span1. destruct k as [|b k]; [exact I|]. cbn in H. cbn [span].
  unfold blank_start in H. destruct (is_space b); [discriminate|]. exact I.
Qed.

Lemma nb_item_err k : nb k = true -> is_perr (alt [p_comment; multispace1] k).
Proof.
  intros H. rewrite alt_err by now apply nb_comment_err. apply alt_last_err. now apply nb_space_err.
Qed.

Lemma space_not_comment b : is_space b = true -> (Byte.eqb b x2f || Byte.eqb b x23) = false.
Proof. destruct b; vm_compute; intro H; try reflexivity; discriminate H. Qed.

Lemma find_star_slash body : forall k, no_star_slash body = true ->
  find_sub [x2a; x2f] (body ++ x2a :: x2f :: k) = Some (body, x2a :: x2f :: k).
Proof.
  induction body as [|b l IH]; intros k H.
  - reflexivity.
  - cbn [no_star_slash] in H. apply andb_prop in H. destruct H as [H1 H2].
    cbn [app find_sub]. rewrite (IH k H2).
    assert (E : strip_prefix [x2a; x2f] (b :: l ++ x2a :: x2f :: k) = None).
    { cbn [strip_prefix]. destruct (Byte.eqb b x2a) eqn:Eb; [|reflexivity]. cbn [andb] in H1.
      destruct l as [|c l']; cbn [app].
      - reflexivity.
      - apply negb_true_iff in H1. now rewrite H1. }
    now rewrite E.
Qed.

(* what follows an atom inside a well-formed blank, or the blank as a whole *)
Definition atom_follow (a : batom) (r : list byte) : Prop :=
  match a with
  | BWs _ => hd_sat (fun b => negb (is_space b)) r = true
  | BLine _ | BHash _ => r = [] \/ exists r', r = x0a :: r'
  | BBlock _ => True
  end.

Lemma item_atom a r : wf_atom a = true -> atom_follow a r ->
  exists v, alt [p_comment; multispace1] (pr_atom a r) = POk r v /\ same_len r (pr_atom a r) = false.
Proof.
  intros Hw Hf. destruct a as [ws|body|body|body]; cbn [wf_atom pr_atom atom_follow] in *.
  - apply andb_prop in Hw. destruct Hw as [Hn Hs]. destruct ws as [|w ws]; [discriminate|].
    exists (w :: ws). split.
    + rewrite alt_err.
      * cbn [alt]. unfold multispace1, span1. rewrite (span_app_stop is_space (w :: ws) r Hs Hf). reflexivity.
      * apply comment_err_hd. cbn. cbn [forallb] in Hs. apply andb_prop in Hs. destruct Hs as [Hw _].
        now rewrite (space_not_comment w Hw).
    + apply same_len_app_false. discriminate.
  - assert (Hr : hd_sat (fun b => negb (negb (bmem b [x0a]))) r = true) by (destruct Hf as [-> | [r' ->]]; reflexivity).
    exists body. split.
    + apply alt_ok. rewrite p_comment_eq. apply alt_ok. unfold cmt1. change cmt_line_open with (txt "//"). rewrite tag_ok. cbn [pbind].
      unfold take_till, take_while. change cmt_line_stop with [x0a].
      rewrite (span_app_stop (fun b => negb (bmem b [x0a])) body r); [reflexivity| |exact Hr].
      eapply forallb_forall. intros x Hx. rewrite forallb_forall in Hw. specialize (Hw x Hx). cbn [bmem].
      unfold is_nl in Hw. now rewrite orb_false_r.
    + apply (same_len_app_false (txt "//" ++ body)). discriminate.
  - assert (Hr : hd_sat (fun b => negb (negb (bmem b [x0a]))) r = true) by (destruct Hf as [-> | [r' ->]]; reflexivity).
    exists body. split.
    + apply alt_ok. rewrite p_comment_eq. rewrite alt_err by exact I. rewrite alt_err by exact I.
      cbn [alt]. unfold cmt3. change cmt_hash_open with (txt "#"). rewrite tag_ok. cbn [pbind].
      unfold take_till, take_while. change cmt_hash_stop with [x0a].
      rewrite (span_app_stop (fun b => negb (bmem b [x0a])) body r); [reflexivity| |exact Hr].
      eapply forallb_forall. intros x Hx. rewrite forallb_forall in Hw. specialize (Hw x Hx). cbn [bmem].
      unfold is_nl in Hw. now rewrite orb_false_r.
    + apply (same_len_app_false (txt "#" ++ body)). discriminate.
  - exists body. split.
    + apply alt_ok. rewrite p_comment_eq. rewrite alt_err by exact I. apply alt_ok.
      unfold cmt2. change cmt_block_open with (txt "/*"). rewrite tag_ok. cbn [pbind]. unfold take_until.
      change cmt_block_until with [x2a; x2f]. change (txt "*/" ++ r) with (x2a :: x2f :: r).
      rewrite (find_star_slash body r Hw). cbn [pbind]. change cmt_block_close with [x2a; x2f].
      change (x2a :: x2f :: r) with ([x2a; x2f] ++ r). rewrite tag_ok. reflexivity.
    + replace (txt "/*" ++ body ++ txt "*/" ++ r) with ((txt "/*" ++ body ++ txt "*/") ++ r)
        by (rewrite <- !app_assoc; reflexivity).
      apply same_len_app_false. discriminate.
Qed.

Lemma blank_head_follow a bl k : adj_ok a bl = true -> wf_blank bl = true -> nb k = true -> atom_follow a (pr_blank bl k).
Proof.
  intros Ha Hw Hk. destruct a as [ws|body|body|body]; cbn [adj_ok atom_follow] in *.
  - destruct bl as [|a' bl']; cbn [pr_blank].
    + revert Hk. apply hd_sat_imp. intros b. unfold blank_start. destruct (is_space b); cbn; auto.
    + destruct a' as [ws'|b'|b'|b']; [discriminate| | |]; reflexivity.
  - destruct bl as [|[[|b ws']|?|?|?] bl']; try discriminate. unfold is_nl in Ha. apply byte_dec_bl in Ha. subst b.
    cbn [pr_blank pr_atom app]. eauto.
  - destruct bl as [|[[|b ws']|?|?|?] bl']; try discriminate. unfold is_nl in Ha. apply byte_dec_bl in Ha. subst b.
    cbn [pr_blank pr_atom app]. eauto.
  - exact I.
Qed.

(* the same at the end of input: the last atom may be an unterminated line comment *)
Lemma wf_blank_eof_of bl : wf_blank bl = true -> wf_blank_eof bl = true.
Proof.
  induction bl as [|a bl IH]; [reflexivity|]. cbn [wf_blank wf_blank_eof]. intros H.
  apply andb_prop in H. destruct H as [H H3]. apply andb_prop in H. destruct H as [H1 H2]. rewrite H1, (IH H3).
  destruct a; cbn [adj_ok_eof]; try (now rewrite H2); destruct bl; try (now rewrite H2); discriminate.
Qed.

Lemma blank_head_follow_eof a bl : adj_ok_eof a bl = true -> wf_blank_eof bl = true -> atom_follow a (pr_blank bl []).
Proof.
  intros Ha Hw. destruct a as [ws|body|body|body]; cbn [adj_ok_eof adj_ok atom_follow] in *.
  - destruct bl as [|a' bl']; cbn [pr_blank]; [reflexivity|].
    destruct a' as [ws'|b'|b'|b']; [destruct bl'; discriminate| | |]; reflexivity.
  - destruct bl as [|[[|b ws']|?|?|?] bl']; try discriminate; [left; reflexivity|]. unfold is_nl in Ha. apply byte_dec_bl in Ha. subst b.
    cbn [pr_blank pr_atom app]. eauto.
  - destruct bl as [|[[|b ws']|?|?|?] bl']; try discriminate; [left; reflexivity|]. unfold is_nl in Ha. apply byte_dec_bl in Ha. subst b.
    cbn [pr_blank pr_atom app]. eauto.
  - exact I.
Qed.

Lemma sfx_len_atom a r : length r <= length (pr_atom a r).
Proof. destruct a; cbn [pr_atom]; repeat rewrite app_length; lia. Qed.

Lemma lt_len_atom a r : wf_atom a = true -> length r < length (pr_atom a r).
Proof.
  destruct a as [ws|b|b|b]; cbn [pr_atom wf_atom]; intros H; repeat rewrite app_length; cbn [length txt]; try (cbn; lia).
  apply andb_prop in H. destruct H as [H _]. destruct ws; [discriminate|cbn [length]; lia].
Qed.

Lemma blank_loop : forall bl k fuel, wf_blank bl = true -> nb k = true -> length (pr_blank bl k) < fuel ->
  exists l, many1_loop fuel (alt [p_comment; multispace1]) (pr_blank bl k) = POk k l.
Proof.
  induction bl as [|a bl IH]; intros k fuel Hw Hk Hf.
  - cbn [pr_blank] in *. destruct fuel as [|f]; [lia|]. cbn [many1_loop].
    pose proof (nb_item_err k Hk) as E. destruct (alt [p_comment; multispace1] k); cbn in E; try contradiction. eauto.
  - cbn [wf_blank] in Hw. apply andb_prop in Hw. destruct Hw as [Hw Hw3]. apply andb_prop in Hw. destruct Hw as [Hw1 Hw2].
    cbn [pr_blank] in *. destruct fuel as [|f]; [lia|]. cbn [many1_loop].
    destruct (item_atom a (pr_blank bl k) Hw1 (blank_head_follow a bl k Hw2 Hw3 Hk)) as [v [E1 E2]].
    rewrite E1, E2. pose proof (lt_len_atom a (pr_blank bl k) Hw1).
    destruct (IH k f Hw3 Hk ltac:(lia)) as [l ->]. cbn [pbind]. eauto.
Qed.

Lemma rt_blank lf bl k : wf_blank bl = true -> bl <> [] -> nb k = true -> length (pr_blank bl k) < lf ->
  p_blank lf (pr_blank bl k) = POk k tt.
Proof.
  intros Hw Hne Hk Hf. destruct bl as [|a bl]; [contradiction|].
  cbn [wf_blank] in Hw. apply andb_prop in Hw. destruct Hw as [Hw Hw3]. apply andb_prop in Hw. destruct Hw as [Hw1 Hw2].
  unfold p_blank, many1. cbn [pr_blank] in *.
  destruct (item_atom a (pr_blank bl k) Hw1 (blank_head_follow a bl k Hw2 Hw3 Hk)) as [v [E1 _]]. rewrite E1.
  pose proof (sfx_len_atom a (pr_blank bl k)).
  destruct (blank_loop bl k lf Hw3 Hk ltac:(lia)) as [l ->]. reflexivity.
Qed.

Lemma blank_err lf k : nb k = true -> is_perr (p_blank lf k).
Proof.
  intros H. unfold p_blank, many1. pose proof (nb_item_err k H) as E.
  destruct (alt [p_comment; multispace1] k); cbn in E; try contradiction. exact I.
Qed.

Lemma blank_loop_eof : forall bl fuel, wf_blank_eof bl = true -> length (pr_blank bl []) < fuel ->
  exists l, many1_loop fuel (alt [p_comment; multispace1]) (pr_blank bl []) = POk [] l.
Proof.
  induction bl as [|a bl IH]; intros fuel Hw Hf.
  - cbn [pr_blank] in *. destruct fuel as [|f]; [lia|]. cbn [many1_loop].
    pose proof (nb_item_err [] eq_refl) as E. destruct (alt [p_comment; multispace1] []); cbn in E; try contradiction. eauto.
  - cbn [wf_blank_eof] in Hw. apply andb_prop in Hw. destruct Hw as [Hw Hw3]. apply andb_prop in Hw. destruct Hw as [Hw1 Hw2].
    cbn [pr_blank] in *. destruct fuel as [|f]; [lia|]. cbn [many1_loop].
    destruct (item_atom a (pr_blank bl []) Hw1 (blank_head_follow_eof a bl Hw2 Hw3)) as [v [E1 E2]].
    rewrite E1, E2. pose proof (lt_len_atom a (pr_blank bl []) Hw1).
    destruct (IH f Hw3 ltac:(lia)) as [l ->]. cbn [pbind]. eauto.
Qed.

(* a blank at the end of input *)
Lemma rt_blank_eof lf bl : wf_blank_eof bl = true -> bl <> [] -> length (pr_blank bl []) < lf ->
  p_blank lf (pr_blank bl []) = POk [] tt.
Proof.
  intros Hw Hne Hf. destruct bl as [|a bl]; [contradiction|].
  cbn [wf_blank_eof] in Hw. apply andb_prop in Hw. destruct Hw as [Hw Hw3]. apply andb_prop in Hw. destruct Hw as [Hw1 Hw2].
  unfold p_blank, many1. cbn [pr_blank] in *.
  destruct (item_atom a (pr_blank bl []) Hw1 (blank_head_follow_eof a bl Hw2 Hw3)) as [v [E1 _]]. rewrite E1.
  pose proof (sfx_len_atom a (pr_blank bl [])).
  destruct (blank_loop_eof bl lf Hw3 ltac:(lia)) as [l ->]. reflexivity.
Qed.

(* an optional blank slot at the end of input *)
Lemma rt_oblank_eof lf bl : wf_blank_eof bl = true -> length (pr_blank bl []) < lf ->
  exists o, opt (p_blank lf) (pr_blank bl []) = POk [] o.
Proof.
  intros Hw Hf. destruct bl as [|a bl].
  - cbn [pr_blank]. exists None. apply opt_err, blank_err. reflexivity.
  - exists (Some tt). apply opt_ok, rt_blank_eof; auto. discriminate.
Qed.

(* an optional blank slot filled with any well-formed blank, possibly empty *)
Lemma rt_oblank lf bl k : wf_blank bl = true -> nb k = true -> length (pr_blank bl k) < lf ->
  exists o, opt (p_blank lf) (pr_blank bl k) = POk k o.
Proof.
  intros Hw Hk Hf. destruct bl as [|a bl].
  - cbn [pr_blank]. exists None. apply opt_err, blank_err, Hk.
  - exists (Some tt). apply opt_ok, rt_blank; auto. discriminate.
Qed.

(* the head of a non-empty well-formed blank is a blank start *)
Lemma blank_head bl k : wf_blank bl = true -> bl <> [] -> exists b r, pr_blank bl k = b :: r /\ blank_start b = true.
Proof.
  intros Hw Hne. destruct bl as [|a bl]; [contradiction|]. cbn [wf_blank] in Hw.
  apply andb_prop in Hw. destruct Hw as [Hw _]. apply andb_prop in Hw. destruct Hw as [Hw _].
  destruct a as [ws|body|body|body]; cbn [pr_blank pr_atom wf_atom] in *.
  - apply andb_prop in Hw. destruct Hw as [Hn Hs]. destruct ws as [|w ws]; [discriminate|]. cbn [forallb] in Hs.
    apply andb_prop in Hs. exists w, (ws ++ pr_blank bl k). split; [reflexivity|]. unfold blank_start. destruct Hs as [-> _]. reflexivity.
  - eexists _, _. split; [reflexivity|]. reflexivity.
  - eexists _, _. split; [reflexivity|]. reflexivity.
  - eexists _, _. split; [reflexivity|]. reflexivity.
Qed.

(* ---------- list separators ---------- *)
Lemma rt_sep lf s k : wf_sep s = true -> nb k = true -> hd_sat (fun b => negb (bmem b set_list_separator)) k = true ->
  length (pr_sep s k) < lf ->
  exists o, opt (p_list_separator lf) (pr_sep s k) = POk k o.
Proof.
  intros Hw Hk Hs Hf. destruct s as [|semi bl]; cbn [pr_sep wf_sep] in *.
  - exists None. apply opt_err. unfold p_list_separator. apply pbind_err. destruct k as [|b k]; [exact I|].
    cbn [hd_sat] in Hs. cbn [one_of]. destruct (bmem b set_list_separator); [discriminate|exact I].
  - cbn [length] in Hf. destruct (rt_oblank lf bl k Hw Hk ltac:(lia)) as [o E].
    exists (Some (sep_byte semi)). apply opt_ok. unfold p_list_separator. cbn [one_of].
    assert (M : bmem (sep_byte semi) set_list_separator = true) by (destruct semi; reflexivity).
    rewrite M. cbn [pbind]. rewrite E. reflexivity.
Qed.

(* ---------- literals ---------- *)
Lemma same_len_refl {A} (l : list A) : same_len l l = true.
Proof. induction l; cbn [same_len]; auto. Qed.

Lemma same_len_app_false' {A} (pre i : list A) : pre <> [] -> same_len i (pre ++ i) = false.
Proof. apply same_len_app_false. Qed.

Lemma byte_eqb_refl b : Byte.eqb b b = true.
Proof. apply byte_dec_lb. reflexivity. Qed.

Section Quote.
Variable q : byte.
Variable none_set : list byte.
Hypothesis Hset : forall b, bmem b none_set = Byte.eqb b x5c || Byte.eqb b q.
Hypothesis Hq : Byte.eqb q x5c = false.

Let normal := none_of none_set.
Let escapable := one_of [x27; x22; x6e; x5c].

Lemma escaped_walk : forall fuel body pre k,
  lit_body_ok q body = true -> pre ++ body <> [] -> length (body ++ q :: k) < fuel ->
  escaped_loop fuel normal x5c escapable (pre ++ body ++ q :: k) (body ++ q :: k) = POk (q :: k) (pre ++ body).
Proof.
  induction fuel as [|f IH]; intros body pre k Hb Hne Hf; [lia|].
  destruct body as [|b l].
  - cbn [app] in *. cbn [escaped_loop]. unfold normal at 1. cbn [none_of]. rewrite Hset, (byte_eqb_refl q), orb_true_r.
    rewrite Hq. rewrite app_nil_r in Hne. rewrite (same_len_app_false pre (q :: k) Hne).
    rewrite consumed_app, app_nil_r. reflexivity.
  - cbn [lit_body_ok] in Hb. cbn [app escaped_loop]. unfold normal at 1. cbn [none_of]. rewrite Hset.
    destruct (Byte.eqb b x5c) eqn:Eb.
    + cbn [orb]. destruct l as [|c l']; [discriminate|]. apply andb_prop in Hb. destruct Hb as [Hc Hb].
      cbn [app]. unfold escapable at 1. cbn [one_of]. rewrite Hc.
      assert (N : is_nil (l' ++ q :: k) = false) by (destruct l'; reflexivity). rewrite N.
      apply byte_dec_bl in Eb. subst b.
      replace (pre ++ x5c :: c :: l' ++ q :: k) with ((pre ++ [x5c; c]) ++ l' ++ q :: k) by (rewrite <- app_assoc; reflexivity).
      rewrite IH; [rewrite <- app_assoc; reflexivity|assumption|destruct pre; discriminate|].
      cbn [app length] in Hf. lia.
    + cbn [orb]. apply andb_prop in Hb. destruct Hb as [Hnq Hb]. apply negb_true_iff in Hnq. rewrite Hnq.
      assert (N : is_nil (l ++ q :: k) = false) by (destruct l; reflexivity). rewrite N.
      assert (SL : same_len (l ++ q :: k) (b :: l ++ q :: k) = false) by (apply (same_len_app_false [b]); discriminate).
      rewrite SL.
      replace (pre ++ b :: l ++ q :: k) with ((pre ++ [b]) ++ l ++ q :: k) by (rewrite <- app_assoc; reflexivity).
      rewrite IH; [rewrite <- app_assoc; reflexivity|assumption|destruct pre; discriminate|].
      cbn [app length] in Hf. lia.
Qed.

Lemma rt_quote lf body k : lit_body_ok q body = true -> length (body ++ q :: k) < lf ->
  set_escapable = [x27; x22; x6e; x5c] -> one_byte lit_ctrl = x5c -> lit_empty = [] ->
  p_quote_parser lf [q] none_set (q :: body ++ q :: k) = POk k body.
Proof.
  intros Hb Hf E1 E2 E3. unfold p_quote_parser. rewrite E1, E2, E3.
  change (q :: body ++ q :: k) with ([q] ++ body ++ q :: k). rewrite tag_ok. cbn [pbind].
  destruct body as [|b l].
  - cbn [app]. rewrite alt_err.
    + cbn [alt]. change (tag [] (q :: k)) with (POk (q :: k) (@nil byte)). cbn [pbind].
      change (q :: k) with ([q] ++ k). rewrite tag_ok. reflexivity.
    + unfold escaped. destruct lf as [|f]; [lia|]. cbn [escaped_loop none_of]. rewrite Hset, (byte_eqb_refl q), orb_true_r.
      rewrite Hq, same_len_refl. exact I.
  - erewrite alt_ok.
    2:{ unfold escaped. apply (escaped_walk lf (b :: l) [] k Hb); [discriminate|exact Hf]. }
    cbn [pbind app]. change (q :: k) with ([q] ++ k). rewrite tag_ok. reflexivity.
Qed.
End Quote.

Lemma rt_literal lf l k : wf_lit l = true -> length (pr_lit l k) < lf -> p_literal lf (pr_lit l k) = POk k (erase_lit l).
Proof.
  intros Hw Hf. destruct l as [dq body]. unfold wf_lit, pr_lit, erase_lit in *. cbn [l_dq l_body] in *.
  cbn [length] in Hf. unfold p_literal. destruct dq; cbn [quote_of] in *.
  - rewrite alt_err.
    + cbn [alt]. unfold p_double_quote. change lit_quote_double with [x22].
      apply rt_quote; try reflexivity; try assumption; try lia.
      intros b. change set_none_of_double with [x5c; x22]. cbn [bmem]. now rewrite orb_false_r.
    + unfold p_single_quote, p_quote_parser. apply pbind_err. exact I.
  - apply alt_ok. unfold p_single_quote. change lit_quote_single with [x27].
    apply rt_quote; try reflexivity; try assumption; try lia.
    intros b. change set_none_of_single with [x5c; x27]. cbn [bmem]. now rewrite orb_false_r.
Qed.
