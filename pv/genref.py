"""Independent reference codec for schema-typed Thrift values (values / schema as in pv/gengen.py).

Written from the Apache Thrift protocol specifications (doc/specs/thrift-binary-protocol.md and
thrift-compact-protocol.md), NOT from pilota:

 binary : bool 1 byte (0/1); i8; i16/i32/i64 big endian two's complement; double IEEE-754 big endian;
          binary/string i32 length + bytes; uuid 16 bytes; struct = fields (type byte, i16 id, value)* 0x00;
          list/set = elem type byte, i32 count, elems; map = key type, value type, i32 count, pairs.
          type ids: bool 2, i8 3, double 4, i16 6, i32 8, i64 10, binary 11, struct 12, map 13, set 14, list 15, uuid 16.
 compact: i16/i32/i64 zigzag + ULEB128 varint; i8 one byte; double 8 bytes LITTLE endian; binary varint length + bytes;
          uuid 16 bytes; field header `dddd tttt` (delta 1..15 from the previous field id of THIS struct) or
          `0000 tttt` + zigzag varint id; bool fields carry the value in the type nibble (1 true, 2 false);
          stop 0x00; list/set header `ssss tttt` (size < 15) or `1111 tttt` + varint size; bool elements 1 byte
          (1 true, 2 false); map = 0x00 when empty, else varint size + `kkkk vvvv` + pairs.
          compact type ids: true 1, false 2, i8 3, i16 4, i32 5, i64 6, double 7, binary 8, list 9, set 10, map 11, struct 12, uuid 13.
 binary_le: pilota's own little-endian variant of binary (not an Apache protocol): same layout, every
          fixed-width integer / double / length little endian.
"""
import struct as _st

BIN_T = {'bool': 2, 'i8': 3, 'double': 4, 'i16': 6, 'i32': 8, 'i64': 10, 'string': 11, 'binary': 11,
         'struct': 12, 'map': 13, 'set': 14, 'list': 15, 'uuid': 16}
CMP_T = {'bool': 1, 'i8': 3, 'i16': 4, 'i32': 5, 'i64': 6, 'double': 7, 'string': 8, 'binary': 8,
         'list': 9, 'set': 10, 'map': 11, 'struct': 12, 'uuid': 13}
BIN_OF = {2: 'bool', 3: 'i8', 4: 'double', 6: 'i16', 8: 'i32', 10: 'i64', 11: 'binary', 12: 'struct', 13: 'map', 14: 'set', 15: 'list', 16: 'uuid'}
CMP_OF = {1: 'bool', 2: 'bool', 3: 'i8', 4: 'i16', 5: 'i32', 6: 'i64', 7: 'double', 8: 'binary', 9: 'list', 10: 'set', 11: 'map', 12: 'struct', 13: 'uuid'}


class RefError(Exception):
    pass


def wire_kind(sch, ty):
    """'bool' 'i8' .. 'binary' 'struct' 'list' 'set' 'map' 'uuid' (string -> binary, enum -> i32)"""
    t = sch.resolve(ty)
    if t[0] == 'ref':
        return 'i32' if sch.types[t[1]]['kind'] == 'enum' else 'struct'
    if t[0] == 'string':
        return 'binary'
    return t[0]


def varint(n):
    out = bytearray()
    while n >= 0x80:
        out.append((n & 0x7f) | 0x80)
        n >>= 7
    out.append(n)
    return bytes(out)


def zigzag(n, bits):
    return ((n << 1) ^ (n >> (bits - 1))) & ((1 << bits) - 1)


def unzigzag(n):
    return (n >> 1) ^ -(n & 1)


# ------------------------------------------------------------------ encoder

class Enc:
    def __init__(self, sch, proto):
        self.sch, self.proto = sch, proto
        self.le = proto == 'binary_le'
        self.compact = proto == 'compact'

    def fixed(self, n, width):
        return (n & ((1 << (8 * width)) - 1)).to_bytes(width, 'little' if self.le else 'big')

    def value(self, ty, v):
        sch = self.sch
        t = sch.resolve(ty)
        k = t[0]
        c = self.compact
        if k == 'bool':
            return bytes([(1 if v else 2) if c else (1 if v else 0)])
        if k == 'i8':
            return bytes([v & 0xff])
        if k == 'i16':
            return varint(zigzag(v, 16)) if c else self.fixed(v, 2)
        if k == 'i32':
            return varint(zigzag(v, 32)) if c else self.fixed(v, 4)
        if k == 'i64':
            return varint(zigzag(v, 64)) if c else self.fixed(v, 8)
        if k == 'double':
            return v.to_bytes(8, 'little' if (c or self.le) else 'big')
        if k in ('string', 'binary'):
            return (varint(len(v)) if c else self.fixed(len(v), 4)) + v
        if k == 'uuid':
            assert len(v) == 16
            return v
        if k in ('list', 'set'):
            et = wire_kind(sch, t[1])
            if c:
                hdr = bytes([(len(v) << 4) | CMP_T[et]]) if len(v) < 15 else bytes([0xf0 | CMP_T[et]]) + varint(len(v))
            else:
                hdr = bytes([BIN_T[et]]) + self.fixed(len(v), 4)
            return hdr + b''.join(self.value(t[1], x) for x in v)
        if k == 'map':
            kt, vt = wire_kind(sch, t[1]), wire_kind(sch, t[2])
            if c:
                hdr = b'\x00' if not v else varint(len(v)) + bytes([(CMP_T[kt] << 4) | CMP_T[vt]])
            else:
                hdr = bytes([BIN_T[kt], BIN_T[vt]]) + self.fixed(len(v), 4)
            return hdr + b''.join(self.value(t[1], a) + self.value(t[2], b) for a, b in v)
        if k == 'void':
            return b'\x00'          # an empty struct
        d = sch.types[t[1]]
        if d['kind'] == 'enum':
            return varint(zigzag(v, 32)) if c else self.fixed(v, 4)
        if d['kind'] == 'struct':
            return b''.join(b for _, b in self.struct_fields(t[1], v)) + b'\x00'
        if d['kind'] == 'union':
            var = [x for x in d['variants'] if x['id'] == v[0]][0]
            if var['ty'] == ('void',):
                return b'\x00'       # a void result: the reply struct carries no field at all
            h, _ = self.field(0, var['id'], var['ty'], v[1])
            return h + b'\x00'
        raise RefError('type %r' % (ty,))

    def field_header(self, last, fid, kind, boolval=None):
        if self.compact:
            tcode = (1 if boolval else 2) if kind == 'bool' else CMP_T[kind]
            delta = fid - last
            if 0 < delta <= 15:
                return bytes([(delta << 4) | tcode]), fid
            return bytes([tcode]) + varint(zigzag(fid, 16)), fid
        return bytes([BIN_T[kind]]) + self.fixed(fid, 2), fid

    def field(self, last, fid, ty, v):
        kind = wire_kind(self.sch, ty)
        if self.compact and kind == 'bool':
            h, last = self.field_header(last, fid, 'bool', bool(v))
            return h, last
        h, last = self.field_header(last, fid, kind)
        return h + self.value(ty, v), last

    def struct_fields(self, name, v, order=None):
        """[(field id, bytes of the whole field)] in the order written"""
        d = self.sch.types[name]
        out, last = [], 0
        fs = d['fields']
        if order is not None:
            fs = [f for i in order for f in d['fields'] if f['id'] == i]
        for f in fs:
            if f['id'] in v:
                b, last = self.field(last, f['id'], f['ty'], v[f['id']])
                out.append((f['id'], b))
        return out


def encode(sch, ty, v, proto):
    return Enc(sch, proto).value(ty, v)


# ------------------------------------------------------------------ decoder

class Dec:
    def __init__(self, sch, proto, data, strict=True):
        self.sch, self.proto, self.b, self.i = sch, proto, data, 0
        self.le = proto == 'binary_le'
        self.compact = proto == 'compact'
        self.notes = []         # unknown / mistyped fields met while decoding
        self.strict = strict
        self.depth = 0

    def take(self, n):
        if n < 0 or self.i + n > len(self.b):
            raise RefError('truncated: need %d bytes at %d of %d' % (n, self.i, len(self.b)))
        x = self.b[self.i:self.i + n]
        self.i += n
        return x

    def fixed(self, width, signed=True):
        return int.from_bytes(self.take(width), 'little' if self.le else 'big', signed=signed)

    def varint(self):
        n, shift = 0, 0
        while True:
            b = self.take(1)[0]
            n |= (b & 0x7f) << shift
            if b < 0x80:
                return n
            shift += 7
            if shift > 70:
                raise RefError('varint too long')

    def size(self):
        n = self.varint() if self.compact else self.fixed(4)
        if n < 0 or n > len(self.b) - self.i + 0:
            if n < 0 or n > len(self.b):
                raise RefError('bad size %d' % n)
        return n

    def kind_of(self, code):
        m = CMP_OF if self.compact else BIN_OF
        if code not in m:
            raise RefError('bad type code %d' % code)
        return m[code]

    def value(self, ty, boolval=None):
        sch = self.sch
        t = sch.resolve(ty)
        k = t[0]
        c = self.compact
        if k == 'bool':
            if boolval is not None:
                return boolval
            b = self.take(1)[0]
            if c:
                if b not in (1, 2, 0):
                    raise RefError('bad compact bool %d' % b)
                return b == 1
            return b != 0
        if k == 'i8':
            return int.from_bytes(self.take(1), 'big', signed=True)
        if k in ('i16', 'i32', 'i64'):
            w = {'i16': 2, 'i32': 4, 'i64': 8}[k]
            if c:
                v = unzigzag(self.varint())
                if not -(1 << (8 * w - 1)) <= v < (1 << (8 * w - 1)):
                    raise RefError('%s out of range' % k)
                return v
            return self.fixed(w)
        if k == 'double':
            return int.from_bytes(self.take(8), 'little' if (c or self.le) else 'big')
        if k in ('string', 'binary'):
            return self.take(self.size())
        if k == 'uuid':
            return self.take(16)
        if k in ('list', 'set'):
            n, ek = self.coll_header()
            if n and ek != wire_kind(sch, t[1]):
                raise RefError('element type %s, declared %s' % (ek, wire_kind(sch, t[1])))
            return [self.value(t[1]) for _ in range(n)]
        if k == 'map':
            n, kk, vk = self.map_header()
            if n and (kk != wire_kind(sch, t[1]) or vk != wire_kind(sch, t[2])):
                raise RefError('map types %s/%s, declared %s/%s' % (kk, vk, wire_kind(sch, t[1]), wire_kind(sch, t[2])))
            return [(self.value(t[1]), self.value(t[2])) for _ in range(n)]
        if k == 'void':
            self.fields(None, lambda fid, kind, bv: self.skip(kind, bv))
            return None
        d = sch.types[t[1]]
        if d['kind'] == 'enum':
            return unzigzag(self.varint()) if c else self.fixed(4)
        if d['kind'] == 'struct':
            out = {}
            byid = {f['id']: f for f in d['fields']}
            def on(fid, kind, bv):
                f = byid.get(fid)
                if f is None:
                    self.notes.append(('unknown', t[1], fid, kind))
                    self.skip(kind, bv)
                elif wire_kind(sch, f['ty']) != kind:
                    self.notes.append(('mistyped', t[1], fid, kind))
                    self.skip(kind, bv)
                else:
                    if fid in out:
                        self.notes.append(('duplicate', t[1], fid, kind))
                    out[fid] = self.value(f['ty'], bv)
            self.fields(t[1], on)
            for f in d['fields']:
                if f['req'] == 'required' and f['id'] not in out:
                    self.notes.append(('missing-required', t[1], f['id'], None))
            return out
        if d['kind'] == 'union':
            got = []
            byid = {x['id']: x for x in d['variants']}
            def on(fid, kind, bv):
                x = byid.get(fid)
                if x is None:
                    self.notes.append(('unknown', t[1], fid, kind))
                    self.skip(kind, bv)
                elif x['ty'] == ('void',):
                    self.skip(kind, bv)
                    got.append((fid, None))
                elif wire_kind(sch, x['ty']) != kind:
                    self.notes.append(('mistyped', t[1], fid, kind))
                    self.skip(kind, bv)
                else:
                    got.append((fid, self.value(x['ty'], bv)))
            self.fields(t[1], on)
            if not got and d['variants'] and d['variants'][0]['ty'] == ('void',):
                return (d['variants'][0]['id'], None)
            if len(got) != 1:
                self.notes.append(('union-arity', t[1], len(got), None))
                return got[0] if got else None
            return got[0]
        raise RefError('type %r' % (ty,))

    def coll_header(self):
        if self.compact:
            h = self.take(1)[0]
            n = h >> 4
            if n == 15:
                n = self.varint()
            ek = self.kind_of(h & 15) if (n or h & 15) else 'bool'
        else:
            ek = self.kind_of(self.take(1)[0])
            n = self.fixed(4)
        if n < 0 or n > len(self.b) - self.i:
            raise RefError('bad container size %d' % n)
        return n, ek

    def map_header(self):
        if self.compact:
            n = self.varint()
            if n == 0:
                return 0, None, None
            h = self.take(1)[0]
            kk, vk = self.kind_of(h >> 4), self.kind_of(h & 15)
        else:
            kk, vk = self.kind_of(self.take(1)[0]), self.kind_of(self.take(1)[0])
            n = self.fixed(4)
        if n < 0 or n > len(self.b) - self.i:
            raise RefError('bad map size %d' % n)
        return n, kk, vk

    def fields(self, name, on):
        """struct body: calls on(field id, wire kind, bool value carried by a compact header or None)"""
        self.depth += 1
        if self.depth > 200:
            raise RefError('nesting too deep')
        last = 0
        while True:
            if self.compact:
                h = self.take(1)[0]
                if h == 0:
                    break
                tcode, delta = h & 15, h >> 4
                kind = self.kind_of(tcode)
                if delta:
                    fid = last + delta
                else:
                    fid = unzigzag(self.varint())
                last = fid
                on(fid, kind, (tcode == 1) if kind == 'bool' else None)
            else:
                tc = self.take(1)[0]
                if tc == 0:
                    break
                kind = self.kind_of(tc)
                fid = self.fixed(2)
                on(fid, kind, None)
        self.depth -= 1

    def skip(self, kind, boolval=None):
        c = self.compact
        if kind == 'bool':
            if boolval is None:
                self.take(1)
        elif kind == 'i8':
            self.take(1)
        elif kind in ('i16', 'i32', 'i64'):
            if c:
                self.varint()
            else:
                self.take({'i16': 2, 'i32': 4, 'i64': 8}[kind])
        elif kind == 'double':
            self.take(8)
        elif kind == 'binary':
            self.take(self.size())
        elif kind == 'uuid':
            self.take(16)
        elif kind == 'struct':
            self.fields(None, lambda fid, k, bv: self.skip(k, bv))
        elif kind in ('list', 'set'):
            n, ek = self.coll_header()
            for _ in range(n):
                self.skip(ek)
        elif kind == 'map':
            n, kk, vk = self.map_header()
            for _ in range(n):
                self.skip(kk)
                self.skip(vk)
        else:
            raise RefError('cannot skip ' + kind)


    def tree(self, kind, boolval=None):
        """schema-free reading of one value of the given wire kind (both protocols are self-describing): nested tuples with
        the elements of sets and the entries of maps SORTED (the one freedom an encoder has: the iteration order of a hash
        container); list elements and struct fields stay in wire order; scalars are kept exactly (doubles by their bits)"""
        c = self.compact
        if kind == 'bool':
            if boolval is not None:
                return ('bool', boolval)
            b = self.take(1)[0]
            return ('bool', (b == 1) if c else (b != 0))
        if kind == 'i8':
            return ('i8', self.take(1)[0])
        if kind in ('i16', 'i32', 'i64'):
            return (kind, unzigzag(self.varint()) if c else self.fixed({'i16': 2, 'i32': 4, 'i64': 8}[kind]))
        if kind == 'double':
            return ('double', int.from_bytes(self.take(8), 'little' if (c or self.le) else 'big'))
        if kind == 'binary':
            return ('binary', bytes(self.take(self.size())))
        if kind == 'uuid':
            return ('uuid', bytes(self.take(16)))
        if kind == 'struct':
            fs = []

            def on(fid, k, bv):
                fs.append((fid, k))             # stays if the value cannot be read
                fs[-1] = (fid, self.tree(k, bv))
            try:
                self.fields(None, on)
            except RefError:
                # the input ends exactly where a field header or the stop byte is due (the writer of an argument type of a keep
                # build, finding F-13a, re-emits retained stop bytes in place of its own): the struct is closed with a marker
                # that takes part in the comparison
                if self.i != len(self.b) or (fs and fs[-1] == 'EOF'):
                    raise
                fs.append('EOF')
            return ('struct', tuple(fs))
        if kind in ('list', 'set'):
            n, ek = self.coll_header()
            els = [self.tree(ek) for _ in range(n)]
            if kind == 'set':
                els.sort(key=repr)
            return (kind, ek if n else None, tuple(els))
        if kind == 'map':
            n, kk, vk = self.map_header()
            kvs = sorted(((self.tree(kk), self.tree(vk)) for _ in range(n)), key=repr)
            return ('map', kk, vk, tuple(kvs))
        raise RefError('cannot read ' + kind)


def wire_tree(data, proto, kind='struct'):
    """-> (tree, bytes consumed): see Dec.tree"""
    d = Dec(None, proto, data)
    return d.tree(kind), d.i


def decode(sch, ty, data, proto):
    """-> (value, bytes consumed, notes)"""
    d = Dec(sch, proto, data)
    v = d.value(ty)
    return v, d.i, d.notes


# ------------------------------------------------------------------ self test (spec examples)

def selftest():
    from . import gengen as g
    docs = [g.Doc('t', [
        g.Struct('P', [g.F(1, 'x', 'i32', 'required'), g.F(2, 'y', 'bool'), g.F(20, 'z', 'string'), g.F(3, 'l', g.L('i16')), g.F(4, 'm', g.M('string', 'double'))]),
        g.Union('U', [g.F(1, 'a', 'i32'), g.F(2, 'p', g.R('P'))]),
    ])]
    sch = g.lower_docs(docs)
    ty = ('ref', 't.P')
    v = {1: -2, 2: True, 20: b'hi', 3: [1, -1], 4: [(b'k', 0x3FF8000000000000)]}
    b = encode(sch, ty, v, 'binary')
    assert b.hex() == ('08' '0001' 'fffffffe' '02' '0002' '01' '0b' '0014' '00000002' '6869' '0f' '0003' '06' '00000002' '0001' 'ffff'
                       '0d' '0004' '0b04' '00000001' '00000001' '6b' '3ff8000000000000' '00'), b.hex()
    c = encode(sch, ty, v, 'compact')
    # field 1 i32: delta 1 type 5 -> 0x15, zigzag(-2)=3 ; field 2 bool true: delta 1 type 1 -> 0x11 ; field 20: delta 18 -> long form 0x08 + zigzag(20)=40
    # field 3: 20 -> 3 negative delta -> long form 0x09 + zigzag(3)=6, list header size 2 type i16(4) -> 0x24, zigzag(1)=2, zigzag(-1)=1
    # field 4: delta 1 type map(11) -> 0x1b, size 1, types binary(8)/double(7) -> 0x87, len 1 'k', double LE
    assert c.hex() == ('15' '03' '11' '08' '28' '02' '6869' '09' '06' '24' '02' '01' '1b' '01' '87' '01' '6b' '000000000000f83f' '00'), c.hex()
    for proto in ('binary', 'binary_le', 'compact'):
        e = encode(sch, ty, v, proto)
        w, n, notes = decode(sch, ty, e + b'zz', proto)
        assert w == v and n == len(e) and not notes, (proto, w, notes)
        u = (2, v)
        e = encode(sch, ('ref', 't.U'), u, proto)
        w, n, notes = decode(sch, ('ref', 't.U'), e, proto)
        assert w == u and n == len(e) and not notes
    assert varint(300) == b'\xac\x02' and zigzag(-1, 32) == 1 and zigzag(2147483647, 32) == 4294967294 and unzigzag(4294967295) == -2147483648

    # wire_tree: set / map order is the only freedom; list order, field order and scalar bytes are not
    docs2 = [g.Doc('w', [g.Struct('P', [g.F(1, 'x', 'i32', 'required'), g.F(2, 's', g.S('i32')), g.F(3, 'm', g.M('string', 'double')), g.F(4, 'l', g.L('i16'))])])]
    sch2 = g.lower_docs(docs2)
    v1 = {1: 7, 2: [1, 2, 3], 3: [(b'a', 1), (b'b', 2)], 4: [1, 2]}
    v2 = {1: 7, 2: [3, 1, 2], 3: [(b'b', 2), (b'a', 1)], 4: [1, 2]}
    v3 = dict(v2); v3[4] = [2, 1]
    for pr in ('binary', 'binary_le', 'compact'):
        a, b, c = [wire_tree(encode(sch2, ('ref', 'w.P'), v, pr), pr)[0] for v in (v1, v2, v3)]
        assert a == b and a != c, pr
    return True

if __name__ == '__main__':
    selftest()
    print('genref self-test ok')
