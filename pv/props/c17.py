"""C17 -- Code generation is deterministic.

proof gate      fam/bld/coq/Properties/C17.v (write_items / split / workspace permutation invariance, nested protobuf
                messages, inventory of unordered-iteration sites regenerated from the Rust sources)
                option sweep: every public Builder option is on in at least one corpus (ignore_unused true/false, touch, change_case,
                keep_unknown_fields, dedup, special_namings, common_crate_name, split, plugin, include_dirs); repeated builds in ONE process
                (--again) are compared as well as builds in different processes.  Builder::dedup (harness flag --dedup): a corpus with structurally equal items of one name in 12+ modules and in two files
                sharing one namespace, under thread counts 1, 2, 16 (few workers = many module groups per rayon split)
search/oracle   the REAL pilota-build (harness binary, path-depends on the repository) in independent child processes
                (fresh std RandomState / ahash / DashMap seeds per process -- confirmed by the `seeds` probe)
                x RAYON_NUM_THREADS in {1,2,3,5,8,16} x {single-file, split, workspace} on thrift and protobuf corpora
                built for the purpose; SHA-256 of every emitted file; two runs that differ = the replay
correspondence  the layout the model predicts (sequence of module paths, per module the sequence of item names / of
                split file names) from the builder's own list of codegen items vs the layout scraped from the output
"""
import hashlib, json, os, random, re, shutil, subprocess, time
from concurrent.futures import ThreadPoolExecutor
from .. import core, bldgen

FAM = core.Family("bld")
THREADS = [1, 2, 3, 5, 8, 16]
MODES = ["single", "split", "workspace"]
# keyed by the repository the run looks at (PV_REPO copies) and by the process: concurrent runs never share a work directory
WORK = os.path.join(core.CACHE, "bld", "c17_%s_%d" % ("repo" if os.path.realpath(core.REPO) == "/repo" else hashlib.sha1(os.path.realpath(core.REPO).encode()).hexdigest()[:8], os.getpid()))


# ------------------------------------------------------------------------------------------------ corpora
def corpora(rng, tier):
    out = []
    n_th = 2 if tier == "quick" else 7
    n_pb = 1 if tier == "quick" else 3
    # every public option of the Builder is switched on in at least one corpus (lib.rs: ignore_unused, touch, change_case,
    # keep_unknown_fields, dedup, special_namings, common_crate_name, split_generated_files = the split mode, plugin = the dump plugin,
    # include_dirs = the protobuf corpora)
    OPTS = [dict(flags=["--no-ignore-unused", "--keep", "--special-namings", "ID,UID,HTTP"]),
            dict(flags=["--no-change-case", "--common-crate-name", "shared_types"]),          # ignore_unused at its default (true)
            dict(flags=["--no-ignore-unused", "--no-change-case", "--keep"]),
            dict(flags=["--special-namings", "Ids,Foo", "--common-crate-name", "base"]),
            dict(flags=["--no-ignore-unused"])]
    for i in range(n_th):
        doc = bldgen.c17_thrift_corpus(random.Random(rng.randrange(1 << 30)), n_files=rng.choice([6, 8, 10]), items=rng.choice([6, 8]))
        out.append(dict(name="thrift%d" % i, kind="thrift", files=doc.texts(), entries=["main.thrift", "f1.thrift"], **OPTS[i % len(OPTS)]))
    # ignore_unused (default) + Builder::touch: several files of ~100 items, 40% touched, the rest unused
    for i in range(1 if tier == "quick" else 3):
        files, entries, touches, cg = bldgen.c17_touch_corpus(random.Random(rng.randrange(1 << 30)), n_files=rng.choice([4, 5, 6]), items=rng.choice([90, 100, 120]))
        out.append(dict(name="touch%d" % i, kind="thrift", files=files, entries=entries, touch=touches, collect=cg, flags=[], again=True,
                        threads=[1, 2, 16, 3, 1, 8, 2, 5], split_procs=3 if tier == "quick" else 12))
    # Builder::dedup: the scratch map of Codegen::duplicate is keyed by the bare item name and valid per module only
    for i in range(1 if tier == "quick" else 3):
        files, entries, names = bldgen.c17_dedup_corpus(random.Random(rng.randrange(1 << 30)), n_modules=rng.choice([8, 10, 12]))
        out.append(dict(name="dedup%d" % i, kind="thrift", files=files, entries=entries, dedup=names, threads=[1, 2, 16, 1, 2, 2, 1, 16],
                        flags=["--no-ignore-unused"]))
    # split-mode file names: case-colliding names of every kind together with the literal suffixed forms
    for i, (name, sd) in enumerate(bldgen.split_name_docs()[:1 if tier == "quick" else 3]):
        out.append(dict(name="splitnames%d" % i, kind="thrift", files=sd.texts(), entries=["main.thrift"], flags=["--no-ignore-unused"] + (["--no-change-case"] if i else [])))
    for i in range(n_pb):
        files = bldgen.c17_proto_corpus(random.Random(rng.randrange(1 << 30)), n_top=rng.choice([4, 6]), n_nested=rng.choice([4, 6]))
        out.append(dict(name="proto%d" % i, kind="pb", files=files, entries=["p0.proto", "p1.proto"],
                        flags=[["--no-ignore-unused"], [], ["--no-ignore-unused", "--no-change-case"]][i % 3]))
    return out


def write_corpus(c):
    d = os.path.join(WORK, "idl", c["name"])
    shutil.rmtree(d, ignore_errors=True)
    os.makedirs(d)
    for fn, t in c["files"].items():
        open(os.path.join(d, fn), "w").write(t)
    return d


# ------------------------------------------------------------------------------------------------ one builder run
def run_builder(hb, c, idl_dir, mode, threads, tag, timeout=900):
    out = os.path.join(WORK, "out", "%s_%s_%s" % (c["name"], mode, tag))
    shutil.rmtree(out, ignore_errors=True)
    os.makedirs(out)
    dump = os.path.join(out, "_dump.txt")
    if mode == "workspace":
        target = os.path.join(out, "ws")
        os.makedirs(target)
        open(os.path.join(target, "Cargo.toml"), "w").close()
        entries = c["entries"]
    else:
        target = os.path.join(out, "gen.rs")
        entries = c["entries"][:1]
    cmd = [hb, "gen", c["kind"], mode, target, "--dump", dump] + list(c.get("flags", ["--no-ignore-unused"]))
    if c.get("dedup"):
        cmd += ["--dedup", ",".join(c["dedup"])]
    for fn, names_ in c.get("touch") or []:
        cmd += ["--touch", "%s:%s" % (os.path.join(idl_dir, fn), ",".join(names_))]
    # a second build in the same process (fresh Builder, same options): the first process of every group, the first three for corpora marked `again`
    second = None
    if (c.get("again") and tag in ("p0", "p1", "p2")) or tag == "p0":
        second = os.path.join(out, "again")
        os.makedirs(second)
        if mode == "workspace":
            os.makedirs(os.path.join(second, "ws"))
            open(os.path.join(second, "ws", "Cargo.toml"), "w").close()
            cmd += ["--again", os.path.join(second, "ws")]
        else:
            cmd += ["--again", os.path.join(second, "gen.rs")]
    if c["kind"] == "pb":
        cmd += ["--include", idl_dir]
    cmd += ["--"] + [os.path.join(idl_dir, e) for e in entries]
    env = dict(core.ENV, RAYON_NUM_THREADS=str(threads))
    env.pop("RUST_LOG", None)
    t0 = time.time()
    try:
        p = subprocess.run(cmd, cwd=idl_dir, env=env, stdout=subprocess.PIPE, stderr=subprocess.PIPE, text=True, timeout=timeout)
        status = (p.stdout.strip().split("\n") or [""])[-1]
        rc = p.returncode
        err = p.stderr[-1500:]
    except subprocess.TimeoutExpired:
        status, rc, err = "TIMEOUT", -1, ""
    hashes, hashes2 = {}, {}
    for d, _, fs in os.walk(out):
        for f in fs:
            q = os.path.join(d, f)
            rel = os.path.relpath(q, out)
            if rel.endswith("Cargo.lock") or "/target/" in rel:
                continue
            h = hashlib.sha256(open(q, "rb").read()).hexdigest()
            if rel.startswith("again" + os.sep):
                hashes2[os.path.relpath(q, second)] = h
            else:
                hashes[rel] = h
    return dict(out=out, status=status, rc=rc, stderr=err, hashes=hashes, hashes_again=hashes2 if second else None, second=second, env=dict(RAYON_NUM_THREADS=threads, pid_tag=tag),
                wall=round(time.time() - t0, 2), cmd=cmd)


# ------------------------------------------------------------------------------------------------ layout scraping
DECL = re.compile(r"^\s*pub (?:struct|enum|trait|const|static) ([A-Za-z_#][A-Za-z0-9_#]*)")
MODOPEN = re.compile(r"^\s*pub mod ([A-Za-z_#][A-Za-z0-9_#]*) \{\s*$")
INCL = re.compile(r'^\s*include!\("([^"]+)"\);')
REPUB = re.compile(r"^\s*pub use ::")


def scrape(path, split, base_dir):
    """-> list of (module path tuple, [names]) in textual order; the outermost `pub mod <file stem>` is dropped.
    Item declarations are taken at the brace depth of their module only (not inside impl blocks).  In split mode
    the names are the files listed by the module's mod.rs (plus mod.rs itself)."""
    mods, stack, depth = [], [], 0
    cur = {}
    repub_mods = []
    for ln in open(path, encoding="utf-8"):
        m = MODOPEN.match(ln)
        if m and (not stack or depth == stack[-1][1]):
            name = m.group(1)
            depth += 1
            stack.append((name, depth))
            p = tuple(n for n, _ in stack[1:])
            if len(stack) > 1:
                mods.append((p, []))
                cur[p] = mods[-1][1]
            continue
        if stack and depth == stack[-1][1]:
            p = tuple(n for n, _ in stack[1:])
            if split:
                mi = INCL.match(ln)
                if mi and p in cur:
                    modrs = os.path.join(base_dir, mi.group(1))
                    for l2 in open(modrs, encoding="utf-8"):
                        m2 = INCL.match(l2)
                        if m2:
                            cur[p].append(m2.group(1))
                    cur[p].append("mod.rs")
            else:
                md = DECL.match(ln)
                if md and p in cur:
                    cur[p].append(md.group(1))
            if REPUB.match(ln) and p not in repub_mods:
                repub_mods.append(p)
        depth += ln.count("{") - ln.count("}")
        while stack and depth < stack[-1][1]:
            stack.pop()
    return mods, repub_mods


def read_dump(path):
    items = []
    for ln in open(path, encoding="utf-8"):
        t = ln.rstrip("\n").split(" ")
        if len(t) in (5, 6) and t[0] == "I":
            items.append(tuple(t[1:6]) if len(t) == 6 else (t[1], t[2], t[3], t[4], "-"))
    return items


def undisp(s):
    """inverse of Symbol's Display on a scraped module name (the model sorts the raw names)"""
    if s.startswith("r#"):
        return s[2:]
    if s in ("self_", "Self_", "super_", "crate_"):
        return s[:-1]
    return s


def layout_case(split, items, extra, dedup=None):
    """items: (mod path, prefix, raw name, emitted name, class key).  With Builder::dedup on the model filters every module group
    with its own scratch map (Dedup.layout_pred_dedup) before laying it out"""
    ex = ";".join(",".join(p) if p else "-" for p in extra) or "-"
    if dedup:
        its = ";".join("%s|%s|%s|%s|%s" % it for it in items) or "-"
        return "layoutd %d %s %s %s" % (1 if split else 0, ex, ",".join(dedup), its)
    its = ";".join("%s|%s|%s|%s" % it[:4] for it in items) or "-"
    return "layout %d %s %s" % (1 if split else 0, ex, its)


def parse_layout(line):
    out = []
    for part in line.split(";"):
        p, _, names = part.partition("=")
        out.append((tuple([] if p == "-" else p.split(",")), [n for n in names.split(",") if n]))
    return out


def is_subseq(small, big):
    it = iter(big)
    return all(any(x == y for y in it) for x in small)


def check_layout(chk, runner, hb, run, mode, corpus_name, dedup=None):
    """compares the model's predicted layout with the one scraped from the run's output. returns list of mismatches"""
    out = run["out"]
    dump = read_dump(os.path.join(out, "_dump.txt"))
    problems = []
    units = []      # (label, items, file, base_dir)
    if mode == "workspace":
        crates = {}
        for mp, pre, nm, em, key in dump:
            segs = mp.split(",")
            crates.setdefault(segs[0], []).append((",".join(segs[1:]) or "-", pre, nm, em, key))
        for cn, its in sorted(crates.items()):
            units.append((cn, its, os.path.join(out, "ws", cn, "src", "gen.rs"), os.path.join(out, "ws", cn, "src")))
        found = sorted(d for d in os.listdir(os.path.join(out, "ws")) if os.path.isdir(os.path.join(out, "ws", d)))
        if found != sorted(crates):
            problems.append(dict(what="crate set differs", predicted=sorted(crates), found=found))
    else:
        units.append(("gen", dump, os.path.join(out, "gen.rs"), out))
    cases, metas = [], []
    for label, its, f, base in units:
        if not os.path.exists(f):
            problems.append(dict(what="missing output file", file=f))
            continue
        split = mode == "split"
        scraped, repubs = scrape(f, split, base)
        cases.append(layout_case(split, its, [[undisp(x) for x in p] for p in repubs] if mode == "workspace" else [], dedup))
        metas.append((label, scraped, split))
    preds = core.run_lines(runner, cases, shards=1) if cases else []
    for (label, scraped, split), pl, case in zip(metas, preds, cases):
        chk.count(case, True)
        if pl.startswith("BADCASE") or pl.startswith("CRASH"):
            problems.append(dict(what="model runner: " + pl[:200], case=case[:500]))
            continue
        raw = [(p, names) for p, names in parse_layout(pl) if p]
        # module names are printed through Symbol's Display (taken from the implementation)
        segs = sorted({s for p, _ in raw for s in p})
        disp = dict(zip(segs, core.run_lines(hb, ["disp " + s for s in segs], shards=1, args=("lines",))))
        pred = [(tuple(disp.get(s, s) for s in p), names) for p, names in raw]
        if [p for p, _ in pred] != [p for p, _ in scraped]:
            problems.append(dict(what="module sequence differs", unit=label, predicted=[list(p) for p, _ in pred],
                                 scraped=[list(p) for p, _ in scraped]))
            continue
        for (p, names), (_, got) in zip(pred, scraped):
            ok = (names == got) if split else is_subseq(names, got)
            if not ok:
                problems.append(dict(what="item sequence of module differs", unit=label, module=list(p), predicted=names, scraped=got))
                break
    return problems


# ------------------------------------------------------------------------------------------------ the check
def seeds_vary(hb):
    seen = {"std": set(), "ahash": set(), "dashmap": set()}
    for _ in range(4):
        rc, out = core.sh([hb, "seeds"], timeout=30)
        for ln in out.splitlines():
            k, _, v = ln.partition(" ")
            if k in seen:
                seen[k].add(v)
    return {k: len(v) for k, v in seen.items()}


def _run(chk, replay=None):
    gate, hb = bldgen.std_setup(chk, FAM)
    chk.cov["checker_cmd"] = "make -C fam/bld/coq Properties/C17.vo && coqc -Q coq PV -Q fam/bld/coq PVBld Properties/C17.v (Print Assumptions allowlist, forbidden-vernacular grep)"
    chk.cov["trusted_base"] = core.TRUSTED_BASE[:3] + [
        "tools/extract_bld.py (lexer-level scanner producing the unordered-iteration inventory and the keyword tables)",
        "fam/bld/harness (drives pilota_build::Builder in a child process; DumpPlugin lists the codegen items), fam/bld/runner/main.ml glue",
        "hand-written model fam/bld/coq/Pipeline.v of write_items / write_split_mod / pkg_tree / group_defs / lower_message (tied by the inventory lemma and the layout correspondence)",
        "modelled, not verified: rayon (each for_each body runs exactly once), itertools into_group_map_by, DashMap entry semantics, rustfmt (a function of its input file)",
        "item rendering is abstract (Section variable render): its determinism is only observed through the file hashes"]
    chk.cov["rule"] = ("runs: corpus x mode {single, split, workspace} x independent builder processes with RAYON_NUM_THREADS "
                       "cycling through 1,2,3,5,8,16 (dedup corpora: Builder::dedup on, threads 1,2,16; touch corpora: ignore_unused + "
                       "Builder::touch on ~40% of several hundred items; the other option settings rotate over the corpora; the first process of "
                       "every group and the first three of a touch corpus build twice and the two outputs are compared); a case = one (corpus, mode, process); non-trivial = the run emitted "
                       ">= 2 modules; layout cases = one per emitted gen.rs (model prediction vs scrape)")
    rng = random.Random(chk.seed)
    os.makedirs(WORK, exist_ok=True)
    failing = []
    if hb is None:
        return chk.finish()
    runner = FAM.runner if os.path.exists(FAM.runner) else None
    sv = seeds_vary(hb)
    chk.cov["hash_orders_observed_in_4_processes"] = sv
    if min(sv.values() or [0]) < 2:
        chk.notes.append("hash seeds did not vary between processes for: %s" % [k for k, v in sv.items() if v < 2])
    if replay is not None and replay.get("kind") == "nondeterminism":
        cs = [replay["corpus"]]
        modes = [replay["mode"]]
    else:
        cs = corpora(rng, chk.tier)
        modes = MODES
    procs = 8 if chk.tier == "quick" else 48
    jobs = []
    for c in cs:
        idl = write_corpus(c)
        for mode in modes:
            # a corpus that emits several hundred files in split mode (each one through rustfmt) gets fewer split-mode processes
            for k in range(min(procs, c.get("split_procs", procs)) if mode == "split" else procs):
                th = c.get("threads") or THREADS
                jobs.append((c, idl, mode, th[k % len(th)], "p%d" % k))
    with ThreadPoolExecutor(max_workers=min(8, core.NPROC)) as ex:
        results = list(ex.map(lambda j: run_builder(hb, *j), jobs))
    by = {}
    for j, r in zip(jobs, results):
        by.setdefault((j[0]["name"], j[2]), []).append((j, r))
    dist = dict(modes={m: 0 for m in MODES}, threads={t: 0 for t in THREADS}, files_hashed=0, corpora=len(cs),
                builder_failures=0, modules_per_run=[], corpus_sizes={c["name"]: sum(len(t) for t in c["files"].values()) for c in cs})
    layout_problems = []
    for (cname, mode), lst in sorted(by.items()):
        ref_j, ref = lst[0]
        for j, r in lst:
            dist["modes"][mode] += 1
            dist["threads"][j[3]] += 1
            dist["files_hashed"] += len(r["hashes"])
            case = "%s %s %s t=%d" % (cname, mode, j[4], j[3])
            nmods = 0
            gen = os.path.join(r["out"], "gen.rs")
            if os.path.exists(gen):
                nmods = sum(1 for ln in open(gen, encoding="utf-8") if MODOPEN.match(ln))
            elif mode == "workspace":
                nmods = len(r["hashes"])
            chk.count(case + " " + str(sorted(r["hashes"].items()))[:0], nmods >= 2)
            if r["status"] != "OK" or r["rc"] != 0:
                dist["builder_failures"] += 1
                failing.append(("builder run failed (%s, exit %s) on a determinism corpus" % (r["status"][:200], r["rc"]),
                                dict(kind="builder-failure", corpus=j[0], mode=mode, env=r["env"], stderr=r["stderr"], cmd=r["cmd"])))
                continue
            if r.get("hashes_again") is not None:
                a1 = {k: v for k, v in r["hashes"].items() if k != "_dump.txt"}
                if r["hashes_again"] != a1:
                    diff = sorted(k for k in set(a1) | set(r["hashes_again"]) if a1.get(k) != r["hashes_again"].get(k))
                    f0 = diff[0]
                    def text2(base):
                        q = os.path.join(base, f0)
                        return open(q, encoding="utf-8", errors="replace").read()[:20000] if os.path.exists(q) else None
                    failing.append(("two builds IN ONE PROCESS emitted different output for the same input and options (%s mode, %d differing files, first: %s)"
                                    % (mode, len(diff), f0),
                                    dict(kind="nondeterminism", corpus=j[0], mode=mode, env_a=r["env"], env_b=dict(r["env"], build="second build of the same process"),
                                         differing_files=diff[:20], file=f0, content_a=text2(r["out"]), content_b=text2(r["second"]))))
            if r["hashes"] != ref["hashes"]:
                diff = sorted((k for k in set(r["hashes"]) | set(ref["hashes"]) if r["hashes"].get(k) != ref["hashes"].get(k)),
                              key=lambda k: (k == "_dump.txt", k))   # emitted files first, the item dump of the harness last
                f0 = diff[0]
                def text(run_):
                    q = os.path.join(run_["out"], f0)
                    return open(q, encoding="utf-8", errors="replace").read()[:20000] if os.path.exists(q) else None
                failing.append(("two builder processes emitted different output for the same input (%s mode, %d differing files, first: %s)"
                                % (mode, len(diff), f0),
                                dict(kind="nondeterminism", corpus=j[0], mode=mode, env_a=ref["env"], env_b=r["env"],
                                     differing_files=diff[:20], file=f0, content_a=text(ref), content_b=text(r))))
        dist["modules_per_run"].append(dict(corpus=cname, mode=mode, files=len(ref["hashes"])))
        # layout correspondence on the first and the last run of the group
        if runner and ref["status"] == "OK" and lst[0][0][0].get("layout", True):
            for j, r in (lst[0], lst[-1]):
                if r["status"] == "OK":
                    for pb in check_layout(chk, runner, hb, r, mode, cname, dedup=j[0].get("dedup")):
                        layout_problems.append(dict(corpus=cname, mode=mode, env=r["env"], **pb))
    # ---- Collect.v vs the implementation: the SET of generated items of a touch corpus (single-file runs, entry file 0).  The model runs
    # on the dependency graph the generator knows (service -> Req -> items, items -> the later items their fields name) with roots =
    # the service, then the touched names in list order; the implementation's set is read from the dump of the codegen items
    collect_cases, collect_mismatch = 0, []
    if runner:
        for (cname, mode), lst in sorted(by.items()):
            c = lst[0][0][0]
            if not c.get("collect") or mode != "single" or lst[0][1]["status"] != "OK":
                continue
            g = c["collect"]["graph"]
            ids = {n: i for i, n in enumerate(sorted(g))}
            roots = c["collect"]["roots"] + [n for _, ns in c["touch"] for n in ns]
            line = "collect %s - %s" % (",".join(str(ids[n]) for n in roots), ";".join("%d:%s" % (ids[n], ",".join(str(ids[x]) for x in g[n])) for n in sorted(g)))
            hist = core.run_lines(runner, [line], shards=1)[0]
            rev = {i: n for n, i in ids.items()}
            model = {rev[int(x)] for x in hist.split(",") if x.strip().isdigit()}
            for j, r in (lst[0], lst[-1]):
                dumped = {it[2] for it in read_dump(os.path.join(r["out"], "_dump.txt"))}
                impl = {n for n in dumped if n in ids}
                collect_cases += 1
                chk.count("collect %s %s" % (cname, j[4]), True)
                if impl != model:
                    collect_mismatch.append(dict(corpus=cname, mode=mode, env=r["env"], what="set of generated items differs from Collect.collect_items",
                                                 only_model=sorted(model - impl)[:20], only_impl=sorted(impl - model)[:20]))
    chk.cov["collect_sets_compared"] = collect_cases
    layout_problems += collect_mismatch
    chk.cov["distribution"] = dist
    chk.cov["disagreements_checked"] = len(results)
    chk.cov["layout_mismatches"] = len(layout_problems)
    for j, r in list(zip(jobs, results))[:3]:
        chk.sample(dict(corpus=j[0]["name"], mode=j[2], RAYON_NUM_THREADS=j[3], files=len(r["hashes"]), status=r["status"],
                        first_hashes=dict(sorted(r["hashes"].items())[:2])))
    # ---- report
    seen = set()
    for what, rep in failing:
        key = (rep["kind"], rep.get("mode"), rep["corpus"]["name"] if isinstance(rep.get("corpus"), dict) else None)
        if key in seen:
            continue
        seen.add(key)
        chk.violation("C17 fails on the implementation: " + what, rep)
    if not failing:
        if layout_problems:
            pb = layout_problems[0]
            chk.violation("correspondence layout broken: the model's predicted module/item layout differs from the emitted files "
                          "(%d mismatches; first: %s) but all %d runs hashed identically" % (len(layout_problems), pb["what"], len(results)),
                          dict(kind="correspondence", correspondence="layout (fam/bld/coq/Pipeline.v layout_pred vs emitted files)", **pb),
                          no_input=True)
        if not gate["ok"]:
            chk.violation("proof obligation broken: %s (%s) -- %d builder runs hashed identically" % (gate.get("failed"), " ".join((gate.get("error") or "").split())[:240], len(results)),
                          dict(kind="proof", theorem_file="fam/bld/coq/Properties/C17.v", failed=gate.get("failed"),
                               error=gate.get("error"), theorems=gate["theorems"],
                               hint="Proofs/InventoryP.v inventory_accounted compares the regenerated unordered-iteration inventory "
                                    "(fam/bld/coq/Generated/inventory.json) with the sites the model accounts for"), no_input=True)
    # keep the cache small
    shutil.rmtree(os.path.join(WORK, "out"), ignore_errors=True)
    return chk.finish()


def run(chk, replay=None):
    try:
        return _run(chk, replay)
    finally:
        shutil.rmtree(WORK, ignore_errors=True)      # per-process work directory: nothing in it is needed after the run
