(* C01 core: the value interpreter round-trips on every protocol and buffer kind. *)
From PV Require Import Thrift.Interp Proofs.VarintP Proofs.TablesP Proofs.PrimP Proofs.HeaderP.
From Coq Require Import ZifyN ZifyNat ZifyBool.
Open Scope Z_scope.

Definition RT (p : pk) (k : bk) (v : tval) : Prop :=
  wt v = true ->
  forall c, w_pend c = None ->
  exists ss, write_val p k v c = Ok (ss, c) /\ (1 <= length (flat ss))%nat /\
    forall fuel r rcx, (vsize v <= fuel)%nat -> idle rcx ->
      read_val p fuel (ttype_of v) (mkS (flat ss ++ r) rcx) = Ok (canon p v, mkS r rcx).

Lemma wctx_eta c : w_pend c = None -> mkW (w_last c) (w_stack c) None = c.
Proof. destruct c as [a b d]. cbn. intros H. subst. reflexivity. Qed.

Lemma rctx_eta c : mkR (r_last c) (r_stack c) (r_pbool c) (r_pfield c) = c.
Proof. destruct c; reflexivity. Qed.

Lemma idle_rlast_upd p id c : idle c -> idle (rlast_upd p id c).
Proof. destruct p; cbn [rlast_upd]; auto. Qed.

Lemma vsize_pos v : (1 <= vsize v)%nat.
Proof. destruct v; cbn [vsize]; lia. Qed.

(* --- scalars --- *)
Lemma fx_len_pos p n z : (1 <= n)%nat -> (1 <= length (fx p n z))%nat.
Proof. intros. rewrite fx_length. auto. Qed.

Lemma enc_var_len_pos f n : (1 <= length (enc_var f n))%nat.
Proof. destruct f; cbn [enc_var]; [cbn; lia|]. destruct (n <? 128); cbn [length]; lia. Qed.

Lemma w_i16_len p z c l : w_i16 p z c = Ok ([Copy l], c) -> (1 <= length l)%nat.
Proof.
  destruct p; cbn [w_i16]; unfold wret; intros H; inversion H; subst;
    rewrite ?be_bytes_length, ?le_bytes_length; cbn [length]; try lia; unfold encode_var; apply enc_var_len_pos.
Qed.
Lemma w_i32_len p z c l : w_i32 p z c = Ok ([Copy l], c) -> (1 <= length l)%nat.
Proof.
  destruct p; cbn [w_i32]; unfold wret; intros H; inversion H; subst;
    rewrite ?be_bytes_length, ?le_bytes_length; cbn [length]; try lia; unfold encode_var; apply enc_var_len_pos.
Qed.
Lemma w_i64_len p z c l : w_i64 p z c = Ok ([Copy l], c) -> (1 <= length l)%nat.
Proof.
  destruct p; cbn [w_i64]; unfold wret; intros H; inversion H; subst;
    rewrite ?be_bytes_length, ?le_bytes_length; cbn [length]; try lia; unfold encode_var; apply enc_var_len_pos.
Qed.
Lemma w_double_len p z c l : w_double p z c = Ok ([Copy l], c) -> (1 <= length l)%nat.
Proof.
  destruct p; cbn [w_double]; unfold wret; intros H; inversion H; subst;
    rewrite ?be_bytes_length, ?le_bytes_length; cbn [length]; lia.
Qed.

Lemma RT_bool p k b : RT p k (VBool b).
Proof.
  intros _ c Hp. destruct (w_bool_ok p b c Hp) as (l & Hw & Hl & Hr).
  eexists; split; [exact Hw|]. split; [rewrite flat_copy; exact Hl|].
  intros fuel r rcx Hf Hi. destruct fuel as [|fuel]; [cbn [vsize] in Hf; lia|].
  cbn [read_val ttype_of canon]. rewrite flat_copy, Hr by auto. reflexivity.
Qed.

Lemma RT_i8 p k z : RT p k (VI8 z).
Proof.
  intros Hwt c Hp. cbn [wt] in Hwt. apply in_sb_spec in Hwt.
  eexists; split; [reflexivity|]. split; [cbn; lia|].
  intros fuel r rcx Hf Hi. destruct fuel as [|fuel]; [cbn [vsize] in Hf; lia|].
  cbn [read_val ttype_of canon]. rewrite flat_copy. cbn [app]. rewrite r_i8_rt by auto. reflexivity.
Qed.

Lemma RT_i16 p k z : RT p k (VI16 z).
Proof.
  intros Hwt c Hp. cbn [wt] in Hwt. apply in_sb_spec in Hwt.
  destruct (w_i16_ok p z c) as (l & Hw & Hr).
  eexists; split; [exact Hw|]. split; [rewrite flat_copy; eapply w_i16_len; eauto|].
  intros fuel r rcx Hf Hi. destruct fuel as [|fuel]; [cbn [vsize] in Hf; lia|].
  cbn [read_val ttype_of canon]. rewrite flat_copy, Hr by auto. reflexivity.
Qed.

Lemma RT_i32 p k z : RT p k (VI32 z).
Proof.
  intros Hwt c Hp. cbn [wt] in Hwt. apply in_sb_spec in Hwt.
  destruct (w_i32_ok p z c) as (l & Hw & Hr).
  eexists; split; [exact Hw|]. split; [rewrite flat_copy; eapply w_i32_len; eauto|].
  intros fuel r rcx Hf Hi. destruct fuel as [|fuel]; [cbn [vsize] in Hf; lia|].
  cbn [read_val ttype_of canon]. rewrite flat_copy, Hr by auto. reflexivity.
Qed.

Lemma RT_i64 p k z : RT p k (VI64 z).
Proof.
  intros Hwt c Hp. cbn [wt] in Hwt. apply in_sb_spec in Hwt.
  destruct (w_i64_ok p z c) as (l & Hw & Hr).
  eexists; split; [exact Hw|]. split; [rewrite flat_copy; eapply w_i64_len; eauto|].
  intros fuel r rcx Hf Hi. destruct fuel as [|fuel]; [cbn [vsize] in Hf; lia|].
  cbn [read_val ttype_of canon]. rewrite flat_copy, Hr by auto. reflexivity.
Qed.

Lemma RT_double p k z : RT p k (VDouble z).
Proof.
  intros Hwt c Hp. cbn [wt] in Hwt.
  destruct (w_double_ok p z c) as (l & Hw & Hr).
  eexists; split; [exact Hw|]. split; [rewrite flat_copy; eapply w_double_len; eauto|].
  intros fuel r rcx Hf Hi. destruct fuel as [|fuel]; [cbn [vsize] in Hf; lia|].
  cbn [read_val ttype_of canon]. rewrite flat_copy, Hr by lia. reflexivity.
Qed.

Lemma w_len_len p n c l : w_len p n c = Ok ([Copy l], c) -> (1 <= length l)%nat.
Proof.
  destruct p; cbn [w_len]; try apply w_i32_len.
  unfold wret. intros H; inversion H. unfold encode_var. apply enc_var_len_pos.
Qed.

Lemma RT_binary p k l : RT p k (VBinary l).
Proof.
  intros Hwt c Hp. cbn [wt] in Hwt.
  destruct (w_bytes_ok p k l c) as (ss & Hw & Hr).
  eexists; split; [exact Hw|]. split.
  - unfold w_bytes in Hw.
    destruct (w_len_ok p (Z.of_nat (length l)) c) as (lb & Hwl & _).
    destruct (w_bwl_ok k l c) as (s & Hs & _).
    rewrite (wseq_ok _ _ _ _ _ _ _ Hwl Hs) in Hw. injection Hw as <-.
    unfold flat. cbn [app map concat seg_bytes]. rewrite app_length. apply w_len_len in Hwl. lia.
  - intros fuel r rcx Hf Hi. destruct fuel as [|fuel]; [cbn [vsize] in Hf; lia|].
    cbn [read_val ttype_of canon]. rewrite Hr by auto. reflexivity.
Qed.

Lemma RT_uuid p k l : RT p k (VUuid l).
Proof.
  intros Hwt c Hp. cbn [wt] in Hwt. apply Nat.eqb_eq in Hwt.
  destruct (w_uuid_ok l c) as (Hw & Hr).
  eexists; split; [exact Hw|]. split; [rewrite flat_copy; lia|].
  intros fuel r rcx Hf Hi. destruct fuel as [|fuel]; [cbn [vsize] in Hf; lia|].
  cbn [read_val ttype_of canon]. rewrite flat_copy, Hr by auto. reflexivity.
Qed.

(* --- container loops --- *)
Lemma elems_rt p k et l :
  Forall (RT p k) l ->
  (forall x, In x l -> wt x = true /\ ttype_of x = et) ->
  forall c, w_pend c = None ->
  exists ss, write_elems p k l c = Ok (ss, c) /\ (length l <= length (flat ss))%nat /\
  forall f m r rcx acc, (forall x, In x l -> (vsize x <= f)%nat) -> (length l <= m)%nat -> idle rcx ->
    elems_loop (read_val p f) m et (Z.of_nat (length l)) (mkS (flat ss ++ r) rcx) acc
    = Ok (rev acc ++ map (canon p) l, mkS r rcx).
Proof.
  induction l as [|x t IH]; intros HF Hwt c Hp.
  - exists []. split; [reflexivity|]. split; [cbn; lia|].
    intros f m r rcx acc _ _ _. cbn [length Z.of_nat flat map concat app].
    destruct m; cbn [elems_loop Z.leb Z.compare]; rewrite app_nil_r; reflexivity.
  - inversion HF as [|? ? Hx Ht]; subst.
    destruct (Hwt x (or_introl eq_refl)) as [Hwx Hty].
    destruct (Hx Hwx c Hp) as (s1 & Hw1 & Hl1 & Hr1).
    destruct (IH Ht (fun y Hy => Hwt y (or_intror Hy)) c Hp) as (s2 & Hw2 & Hl2 & Hr2).
    exists (s1 ++ s2). split.
    { change (write_elems p k (x :: t)) with (write_val p k x ;; write_elems p k t).
      eapply wseq_ok; eauto. }
    split; [rewrite flat_app, app_length; cbn [length]; lia|].
    intros f m r rcx acc Hv Hm Hi.
    destruct m as [|m]; [cbn [length] in Hm; lia|].
    cbn [elems_loop].
    replace (Z.of_nat (length (x :: t)) <=? 0) with false by (cbn [length]; lia).
    rewrite flat_app, <- app_assoc. rewrite <- Hty.
    rewrite Hr1; [|apply Hv; left; reflexivity|exact Hi]. cbn [bind].
    replace (Z.of_nat (length (x :: t)) - 1) with (Z.of_nat (length t)) by (cbn [length]; lia).
    rewrite Hty. rewrite Hr2; [|intros y Hy; apply Hv; right; exact Hy|cbn [length] in Hm; lia|exact Hi].
    cbn [rev map]. rewrite <- app_assoc. reflexivity.
Qed.

Lemma pairs_rt p k kt vt l :
  Forall (fun q => RT p k (fst q) /\ RT p k (snd q)) l ->
  (forall q, In q l -> wt (fst q) = true /\ ttype_of (fst q) = kt /\ wt (snd q) = true /\ ttype_of (snd q) = vt) ->
  forall c, w_pend c = None ->
  exists ss, write_pairs p k l c = Ok (ss, c) /\ (length l <= length (flat ss))%nat /\
  forall f m r rcx acc, (forall q, In q l -> (vsize (fst q) <= f)%nat /\ (vsize (snd q) <= f)%nat) ->
    (length l <= m)%nat -> idle rcx ->
    pairs_loop (read_val p f) m kt vt (Z.of_nat (length l)) (mkS (flat ss ++ r) rcx) acc
    = Ok (rev acc ++ map (fun '(a, b) => (canon p a, canon p b)) l, mkS r rcx).
Proof.
  induction l as [|[a b] t IH]; intros HF Hwt c Hp.
  - exists []. split; [reflexivity|]. split; [cbn; lia|].
    intros f m r rcx acc _ _ _. cbn [length Z.of_nat flat map concat app].
    destruct m; cbn [pairs_loop Z.leb Z.compare]; rewrite app_nil_r; reflexivity.
  - inversion HF as [|? ? Hx Ht]; subst. cbn [fst snd] in Hx. destruct Hx as [Ha Hb].
    destruct (Hwt (a, b) (or_introl eq_refl)) as (Hwa & Hta & Hwb & Htb). cbn [fst snd] in *.
    destruct (Ha Hwa c Hp) as (s1 & Hw1 & Hl1 & Hr1).
    destruct (Hb Hwb c Hp) as (s2 & Hw2 & Hl2 & Hr2).
    destruct (IH Ht (fun y Hy => Hwt y (or_intror Hy)) c Hp) as (s3 & Hw3 & Hl3 & Hr3).
    exists ((s1 ++ s2) ++ s3). split.
    { change (write_pairs p k ((a, b) :: t)) with (write_val p k a ;; write_val p k b ;; write_pairs p k t).
      eapply wseq_ok; [eapply wseq_ok|]; eauto. }
    split; [rewrite !flat_app, !app_length; cbn [length]; lia|].
    intros f m r rcx acc Hv Hm Hi.
    destruct m as [|m]; [cbn [length] in Hm; lia|].
    cbn [pairs_loop].
    replace (Z.of_nat (length ((a, b) :: t)) <=? 0) with false by (cbn [length]; lia).
    rewrite !flat_app, <- !app_assoc. rewrite <- Hta, <- Htb.
    destruct (Hv (a, b) (or_introl eq_refl)) as [Hva Hvb]. cbn [fst snd] in *.
    rewrite Hr1 by auto. cbn [bind]. rewrite Hr2 by auto. cbn [bind].
    replace (Z.of_nat (length ((a, b) :: t)) - 1) with (Z.of_nat (length t)) by (cbn [length]; lia).
    rewrite Hta, Htb. rewrite Hr3; [|intros y Hy; apply Hv; right; exact Hy|cbn [length] in Hm; lia|exact Hi].
    cbn [rev map]. rewrite <- app_assoc. reflexivity.
Qed.

(* --- struct fields --- *)
Fixpoint wtf (fs : list (Z * tval)) : bool :=
  match fs with
  | [] => true
  | (id, x) :: t => in_sb 16 id && wt x && wtf t
  end.

Lemma wt_struct fs : wt (VStruct fs) = wtf fs.
Proof. induction fs as [|[i x] t IH]; cbn [wt wtf]; auto. Qed.

Lemma ttype_eqb_nonstop ty : ty <> TStop -> ttype_eqb ty TStop = false.
Proof. destruct ty; cbn; congruence. Qed.

Lemma ttype_of_nonstop v : ttype_of v <> TStop.
Proof. destruct v; discriminate. Qed.

Lemma in_s16_0 : in_s 16 0.
Proof. unfold in_s. cbn. lia. Qed.

Lemma read_val_bool p f s : (1 <= f)%nat ->
  read_val p f TBool s = (let* (b, s) := r_bool p s in Ok (VBool b, s)).
Proof. destruct f; [lia|reflexivity]. Qed.

Lemma fields_rt p k fs :
  Forall (fun q => RT p k (snd q)) fs -> wtf fs = true ->
  forall c, w_pend c = None -> (p = PCompact -> in_s 16 (w_last c)) ->
  exists ss c', write_fields p k fs c = Ok (ss, c') /\ w_pend c' = None /\ w_stack c' = w_stack c /\
    (p <> PCompact -> c' = c) /\
  forall f n r rcx acc,
    (forall q, In q fs -> (vsize (snd q) <= f)%nat) -> (length fs < n)%nat -> idle rcx ->
    (p = PCompact -> r_last rcx = w_last c) ->
    fields_loop p (read_val p f) n (mkS (flat ss ++ x00 :: r) rcx) acc
    = Ok (rev acc ++ map (fun '(i, x) => (i, canon p x)) fs, mkS r (rlast_upd p (w_last c') rcx)).
Proof.
  induction fs as [|[id x] t IH]; intros HF Hwt c Hp Hl.
  - exists [], c. split; [reflexivity|]. repeat split; auto.
    intros f n r rcx acc _ Hn Hi Hlast. destruct n as [|n]; [cbn in Hn; lia|].
    cbn [flat map concat app fields_loop].
    destruct (proj2 (w_field_stop_ok p c Hp) r rcx (proj2 Hi)) as (oid & Hs). rewrite Hs. cbn [bind fst ttype_eqb].
    rewrite app_nil_r. f_equal. f_equal. f_equal.
    destruct p; cbn [rlast_upd]; auto. rewrite <- (Hlast eq_refl). symmetry. apply rctx_eta.
  - inversion HF as [|? ? Hx Ht]; subst. cbn [snd] in Hx.
    cbn [wtf] in Hwt. apply andb_prop in Hwt as [Hwt Hwt3]. apply andb_prop in Hwt as [Hid Hwx].
    apply in_sb_spec in Hid.
    change (write_fields p k ((id, x) :: t)) with
      (w_field_begin p (ttype_of x) id ;; write_val p k x ;; w_field_end p ;; write_fields p k t).
    (* is it a compact bool field? *)
    destruct (match p, x with PCompact, VBool _ => true | _, _ => false end) eqn:Ecb.
    + destruct p; try discriminate. destruct x as [b| | | | | | | | | | |]; try discriminate.
      cbn [write_val ttype_of].
      destruct (w_boolfield_ok b id c Hid Hp (Hl eq_refl)) as (s1 & Hw1 & Hl1 & Hr1).
      set (c1 := mkW id (w_stack c) None) in *.
      destruct (IH Ht Hwt3 c1 eq_refl (fun _ => Hid)) as (s2 & c2 & Hw2 & Hp2 & Hst2 & Hnc2 & Hr2).
      exists (s1 ++ s2), c2. split; [eapply wseq_ok; eauto|].
      split; [exact Hp2|]. split; [rewrite Hst2; reflexivity|]. split; [congruence|].
      intros f n r rcx acc Hv Hn Hi Hlast.
      destruct n as [|n]; [cbn in Hn; lia|]. cbn [fields_loop].
      rewrite flat_app, <- app_assoc.
      destruct (Hr1 (flat s2 ++ x00 :: r) rcx (Hlast eq_refl) Hi) as (sx & Hfb & Hrb).
      rewrite Hfb. cbn [bind].
      pose proof (Hv (id, VBool b) (or_introl eq_refl)) as Hvx. cbn [snd vsize] in Hvx.
      rewrite read_val_bool by lia. rewrite Hrb. cbn [bind].
      rewrite Hr2.
      * cbn [rev map canon]. rewrite <- app_assoc. cbn [rlast_upd r_stack r_pbool r_pfield].
        rewrite (proj1 Hi), (proj2 Hi). reflexivity.
      * intros q Hq. apply Hv. right. exact Hq.
      * cbn [length] in Hn. lia.
      * split; reflexivity.
      * intros _. reflexivity.
    + assert (Hnb : p = PCompact -> ttype_of x <> TBool).
      { intros ->. destruct x; try discriminate. }
      destruct (w_field_ok p (ttype_of x) id c Hnb (ttype_of_nonstop x) (ttype_of_val_ok x) Hid Hp Hl)
        as (s1 & Hw1 & Hl1 & Hr1).
      set (c1 := wlast_upd p id c) in *.
      assert (Hp1 : w_pend c1 = None) by (subst c1; destruct p; cbn [wlast_upd w_pend]; auto).
      destruct (Hx Hwx c1 Hp1) as (s2 & Hw2 & Hl2 & Hr2).
      assert (Hl1' : p = PCompact -> in_s 16 (w_last c1)) by (intros ->; subst c1; cbn; exact Hid).
      destruct (IH Ht Hwt3 c1 Hp1 Hl1') as (s3 & c3 & Hw3 & Hp3 & Hst3 & Hnc3 & Hr3).
      exists (((s1 ++ s2) ++ []) ++ s3), c3. split.
      { eapply wseq_ok; [eapply wseq_ok; [eapply wseq_ok|]|]; eauto. apply w_field_end_ok; auto. }
      split; [exact Hp3|]. split.
      { rewrite Hst3. subst c1. destruct p; reflexivity. }
      split.
      { intros Hpc. rewrite (Hnc3 Hpc). subst c1. destruct p; try congruence; reflexivity. }
      intros f n r rcx acc Hv Hn Hi Hlast.
      destruct n as [|n]; [cbn in Hn; lia|]. cbn [fields_loop].
      rewrite app_nil_r, !flat_app, <- !app_assoc.
      rewrite Hr1 by (auto; exact (proj2 Hi)). cbn [bind].
      cbn [fst snd]. rewrite (ttype_eqb_nonstop _ (ttype_of_nonstop x)).
      rewrite Hr2; [|apply (Hv (id, x)); left; reflexivity|apply idle_rlast_upd; exact Hi].
      cbn [bind].
      rewrite Hr3.
      * cbn [rev map]. rewrite <- app_assoc. f_equal. f_equal. f_equal.
        destruct p; reflexivity.
      * intros q Hq. apply Hv. right. exact Hq.
      * cbn [length] in Hn. lia.
      * apply idle_rlast_upd; exact Hi.
      * intros ->. subst c1. reflexivity.
Qed.

(* --- the value-level theorem --- *)
Lemma Forall_vsize_le {A} (f : A -> nat) (l : list A) (g : list A -> nat) :
  True.
Proof. exact I. Qed.

Lemma vsize_struct_bound fs q : In q fs -> (vsize (snd q) < vsize (VStruct fs))%nat /\ (length fs < vsize (VStruct fs))%nat.
Proof.
  induction fs as [|[i x] t IH]; intros Hin; [destruct Hin|].
  cbn [vsize] in *. destruct Hin as [<-|Hin].
  - cbn [snd length]. split; [lia|].
    clear IH. induction t as [|[j y] t IHt]; cbn [length]; [lia|].
    pose proof (vsize_pos y). lia.
  - destruct (IH Hin) as [H1 H2]. cbn [length]. pose proof (vsize_pos x). split; lia.
Qed.

Lemma vsize_struct_len fs : (length fs < vsize (VStruct fs))%nat.
Proof.
  induction fs as [|[i x] t IH]; cbn [vsize length] in *; [lia|]. pose proof (vsize_pos x). lia.
Qed.

Lemma vsize_list_bound et l x : In x l -> (vsize x < vsize (VList et l))%nat.
Proof.
  induction l as [|y t IH]; intros Hin; [destruct Hin|].
  cbn [vsize] in *. destruct Hin as [<-|Hin]; [lia|]. specialize (IH Hin). lia.
Qed.
Lemma vsize_list_len et l : (length l < vsize (VList et l))%nat.
Proof. induction l as [|y t IH]; cbn [vsize length] in *; lia. Qed.

Lemma vsize_map_bound kt vt l q : In q l ->
  (vsize (fst q) < vsize (VMap kt vt l))%nat /\ (vsize (snd q) < vsize (VMap kt vt l))%nat.
Proof.
  induction l as [|[a b] t IH]; intros Hin; [destruct Hin|].
  cbn [vsize] in *. destruct Hin as [<-|Hin]; [cbn [fst snd]; lia|]. specialize (IH Hin). lia.
Qed.
Lemma vsize_map_len kt vt l : (length l < vsize (VMap kt vt l))%nat.
Proof. induction l as [|[a b] t IH]; cbn [vsize length] in *; lia. Qed.

Fixpoint wte (et : ttype) (l : list tval) : bool :=
  match l with [] => true | x :: t => ttype_eqb (ttype_of x) et && wt x && wte et t end.
Fixpoint wtp (kt vt : ttype) (l : list (tval * tval)) : bool :=
  match l with
  | [] => true
  | (a, b) :: t => ttype_eqb (ttype_of a) kt && wt a && ttype_eqb (ttype_of b) vt && wt b && wtp kt vt t
  end.

Lemma wt_list et l : wt (VList et l) = elem_ttype_ok et && len_ok (length l) && wte et l.
Proof.
  cbn [wt]. f_equal. induction l as [|x t IH]; cbn [wte]; auto. rewrite IH. reflexivity.
Qed.
Lemma wt_set et l : wt (VSet et l) = wt (VList et l).
Proof. reflexivity. Qed.
Lemma wt_map kt vt l : wt (VMap kt vt l) = elem_ttype_ok kt && elem_ttype_ok vt && len_ok (length l) && wtp kt vt l.
Proof.
  cbn [wt]. f_equal. induction l as [|[a b] t IH]; cbn [wtp]; auto. rewrite IH. reflexivity.
Qed.

Lemma wte_in et l x : wte et l = true -> In x l -> wt x = true /\ ttype_of x = et.
Proof.
  induction l as [|y t IH]; intros H Hin; [destruct Hin|].
  cbn [wte] in H. apply andb_prop in H as [H H3]. apply andb_prop in H as [H1 H2].
  destruct Hin as [<-|Hin]; [|auto].
  split; auto. destruct (ttype_eqb_spec (ttype_of y) et); congruence.
Qed.
Lemma wtp_in kt vt l q : wtp kt vt l = true -> In q l ->
  wt (fst q) = true /\ ttype_of (fst q) = kt /\ wt (snd q) = true /\ ttype_of (snd q) = vt.
Proof.
  induction l as [|[a b] t IH]; intros H Hin; [destruct Hin|].
  cbn [wtp] in H. apply andb_prop in H as [H H5]. apply andb_prop in H as [H H4].
  apply andb_prop in H as [H H3]. apply andb_prop in H as [H1 H2].
  destruct Hin as [<-|Hin]; [|auto]. cbn [fst snd].
  destruct (ttype_eqb_spec (ttype_of a) kt); try congruence.
  destruct (ttype_eqb_spec (ttype_of b) vt); try congruence. auto.
Qed.

Lemma wt_list_inv et l : wt (VList et l) = true ->
  elem_ttype_ok et = true /\ len_ok (length l) = true /\ forall x, In x l -> wt x = true /\ ttype_of x = et.
Proof.
  rewrite wt_list. intros H. apply andb_prop in H as [H H3]. apply andb_prop in H as [H1 H2].
  repeat split; auto; eapply wte_in; eauto.
Qed.

Lemma wt_map_inv kt vt l : wt (VMap kt vt l) = true ->
  elem_ttype_ok kt = true /\ elem_ttype_ok vt = true /\ len_ok (length l) = true /\
  forall q, In q l -> wt (fst q) = true /\ ttype_of (fst q) = kt /\ wt (snd q) = true /\ ttype_of (snd q) = vt.
Proof.
  rewrite wt_map. intros H. apply andb_prop in H as [H H4]. apply andb_prop in H as [H H3].
  apply andb_prop in H as [H1 H2].
  split; auto. split; auto. split; auto. intros q Hq. eapply wtp_in; eauto.
Qed.

Lemma read_val_S p f ty s : read_val p (S f) ty s =
  match ty with
  | TBool => let* (b, s) := r_bool p s in Ok (VBool b, s)
  | TI8 => let* (z, s) := r_i8 s in Ok (VI8 z, s)
  | TI16 => let* (z, s) := r_i16 p s in Ok (VI16 z, s)
  | TI32 => let* (z, s) := r_i32 p s in Ok (VI32 z, s)
  | TI64 => let* (z, s) := r_i64 p s in Ok (VI64 z, s)
  | TDouble => let* (z, s) := r_double p s in Ok (VDouble z, s)
  | TBinary => let* (l, s) := r_bytes p s in Ok (VBinary l, s)
  | TUuid => let* (l, s) := r_uuid s in Ok (VUuid l, s)
  | TStruct =>
      let* (_, s) := r_struct_begin p s in
      let* (fs, s) := fields_loop p (read_val p f) (S f) s [] in
      let* (_, s) := r_struct_end p s in
      Ok (VStruct fs, s)
  | TList =>
      let* (h, s) := r_coll_begin p s in
      let* (l, s) := elems_loop (read_val p f) (S f) (fst h) (snd h) s [] in
      Ok (VList (fst h) l, s)
  | TSet =>
      let* (h, s) := r_coll_begin p s in
      let* (l, s) := elems_loop (read_val p f) (S f) (fst h) (snd h) s [] in
      Ok (VSet (fst h) l, s)
  | TMap =>
      let* (h, s) := r_map_begin p s in
      let* (l, s) := pairs_loop (read_val p f) (S f) (fst (fst h)) (snd (fst h)) (snd h) s [] in
      Ok (VMap (fst (fst h)) (snd (fst h)) l, s)
  | TStop | TVoid => Err EInvalidData
  end.
Proof. reflexivity. Qed.

Lemma RT_coll p k (isl : bool) et l :
  Forall (RT p k) l -> RT p k (if isl then VList et l else VSet et l).
Proof.
  intros HF Hwt c Hp.
  assert (Hwt' : wt (VList et l) = true) by (destruct isl; exact Hwt).
  destruct (wt_list_inv et l Hwt') as (Het & Hlen & Hel).
  apply len_ok_bound in Hlen.
  destruct (w_coll_ok p et (Z.of_nat (length l)) c Het Hlen) as (s1 & Hw1 & Hr1).
  destruct (elems_rt p k et l HF Hel c Hp) as (s2 & Hw2 & Hl2 & Hr2).
  exists (s1 ++ s2). split.
  { destruct isl; cbn [write_val]; eapply wseq_ok; eauto. }
  split.
  { rewrite flat_app, app_length.
    assert (1 <= length (flat s1))%nat; [|lia].
    destruct p; cbn [w_coll_begin] in Hw1.
    1,2: unfold wseq, w_byte, wret in Hw1; cbn [bind] in Hw1;
         match type of Hw1 with context [w_i32 ?p ?z ?c] => destruct (w_i32_ok p z c) as (l0 & E & _); rewrite E in Hw1 end;
         cbn [bind] in Hw1; injection Hw1 as <-; unfold flat; cbn; lia.
    destruct (ctype_of_ttype et); [|discriminate].
    destruct (Z.of_nat (length l) <=? 14); unfold wseq, w_byte, wret in Hw1; cbn [bind] in Hw1;
      injection Hw1 as <-; unfold flat; cbn; lia. }
  intros fuel r rcx Hf Hi.
  assert (Hsz : (vsize (VList et l) <= fuel)%nat) by (destruct isl; exact Hf).
  destruct fuel as [|f]; [pose proof (vsize_pos (VList et l)); lia|].
  assert (Hty : ttype_of (if isl then VList et l else VSet et l) = if isl then TList else TSet) by (destruct isl; reflexivity).
  rewrite Hty, read_val_S, flat_app, <- app_assoc.
  assert (Hh : r_coll_begin p (mkS (flat s1 ++ flat s2 ++ r) rcx) = Ok ((et, Z.of_nat (length l)), mkS (flat s2 ++ r) rcx)).
  { apply Hr1. rewrite app_length. lia. }
  assert (Hlp : elems_loop (read_val p f) (S f) et (Z.of_nat (length l)) (mkS (flat s2 ++ r) rcx) []
                = Ok (map (canon p) l, mkS r rcx)).
  { rewrite Hr2; [reflexivity| |pose proof (vsize_list_len et l); lia|exact Hi].
    intros x Hx. pose proof (vsize_list_bound et l x Hx). lia. }
  destruct isl; rewrite Hh; cbn [bind fst snd]; rewrite Hlp; reflexivity.
Qed.

Lemma canon_map_eq p kt vt l :
  canon p (VMap kt vt l) =
  let '(a, b, _) := map_hdr_canon p kt vt (Z.of_nat (length l)) in
  VMap a b (map (fun '(x, y) => (canon p x, canon p y)) l).
Proof.
  cbn [canon]. destruct p; cbn [canon1 map_hdr_canon]; try reflexivity.
  destruct l as [|q t]; [reflexivity|].
  cbn [length map]. replace (Z.of_nat (S (length t)) =? 0) with false by lia.
  destruct q. reflexivity.
Qed.

Lemma RT_map p k kt vt l :
  Forall (fun q => RT p k (fst q) /\ RT p k (snd q)) l -> RT p k (VMap kt vt l).
Proof.
  intros HF Hwt c Hp.
  destruct (wt_map_inv kt vt l Hwt) as (Hk & Hv & Hlen & Hel).
  apply len_ok_bound in Hlen.
  destruct (w_map_ok p kt vt (Z.of_nat (length l)) c Hk Hv Hlen) as (s1 & Hw1 & Hr1).
  destruct (pairs_rt p k kt vt l HF Hel c Hp) as (s2 & Hw2 & Hl2 & Hr2).
  exists (s1 ++ s2). split.
  { cbn [write_val]. eapply wseq_ok; eauto. }
  split.
  { rewrite flat_app, app_length.
    assert (1 <= length (flat s1))%nat; [|lia].
    destruct p; cbn [w_map_begin] in Hw1.
    1,2: unfold wseq, w_byte, wret in Hw1; cbn [bind] in Hw1;
         match type of Hw1 with context [w_i32 ?p ?z ?c] => destruct (w_i32_ok p z c) as (l0 & E & _); rewrite E in Hw1 end;
         cbn [bind] in Hw1; injection Hw1 as <-; unfold flat; cbn; lia.
    destruct (Z.of_nat (length l) =? 0).
    - unfold w_byte, wret in Hw1. injection Hw1 as <-. unfold flat; cbn; lia.
    - destruct (ctype_of_ttype kt); [|discriminate]. destruct (ctype_of_ttype vt); [|discriminate].
      unfold wseq, w_byte, wret in Hw1; cbn [bind] in Hw1. injection Hw1 as <-.
      unfold flat. cbn [app map concat seg_bytes]. rewrite app_length. cbn [length]. lia. }
  intros fuel r rcx Hf Hi.
  destruct fuel as [|f]; [pose proof (vsize_pos (VMap kt vt l)); lia|].
  cbn [ttype_of]. rewrite read_val_S, flat_app, <- app_assoc.
  rewrite Hr1 by (rewrite app_length; lia). cbn [bind].
  rewrite canon_map_eq.
  assert (Hlp : forall a b, pairs_loop (read_val p f) (S f) a b (Z.of_nat (length l)) (mkS (flat s2 ++ r) rcx) []
                = Ok (map (fun '(x, y) => (canon p x, canon p y)) l, mkS r rcx) \/ (a, b) <> (kt, vt)).
  { intros a b. destruct (ttype_eqb_spec a kt) as [->|Na]; [|right; congruence].
    destruct (ttype_eqb_spec b vt) as [->|Nb]; [|right; congruence]. left.
    rewrite Hr2; [reflexivity| |pose proof (vsize_map_len kt vt l); lia|exact Hi].
    intros q Hq. pose proof (vsize_map_bound kt vt l q Hq). lia. }
  unfold map_hdr_canon.
  destruct p; cbn [fst snd].
  1,2: destruct (Hlp kt vt) as [E|N]; [rewrite E; reflexivity|congruence].
  destruct (Z.eqb_spec (Z.of_nat (length l)) 0) as [Hz|Hnz]; cbn [fst snd].
  - destruct l; [|cbn [length] in Hz; lia]. cbn [flat map concat app] in *.
    assert (s2 = []) as ->.
    { cbn [write_pairs] in Hw2. unfold wnop in Hw2. injection Hw2 as <-. reflexivity. }
    cbn [pairs_loop Z.leb Z.compare map flat concat app bind rev]. reflexivity.
  - destruct (Hlp kt vt) as [E|N]; [rewrite E; reflexivity|congruence].
Qed.

Lemma RT_struct p k fs :
  Forall (fun q => RT p k (snd q)) fs -> RT p k (VStruct fs).
Proof.
  intros HF Hwt c Hp. rewrite wt_struct in Hwt.
  set (c1 := match p with PCompact => mkW 0 (w_last c :: w_stack c) None | _ => c end).
  assert (Hb : w_struct_begin p c = Ok ([], c1)).
  { subst c1. destruct p; cbn [w_struct_begin]; try reflexivity. rewrite Hp. reflexivity. }
  assert (Hp1 : w_pend c1 = None) by (subst c1; destruct p; auto).
  assert (Hl1 : p = PCompact -> in_s 16 (w_last c1)) by (intros ->; subst c1; apply in_s16_0).
  destruct (fields_rt p k fs HF Hwt c1 Hp1 Hl1) as (s2 & c2 & Hw2 & Hp2 & Hst2 & Hnc2 & Hr2).
  destruct (w_field_stop_ok p c2 Hp2) as [Hstop _].
  assert (He : w_struct_end p c2 = Ok ([], c)).
  { destruct p; cbn [w_struct_end].
    - rewrite (Hnc2 ltac:(discriminate)). reflexivity.
    - rewrite (Hnc2 ltac:(discriminate)). reflexivity.
    - rewrite Hp2, Hst2. subst c1. cbn [w_stack]. rewrite wctx_eta by auto. reflexivity. }
  exists ((([] ++ s2) ++ [Copy [x00]]) ++ []). split.
  { change (write_val p k (VStruct fs)) with
      (w_struct_begin p ;; write_fields p k fs ;; w_field_stop p ;; w_struct_end p).
    eapply wseq_ok; [eapply wseq_ok; [eapply wseq_ok|]|]; eauto. }
  cbn [app]. rewrite app_nil_r. split.
  { rewrite flat_app, app_length. unfold flat at 2. cbn. lia. }
  intros fuel r rcx Hf Hi.
  destruct fuel as [|f]; [pose proof (vsize_pos (VStruct fs)); lia|].
  cbn [ttype_of]. rewrite read_val_S, flat_app, flat_copy, <- app_assoc. cbn [app].
  set (rcx1 := match p with PCompact => mkR 0 (r_last rcx :: r_stack rcx) (r_pbool rcx) (r_pfield rcx) | _ => rcx end).
  assert (Hrb : r_struct_begin p (mkS (flat s2 ++ x00 :: r) rcx) = Ok (tt, mkS (flat s2 ++ x00 :: r) rcx1)).
  { subst rcx1. destruct p; reflexivity. }
  rewrite Hrb. cbn [bind].
  assert (Hi1 : idle rcx1) by (subst rcx1; destruct p; auto; destruct Hi; split; auto).
  rewrite Hr2; [| |pose proof (vsize_struct_len fs); lia|exact Hi1|].
  - cbn [bind rev app].
    assert (Hre : r_struct_end p (mkS r (rlast_upd p (w_last c2) rcx1)) = Ok (tt, mkS r rcx)).
    { subst rcx1. destruct p; cbn [r_struct_end rlast_upd]; try reflexivity.
      unfold set_rc. cbn [rc rbuf r_stack r_pbool r_pfield]. rewrite rctx_eta. reflexivity. }
    rewrite Hre. cbn [bind canon]. reflexivity.
  - intros q Hq. destruct (vsize_struct_bound fs q Hq). lia.
  - intros ->. subst rcx1 c1. reflexivity.
Qed.

Theorem roundtrip_val p k v : RT p k v.
Proof.
  induction v using tval_ind'.
  - apply RT_bool. - apply RT_i8. - apply RT_i16. - apply RT_i32. - apply RT_i64.
  - apply RT_double. - apply RT_binary. - apply RT_uuid.
  - apply RT_struct; auto.
  - apply (RT_coll p k true); auto.
  - apply (RT_coll p k false); auto.
  - apply RT_map; auto.
Qed.

(* --- sequences of values on one buffer, one writer, one reader --- *)
Theorem roundtrip_vals p k vs :
  forallb wt vs = true ->
  forall c, w_pend c = None ->
  exists ss, write_vals p k vs c = Ok (ss, c) /\
    forall fuel r rcx, (forall v, In v vs -> (vsize v <= fuel)%nat) -> idle rcx ->
      read_vals p fuel (map ttype_of vs) (mkS (flat ss ++ r) rcx) = Ok (map (canon p) vs, mkS r rcx).
Proof.
  induction vs as [|v t IH]; intros Hwt c Hp.
  - exists []. split; [reflexivity|]. intros. reflexivity.
  - cbn [forallb] in Hwt. apply andb_prop in Hwt as [Hv Ht].
    destruct (roundtrip_val p k v Hv c Hp) as (s1 & Hw1 & _ & Hr1).
    destruct (IH Ht c Hp) as (s2 & Hw2 & Hr2).
    exists (s1 ++ s2). split; [cbn [write_vals]; eapply wseq_ok; eauto|].
    intros fuel r rcx Hf Hi. cbn [map read_vals].
    rewrite flat_app, <- app_assoc.
    rewrite Hr1; [|apply Hf; left; reflexivity|exact Hi]. cbn [bind].
    rewrite Hr2; [reflexivity|intros x Hx; apply Hf; right; exact Hx|exact Hi].
Qed.

(* --- the bytes do not depend on the buffer kind --- *)
Definition fl (r : res (list seg * wctx)) : res (list byte * wctx) :=
  match r with Ok (ss, c) => Ok (flat ss, c) | Err e => Err e | Panic s => Panic s end.

Lemma fl_wseq (a b : wm) c :
  fl ((a ;; b) c) = let* (x, c1) := fl (a c) in let* (y, c2) := fl (b c1) in Ok (x ++ y, c2).
Proof.
  unfold wseq. destruct (a c) as [[s1 c1]| |]; cbn [bind fl]; auto.
  destruct (b c1) as [[s2 c2]| |]; cbn [bind fl]; auto. rewrite flat_app. reflexivity.
Qed.

Lemma fl_wseq_ext (a a' b b' : wm) c :
  fl (a c) = fl (a' c) -> (forall c1, fl (b c1) = fl (b' c1)) -> fl ((a ;; b) c) = fl ((a' ;; b') c).
Proof.
  intros Ha Hb. rewrite !fl_wseq, Ha. destruct (fl (a' c)) as [[x c1]| |]; cbn [bind]; auto.
  rewrite Hb. reflexivity.
Qed.

Lemma fl_bwl k k' b c : fl (w_bytes_without_len k b c) = fl (w_bytes_without_len k' b c).
Proof.
  unfold w_bytes_without_len.
  destruct k as [|[|]], k' as [|[|]]; try reflexivity;
    destruct (zero_copy_threshold <=? Z.of_nat (length b)); reflexivity.
Qed.

Theorem buffer_independent p k k' v : forall c, fl (write_val p k v c) = fl (write_val p k' v c).
Proof.
  induction v using tval_ind'; intros c; try reflexivity.
  - cbn [write_val]. unfold w_bytes. apply fl_wseq_ext; [reflexivity|]. intros c1. apply fl_bwl.
  - change (write_val p k (VStruct fs)) with
      (w_struct_begin p ;; write_fields p k fs ;; w_field_stop p ;; w_struct_end p).
    change (write_val p k' (VStruct fs)) with
      (w_struct_begin p ;; write_fields p k' fs ;; w_field_stop p ;; w_struct_end p).
    apply fl_wseq_ext; [|reflexivity]. apply fl_wseq_ext; [|reflexivity].
    apply fl_wseq_ext; [reflexivity|]. clear c.
    induction fs as [|[i x] t IHt]; intros c; [reflexivity|].
    inversion H as [|? ? Hx Ht]; subst. cbn [snd] in Hx.
    change (write_fields p k ((i, x) :: t)) with
      (w_field_begin p (ttype_of x) i ;; write_val p k x ;; w_field_end p ;; write_fields p k t).
    change (write_fields p k' ((i, x) :: t)) with
      (w_field_begin p (ttype_of x) i ;; write_val p k' x ;; w_field_end p ;; write_fields p k' t).
    apply fl_wseq_ext; [|intros; apply IHt; auto].
    apply fl_wseq_ext; [|reflexivity]. apply fl_wseq_ext; [reflexivity|]. exact Hx.
  - cbn [write_val]. apply fl_wseq_ext; [reflexivity|]. clear c.
    induction l as [|x t IHt]; intros c; [reflexivity|].
    inversion H as [|? ? Hx Ht]; subst.
    apply fl_wseq_ext; [apply Hx|intros; apply IHt; auto].
  - cbn [write_val]. apply fl_wseq_ext; [reflexivity|]. clear c.
    induction l as [|x t IHt]; intros c; [reflexivity|].
    inversion H as [|? ? Hx Ht]; subst.
    apply fl_wseq_ext; [apply Hx|intros; apply IHt; auto].
  - cbn [write_val]. apply fl_wseq_ext; [reflexivity|]. clear c.
    induction l as [|[a b] t IHt]; intros c; [reflexivity|].
    inversion H as [|? ? Hx Ht]; subst. cbn [fst snd] in Hx. destruct Hx as [Ha Hb].
    apply fl_wseq_ext; [|intros; apply IHt; auto].
    apply fl_wseq_ext; [apply Ha|exact Hb].
Qed.

(* --- non-vacuity: the hypotheses are met by non-trivial values --- *)
Definition ex_val : tval :=
  VStruct [(1, VBool true);
           (2, VStruct [(1, VBool false); (5, VStruct [(3, VBool true)]); (3, VI32 7)]);
           (200, VI16 (-3));
           (201, VMap TBinary TI32 []);
           (-5, VList TI8 [VI8 1; VI8 (-128)]);
           (32767, VDouble 4609434218613702656)].
Example ex_val_wt : wt ex_val = true.
Proof. reflexivity. Qed.
Example ex_val_rt :
  forall p, exists ss, write_val p BContig ex_val w0 = Ok (ss, w0) /\
    read_val p 64 TStruct (mkS (flat ss ++ [xff]) r0) = Ok (canon p ex_val, mkS [xff] r0).
Proof.
  intros p. destruct (roundtrip_val p BContig ex_val ex_val_wt w0 eq_refl) as (ss & Hw & _ & Hr).
  exists ss. split; [exact Hw|]. apply Hr; [cbn; lia|apply idle_r0].
Qed.
