"""C10 -- Protobuf decoders are total and bounded on arbitrary bytes."""
from .. import pbcodec as pc


def _inlen(case):
    t = pc.case_line(case).split()
    h = t[-1]
    return 0 if h == "-" else len(h) // 2


def groups(rng, tier):
    n = 5000 if tier == "quick" else 100000

    def total(case, out):
        return pc.oracle_total(case, out, _inlen(case))

    # every `mrg` / `mrgr` entry: arbitrary bytes, truncations, bit flips, length corruptions of valid payloads
    malformed = pc.gen_malformed_cases(rng, n)

    # length prefixes that exceed the remaining input, through every module that can see one
    lenpref = []
    for mod in pc.ALL_MODS:
        for cmd in ("mrg", "mrgr"):
            for claim, have in ((1, 0), (2, 1), (5, 4), (128, 127), (300, 17), (2**31 - 1, 3), (2**31, 3), (2**32, 0),
                                (2**32 + 5, 4), (2**35 + 3, 9), (2**63, 1), (2**64 - 1, 0)):
                body = bytes(rng.randrange(1, 128) for _ in range(have))
                lenpref.append("%s %s 2 %s" % (cmd, mod, pc.hx(pc.ref_varint(claim) + body)))
    for claim, have in ((1, 0), (5, 4), (2**32, 2), (2**64 - 1, 0), (2**40, 11)):
        lenpref.append("skip 2 9 %s" % pc.hx(pc.ref_varint(claim) + b"\x01" * have))
        lenpref.append("skip 3 9 %s" % pc.hx(pc.ref_key(7, 2) + pc.ref_varint(claim) + b"\x01" * have))

    def lenpref_oracle(case, out):
        why = total(case, out)
        if why:
            return why
        t = pc.case_line(case).split()
        o = pc.strip_tail(out).split()
        if o[:1] != ["ERR"]:
            return "a length prefix beyond the end of the input was accepted: " + out[:120]
        mod = t[1]
        if t[0] != "skip" and (mod in pc.LEN or t[0] == "mrgr") and o[1] != "underflow":
            return "a length prefix beyond the end of the input must give ERR underflow, got " + out[:120]
        p = pc.tail_num(out, "P")
        if p is not None and p > 4096:
            return "%d bytes allocated before the oversized length prefix was rejected" % p
        return None

    # skip_field: groups nested 1..300, corrupted records of every wire type
    skip = pc.gen_skip_cases(rng, n // 3)
    for d in sorted(set([1, 2, 3, 50, 99, 100, 101, 102, 103, 199, 200, 250, 299, 300] + [rng.randrange(1, 301) for _ in range(40)])
                    if tier == "quick" else range(1, 301)):
        skip.append("skip 3 %d %s #depth %d" % (5, pc.hx(pc.nested_groups(5, d)), d))
        skip.append("skip 3 %d %s #depth %d" % (5, pc.hx(pc.nested_groups(5, d)[:d + 3]), d))      # truncated
        # a scalar in the innermost group
        inner = pc.ref_key(5, 3) * (d - 1) + pc.ref_key(6, 0) + b"\x07" + pc.ref_key(5, 4) * d
        skip.append("skip 3 5 %s #depthscalar %d" % (pc.hx(inner), d))

    def skip_oracle(case, out):
        why = total(case, out)
        if why:
            return why
        if " #depth " in case:
            d = int(case.split(" #depth ")[1])
            o = pc.strip_tail(out).split()
            full = pc.case_line(case).split()[3] == pc.hx(pc.nested_groups(5, d))
            if d > 100 and o[:2] != ["ERR", "recursion"]:
                return "groups nested %d deep must give ERR recursion, got %s" % (d, out[:80])
            if d <= 100 and full and o[:2] != ["OK", "R0"]:
                return "groups nested %d deep (within the limit) rejected: %s" % (d, out[:80])
        if " #depthscalar " in case:
            d = int(case.split(" #depthscalar ")[1])
            o = pc.strip_tail(out).split()
            if d >= 100 and o[:2] != ["ERR", "recursion"]:
                return "a field %d groups deep must give ERR recursion, got %s" % (d, out[:80])
            if d < 100 and o[:2] != ["OK", "R0"]:
                return "a field %d groups deep (within the limit) rejected: %s" % (d, out[:80])
        return None

    # varints, keys, length delimiters on arbitrary bytes
    wire = [c for c in pc.gen_wire_cases(rng, n // 3) if c.split()[0] in ("vi", "dkey")]
    for _ in range(n // 6):
        k = rng.choice([0, 1, 2, 5, 9, 10, 11, 12, 20])
        b = bytes((rng.randrange(256) | (0x80 if rng.random() < 0.6 else 0)) for _ in range(k))
        wire.append("%s %s" % (rng.choice(["vi", "dkey", "ld"]), pc.hx(b)))
    return [("malformed", malformed, total), ("len-prefix", lenpref, lenpref_oracle), ("skip", skip, skip_oracle),
            ("wire", wire, total)]


RULE = ("codec level (pilota::prost::encoding called directly, answers compared with the extracted Coq model line by line): "
        "malformed = every mrg / mrgr entry (17 module names x 6 wire types) on empty input, random bytes, and on truncations, "
        "single-bit flips, length-varint replacements and wire-type swaps of valid single and packed payloads; len-prefix = a "
        "length varint claiming 1 .. 2^64-1 bytes with fewer behind it through every module (merge and merge_repeated) and "
        "skip_field (top level and inside a group): must be ERR underflow with peak heap <= 4096 bytes; skip = unknown records of "
        "every wire type (valid, truncated, bit-flipped, contiguous and chunked buffers) and groups nested 1..300 (complete, "
        "truncated, with a scalar in the innermost group): ERR recursion beyond 100, accepted within; wire = decode_varint "
        "(3 buffer chunkings + &[u8]), decode_key, decode_length_delimiter on arbitrary bytes. Oracle on the implementation "
        "alone: the answer is OK or ERR, never PANIC / CRASH / no answer, peak heap <= 64*len + 65536. Generated-message level = "
        "pv/pbgen.run_c10 (random bytes, plausible records, truncations / bit flips / insertions / length-prefix corruptions of "
        "valid encodings, lone oversized prefixes for every LEN-typed field, nesting 1..300 of messages / map entries / unknown "
        "groups / mixed, non-canonical scalars, length-delimited framing) over every generated message of the corpus and the "
        "wrapper impls of types.rs, both feature builds; group-holder = grpdec lines (truncated / corrupted encodings of the "
        "hand-written GroupHolder<M>, wrong end-group numbers, unterminated groups, groups nested 1..120); every case -- codec and "
        "generated level -- is ALSO decoded from non-contiguous buffers holding the same bytes (multi-chunk Buf, Buf::chain, "
        "small pieces, wrapped VecDeque<u8>): no panic there either and the same answer as from the contiguous buffer. "
        "non-trivial = non-empty input; distinct by SHA-1 of the case line")


def run(chk, replay=None):
    return pc.engine(chk, "C10", replay, groups, RULE, gen_fn="run_c10")
