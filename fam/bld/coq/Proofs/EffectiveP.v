(* Lemmas about Effective.v (C14): the site that creates the helper items of a function and the site that refers to one of them
   compute the same name -- over the REGENERATED table of who reads the pilota.name tag. *)
From Coq Require Import String List Bool Arith.
From PVBld Require Import Generated.NameSites Names Effective.
Import ListNotations.
Open Scope string_scope.

(* the tag is read by Context::rust_name (every reference to an item's Rust name goes through it), twice by lower_service (scan of
   the colliding forms, producer of the helper items) and once by lower_method (consumer); nobody else *)
Lemma name_sites_as_modelled :
  filter (fun s => String.eqb (snd s) "read") pilota_name_sites =
    [("middle/context.rs", "rust_name", "read"); ("parser/thrift/mod.rs", "lower_service", "read");
     ("parser/thrift/mod.rs", "lower_service", "read"); ("parser/thrift/mod.rs", "lower_method", "read")] /\
  helper_name_sites =
    [("lower_service", ["ResultRecv"; "ResultSend"; "Exception"; "ArgsSend"; "ArgsRecv"], 2); ("lower_method", ["Exception"], 1)].
Proof. split; vm_compute; reflexivity. Qed.

Lemma all_sites_effective : scan_uses_tag = true /\ producer_uses_tag = true /\ consumer_uses_tag = true.
Proof. repeat split; vm_compute; reflexivity. Qed.

(* C14_effective_name_consistent *)
Lemma effective_name_consistent (camel : string -> string) service fs f :
  (f_throws f = true ->
     exists p, exception_path camel service (duplicates camel fs) f = Some p /\
               In p (helper_items camel service (duplicates camel fs) f)) /\
  (f_throws f = false -> exception_path camel service (duplicates camel fs) f = None).
Proof.
  destruct all_sites_effective as [_ [P C]].
  unfold exception_path, helper_items. rewrite P, C. split; intros T.
  - rewrite T. eexists. split; [reflexivity|].
    apply in_map_iff. exists "Exception". split; [reflexivity|].
    apply filter_In. split; [vm_compute; tauto|]. reflexivity.
  - now rewrite T.
Qed.

(* whatever the annotation: a renamed function and its siblings *)
Example effective_nonvacuous :
  let fs := [mkFunc "put" (Some "upsert") true; mkFunc "getItem" (Some "get_item") true; mkFunc "GetItem" None false] in
  let camel := fun s => if String.eqb s "get_item" then "GetItem" else if String.eqb s "upsert" then "Upsert" else s in
  duplicates camel fs = ["GetItem"; "GetItem"] /\
  helper_items camel "Store" (duplicates camel fs) (mkFunc "put" (Some "upsert") true) =
    ["StoreUpsertResultRecv"; "StoreUpsertResultSend"; "StoreUpsertException"; "StoreUpsertArgsSend"; "StoreUpsertArgsRecv"] /\
  exception_path camel "Store" (duplicates camel fs) (mkFunc "put" (Some "upsert") true) = Some "StoreUpsertException" /\
  exception_path camel "Store" (duplicates camel fs) (mkFunc "getItem" (Some "get_item") true) = Some "Storeget_itemException".
Proof. repeat split; vm_compute; reflexivity. Qed.

(* the consumer starting from the raw IDL name is wrong as soon as a function has both an annotation and `throws` *)
Lemma effective_name_raw_refuted :
  exists (camel : string -> string) service fs f p,
    In f fs /\ f_throws f = true /\ exception_path_raw camel service (duplicates camel fs) f = Some p /\
    ~ In p (helper_items camel service (duplicates camel fs) f).
Proof.
  exists (fun s => s), "Store", [mkFunc "put" (Some "upsert") true], (mkFunc "put" (Some "upsert") true). eexists.
  split; [now left|]. split; [reflexivity|]. split; [vm_compute; reflexivity|].
  vm_compute. intros H. repeat (destruct H as [H|H]; [discriminate|]). exact H.
Qed.

(* every reference to an item's Rust name goes through Context::rust_name (the one read site outside the lowering), and for a node
   that carries the annotation its answer is the annotation -- in every scope, with and without case conversion, colliding or not *)
Lemma rust_name_is_tag (conv : kind -> string -> string) cc scope x t :
  s_tag x = Some t -> rust_name conv cc scope x = t /\ emitted conv cc scope x = display t.
Proof. intros H. unfold emitted, rust_name. now rewrite H. Qed.

(* finding F-14p: heck drops the leading underscore of service `_1`; the helper items are then named from "1": not identifiers.
   (The strengthened [plain_ident] requires a letter / underscore head, so the hypothesis of display_token_ok excludes exactly this.) *)
Lemma digit_head_refuted :
  let camel := fun s => if String.eqb s "_1" then "1" else s in
  let names := helper_items camel (camel "_1") [] (mkFunc "K" None false) in
  names = ["1KResultRecv"; "1KResultSend"; "1KArgsSend"; "1KArgsRecv"] /\
  forallb (fun n => negb (plain_ident n) && negb (ident_token_ok (display n))) names = true.
Proof. split; vm_compute; reflexivity. Qed.
