#!/usr/bin/env python3
"""seed_caught.py <id> <caught_by text> <strengthening text>: records in seeded/<id>/meta.json and in DESIGN.md section 10
that a seeded change is now reported with a concrete input after the named strengthening."""
import json, sys, re
i, caught, stren = sys.argv[1:4]
p = f'/verif/seeded/{i}/meta.json'
m = json.load(open(p))
first = m['caught_by'].split(';')[0]
m['caught_by'] = first + '; ' + caught
m['strengthening'] = stren
json.dump(m, open(p, 'w'), indent=1)
d = open('/verif/DESIGN.md').read()
pat = re.compile(r'^\| %s \| .*$' % re.escape(i), re.M)
mm = pat.search(d)
assert mm, i
cols = mm.group(0).split(' | ')
cols[-2] = m['caught_by']
cols[-1] = stren + ' |'
d = d[:mm.start()] + ' | '.join(cols) + d[mm.end():]
open('/verif/DESIGN.md', 'w').write(d)
print('ok', i)
