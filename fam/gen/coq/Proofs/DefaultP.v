(* C20 at the generated-code level: decoding the one-byte empty struct with the emitted decoder yields,
   whenever it succeeds, exactly Default::default() of the emitted type (Defaults.default_of). *)
From PVGen Require Import Gen GenSpec Defaults Proofs.GenBase Proofs.EncP Proofs.RoundP.
From PV Require Import Proofs.TablesP Proofs.PrimP Proofs.HeaderP Proofs.RoundtripP.
From Coq Require Import ZifyN ZifyNat ZifyBool.
Open Scope Z_scope.

(* the struct clause of default_val *)
Definition dv_fields (S : schema) (f : nat) : list field -> option (list (Z * gval)) :=
  fix go (fs : list field) : option (list (Z * gval)) :=
    match fs with
    | [] => Some []
    | fd :: r =>
        match go r with
        | None => None
        | Some rest =>
            match f_dflt fd with
            | Some (_, d) => Some ((f_id fd, d) :: rest)
            | None =>
                match f_req fd with
                | Optional => Some rest
                | Required => match default_val S f (f_ty fd) with
                              | Some d => Some ((f_id fd, d) :: rest)
                              | None => None
                              end
                end
            end
        end
    end.

Lemma default_val_struct S f n fs kp ia : resolve S (TyRef n) = TyRef n -> lookup S n = Some (DStruct fs kp ia) ->
  default_val S (Datatypes.S f) (TyRef n) =
  match dv_fields S f fs with Some l => Some (GStruct l []) | None => None end.
Proof. intros Er Hl. cbn [default_val]. rewrite Er, Hl. reflexivity. Qed.

Lemma resolve_struct S n fs kp ia : lookup S n = Some (DStruct fs kp ia) -> resolve S (TyRef n) = TyRef n.
Proof. intros Hl. unfold resolve. cbn [resolve_n]. rewrite Hl. reflexivity. Qed.

(* no field was read: the variables are the initial ones; finishing them succeeds only if no required field lacks
   a default, and then gives the explicit Default impl *)
Lemma finish_init_default S f fs out :
  finish_fields fs (map init_var fs) = Ok out -> dv_fields S f fs = Some out.
Proof.
  revert out. induction fs as [|fd r IH]; intros out H.
  - cbn in H. injection H as <-. reflexivity.
  - cbn [map finish_fields] in H.
    destruct (finish_fields r (map init_var r)) as [rest| |]; cbn [bind] in H; try discriminate.
    cbn [dv_fields]. rewrite (IH rest eq_refl).
    unfold init_var in H. destruct (f_dflt fd) as [[[|] d]|].
    + injection H as <-. reflexivity.
    + injection H as <-. reflexivity.
    + destruct (f_req fd); [discriminate|]. injection H as <-. reflexivity.
Qed.

Theorem decode_empty_default : forall S p fuel n fs kp ia r rcx x s',
  lookup S n = Some (DStruct fs kp ia) ->
  gen_decode S p fuel (TyRef n) (mkS (x00 :: r) rcx) = Ok (x, s') ->
  default_of S (TyRef n) = Some x /\ s' = mkS r (clrp p rcx).
Proof.
  intros S p fuel n fs kp ia r rcx x s' Hl Hd.
  pose proof (resolve_struct _ _ _ _ _ Hl) as Er.
  destruct fuel as [|f]; [discriminate|]. rewrite gen_decode_S, Er, Hl in Hd.
  rewrite frame_rbegin in Hd. cbn [bind dec_fields] in Hd.
  destruct (r_field_begin_stop p r (rc1_ p rcx)) as (oid & Hs). rewrite Hs in Hd.
  cbn [bind fst ttype_eqb] in Hd.
  assert (Hstop : r_field_stop_len p (mkS r (clrp p (rc1_ p rcx))) = Ok (1, mkS r (clrp p (rc1_ p rcx)))).
  { unfold r_field_stop_len, r_assert_no_pending. destruct p; reflexivity. }
  rewrite Hstop in Hd; cbn [bind] in Hd.
  assert (Hre : r_struct_end p (mkS r (clrp p (rc1_ p rcx))) = Ok (tt, mkS r (clrp p rcx))).
  { destruct p; reflexivity. }
  rewrite Hre in Hd. cbn [bind] in Hd.
  destruct (finish_fields fs (map init_var fs)) as [out| |] eqn:Ef; cbn [bind] in Hd; try discriminate.
  injection Hd as <- <-. split; [|reflexivity].
  unfold default_of. rewrite (default_val_struct _ _ _ _ _ _ Er Hl).
  rewrite (finish_init_default _ _ _ _ Ef). reflexivity.
Qed.

(* in the form requested for C20 *)
Corollary decode_empty_is_default : forall S p fuel n fs kp ia r rcx x s',
  wf_schema S = true -> lookup S n = Some (DStruct fs kp ia) ->
  gen_decode S p fuel (TyRef n) (mkS (x00 :: r) rcx) = Ok (x, s') -> idle rcx ->
  default_of S (TyRef n) = Some x.
Proof. intros S p fuel n fs kp ia r rcx x s' _ Hl Hd _. exact (proj1 (decode_empty_default _ _ _ _ _ _ _ _ _ _ _ Hl Hd)). Qed.

(* and it does succeed exactly when no required field lacks a default (given fuel and an idle reader) *)
Theorem decode_empty_succeeds : forall S p f n fs kp ia r rcx out,
  lookup S n = Some (DStruct fs kp ia) -> idle rcx ->
  finish_fields fs (map init_var fs) = Ok out ->
  gen_decode S p (Datatypes.S f) (TyRef n) (mkS (x00 :: r) rcx) = Ok (GStruct out [], mkS r rcx).
Proof.
  intros S p f n fs kp ia r rcx out Hl Hi Hf.
  pose proof (resolve_struct _ _ _ _ _ Hl) as Er.
  rewrite gen_decode_S, Er, Hl. rewrite frame_rbegin. cbn [bind dec_fields].
  destruct (proj2 (w_field_stop_ok p w0 eq_refl) r (rc1_ p rcx) (proj2 (rc1_idle p _ Hi))) as (oid & Hs). rewrite Hs.
  cbn [bind fst ttype_eqb].
  rewrite r_field_stop_len_idle by (apply rc1_idle; exact Hi). cbn [bind].
  pose proof (frame_rend p r (r_last (rc1_ p rcx)) rcx) as Hre.
  replace (rlast_upd p (r_last (rc1_ p rcx)) (rc1_ p rcx)) with (rc1_ p rcx) in Hre
    by (destruct p; cbn [rlast_upd]; auto; symmetry; apply rctx_eta).
  rewrite Hre. cbn [bind]. rewrite Hf. reflexivity.
Qed.

(* ---------- non-vacuity ---------- *)
Definition S2 : schema :=
  [ DStruct [mkField 1 Optional TyI32 None; mkField 2 Optional TyI32 (Some (true, GI32 7));
             mkField 3 Required TyString (Some (false, GBytes [x61])); mkField 4 Optional (TyRef 1) None] false false;
    DStruct [mkField 1 Required TyBool None] false false ].

Example decode_empty_nonvacuous :
  wf_schema S2 = true /\
  (forall p, gen_decode S2 p 5 (TyRef 0) (mkS [x00; x2a] r0)
             = Ok (GStruct [(2, GI32 7); (3, GBytes [x61])] [], mkS [x2a] r0)) /\
  default_of S2 (TyRef 0) = Some (GStruct [(2, GI32 7); (3, GBytes [x61])] []) /\
  (* a struct with a required field without default: the empty struct does not decode *)
  (forall p, gen_decode S2 p 5 (TyRef 1) (mkS [x00] r0) = Err EInvalidData).
Proof.
  split; [vm_compute; reflexivity|]. split; [intros p; destruct p; vm_compute; reflexivity|].
  split; [vm_compute; reflexivity|]. intros p; destruct p; vm_compute; reflexivity.
Qed.
