(* C11 -- the unchecked binary codec equals the checked one within its contract (primitive level).
   Every raw access of binary_unsafe.rs is modelled with an explicit bounds test whose failure is the
   outcome [Panic SOob] (undefined behaviour in Rust); the theorems state that this outcome does not
   occur when the documented preconditions hold.
   The iterative skipper [u_skip] / [skip_iter] is proved equal to the checked recursive skipper on
   every input the latter accepts (C11_skip_eq below; details and the fixed-size table: the C07_iter theorems). *)
From PV Require Import Thrift.Unsafe Proofs.HeaderP Proofs.RoundtripP Proofs.SkipP Proofs.UnsafeP Proofs.IterSkipP.
Open Scope Z_scope.

(* Writer.  On a transport set up as the contract prescribes -- a BytesMut pre-sized to [cap]
   initialised bytes with the window over them, or a LinkedBytes with [cap] bytes of spare capacity,
   zero-copy on or off -- with [cap] at least the number of bytes of the encoding (what the size pass
   reports, C04), the unchecked writer produces EXACTLY the segments of the checked binary writer
   (same bytes, same zero-copy nodes, payloads on either side of the threshold), never writes outside
   its window (no [Panic SOob]), uses exactly the copied bytes of its room, and on a contiguous
   transport ends with index() = bytes written. *)
Theorem C11_write_eq : forall k zc v cap,
  wt v = true ->
  (match k with BContig => True | BLinked z => z = zc end) ->
  exists ss, write_val PBinary k v w0 = Ok (ss, w0) /\
    (Z.of_nat (length (flat ss)) <= cap ->
     exists u', uwrite_val zc v (match k with BContig => uw_contig cap | BLinked _ => uw_linked cap end) = Ok (ss, u') /\
       uw_room u' = cap - copy_len ss /\ uw_zc u' = zc_len ss /\
       (k = BContig -> uw_idx u' = Z.of_nat (length (flat ss)))).
Proof. exact unchecked_write_eq. Qed.
Print Assumptions C11_write_eq.

(* the compositional form, for any starting state of the unchecked writer with enough room *)
Theorem C11_write_simulation : forall k zc v c ss c' u,
  write_val PBinary k v c = Ok (ss, c') -> kind_ok k zc u -> fits ss u ->
  exists u', uwrite_val zc v u = Ok (ss, u') /\ after ss u u' /\ kind_ok k zc u'.
Proof. exact (fun k zc v => uwrite_val_UWR k zc v). Qed.
Print Assumptions C11_write_simulation.

(* Reader.  On EVERY input on which the checked binary reader returns a value, the unchecked reader
   returns the same value, never reads outside the buffer, and its cursor (bytes advanced + index)
   stands exactly where the checked reader stopped. *)
Theorem C11_read_eq : forall f ty l rcx v s',
  read_val PBinary f ty (mkS l rcx) = Ok (v, s') ->
  exists u', uread_val f ty (mkU l 0) = Ok (v, u') /\ urest u' = rbuf s' /\ (uidx u' <= length (ubuf u'))%nat.
Proof. exact unchecked_read_eq. Qed.
Print Assumptions C11_read_eq.

(* composed with C01: every complete well-formed encoding in memory, followed by anything *)
Theorem C11_roundtrip : forall k v c,
  wt v = true -> w_pend c = None ->
  exists ss, write_val PBinary k v c = Ok (ss, c) /\
    forall fuel r, (vsize v <= fuel)%nat ->
      exists u', uread_val fuel (ttype_of v) (mkU (flat ss ++ r) 0) = Ok (v, u') /\ urest u' = r.
Proof. exact unchecked_roundtrip. Qed.
Print Assumptions C11_roundtrip.

(* Skipper.  On EVERY input on which the checked binary skipper succeeds (any depth budget, so any
   nesting depth), the unchecked codec's iterative skipper -- entered through TInputProtocol::skip
   right after a field header, or directly through skip_till_depth -- returns the same count and
   stops at the same position, without any access outside its window (no [Panic SOob] / [SSplit]). *)
Theorem C11_skip_eq : forall f d ty s c s' u,
  skip_val PBinary f d ty s = Ok (c, s') -> RU s u ->
  (exists k u', (forall fuel, skip_iter (k + fuel) ty u = Ok (c, u')) /\ RU s' u' /\ ubuf u' = ubuf u) /\
  ((3 <= uidx u)%nat -> exists k u', (forall fuel, u_skip (k + fuel) ty u = Ok (c, u')) /\ RU s' u').
Proof. exact unchecked_skip_eq. Qed.
Print Assumptions C11_skip_eq.

(* enveloped messages: on EVERY input on which the checked binary reader reads a sequence of enveloped messages
   (read_message_begin + value, several back to back on one protocol object), the unchecked reader returns the same
   envelopes and values, never reads outside its window, and its cursor stands where the checked reader stopped; composed
   with C01_message_sequence: what the checked binary writer produces is read back by the unchecked reader *)
From PV Require Import Thrift.AppMsg Proofs.AppMsgP.
Theorem C11_message_eq : forall tys f l rcx ms s',
  read_msgs PBinary f tys (mkS l rcx) = Ok (ms, s') ->
  exists u', uread_msgs f tys (mkU l 0) = Ok (ms, u') /\ urest u' = rbuf s' /\ (uidx u' <= length (ubuf u'))%nat.
Proof. exact unchecked_message_eq. Qed.
Print Assumptions C11_message_eq.

Theorem C11_message_roundtrip : forall k msgs c, Forall msg_ok msgs -> w_pend c = None ->
  exists ss, write_msgs PBinary k msgs c = Ok (ss, c) /\
    forall fuel r, (forall q, In q msgs -> (vsize (snd q) <= fuel)%nat) ->
      exists u', uread_msgs fuel (map (fun q => ttype_of (snd q)) msgs) (mkU (flat ss ++ r) 0)
                   = Ok (map (fun q => (fst q, canon PBinary (snd q))) msgs, u') /\ urest u' = r.
Proof. exact unchecked_message_roundtrip. Qed.
Print Assumptions C11_message_roundtrip.

(* the envelope WRITER: a sequence of enveloped messages written back to back by the unchecked writer on
   a transport set up as the contract prescribes, with room for the bytes of the whole sequence: exactly
   the segments of the checked binary writer, room and zero-copy accounting exact, write index = bytes
   written on a contiguous buffer; no write outside the room (with one byte less: Example
   unchecked_message_write_example) *)
From PV Require Import Proofs.UMsgWriteP.
Theorem C11_message_write_eq : forall k zc msgs cap,
  Forall msg_ok msgs ->
  (match k with BContig => True | BLinked z => z = zc end) ->
  exists ss, write_msgs PBinary k msgs w0 = Ok (ss, w0) /\
    (Z.of_nat (length (flat ss)) <= cap ->
     exists u', uwrite_msgs zc msgs (match k with BContig => uw_contig cap | BLinked _ => uw_linked cap end) = Ok (ss, u') /\
       uw_room u' = cap - copy_len ss /\ uw_zc u' = zc_len ss /\
       (k = BContig -> uw_idx u' = Z.of_nat (length (flat ss)))).
Proof. exact unchecked_message_write_eq. Qed.
Print Assumptions C11_message_write_eq.
