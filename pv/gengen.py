"""gen family -- the corpus: ONE Python description of Thrift IDL documents from which are derived
(i) the IDL text fed to the real pilota-build, (ii) the lowered schema used by the reference codec
(pv/genref.py), the oracles and the Coq model runner (text format: fam/gen/FORMAT.md), and
(iii) typed value generators.

Python representation
  types   : 'bool' 'byte' 'i8' 'i16' 'i32' 'i64' 'double' 'string' 'binary' 'uuid' 'void'
            ('list', T) ('set', T) ('map', K, V) ('ref', 'Name' | 'doc.Name')
  values  : bool | int | int (double: IEEE bits) | bytes (string: valid UTF-8; binary; uuid: 16)
            | int (enum) | list (list, set) | list of (k, v) (map) | dict {field id: v} (struct; key 'X' =
            retained unknown bytes) | (variant id, v) / ('?', bytes) (union) | None (void)
  literals: ('int', n) ('dbl', 'text') ('str', text, quote) ('id', 'A.B') ('bool', b) ('list', [..]) ('map', [(k, v)..])
"""
import random, re, struct

# ------------------------------------------------------------------ document description

def L(t): return ('list', t)
def S(t): return ('set', t)
def M(k, v): return ('map', k, v)
def R(n): return ('ref', n)

def I(n): return ('int', n)
def D(t): return ('dbl', t)
def Str(t, q='"'): return ('str', t, q)
def Id(t): return ('id', t)
def LL(*xs): return ('list', list(xs))
def LM(*kvs): return ('map', list(kvs))


class Field:
    def __init__(self, id, name, ty, req='default', default=None, ann=None):
        self.id, self.name, self.ty, self.req, self.default, self.ann = id, name, ty, req, default, dict(ann or {})


def F(id, fname, ty, req='default', default=None, **ann):
    a = {}
    for k, v in ann.items():
        a['pilota.' + k] = v
    return Field(id, fname, ty, req, default, a)


class Item:
    kind = None
    def __init__(self, name, rust=None, ann=None):
        self.name, self.rust, self.ann = name, rust or name, dict(ann or {})


class Typedef(Item):
    kind = 'typedef'
    def __init__(self, name, ty, **kw):
        Item.__init__(self, name, **kw); self.ty = ty


class Enum(Item):
    kind = 'enum'
    def __init__(self, name, members, **kw):
        Item.__init__(self, name, **kw); self.members = members      # [(name, value or None[, {annotation: text}])]
    def numbers(self):
        out, nxt = [], 0
        for n, v in (m[:2] for m in self.members):
            if v is None:
                v = nxt
            out.append((n, v)); nxt = v + 1
        return out


class Struct(Item):
    kind = 'struct'
    def __init__(self, name, fields, exception=False, **kw):
        Item.__init__(self, name, **kw); self.fields, self.exception = fields, exception


class Union(Item):
    kind = 'union'
    def __init__(self, name, fields, **kw):
        Item.__init__(self, name, **kw); self.fields = fields


class Const(Item):
    kind = 'const'
    def __init__(self, name, ty, lit, **kw):
        Item.__init__(self, name, **kw); self.ty, self.lit = ty, lit


class Method:
    def __init__(self, name, ret, args=(), throws=(), oneway=False, camel=None):
        self.name, self.ret, self.args, self.throws, self.oneway = name, ret, list(args), list(throws), oneway
        self.camel = camel or upper_camel(name)


class Service(Item):
    kind = 'service'
    def __init__(self, name, methods, **kw):
        Item.__init__(self, name, **kw); self.methods = methods


class Doc:
    def __init__(self, name, items, namespace=None, includes=(), style=0, configs=None):
        self.name, self.items, self.namespace, self.includes, self.style = name, items, namespace, list(includes), style
        self.configs = configs      # None = every builder configuration
    def module(self):
        return self.namespace.replace('.', '::') if self.namespace else self.name


OPT_IN_CONFIGS = ('nocase',)      # Builder::change_case(false): only the documents written for it


def doc_in_config(configs, cfg):
    return (cfg not in OPT_IN_CONFIGS) if configs is None else cfg in configs


def upper_camel(s):
    out = ''
    for p in re.split(r'[_\W]+', s):
        for w in re.findall(r'[A-Z]+(?![a-z])|[A-Z]?[a-z0-9]+|[A-Z]+', p):
            out += w[0].upper() + w[1:].lower()
    return out


# ------------------------------------------------------------------ IDL text

def ty_idl(t):
    if isinstance(t, str):
        return t
    if t[0] == 'list':
        return 'list<%s>' % ty_idl(t[1])
    if t[0] == 'set':
        return 'set<%s>' % ty_idl(t[1])
    if t[0] == 'map':
        return 'map<%s, %s>' % (ty_idl(t[1]), ty_idl(t[2]))
    return t[1]


def lit_idl(l):
    k = l[0]
    if k == 'int':
        return str(l[1])
    if k == 'dbl':
        return l[1]
    if k == 'str':
        return l[2] + l[1] + l[2]
    if k == 'id':
        return l[1]
    if k == 'bool':
        return 'true' if l[1] else 'false'
    if k == 'list':
        return '[' + ', '.join(lit_idl(x) for x in l[1]) + ']'
    if k == 'map':
        return '{' + ', '.join('%s: %s' % (lit_idl(a), lit_idl(b)) for a, b in l[1]) + '}'
    raise ValueError(l)


def ann_idl(ann):
    if not ann:
        return ''
    return ' (' + ', '.join('%s = "%s"' % (k, v) for k, v in sorted(ann.items())) + ')'


def field_idl(f, in_args=False):
    req = {'required': 'required ', 'optional': 'optional ', 'default': ''}[f.req]
    s = '%d: %s%s %s' % (f.id, req, ty_idl(f.ty), f.name)
    if f.default is not None:
        s += ' = ' + lit_idl(f.default)
    return s + ann_idl(f.ann)


def doc_idl(doc):
    sep = [',', ';', ''][doc.style % 3]
    out = []
    if doc.namespace:
        out.append('namespace rs %s' % doc.namespace)
    out.append('namespace go ignored.by.pilota')
    for i in doc.includes:
        out.append('include "%s.thrift"' % i)
    out.append('')
    for it in doc.items:
        if it.kind == 'typedef':
            out.append('typedef %s %s%s' % (ty_idl(it.ty), it.name, ann_idl(it.ann)))
        elif it.kind == 'enum':
            out.append('enum %s {' % it.name)
            for m in it.members:
                n, v = m[:2]
                out.append('    %s%s%s%s' % (n, '' if v is None else ' = %d' % v, ann_idl(m[2]) if len(m) > 2 else '', sep))
            out.append('}' + ann_idl(it.ann))
        elif it.kind in ('struct', 'union'):
            kw = 'exception' if getattr(it, 'exception', False) else it.kind
            out.append('%s %s {' % (kw, it.name))
            for f in it.fields:
                out.append('    ' + field_idl(f) + sep)
            out.append('}' + ann_idl(it.ann))
        elif it.kind == 'const':
            out.append('const %s %s = %s' % (ty_idl(it.ty), it.name, lit_idl(it.lit)))
        elif it.kind == 'service':
            out.append('service %s {' % it.name)
            for m in it.methods:
                s = '    %s%s %s(%s)' % ('oneway ' if m.oneway else '', ty_idl(m.ret), m.name,
                                         ', '.join(field_idl(a) for a in m.args))
                if m.throws:
                    s += ' throws (%s)' % ', '.join(field_idl(a) for a in m.throws)
                out.append(s + (sep or ','))
            out.append('}')
        out.append('')
    return '\n'.join(out)


# ------------------------------------------------------------------ lowered schema

BASE = ('bool', 'i8', 'i16', 'i32', 'i64', 'double', 'string', 'binary', 'uuid', 'void')
TTYPE = {'bool': 2, 'i8': 3, 'double': 4, 'i16': 6, 'i32': 8, 'i64': 10, 'string': 11, 'binary': 11,
         'struct': 12, 'map': 13, 'set': 14, 'list': 15, 'uuid': 16, 'void': 1}


class Schema:
    """global lowered schema over a set of documents"""
    def __init__(self):
        self.types = {}          # 'doc.Name' -> dict(kind=..)
        self.order = []
        self.consts = {}         # 'doc.Name' -> (lowered ty, lit, doc)
        self.docs = {}

    def add(self, name, decl):
        assert name not in self.types, name
        self.types[name] = decl
        self.order.append(name)
        decl['configs'] = self.docs[name.split('.')[0]].configs

    def in_config(self, name, cfg):
        return doc_in_config(self.types[name].get('configs'), cfg)

    def names_in(self, cfg):
        return [n for n in self.order if self.in_config(n, cfg)]

    # ---- queries
    def resolve(self, t):
        """strip typedefs"""
        while t[0] == 'ref' and self.types[t[1]]['kind'] == 'typedef':
            t = self.types[t[1]]['ty']
        return t

    def ttype(self, t):
        t = self.resolve(t)
        if t[0] == 'ref':
            return 8 if self.types[t[1]]['kind'] == 'enum' else 12
        return TTYPE[t[0]]

    def through_typedef(self, t):
        return t[0] == 'ref' and self.types[t[1]]['kind'] == 'typedef'

    def copy(self):
        import copy
        s = Schema()
        s.types = copy.deepcopy(self.types)
        s.order = list(self.order)
        s.consts = self.consts
        s.docs = self.docs
        return s


def lower_ty(doc, t):
    if isinstance(t, str):
        return ('i8',) if t == 'byte' else (t,)
    if t[0] == 'list':
        return ('list', lower_ty(doc, t[1]))
    if t[0] == 'set':
        return ('set', lower_ty(doc, t[1]))
    if t[0] == 'map':
        return ('map', lower_ty(doc, t[1]), lower_ty(doc, t[2]))
    n = t[1]
    return ('ref', n if '.' in n else doc.name + '.' + n)


def lower_docs(docs):
    sch = Schema()
    for d in docs:
        sch.docs[d.name] = d
    for d in docs:
        mod = d.module()
        for it in d.items:
            g = d.name + '.' + it.name
            rust = mod + '::' + it.rust
            if it.kind == 'typedef':
                sch.add(g, dict(kind='typedef', ty=lower_ty(d, it.ty), rust=rust, flags=''))
            elif it.kind == 'enum':
                sch.add(g, dict(kind='enum', members=it.numbers(), rust=rust, flags=''))
            elif it.kind == 'const':
                sch.consts[g] = (lower_ty(d, it.ty), it.lit, d)
            elif it.kind == 'struct':
                sch.add(g, dict(kind='struct', fields=[lower_field(d, f) for f in it.fields], rust=rust, flags='',
                                exception=it.exception))
            elif it.kind == 'union':
                sch.add(g, dict(kind='union', rust=rust, flags='',
                                variants=[dict(id=f.id, name=f.name, ty=lower_ty(d, f.ty)) for f in it.fields]))
            elif it.kind == 'service':
                for m in it.methods:
                    base = it.rust + m.camel
                    exc = [dict(id=f.id, name=f.name, ty=lower_ty(d, f.ty)) for f in m.throws]
                    ret = lower_ty(d, m.ret)
                    args = []
                    for a in m.args:
                        fa = lower_field(d, a)
                        if a.req == 'default':
                            fa['req'] = 'required'      # pilota-thrift-parser function.rs: Default -> Required
                        args.append(fa)
                    for sfx in ('ArgsSend', 'ArgsRecv'):
                        fs = [dict(x) for x in args]
                        if sfx == 'ArgsRecv':
                            # thrift/mod.rs lower_service: the receiving side drops the argument's RustWrapperArc tag
                            for x in fs:
                                x['ann'] = {k: v for k, v in x['ann'].items() if k != 'pilota.rust_wrapper_arc'}
                        sch.add(d.name + '.' + base + sfx, dict(kind='struct', fields=fs,
                                                                rust=mod + '::' + base + sfx, flags='k', exception=False,
                                                                synth=(g, m.name, sfx)))
                    for sfx in ('ResultSend', 'ResultRecv'):
                        sch.add(d.name + '.' + base + sfx, dict(kind='union', rust=mod + '::' + base + sfx,
                                                                flags='k' + ('v' if ret == ('void',) else ''),
                                                                variants=[dict(id=0, name='Ok', ty=ret)] + [dict(x) for x in exc],
                                                                synth=(g, m.name, sfx)))
                    if exc:
                        sch.add(d.name + '.' + base + 'Exception', dict(kind='union', rust=mod + '::' + base + 'Exception',
                                                                       flags='k', variants=[dict(x) for x in exc],
                                                                       synth=(g, m.name, 'Exception')))
                    # pilota-build resolve.rs: path types used directly as argument / return types are in `args`
                    for t in [lower_ty(d, a.ty) for a in m.args] + [ret]:
                        if t[0] == 'ref':
                            sch.types.setdefault('__args__', set()).add(t[1])
    args = sch.types.pop('__args__', set())
    for n in args:
        if n in sch.types and 'a' not in sch.types[n]['flags']:
            sch.types[n]['flags'] += 'a'
    # defaults: literal -> value (IDL semantics) and the const flag of the Rust lowering
    for n in sch.order:
        d = sch.types[n]
        if d['kind'] == 'struct':
            for f in d['fields']:
                if f['lit'] is not None:
                    f['default'] = lit_value(sch, f['ty'], f['lit'], f['doc'])
                    f['const'] = is_const_default(sch, f['ty'], f['lit'], f.get('ann', {}), top=True)
    return sch


def lower_field(doc, f):
    return dict(id=f.id, name=f.name, req='required' if f.req == 'required' else 'optional',
                ty=lower_ty(doc, f.ty), lit=f.default, default=None, const=None, doc=doc, ann=f.ann, idl_req=f.req)


# ------------------------------------------------------------------ literals: IDL meaning

def unescape(text):
    out, i = [], 0
    while i < len(text):
        c = text[i]
        if c == '\\' and i + 1 < len(text):
            n = text[i + 1]
            out.append({'n': '\n', 't': '\t', 'r': '\r', '\\': '\\', '"': '"', "'": "'", '0': '\0'}.get(n, n))
            i += 2
        else:
            out.append(c); i += 1
    return ''.join(out)


def dbl_bits(x):
    if isinstance(x, str):
        m = re.match(r'^([^eE]*)[eE](-*)(0x[0-9a-fA-F]+|[0-9]+)$', x)
        if m:
            # the exponent of a double constant is an IDL integer constant: a run of `-` signs (negated when their number is
            # odd), then decimal or 0x hexadecimal digits
            e = int(m.group(3), 16) if m.group(3).startswith('0x') else int(m.group(3))
            x = '%se%d' % (m.group(1), -e if len(m.group(2)) % 2 else e)
        if x.startswith('-+'):
            x = '-' + x[2:]        # the IDL grammar lets a `+` follow the `-`: -(+x)
    return struct.unpack('>Q', struct.pack('>d', float(x)))[0]


def find_const(sch, name, doc):
    g = name if name in sch.consts else doc.name + '.' + name
    return g if g in sch.consts else None


def find_enum_member(sch, name, doc):
    """'Enum.MEMBER' or 'file.Enum.MEMBER' -> number"""
    parts = name.split('.')
    if len(parts) < 2:
        return None
    ename, mem = '.'.join(parts[:-1]), parts[-1]
    g = ename if ename in sch.types else doc.name + '.' + ename
    d = sch.types.get(g)
    if d and d['kind'] == 'enum':
        for n, v in d['members']:
            if n == mem:
                return v
    return None


def lit_value(sch, ty, lit, doc):
    """meaning of an IDL literal at a type (Thrift IDL semantics; independent of pilota's lowering)"""
    t = sch.resolve(ty)
    k = lit[0]
    if k == 'id':
        g = find_const(sch, lit[1], doc)
        if g is not None:
            cty, clit, cdoc = sch.consts[g]
            v = lit_value(sch, cty, clit, cdoc)
            ct = sch.resolve(cty)
            # a constant of enum type used at an int type, or of the same type
            if ct[0] == 'ref' and sch.types[ct[1]]['kind'] == 'enum' and t[0] in ('i8', 'i16', 'i32', 'i64'):
                return v
            return v
        n = find_enum_member(sch, lit[1], doc)
        if n is None:
            raise ValueError('unknown identifier ' + lit[1])
        return n
    if t[0] == 'bool':
        return (lit[1] != 0) if k == 'int' else bool(lit[1])
    if t[0] in ('i8', 'i16', 'i32', 'i64'):
        assert k == 'int', lit
        return lit[1]
    if t[0] == 'double':
        return dbl_bits(lit[1])
    if t[0] in ('string', 'binary'):
        assert k == 'str', lit
        return unescape(lit[1]).encode('utf-8')
    if t[0] in ('list', 'set'):
        assert k == 'list'
        return [lit_value(sch, t[1], x, doc) for x in lit[1]]
    if t[0] == 'map':
        if k == 'list':
            assert not lit[1]
            return []
        return [(lit_value(sch, t[1], a, doc), lit_value(sch, t[2], b, doc)) for a, b in lit[1]]
    if t[0] == 'ref':
        d = sch.types[t[1]]
        if d['kind'] == 'enum':
            assert k == 'int'
            return lit[1]
        if d['kind'] == 'struct':
            assert k == 'map'
            given = {}
            for a, b in lit[1]:
                given[unescape(a[1])] = b
            out = {}
            for f in d['fields']:
                if f['name'] in given:
                    out[f['id']] = lit_value(sch, f['ty'], given[f['name']], doc)
                elif f['req'] == 'required':
                    out[f['id']] = empty_value(sch, f['ty'])
                # an optional field the literal does not mention stays unset (isset = false in Apache's
                # generated constructors; pilota: None)
            return out
    raise ValueError('literal %r at type %r' % (lit, ty))


def is_const_default(sch, ty, lit, ann, top=False):
    """model of the `is_const` flag of Context::lit_as_rvalue / lit_into_ty (middle/context.rs)"""
    k = lit[0]
    if ann.get('pilota.rust_wrapper_arc') == 'true':
        return False               # Arc::new(..) (or a container, never const anyway)
    if sch.through_typedef(ty):
        return is_const_default(sch, sch.types[ty[1]]['ty'], lit, {}, top=False)
    t = ty
    if k == 'id':
        if t[0] in ('list', 'set', 'map'):
            return False           # a const of container type is lowered from its literal
        # ident_into_ty: `K.to_string()` for a string const at a `pilota.rust_type = "string"` field is not const
        return not (t[0] == 'string' and ann.get('pilota.rust_type') == 'string')
    if t[0] == 'map':
        return False
    if t[0] in ('list', 'set'):
        return False
    if t[0] == 'string':
        return ann.get('pilota.rust_type') != 'string'
    if t[0] == 'binary' and ann.get('pilota.rust_type') == 'vec':
        return False               # `"..".as_bytes().to_vec()`
    if t[0] == 'ref' and sch.types[t[1]]['kind'] == 'struct':
        d = sch.types[t[1]]
        given = {unescape(a[1]): b for a, b in lit[1]}
        ok = True
        for f in d['fields']:
            if f['name'] in given:
                ok = ok and is_const_default(sch, f['ty'], given[f['name']], f.get('ann', {}))
            elif f['req'] == 'required':
                ok = False
        return ok
    return True


def empty_value(sch, ty):
    """Rust Default::default() of the emitted type"""
    t = sch.resolve(ty)
    if t[0] == 'bool':
        return False
    if t[0] in ('i8', 'i16', 'i32', 'i64', 'double'):
        return 0
    if t[0] in ('string', 'binary'):
        return b''
    if t[0] == 'uuid':
        return bytes(16)
    if t[0] in ('list', 'set', 'map'):
        return []
    if t[0] == 'void':
        return None
    d = sch.types[t[1]]
    if d['kind'] == 'enum':
        return 0
    if d['kind'] == 'struct':
        return expected_default(sch, t[1])
    if d['kind'] == 'union':
        v = d['variants'][0]
        return (v['id'], empty_value(sch, v['ty']))
    raise ValueError(ty)


def expected_default(sch, name):
    """C20: the value T::default() must hold, computed from the IDL alone"""
    d = sch.types[name]
    out = {}
    for f in d['fields']:
        if f['default'] is not None:
            out[f['id']] = f['default']
        elif f['req'] == 'required':
            out[f['id']] = empty_value(sch, f['ty'])
    return out


def fill_defaults(sch, ty, v):
    """what a decoder must return for the encoding of v: absent optional fields with an IDL default hold it"""
    t = sch.resolve(ty)
    if t[0] == 'list' or t[0] == 'set':
        return [fill_defaults(sch, t[1], x) for x in v]
    if t[0] == 'map':
        return [(fill_defaults(sch, t[1], a), fill_defaults(sch, t[2], b)) for a, b in v]
    if t[0] != 'ref':
        return v
    d = sch.types[t[1]]
    if d['kind'] == 'struct':
        out = {}
        for f in d['fields']:
            if f['id'] in v:
                out[f['id']] = fill_defaults(sch, f['ty'], v[f['id']])
            elif f['default'] is not None:
                out[f['id']] = f['default']
        if 'X' in v:
            out['X'] = v['X']
        return out
    if d['kind'] == 'union':
        if v[0] == '?':
            return v
        for var in d['variants']:
            if var['id'] == v[0]:
                return (v[0], fill_defaults(sch, var['ty'], v[1]))
    return v


# ------------------------------------------------------------------ value text (FORMAT.md section 2)

def is_nan_bits(b):
    return (b >> 52) & 0x7ff == 0x7ff and (b & ((1 << 52) - 1)) != 0


def show(sch, ty, v, nan_canon=False):
    return ' '.join(show_toks(sch, ty, v, nan_canon))


def show_toks(sch, ty, v, nan_canon=False):
    t = sch.resolve(ty)
    k = t[0]
    if k == 'bool':
        return ['b%d' % (1 if v else 0)]
    if k == 'i8':
        return ['y%d' % v]
    if k == 'i16':
        return ['h%d' % v]
    if k == 'i32':
        return ['i%d' % v]
    if k == 'i64':
        return ['l%d' % v]
    if k == 'double':
        if v == 'NaN' or (nan_canon and is_nan_bits(v)):
            return ['dNaN']
        return ['d%d' % v]
    if k in ('string', 'binary'):
        return ['s' + (v.hex() or '-')]
    if k == 'uuid':
        return ['u' + v.hex()]
    if k == 'void':
        return ['V']
    if k == 'list':
        out = ['L%d' % len(v)]
        for x in v:
            out += show_toks(sch, t[1], x, nan_canon)
        return out
    if k == 'set':
        els = sorted(' '.join(show_toks(sch, t[1], x, nan_canon)) for x in v)
        out = ['T%d' % len(v)]
        for e in els:
            out += e.split(' ')
        return out
    if k == 'map':
        els = sorted((' '.join(show_toks(sch, t[1], a, nan_canon)), ' '.join(show_toks(sch, t[2], b, nan_canon))) for a, b in v)
        out = ['M%d' % len(v)]
        for a, b in els:
            out += a.split(' ') + b.split(' ')
        return out
    d = sch.types[t[1]]
    if d['kind'] == 'enum':
        return ['e%d' % v]
    if d['kind'] == 'struct':
        present = [f for f in d['fields'] if f['id'] in v]
        out = ['S%d' % len(present)]
        for f in present:
            out.append('f%d' % f['id'])
            out += show_toks(sch, f['ty'], v[f['id']], nan_canon)
        if v.get('X'):
            out.append('X' + v['X'].hex())
        return out
    if d['kind'] == 'union':
        if v[0] == '?':
            return ['U?'] + (['X' + v[1].hex()] if v[1] else [])
        for var in d['variants']:
            if var['id'] == v[0]:
                return ['U%d' % v[0]] + show_toks(sch, var['ty'], v[1], nan_canon)
        raise ValueError('variant %r' % (v,))
    raise ValueError(ty)


def ty_txt(t):
    if t[0] in ('list', 'set'):
        return t[0] + ' ' + ty_txt(t[1])
    if t[0] == 'map':
        return 'map ' + ty_txt(t[1]) + ' ' + ty_txt(t[2])
    if t[0] == 'ref':
        return 'ref ' + t[1]
    return t[0]


def schema_txt(sch):
    out = []
    for n in sch.order:
        d = sch.types[n]
        fl = d.get('flags') or '-'
        if d['kind'] == 'struct':
            parts = ['struct', n, fl, str(len(d['fields']))]
            for f in d['fields']:
                if f['default'] is None:
                    df = '-'
                else:
                    df = ('C:' if f['const'] else 'N:') + show(sch, f['ty'], f['default']).replace(' ', ',')
                parts += [str(f['id']), 'req' if f['req'] == 'required' else 'opt', ty_txt(f['ty']), df]
            out.append(' '.join(parts))
        elif d['kind'] == 'union':
            parts = ['union', n, fl, str(len(d['variants']))]
            for v in d['variants']:
                parts += [str(v['id']), ty_txt(v['ty'])]
            out.append(' '.join(parts))
        elif d['kind'] == 'enum':
            out.append(' '.join(['enum', n, str(len(d['members']))] + [str(v) for _, v in d['members']]))
        else:
            out.append('typedef %s %s' % (n, ty_txt(d['ty'])))
    return '\n'.join(out) + '\n'


# ------------------------------------------------------------------ Debug tree -> value

class DebugMismatch(Exception):
    pass


def from_debug(sch, ty, tree, names):
    """tree: generic tree from pv/gendebug.parse; names: {union type name: [rust variant names in order]}"""
    t0 = ty
    # typedef newtypes print as Name(inner)
    if ty[0] == 'ref' and sch.types[ty[1]]['kind'] == 'typedef':
        if not (isinstance(tree, tuple) and tree[0] == 'tuple' and len(tree[2]) == 1):
            raise DebugMismatch('typedef %s: %r' % (ty[1], tree))
        return from_debug(sch, sch.types[ty[1]]['ty'], tree[2][0], names)
    k = ty[0]
    if k == 'bool':
        if tree not in (('bool', True), ('bool', False)):
            raise DebugMismatch('bool: %r' % (tree,))
        return tree[1]
    if k in ('i8', 'i16', 'i32', 'i64'):
        if tree[0] != 'int':
            raise DebugMismatch('int: %r' % (tree,))
        return tree[1]
    if k == 'double':
        if tree[0] == 'tuple' and tree[1] == 'OrderedFloat':
            tree = tree[2][0]
        if tree[0] == 'float':
            return tree[1]
        raise DebugMismatch('double: %r' % (tree,))
    if k == 'string':
        if tree[0] != 'str':
            raise DebugMismatch('string: %r' % (tree,))
        return tree[1].encode('utf-8', 'surrogatepass')
    if k == 'binary':
        if tree[0] == 'bytes':
            return tree[1]
        if tree[0] == 'seq':
            return bytes(x[1] for x in tree[1])
        raise DebugMismatch('binary: %r' % (tree,))
    if k == 'uuid':
        if tree[0] != 'seq' or len(tree[1]) != 16:
            raise DebugMismatch('uuid: %r' % (tree,))
        return bytes(x[1] for x in tree[1])
    if k == 'void':
        return None
    if k == 'list':
        if tree[0] != 'seq':
            raise DebugMismatch('list: %r' % (tree,))
        return [from_debug(sch, ty[1], x, names) for x in tree[1]]
    if k == 'set':
        if tree[0] not in ('set', 'map') or (tree[0] == 'map' and tree[1]):
            raise DebugMismatch('set: %r' % (tree,))
        return [from_debug(sch, ty[1], x, names) for x in tree[1]]
    if k == 'map':
        if tree[0] not in ('set', 'map') or (tree[0] == 'set' and tree[1]):
            raise DebugMismatch('map: %r' % (tree,))
        return [(from_debug(sch, ty[1], a, names), from_debug(sch, ty[2], b, names)) for a, b in tree[1]]
    d = sch.types[ty[1]]
    if d['kind'] == 'enum':
        if tree[0] != 'tuple' or len(tree[2]) != 1 or tree[2][0][0] != 'int':
            raise DebugMismatch('enum: %r' % (tree,))
        return tree[2][0][1]
    if d['kind'] == 'struct':
        if tree[0] == 'unit':
            tree = ('struct', tree[1], [])          # `struct Empty {}` prints as `Empty`
        if tree[0] != 'struct':
            raise DebugMismatch('struct %s: %r' % (ty[1], tree))
        fs = list(tree[2])
        unknown = None
        if fs and fs[-1][0] == '_unknown_fields':
            unknown = linked_bytes(fs.pop()[1])
        if len(fs) != len(d['fields']):
            raise DebugMismatch('struct %s: %d fields printed, %d declared' % (ty[1], len(fs), len(d['fields'])))
        out = {}
        for f, (_, sub) in zip(d['fields'], fs):
            if f['req'] == 'optional':
                if sub == ('none',):
                    continue
                if sub[0] != 'some':
                    raise DebugMismatch('optional field %d of %s: %r' % (f['id'], ty[1], sub))
                sub = sub[1]
            out[f['id']] = from_debug(sch, f['ty'], sub, names)
        if unknown:
            out['X'] = unknown
        return out
    if d['kind'] == 'union':
        vn = names.get(ty[1])
        if tree[0] == 'tuple' and tree[1] == '_UnknownFields':
            return ('?', linked_bytes(tree[2][0]))
        if tree[0] != 'tuple' or vn is None or tree[1] not in vn or len(tree[2]) != 1:
            raise DebugMismatch('union %s: %r (variants %r)' % (ty[1], tree, vn))
        var = d['variants'][vn.index(tree[1])]
        return (var['id'], from_debug(sch, var['ty'], tree[2][0], names))
    raise DebugMismatch(repr(t0))


def linked_bytes(tree):
    if tree[0] != 'struct' or tree[1] != 'LinkedBytes':
        raise DebugMismatch('LinkedBytes: %r' % (tree,))
    f = dict(tree[2])
    return b''.join(x[1] for x in f['list'][1])


# ------------------------------------------------------------------ value generation

def _int(rng, bits):
    lo, hi = -(1 << (bits - 1)), (1 << (bits - 1)) - 1
    c = rng.random()
    if c < 0.3:
        return rng.choice([0, 1, -1, lo, hi, lo + 1, hi - 1])
    if c < 0.6:
        k = rng.randrange(1, bits)
        return max(lo, min(hi, rng.choice([1, -1]) * ((1 << k) + rng.choice([-1, 0, 1]))))
    if c < 0.8:
        return rng.randrange(-70, 70)
    return rng.randrange(lo, hi + 1)


DOUBLES = [0, 1 << 63, 0x3FF0000000000000, 0x3FF8000000000000, 0x7FF0000000000000, 0xFFF0000000000000,
           0x7FF8000000000000, 1, 0x0102030405060708, 0x7FEFFFFFFFFFFFFF, 0x0010000000000000, 0x4059000000000000]

WORDS = ['', 'a', 'hello', 'wörld', '日本語', 'x"y', "it's", 'back\\slash', 'tab\there', 'nl\nline', 'emoji😀', '\0nul',
         'a' * 40, 'Ω≈ç√', '{"k": [1, 2]}', 'Some(1)', 'None', ', ', ' ']


def gen_string(rng):
    c = rng.random()
    if c < 0.7:
        return rng.choice(WORDS).encode('utf-8')
    if c < 0.9:
        return ''.join(rng.choice('abcXYZ019 _-"\\\'{}[](),:é日') for _ in range(rng.randrange(0, 12))).encode('utf-8')
    if c < 0.97:
        return ('s' * rng.choice([127, 128, 300])).encode()
    return ('z' * rng.choice([4095, 4096, 5000])).encode()


def gen_binary(rng):
    c = rng.random()
    if c < 0.2:
        return b''
    if c < 0.9:
        return bytes(rng.randrange(256) for _ in range(rng.randrange(1, 20)))
    if c < 0.97:
        return bytes([rng.randrange(256)]) * rng.choice([127, 128, 255, 256])
    return bytes([rng.randrange(256)]) * rng.choice([4095, 4096, 4097])


def csize(rng, depth):
    if depth <= 0:
        return 0
    c = rng.random()
    if c < 0.2:
        return 0
    if c < 0.85:
        return rng.randrange(1, 4)
    if c < 0.95 and depth >= 2:
        return rng.choice([14, 15, 16])
    return rng.randrange(1, 6)


def key_eq_token(sch, ty, v):
    """equality class of a hash key: OrderedFloat treats NaN == NaN and -0.0 == 0.0"""
    s = show(sch, ty, v, nan_canon=True)
    return s.replace('d%d' % (1 << 63), 'd0') if 'd' in s else s


def gen_value(rng, sch, ty, depth=3):
    t = sch.resolve(ty)
    k = t[0]
    if k == 'bool':
        return rng.random() < 0.5
    if k == 'i8':
        return _int(rng, 8)
    if k == 'i16':
        return _int(rng, 16)
    if k == 'i32':
        return _int(rng, 32)
    if k == 'i64':
        return _int(rng, 64)
    if k == 'double':
        return rng.choice(DOUBLES) if rng.random() < 0.6 else rng.getrandbits(64)
    if k == 'string':
        return gen_string(rng)
    if k == 'binary':
        return gen_binary(rng)
    if k == 'uuid':
        return bytes(rng.randrange(256) for _ in range(16))
    if k == 'void':
        return None
    if k == 'list':
        return [gen_value(rng, sch, t[1], depth - 1) for _ in range(csize(rng, depth))]
    if k == 'set':
        out, seen = [], set()
        for _ in range(csize(rng, depth)):
            x = gen_value(rng, sch, t[1], depth - 1)
            key = key_eq_token(sch, t[1], x)
            if key not in seen:
                seen.add(key); out.append(x)
        return out
    if k == 'map':
        out, seen = [], set()
        for _ in range(csize(rng, depth)):
            a = gen_value(rng, sch, t[1], depth - 1)
            key = key_eq_token(sch, t[1], a)
            if key not in seen:
                seen.add(key); out.append((a, gen_value(rng, sch, t[2], depth - 1)))
        return out
    d = sch.types[t[1]]
    if d['kind'] == 'enum':
        c = rng.random()
        if c < 0.8 and d['members']:
            return rng.choice(d['members'])[1]
        return _int(rng, 32)          # open enums: any i32 is a value
    if d['kind'] == 'struct':
        out = {}
        for f in d['fields']:
            if f['req'] == 'required' or (depth > 0 and rng.random() < 0.7):
                out[f['id']] = gen_value(rng, sch, f['ty'], depth - 1)
        return out
    if d['kind'] == 'union':
        vs = d['variants']
        if depth <= 0:
            flat = [v for v in vs if not recursive_ty(sch, v['ty'])]
            vs = flat or vs
        v = rng.choice(vs)
        return (v['id'], gen_value(rng, sch, v['ty'], depth - 1))
    raise ValueError(ty)


def recursive_ty(sch, ty):
    t = sch.resolve(ty)
    if t[0] in ('list', 'set', 'map'):
        return False        # containers can be empty
    return t[0] == 'ref' and sch.types[t[1]]['kind'] in ('struct', 'union')


def nontrivial(sch, ty, v):
    t = sch.resolve(ty)
    if t[0] in ('list', 'set', 'map'):
        return len(v) > 0
    if t[0] == 'ref' and sch.types[t[1]]['kind'] == 'struct':
        return len(v) > 0
    if t[0] == 'ref' and sch.types[t[1]]['kind'] == 'union':
        return True
    return False


# ------------------------------------------------------------------ the hand-written reader documents

def corpus():
    docs = []
    # ---- inc: included by several documents, own rust namespace
    docs.append(Doc('inc', [
        Enum('Color', [('RED', 1), ('GREEN', -5), ('BLUE', 70000), ('NEXT', None), ('ZERO', 0)]),
        Enum('Small', [('A', None), ('B', None), ('C', 10), ('D', None)]),
        Struct('Pt', [F(1, 'x', 'i32', 'required'), F(2, 'y', 'i32', 'optional', I(7))]),
        Typedef('Flag', 'bool'),
        Typedef('Names', L('string')),
        Const('ORIGIN_X', 'i32', I(-3)),
        Const('GREETING', 'string', Str('hi there')),
        Const('FAV', R('Color'), Id('Color.BLUE')),
    ], namespace='pv.inc', style=0))

    # ---- base: every base type x every requiredness, ids out of order and far apart
    base_fields = []
    ids = [16, 1, 15, 200, 32767, 3, 2, 17, 31, 100, 4, 300, 5, 6, 7, 8, 9, 10, 11, 12, 13, 14, 18, 19, 20, 21, 22, 23, 24, 25]
    i = 0
    for req in ('required', 'optional', 'default'):
        for b in ('bool', 'byte', 'i8', 'i16', 'i32', 'i64', 'double', 'string', 'binary', 'uuid'):
            base_fields.append(F(ids[i], '%s_%s' % (req[:3], b), b, req))
            i += 1
    docs.append(Doc('base', [
        Struct('AllBase', base_fields),
        Struct('Bools', [F(1, 'a', 'bool', 'required'), F(2, 'b', 'bool'), F(20, 'c', 'bool', 'optional'), F(21, 'd', 'bool'),
                         F(5, 'e', 'bool')]),
        Struct('Empty', []),
        Struct('Far', [F(32767, 'last', 'i32'), F(1, 'first', 'string'), F(16384, 'mid', 'i64', 'required')]),
    ], style=1))

    # ---- cont: containers nested to depth 3, map keys of several types
    docs.append(Doc('cont', [
        Struct('Key', [F(1, 'a', 'i32', 'required'), F(2, 'b', 'string')]),
        Struct('Cont', [
            F(1, 'li', L('i32')), F(2, 'ss', S('string')), F(3, 'm', M('string', 'i64')),
            F(4, 'lll', L(L(L('i16')))), F(5, 'lms', L(M('string', S('i64')))),
            F(6, 'mml', M('i64', M('string', L(R('inc.Pt')))), 'required'),
            F(7, 'sd', S('double')), F(8, 'md', M('double', 'double')), F(9, 'mb', M('bool', 'byte')),
            F(10, 'me', M(R('inc.Color'), L('bool'))), F(11, 'mk', M(R('Key'), 'string')),
            F(12, 'sk', S(R('Key')), 'optional'), F(13, 'slb', S(L('binary'))),
            F(15, 'lb', L('bool'), 'required'), F(16, 'ls', L('string'), 'required'),
            F(17, 'mls', M(L('string'), 'i32')), F(18, 'lpt', L(R('inc.Pt'))), F(19, 'bins', L('binary')),
            F(20, 'ms8', M('i8', S('i8'))), F(21, 'mi16', M('i16', 'double')),
        ]),
    ], includes=['inc'], style=2))

    # ---- tdef: typedefs of bool, containers, structs, typedefs, enums
    docs.append(Doc('tdef', [
        Typedef('B1', 'bool'), Typedef('B2', R('B1')), Typedef('I', 'i64'), Typedef('Str', 'string'), Typedef('Bin', 'binary'),
        Typedef('Dbl', 'double'),
        Typedef('IntList', L('i32')), Typedef('StrIntMap', M(R('Str'), R('I'))), Typedef('StrSet', S(R('Str'))),
        Typedef('P', R('inc.Pt')), Typedef('P2', R('P')), Typedef('C', R('inc.Color')), Typedef('PtList', L(R('P2'))),
        Typedef('ListList', L(R('IntList'))),
        Struct('UsesTd', [
            F(1, 'b1', R('B1')), F(2, 'b2', R('B2'), 'required'), F(3, 'i', R('I')), F(4, 's', R('Str'), 'required'),
            F(5, 'bin', R('Bin')), F(6, 'd', R('Dbl')), F(8, 'li', R('IntList')), F(9, 'msi', R('StrIntMap')),
            F(10, 'ss', R('StrSet')), F(11, 'p', R('P')), F(12, 'p2', R('P2'), 'required'), F(13, 'c', R('C')), F(14, 'lp', R('PtList')),
            F(15, 'll', R('ListList')), F(16, 'fl', R('inc.Flag'), 'optional'), F(17, 'lfl', L(R('inc.Flag'))),
            F(18, 'mtd', M(R('I'), R('B1'))), F(19, 'names', R('inc.Names')), F(20, 'stk', S(R('Str'))),
        ]),
        Struct('OnlyTdBool', [F(1, 'f', R('B1'), 'required'), F(2, 'g', R('inc.Flag'))]),
    ], includes=['inc'], style=0))

    # ---- uni: unions and exceptions
    docs.append(Doc('uni', [
        Struct('Leaf', [F(1, 'v', 'string', 'required')]),
        Union('Un', [F(1, 'a', 'i32'), F(2, 'b', 'string'), F(5, 'p', R('inc.Pt')), F(7, 'l', L('string')), F(8, 'e', R('inc.Color')),
                     F(9, 'fl', R('inc.Flag')), F(10, 'bo', 'bool'), F(300, 'd', 'double'), F(11, 'm', M('string', R('Leaf'))),
                     F(12, 'bin', 'binary'), F(13, 'u16', 'i16'), F(14, 'lf', R('Leaf'))]),
        Union('One', [F(3, 'only', 'i64')]),
        Struct('HasUn', [F(1, 'u', R('Un'), 'required'), F(2, 'ou', R('Un'), 'optional'), F(3, 'lu', L(R('Un'))),
                         F(4, 'mu', M('i32', R('Un'))), F(5, 'one', R('One')), F(6, 'after', 'i32')]),
        Struct('Oops', [F(1, 'message', 'string'), F(2, 'code', 'i32', 'required'), F(3, 'cause', R('Un'), 'optional')], exception=True),
    ], includes=['inc'], style=1))

    # ---- rec: recursion through optional, list, map value, union; mutual recursion
    docs.append(Doc('rec', [
        Struct('Tree', [F(1, 'next', R('Tree'), 'optional'), F(2, 'kids', L(R('Tree'))), F(3, 'v', 'i64'),
                        F(4, 'named', M('string', R('Tree')))]),
        Struct('Ping', [F(1, 'pong', R('Pong'), 'optional'), F(2, 'n', 'i32', 'required')]),
        Struct('Pong', [F(1, 'ping', R('Ping')), F(2, 's', 'string')]),
        Union('Expr', [F(1, 'lit', 'i64'), F(2, 'neg', R('Wrap')), F(3, 'sum', L(R('Expr'))), F(4, 'name', 'string')]),
        Struct('Wrap', [F(1, 'e', R('Expr'), 'optional'), F(2, 'tag', 'string')]),
    ], style=2))

    # ---- dflt: IDL defaults of every kind
    docs.append(Doc('dflt', [
        Enum('Mode', [('OFF', 0), ('ON', 1), ('AUTO', 5), ('NEG', -2)]),
        Const('K_I', 'i32', I(42)), Const('K_S', 'string', Str('const string')), Const('K_D', 'double', D('2.5')),
        Const('K_B', 'bool', ('bool', True)), Const('K_I64', 'i64', I(-9000000000)), Const('K_M', R('Mode'), Id('Mode.AUTO')),
        Const('K_S1', 'string', Str('single', "'")),
        Typedef('Count', 'i32'), Typedef('Label', 'string'), Typedef('Modes', L(R('Mode'))), 
        Typedef('OnOff', 'bool'),
        Struct('Inner', [F(1, 'a', 'i32', 'required'), F(2, 'b', 'string', 'optional'), F(3, 'c', 'bool', 'optional', I(1)),
                         F(4, 'd', L('i32'))]),
        Struct('Dflt', [
            F(1, 'i_8', 'i8', 'default', I(-128)), F(2, 'i_16', 'i16', 'optional', I(32767)), F(3, 'i_32', 'i32', 'required', I(-1)),
            F(4, 'i_64', 'i64', 'default', I(9223372036854775807)), F(5, 'by', 'byte', 'default', I(5)),
            F(6, 'b_int1', 'bool', 'default', I(1)), F(7, 'b_int0', 'bool', 'required', I(0)), F(8, 'b_int3', 'bool', 'optional', I(3)),
            F(9, 'b_lit', 'bool', 'default', ('bool', True)),
            F(10, 'd_int', 'double', 'default', I(2)), F(11, 'd_dec', 'double', 'required', D('1.25')), F(12, 'd_exp', 'double', 'optional', D('-1.5e10')),
            F(13, 'd_neg_int', 'double', 'default', I(-7)),
            F(14, 's_dq', 'string', 'default', Str('double "quoted"'.replace('"', '\\"'))), F(15, 's_sq', 'string', 'required', Str('single \\\' and " inside', "'")),
            F(16, 's_esc', 'string', 'optional', Str('line\\nnl \\\\ back \\\' q')), F(17, 's_empty', 'string', 'default', Str('')),
            F(18, 's_std', 'string', 'default', Str('std string'), rust_type='string'), F(19, 's_uni', 'string', 'default', Str('héllo 日本')),
            F(20, 'bin', 'binary', 'default', Str('bytes\\nhere')), F(21, 'bin_e', 'binary', 'required', Str('')),
            F(22, 'e_name', R('Mode'), 'default', Id('Mode.ON')), F(23, 'e_num', R('Mode'), 'optional', I(5)), F(24, 'e_neg', R('Mode'), 'required', I(-2)),
            F(25, 'e_inc', R('inc.Color'), 'default', Id('inc.Color.GREEN')), F(26, 'e_inc_num', R('inc.Color'), 'default', I(70000)),
            F(27, 'e_to_int', 'i32', 'default', Id('Mode.AUTO')), F(28, 'e_to_i8', 'i8', 'optional', Id('Mode.NEG')),
            F(29, 'c_i', 'i32', 'default', Id('K_I')), F(30, 'c_s', 'string', 'required', Id('K_S')), F(31, 'c_d', 'double', 'default', Id('K_D')),
            F(32, 'c_b', 'bool', 'default', Id('K_B')), F(33, 'c_i64', 'i64', 'optional', Id('K_I64')), F(34, 'c_m', R('Mode'), 'default', Id('K_M')),
            F(35, 'c_inc', 'i32', 'default', Id('inc.ORIGIN_X')), F(36, 'c_inc_s', 'string', 'default', Id('inc.GREETING')),
            F(37, 'c_s1', 'string', 'default', Id('K_S1')),
            F(40, 'l_i', L('i32'), 'default', LL(I(1), I(-2), I(3))), F(41, 'l_s', L('string'), 'required', LL(Str('a'), Str('b', "'"))),
            F(42, 'l_e', L('i32'), 'optional', LL()), F(43, 'l_l', L(L('i16')), 'default', LL(LL(I(1), I(2)), LL(), LL(I(3)))),
            F(44, 'l_d', L('double'), 'default', LL(I(1), D('2.5'))), F(45, 'l_en', L(R('Mode')), 'default', LL(Id('Mode.ON'), I(5))),
            F(46, 's_i', S('i64'), 'default', LL(I(5), I(6))), F(47, 's_s', S('string'), 'required', LL(Str('only'))),
            F(48, 's_d', S('double'), 'optional', LL(D('1.0'), D('0.5'))),
            F(49, 's_bt', S('i32'), 'default', LL(I(3), I(1), I(2)), rust_type='btree'),
            F(50, 'm_ss', M('string', 'string'), 'default', LM((Str('hello'), Str('world')), (Str('k2'), Str('v2', "'")))),
            F(51, 'm_id', M('i32', 'double'), 'required', LM((I(1), I(2)), (I(-1), D('0.5')))), F(52, 'm_e', M('string', 'i32'), 'optional', LL()),
            F(53, 'm_dd', M('double', 'double'), 'default', LM((D('1.0'), D('2.0')))), F(54, 'm_em', M('i32', 'string'), 'default', LM()),
            F(55, 'm_el', M(R('Mode'), L('i32')), 'default', LM((Id('Mode.ON'), LL(I(1))), (I(0), LL()))),
            F(56, 'm_bt', M('string', 'i32'), 'default', LM((Str('b'), I(2)), (Str('a'), I(1))), rust_type='btree'),
            F(70, 'td_i', R('Count'), 'default', I(77)), F(71, 'td_s', R('Label'), 'required', Str('label')), F(72, 'td_l', R('Modes'), 'optional', LL(I(1), Id('Mode.NEG'))),
            F(74, 'td_b', R('OnOff'), 'default', I(1)),
            F(75, 'td_fl', R('inc.Flag'), 'required', I(0)),
            # integer literals at double targets beyond f32's 24-bit mantissa (and at the edge of f64's 53 bits): `int -> double exactly`
            F(90, 'd_big', 'double', 'default', I(1700000001)), F(91, 'd_nbig', 'double', 'optional', I(-16777217)),
            F(92, 'd_2p53', 'double', 'required', I(9007199254740991)), F(93, 'l_dbig', L('double'), 'default', LL(I(16777217), I(-1700000001))),
            F(94, 'm_dbig', M('i32', 'double'), 'default', LM((I(1), I(123456789)))), F(95, 'd_i64max', 'double', 'default', I(9223372036854775807)),
            F(80, 'no_dflt_opt', 'i32', 'optional'), F(81, 'no_dflt_req', 'string', 'required'), F(82, 'no_dflt', L('i32')),
            F(83, 'req_inner', R('Inner'), 'required'), F(84, 'req_en', R('Mode'), 'required'), F(85, 'req_uuid', 'uuid', 'required'),
        ]),
        Struct('OnlyConstDefaults', [F(1, 'a', 'i32', 'default', I(1)), F(2, 'b', 'string', 'optional', Str('x')), F(3, 'c', 'bool', 'required', I(1))]),
        Struct('NoDefaults', [F(1, 'a', 'i32'), F(2, 'b', 'string', 'required'), F(3, 'in', R('Dflt'), 'optional')]),
        Struct('NestedDefaultHolder', [F(1, 'd', R('Dflt'), 'required'), F(2, 'o', R('OnlyConstDefaults'), 'required'), F(3, 'l', L(R('OnlyConstDefaults')))]),
    ], includes=['inc'], style=0))


    # ---- dflts: nested struct literals as defaults.  NOT in the keep configuration: with keep_unknown_fields
    # the emitted struct literal lacks the `_unknown_fields` member and does not compile (see FINDINGS.md F-14d)
    docs.append(Doc('dflts', [
        Typedef('PtAlias', R('inc.Pt')),
        Struct('Inner', [F(1, 'a', 'i32', 'required'), F(2, 'b', 'string', 'optional'), F(3, 'c', 'bool', 'optional', I(1)),
                         F(4, 'd', L('i32')), F(5, 'e', 'string', 'required')]),
        # member names whose Rust spelling differs from the IDL spelling (case conversion, keyword escaping): a struct literal names
        # its members by their IDL names
        Struct('Endpoint', [F(1, 'hostName', 'string', 'required'), F(2, 'portNumber', 'i32', 'required'), F(3, 'useTls', 'bool', 'optional'),
                            F(4, 'type', 'i32', 'optional'), F(5, 'MaxRetries', 'i16')]),
        Struct('WithMap', [F(1, 'a', 'i32', 'required'), F(2, 'm', M('string', 'i32')), F(3, 'lm', L(M('i8', 'i8')), 'required')]),
        Struct('Lits', [
            F(50, 'ep', R('Endpoint'), 'default', LM((Str('hostName'), Str('localhost')), (Str('portNumber'), I(8080)), (Str('useTls'), I(1)),
                                                     (Str('type'), I(7)), (Str('MaxRetries'), I(3)))),
            F(51, 'ep_o', R('Endpoint'), 'optional', LM((Str('portNumber'), I(9090)), (Str('hostName'), Str('h', "'")))),
            F(59, 'st_m', R('WithMap'), 'default', LM((Str('a'), I(1)), (Str('m'), LM((Str('k'), I(5)))), (Str('lm'), LL(LM((I(1), I(2))))))),
            F(60, 'st', R('Inner'), 'default', LM((Str('a'), I(3)), (Str('b'), Str('bee')))), F(61, 'st_r', R('Inner'), 'required', LM((Str('a'), I(4)))),
            F(62, 'st_o', R('Inner'), 'optional', LM((Str('a'), I(5)), (Str('c'), I(0)), (Str('d'), LL(I(9))))),
            F(63, 'st_none', R('Inner'), 'default', LM()), F(64, 'st_inc', R('inc.Pt'), 'default', LM((Str('x'), I(1)), (Str('y'), I(2)))),
            F(65, 'st_inc_r', R('inc.Pt'), 'required'),
            F(73, 'td_st', R('PtAlias'), 'default', LM((Str('x'), I(8)))),
            F(90, 'plain', 'i32', 'default', I(1)),
        ]),
    ], includes=['inc'], style=1, configs=('plain', 'split')))

    # ---- dfix: the default shapes repaired in pilota-build's literal lowering (F-14g container literal inside container literal,
    # F-14l path through a typedef'd target, F-14i const of set type, int at set<double> / map-key double, string const at a
    # std String field, double constants beyond f64's range) and an enum-typed const used as a number
    docs.append(Doc('dfix', [
        Enum('M', [('A', 0), ('B', 5), ('C', -3)]),
        Typedef('TdM', R('M')), Typedef('Count', 'i32'), Typedef('Count2', R('Count')), Typedef('Label', 'string'),
        Typedef('TdMap', M('i8', 'i8')), Typedef('MapList', L(M('string', 'i32'))),
        Const('K', 'i32', I(41)), Const('KS', 'string', Str('lbl')), Const('KM', R('M'), Id('M.B')),
        Const('KSET', S('i32'), LL(I(1), I(2))), Const('KSS', S('string'), LL(Str('a'))), Const('KEMPTY', S('i32'), LL()),
        # F-14x / F-14y: set literals and `[]`-for-an-empty-map nested in const containers, lists nested in a const list
        Const('KLS', L(S('i64')), LL(LL(I(1)), LL())), Const('KMS', M('i32', S('string')), LM((I(1), LL(Str('a'))))),
        Const('KLL', L(L('i32')), LL(LL(I(1)), LL(I(2)))), Const('KLM', L(M('i32', 'i32')), LL(LL(), LM((I(1), I(2))))),
        Struct('Fix', [
            F(1, 'mm', M('i8', M('byte', 'string')), 'default', LM((I(1), LM((I(2), Str('x')))), (I(3), LM()))),
            F(2, 'lm', L(M('string', 'i32')), 'required', LL(LM((Str('a'), I(1))), LM())),
            F(3, 'td', R('TdMap'), 'optional', LM((I(1), I(2)))),
            F(4, 'em', M('string', M('string', 'i32')), 'default', LM((Str('e'), LL()))),
            F(5, 'tdlm', R('MapList'), 'default', LL(LM((Str('k'), I(7))))),
            F(6, 'sm', S('i32'), 'default', LL()),
            F(10, 'e_td', R('TdM'), 'default', Id('M.B')), F(11, 'e_td_r', R('TdM'), 'required', Id('M.C')),
            F(12, 'c_td', R('Count'), 'default', Id('K')), F(13, 'c_td2', R('Count2'), 'required', Id('K')),
            F(14, 's_td', R('Label'), 'optional', Id('KS')),
            F(20, 'sd', S('double'), 'default', LL(I(1), D('2.5'), I(-16777217))), F(21, 'md', M('double', 'string'), 'required', LM((I(3), Str('x')))),
            F(30, 's_std', 'string', 'default', Id('KS'), rust_type='string'), F(31, 'r_std', 'string', 'required', Id('KS'), rust_type='string'),
            F(40, 'km', 'i32', 'default', Id('KM')), F(41, 'km8', 'i8', 'required', Id('KM')),
            F(50, 'd_inf', 'double', 'default', D('1e999')), F(51, 'd_ninf', 'double', 'required', D('-1e999')),
        ]),
    ], style=2))

    # ---- ann: annotations
    docs.append(Doc('ann', [
        Struct('Payload', [F(1, 'data', 'binary', 'required'), F(2, 'note', 'string')]),
        Struct('Ann', [
            F(1, 'bs', S('i32'), rust_type='btree'), F(2, 'bm', M('string', L('i32')), 'required', rust_type='btree'),
            F(3, 'bnest', L(M('i32', S('string'))), rust_type='btree'), F(4, 'vec', 'binary', rust_type='vec'), F(5, 'rvec', 'binary', 'required', rust_type='vec'),
            F(6, 'std', 'string', rust_type='string'), F(7, 'rstd', 'string', 'required', rust_type='string'),
            F(8, 'arc', R('Payload'), rust_wrapper_arc='true'), F(9, 'rarc', R('Payload'), 'required', rust_wrapper_arc='true'),
            F(10, 'larc', L(R('Payload')), rust_wrapper_arc='true'), F(11, 'marc', M('string', R('Payload')), rust_wrapper_arc='true'),
            F(12, 'sarc', 'string', rust_type='string', rust_wrapper_arc='true'),
            F(13, 'renamed', 'i32', name='other_name'), F(14, 'bd', M('double', 'double'), rust_type='btree'),
        ]),
        Struct('plain_lower', [F(1, 'Field_Upper', 'i32'), F(2, 'camelCase', 'string', 'required')], rust='PlainLower'),
        Struct('Renamed', [F(1, 'x', 'i32')], rust='NewName', ann={'pilota.name': 'NewName'}),
    ], style=1))

    # ---- arcl: pilota.rust_wrapper_arc around types that own no heap themselves (C19: an Arc is an allocation whatever it wraps):
    # lists of structs whose only Drop obligation is an Arc member, and Vec<Arc<scalar-only struct>> inside a field
    docs.append(Doc('arcl', [
        Struct('Pt', [F(1, 'x', 'i32', 'required'), F(2, 'y', 'i64')]),
        Struct('ArcEl', [F(1, 'p', R('Pt'), 'required', rust_wrapper_arc='true'), F(2, 'n', 'i32')]),
        Struct('ArcHolder', [F(1, 'els', L(R('ArcEl'))), F(2, 'after', 'i32', 'required')]),
        Struct('ArcIn', [F(1, 'lp', L(R('Pt')), rust_wrapper_arc='true'), F(2, 'after', 'i32', 'required')]),
        Struct('ArcMapIn', [F(1, 'm', M('i32', L(R('Pt'))), rust_wrapper_arc='true'), F(2, 'after', 'i32', 'required')]),
        Struct('PlainHolder', [F(1, 'els', L(R('Pt'))), F(2, 'after', 'i32', 'required')]),
    ], style=1))

    # ---- svc: a service -> synthesised Args/Result/Exception types; Req is an argument type that is also nested
    docs.append(Doc('svc', [
        Struct('Req', [F(1, 'id', 'i64', 'required'), F(2, 'tags', L('string')), F(3, 'pt', R('inc.Pt'), 'optional')]),
        Struct('Resp', [F(1, 'ok', 'bool', 'required'), F(2, 'items', L(R('Req')))]),
        Struct('Holder', [F(1, 'r', R('Req'), 'required'), F(2, 'after', 'i32', 'required'), F(3, 'rs', L(R('Req'))), F(4, 'mr', M('i32', R('Req')))]),
        Struct('Bad', [F(1, 'why', 'string')], exception=True),
        Struct('Worse', [F(1, 'code', 'i32', 'required')], exception=True),
        Service('Svc', [
            Method('ping', 'void'),
            Method('get', R('Resp'), [F(1, 'req', R('Req')), F(2, 'n', 'i32'), F(5, 'opt', 'string', 'optional')], [F(1, 'bad', R('Bad')), F(2, 'worse', R('Worse'))]),
            Method('fire', 'void', [F(1, 'r', R('Req')), F(2, 'l', L(R('Req')))], oneway=True),
            Method('count_all', 'i32', [F(3, 'pt', R('inc.Pt'))], camel='CountAll'),
            Method('names', L('string'), [], [F(1, 'bad', R('Bad'))]),
            Method('voidThrows', 'void', [F(1, 'b', 'bool')], [F(1, 'bad', R('Bad'))], camel='VoidThrows'),
        ]),
    ], includes=['inc'], style=2))

    # ---- sdef: IDL defaults written in the ARGUMENT lists of service methods (every literal kind, optional and default
    # requiredness -- the parser makes default-requiredness arguments required), on exceptions and on a result type.  Both
    # synthesised argument structs (<Service><Method>ArgsSend / ArgsRecv) are generated Thrift structs with Default / Message impls
    docs.append(Doc('sdef', [
        Enum('Mode', [('SAFE', 1), ('FAST', 2), ('NEG', -4)]),
        Typedef('Count', 'i32'), Typedef('Label', 'string'), Typedef('Modes', L(R('Mode'))), Typedef('OnOff', 'bool'),
        Const('K_I', 'i32', I(42)), Const('K_S', 'string', Str('const s')), Const('K_D', 'double', D('2.5')),
        Const('K_M', R('Mode'), Id('Mode.FAST')), Const('K_B', 'bool', ('bool', True)),
        Struct('Oops', [F(1, 'message', 'string', 'default', Str('boom')), F(2, 'code', 'i32', 'required', I(500)),
                        F(3, 'retry', 'bool', 'optional', I(1)), F(4, 'tags', L('string'), 'default', LL(Str('a'), Str('b', "'"))),
                        F(5, 'mode', R('Mode'), 'default', Id('Mode.FAST')), F(6, 'delay', 'double', 'optional', I(3))], exception=True),
        Struct('Quiet', [F(1, 'why', 'string', 'optional', Str('q')), F(2, 'n', 'i64', 'required')], exception=True),
        Struct('Res', [F(1, 'n', 'i32', 'default', I(7)), F(2, 's', 'string', 'optional'), F(3, 'm', M('string', 'i32'), 'default', LM((Str('k'), I(1))))]),
        Service('Calc', [
            Method('scale', 'i32', [F(1, 'factor', 'i32', 'default', I(10)), F(2, 'unit', 'string', 'optional', Str('ms')),
                                    F(3, 'mode', R('Mode'), 'default', Id('Mode.SAFE')), F(4, 'steps', L('i32'), 'optional', LL(I(1), I(2)))],
                   [F(1, 'oops', R('Oops'))]),
            Method('ints', 'void', [F(1, 'a', 'i8', 'default', I(-128)), F(2, 'b', 'i16', 'optional', I(32767)), F(3, 'c', 'i64', 'default', I(-9000000000)),
                                    F(4, 'd', 'byte', 'optional', I(5)), F(5, 'e', 'bool', 'default', I(1)), F(6, 'f', 'bool', 'optional', I(0)),
                                    F(7, 'g', 'bool', 'default', ('bool', True)), F(8, 'h', 'bool', 'optional', I(3))]),
            Method('dbls', 'double', [F(1, 'a', 'double', 'default', I(2)), F(2, 'b', 'double', 'optional', D('1.25')), F(3, 'c', 'double', 'default', D('-1.5e10')),
                                      F(4, 'd', 'double', 'optional', I(-7)), F(5, 'e', 'double', 'default', I(16777217)),
                                      F(6, 'f', 'double', 'optional', I(9007199254740993)), F(7, 'g', S('double'), 'default', LL(I(1), D('0.5')))]),
            Method('strs', 'string', [F(1, 'a', 'string', 'default', Str('double "quoted"'.replace('"', '\\"'))), F(2, 'b', 'string', 'optional', Str('single " inside', "'")),
                                      F(3, 'c', 'string', 'default', Str('line\\nnl \\\\ back')), F(4, 'd', 'string', 'optional', Str('')),
                                      F(5, 'e', 'string', 'default', Str('std'), rust_type='string'), F(6, 'f', 'string', 'optional', Str('héllo 日本')),
                                      F(7, 'g', 'binary', 'default', Str('bytes\\nhere')), F(8, 'h', 'binary', 'optional', Str(''))],
                   [F(1, 'oops', R('Oops')), F(2, 'quiet', R('Quiet'))]),
            Method('enums', R('Mode'), [F(1, 'a', R('Mode'), 'default', Id('Mode.FAST')), F(2, 'b', R('Mode'), 'optional', I(1)), F(3, 'c', R('Mode'), 'default', I(-4)),
                                        F(4, 'd', 'i32', 'optional', Id('Mode.NEG')), F(5, 'e', R('inc.Color'), 'default', Id('inc.Color.GREEN')),
                                        F(6, 'f', 'i8', 'default', Id('Mode.SAFE'))]),
            Method('consts', 'void', [F(1, 'a', 'i32', 'default', Id('K_I')), F(2, 'b', 'string', 'optional', Id('K_S')), F(3, 'c', 'double', 'default', Id('K_D')),
                                      F(4, 'd', R('Mode'), 'optional', Id('K_M')), F(5, 'e', 'i32', 'default', Id('inc.ORIGIN_X')), F(6, 'f', 'bool', 'optional', Id('K_B')),
                                      F(7, 'g', 'string', 'default', Id('K_S'), rust_type='string'), F(8, 'h', 'i64', 'default', Id('K_M'))], oneway=True),
            Method('conts', L('string'), [F(1, 'a', L('i32'), 'default', LL(I(1), I(-2), I(3))), F(2, 'b', L('i32'), 'optional', LL()),
                                          F(3, 'c', L(L('i16')), 'default', LL(LL(I(1)), LL())), F(4, 'd', S('i64'), 'optional', LL(I(5), I(6))),
                                          F(5, 'e', S('i32'), 'default', LL(I(3), I(1)), rust_type='btree'),
                                          F(6, 'f', M('string', 'string'), 'default', LM((Str('hello'), Str('world')))), F(7, 'g', M('string', 'i32'), 'optional', LL()),
                                          F(8, 'h', M(R('Mode'), L('i32')), 'default', LM((Id('Mode.SAFE'), LL(I(1))), (I(2), LL()))),
                                          F(9, 'i', M('string', 'i32'), 'optional', LM((Str('b'), I(2)), (Str('a'), I(1))), rust_type='btree'),
                                          F(10, 'j', M('i32', M('i32', 'string')), 'default', LM((I(1), LM((I(2), Str('x')))))),
                                          F(11, 'k', L(R('Mode')), 'optional', LL(Id('Mode.FAST'), I(1)))]),
            Method('tdefs', R('Count'), [F(1, 'a', R('Count'), 'default', I(77)), F(2, 'b', R('Label'), 'optional', Str('label')),
                                         F(3, 'c', R('Modes'), 'default', LL(I(1), Id('Mode.NEG'))), F(4, 'd', R('OnOff'), 'optional', I(1)),
                                         F(5, 'e', R('Count'), 'default', Id('K_I'))]),
            # defaults next to arguments without one: decode(empty) must fail exactly on the required ones without a default
            Method('mixed', R('Res'), [F(1, 'a', 'i32'), F(2, 'b', 'string', 'optional'), F(3, 'c', 'i32', 'default', I(3)), F(4, 'd', R('Res'), 'optional'),
                                       F(9, 'e', 'string', 'optional', Str('last'))], [F(3, 'quiet', R('Quiet'))]),
            Method('onlyOptional', 'void', [F(1, 'a', 'i32', 'optional', I(1)), F(2, 'b', L('string'), 'optional', LL(Str('x')))], camel='OnlyOptional'),
        ]),
    ], includes=['inc'], style=1))

    # ---- sdefs: struct literals as argument defaults (plain / split only, F-14d)
    docs.append(Doc('sdefs', [
        Struct('Pt', [F(1, 'x', 'i32', 'required'), F(2, 'y', 'i32', 'optional', I(5)), F(3, 'label', 'string')]),
        Typedef('PtAlias', R('Pt')),
        Service('Geo', [
            Method('shift', R('Pt'), [F(1, 'from', R('Pt'), 'default', LM((Str('x'), I(1)), (Str('label'), Str('o')))),
                                     F(2, 'to', R('Pt'), 'optional', LM((Str('x'), I(2)), (Str('y'), I(3)))),
                                     F(3, 'via', L(R('Pt')), 'default', LL(LM((Str('x'), I(4))))),
                                     F(4, 'al', R('PtAlias'), 'optional', LM((Str('x'), I(6)))),
                                     F(5, 'inc', R('inc.Pt'), 'default', LM((Str('x'), I(1)), (Str('y'), I(2))))]),
        ]),
    ], includes=['inc'], style=2, configs=('plain', 'split')))

    # ---- denum: how an enum MEMBER is named in a lowered default.  Member names that collide after case conversion keep their
    # IDL spelling (Context::names), a member can be renamed by pilota.name; a default BY NUMBER has to name the member the way
    # the enum's definition does.  Defaults by number and by name at fields, list / set elements, map keys / values, typedef'd
    # targets, through consts, in argument lists
    docs.append(Doc('denum', [
        Enum('Level', [('low', 1), ('LOW', 2), ('Low', 3), ('fooBar', 4), ('FOO_BAR', 5), ('plain_one', 6), ('Plain_Two', -7)]),
        Typedef('Lv', R('Level')), Typedef('Levels', L(R('Level'))),
        Const('K_L1', R('Level'), I(1)), Const('K_L3N', R('Level'), Id('Level.Low')),
        Const('K_LIST', L(R('Level')), LL(I(1), Id('Level.LOW'), I(3), I(4))), Const('K_MAP', M('string', R('Level')), LM((Str('a'), I(3)), (Str('b'), Id('Level.low')))),
        Struct('EnumD', [
            F(1, 'n1', R('Level'), 'default', I(1)), F(2, 'n2', R('Level'), 'required', I(2)), F(3, 'n3', R('Level'), 'optional', I(3)),
            F(4, 'n4', R('Level'), 'default', I(4)), F(5, 'n5', R('Level'), 'default', I(5)), F(6, 'n6', R('Level'), 'default', I(6)),
            F(7, 'n7', R('Level'), 'optional', I(-7)),
            F(11, 'm1', R('Level'), 'default', Id('Level.low')), F(12, 'm2', R('Level'), 'required', Id('Level.LOW')),
            F(13, 'm3', R('Level'), 'optional', Id('Level.Low')), F(14, 'm4', R('Level'), 'default', Id('Level.fooBar')),
            F(15, 'm5', R('Level'), 'default', Id('Level.FOO_BAR')), F(16, 'm7', R('Level'), 'default', Id('Level.Plain_Two')),
            F(20, 'l', L(R('Level')), 'default', LL(I(1), Id('Level.LOW'), I(3), Id('Level.low'), I(4))),
            F(21, 's', S(R('Level')), 'optional', LL(I(3), I(1))), F(22, 'mv', M('string', R('Level')), 'default', LM((Str('a'), I(1)), (Str('b'), Id('Level.Low')), (Str('c'), I(3)))),
            F(23, 'mk', M(R('Level'), 'string'), 'required', LM((I(1), Str('x')), (Id('Level.Low'), Str('y')))),
            F(24, 'ml', M('i32', L(R('Level'))), 'default', LM((I(1), LL(I(3), I(1))))),
            F(30, 'td', R('Lv'), 'default', I(3)), F(31, 'tdl', R('Levels'), 'optional', LL(I(1), I(5))),
            F(40, 'c1', R('Level'), 'default', Id('K_L1')), F(41, 'c3', R('Level'), 'optional', Id('K_L3N')), F(42, 'cl', L(R('Level')), 'default', Id('K_LIST')),
            F(43, 'cm', M('string', R('Level')), 'default', Id('K_MAP')), F(44, 'ci', 'i32', 'default', Id('Level.Low')), F(45, 'ck', 'i64', 'default', Id('K_L1')),
        ]),
        Service('EnumSvc', [Method('pick', R('Level'), [F(1, 'a', R('Level'), 'default', I(1)), F(2, 'b', R('Level'), 'optional', I(3)),
                                                       F(3, 'c', L(R('Level')), 'default', LL(I(3), I(2)))])]),
    ], style=2))

    # ---- denumr: members renamed by pilota.name (a document of its own: a member path spelled from the raw name names nothing
    # here, the emitted code does not compile, and the other documents are still evaluated)
    docs.append(Doc('denumr', [
        Enum('Ren', [('ALPHA', 1, {'pilota.name': 'First'}), ('beta', 2, {'pilota.name': 'SECOND_ONE'}), ('GAMMA', 3), ('gamma', 4)]),
        Const('K_R2', R('Ren'), I(2)),
        Struct('RenD', [
            F(50, 'r1', R('Ren'), 'default', I(1)), F(51, 'r2', R('Ren'), 'required', I(2)), F(52, 'r4', R('Ren'), 'optional', I(4)),
            F(53, 'ra', R('Ren'), 'default', Id('Ren.ALPHA')), F(54, 'rb', R('Ren'), 'default', Id('Ren.beta')), F(55, 'rl', L(R('Ren')), 'default', LL(I(2), Id('Ren.gamma'), I(3))),
            F(56, 'rc', R('Ren'), 'default', Id('K_R2')), F(57, 'rm', M('string', R('Ren')), 'default', LM((Str('k'), I(1)))),
        ]),
        Service('RenSvc', [Method('pick', R('Ren'), [F(1, 'c', L(R('Ren')), 'default', LL(I(1), I(2)))])]),
    ], style=1))

    # ---- denumnc: the same with Builder::change_case(false) (configuration `nocase` only): every name is kept as written, so a
    # member path built by any case conversion names nothing.  Type / field / module names here are invariant under the conversion
    docs.append(Doc('denumnc', [
        Enum('Level', [('low', 1), ('Mid', 2), ('HIGH', 3), ('veryHigh', 4)]),
        Const('K_L', R('Level'), I(1)),
        Struct('Nc', [F(1, 'a', R('Level'), 'default', I(1)), F(2, 'b', R('Level'), 'required', I(2)), F(3, 'c', R('Level'), 'optional', I(4)),
                      F(4, 'd', R('Level'), 'default', Id('Level.low')), F(5, 'l', L(R('Level')), 'default', LL(I(4), Id('Level.Mid'), I(1))),
                      F(6, 'm', M('string', R('Level')), 'default', LM((Str('k'), I(2)))), F(7, 'k', R('Level'), 'default', Id('K_L')),
                      F(8, 'n', 'i32', 'default', I(5))]),
    ], style=0, configs=('nocase',)))

    # ---- sarg: structs that occur ONLY inside containers of method parameters / results (never as a parameter or result type
    # themselves): they are no argument types (resolve.rs lower_type passes is_args = false into container components), so in a
    # keep build their decoder is the ordinary one.  Every field is required: every element of a value carries all declared fields
    docs.append(Doc('sarg', [
        Struct('Item', [F(1, 'id', 'i32', 'required'), F(2, 'name', 'string', 'required')]),
        Struct('SetEl', [F(1, 'id', 'i64', 'required'), F(2, 'on', 'bool', 'required')]),
        Struct('MapVal', [F(1, 'text', 'string', 'required'), F(2, 'n', 'i16', 'required')]),
        Struct('MapKey', [F(1, 'k', 'i32', 'required'), F(2, 'tag', 'string', 'required')]),
        Struct('Deep', [F(1, 'v', 'i64', 'required'), F(2, 'tags', L('string'), 'required')]),
        Struct('Deeper', [F(1, 'b', 'binary', 'required'), F(2, 'x', 'i8', 'required')]),
        Struct('ResEl', [F(1, 'code', 'i32', 'required'), F(2, 'msg', 'string', 'required')]),
        Struct('ResVal', [F(1, 'ok', 'bool', 'required'), F(2, 'why', 'string', 'required')]),
        Struct('Both', [F(1, 'a', 'i32', 'required'), F(2, 'b', 'i64', 'required')]),
        Service('Bag', [
            Method('putList', 'void', [F(1, 'items', L(R('Item')))], camel='PutList'),
            Method('putSet', 'void', [F(1, 'items', S(R('SetEl'))), F(2, 'after', 'i32')], camel='PutSet'),
            Method('putMap', 'void', [F(1, 'm', M('i32', R('MapVal')))], camel='PutMap'),
            Method('putKey', 'void', [F(1, 'm', M(R('MapKey'), 'string'))], camel='PutKey'),
            Method('nested', L(L(R('Deep'))), [F(1, 'mm', M('string', L(R('Deeper'))), 'optional')]),
            Method('getList', L(R('ResEl')), [], camel='GetList'),
            Method('getMap', M('string', R('ResVal')), [F(1, 'both', L(R('Both'))), F(2, 'again', S(L(R('Both'))))], camel='GetMap'),
        ]),
    ], style=1))

    # ---- evo: shapes aimed at schema evolution / failure-path properties (C08, C13, C19)
    docs.append(Doc('evo', [
        Struct('Sub', [F(1, 'name', 'string', 'required'), F(2, 'vals', L('i64'))]),
        Struct('Evo', [F(1, 'a', 'i32', 'required'), F(2, 'names', L('string')), F(3, 'sub', R('Sub'), 'optional'),
                       F(4, 'subs', L(R('Sub'))), F(5, 'm', M('string', R('Sub'))), F(6, 'e', R('inc.Color')), F(7, 'bins', L('binary')),
                       F(8, 'dflt', 'i32', 'optional', I(99)), F(9, 'flag', 'bool'), F(10, 'lls', L(L('string')))]),
        Union('EvoUn', [F(1, 'i', 'i32'), F(2, 's', 'string'), F(3, 'sub', R('Sub')), F(4, 'l', L('string'))]),
        Struct('EvoHolder', [F(1, 'u', R('EvoUn'), 'optional'), F(2, 'lu', L(R('EvoUn'))), F(3, 'e', R('Evo'), 'optional'), F(4, 'tail', 'string')]),
    ], includes=['inc'], style=0))

    # ---- argk: ARGUMENT types of a service, compiled with keep_unknown_fields in the keep build (finding F-13a: the sync decoder
    # of such a struct counts its declared fields down and takes `remaining - 2` bytes as unknown fields once all were seen).
    # The shapes decide the state of the reader when it gets there (unchecked codec: how much was read since the last
    # re-windowing): last declared field a scalar / a nested struct ending in a string / a string / a map ending in a bool;
    # declared fields with CONSTANT defaults, required and optional, before and after fields without one; an argument type
    # nested in a plain struct and as a return type
    docs.append(Doc('argk', [
        Struct('Inner', [F(1, 's', 'string', 'required')]),
        Struct('LastScalar', [F(1, 'note', 'string', 'optional'), F(2, 'id', 'i32', 'required')]),
        Struct('LastNested', [F(1, 'id', 'i32', 'required'), F(2, 'inner', R('Inner'), 'required')]),
        Struct('LastString', [F(1, 'id', 'i64', 'required'), F(2, 'name', 'string', 'required')]),
        Struct('LastMap', [F(1, 'id', 'i32', 'required'), F(2, 'm', M('string', 'bool'), 'required')]),
        Struct('Dflt', [F(1, 'id', 'i32', 'required'), F(2, 'note', 'string', 'optional'), F(3, 'limit', 'i32', 'required', I(10)),
                        F(4, 'flag', 'bool', 'optional', I(1)), F(5, 'tag', 'string', 'optional', Str('t'))]),
        Struct('DfltFirst', [F(1, 'limit', 'i32', 'required', I(10)), F(2, 'id', 'i32', 'required')]),
        Struct('DfltOnly', [F(1, 'a', 'i32', 'optional', I(1)), F(2, 'b', 'double', 'required', D('2.5'))]),
        Struct('Wrap', [F(1, 'd', R('Dflt'), 'required'), F(2, 'after', 'i32', 'required')]),
        Service('ArgSvc', [
            Method('scalar', 'void', [F(1, 'r', R('LastScalar'))]),
            Method('nested', R('LastNested'), [F(1, 'r', R('LastNested'))]),
            Method('text', 'void', [F(1, 'r', R('LastString')), F(2, 'n', 'i32')]),
            Method('lookup', 'void', [F(1, 'r', R('LastMap'))]),
            Method('dflt', R('DfltOnly'), [F(1, 'r', R('Dflt'))]),
            Method('dflt2', 'void', [F(1, 'a', R('DfltFirst')), F(2, 'b', R('Dflt'))]),
        ]),
    ], style=1))
    present = repairs_present()
    docs += [d for n, d in repair_docs() if n in present]
    return docs


# ------------------------------------------------------------------ documents that need a repair of the generator
#
# Default shapes on which the literal lowering of the pinned generator panicked, each with the repair proposed in
# fam/gen/patches/<name>.diff.  A document is part of the corpus iff its repair is in the working tree (a decidable test on
# the source text, the same the translator tools/extract_gen.py makes); otherwise pv/props/c20.py runs the generator on
# it alone and reports the panic as the known finding of class <name>.

REPAIR_MARKERS = {
    'arc-field-default': r'\(l,\s*CodegenTy::Arc\(inner_ty\)\)\s*=>',
    'container-const-reference': r'return\s+self\.lit_as_rvalue\(&c\.lit,\s*ty\);',
    'double-sign-run': r'fn\s+parse_double\s*\(',
    'double-exponent-form': r'text\.split_once\(\[\'e\',\s*\'E\'\]\)',
    'string-at-bytesvec': r'\(Literal::String\(s\),\s*CodegenTy::Vec\(inner\)\)',
    'map-key-map': r'let\s+k\s*=\s*self\.lit_as_rvalue\(k,\s*k_ty\)',
    # open without a proposed patch (None: never "present"): the document is probed alone on every run
    'const-typedef-at-target': None,
}
# the patch proposed for a class (fam/gen/patches/<file>), where its name differs from the class name
REPAIR_PATCH = {'map-key-map': 'map-key-rvalue', 'const-typedef-at-target': None}


def repairs_present():
    import os
    from . import core
    try:
        src = open(os.path.join(core.REPO, 'pilota-build', 'src', 'middle', 'context.rs'), encoding='utf-8').read()
    except OSError:
        return set()
    return set(n for n, rx in REPAIR_MARKERS.items() if rx is not None and re.search(rx, src))


def repair_docs():
    """[(class / patch name, Doc)]; every document stands alone (no includes)"""
    out = []
    # a default on a `pilota.rust_wrapper_arc` field (plain / split only: struct literals and keep builds, F-14d)
    out.append(('arc-field-default', Doc('darc', [
        Struct('P', [F(1, 'note', 'string'), F(2, 'n', 'i32', 'required')]),
        Typedef('P2', R('P')),
        Const('KS', 'string', Str('k')), Const('KP', R('P'), LM((Str('note'), Str('c')), (Str('n'), I(2)))),
        Struct('ArcD', [
            F(1, 'p', R('P'), 'default', LM((Str('note'), Str('x')), (Str('n'), I(1))), rust_wrapper_arc='true'),
            F(2, 'rp', R('P'), 'required', LM((Str('n'), I(3))), rust_wrapper_arc='true'),
            F(3, 's', 'string', 'default', Str('lit'), rust_type='string', rust_wrapper_arc='true'),
            F(4, 'sc', 'string', 'required', Id('KS'), rust_type='string', rust_wrapper_arc='true'),
            F(5, 'lp', L(R('P')), 'default', LL(LM((Str('n'), I(4))), LM((Str('n'), I(5)), (Str('note'), Str('y')))), rust_wrapper_arc='true'),
            F(6, 'mp', M('string', R('P')), 'optional', LM((Str('a'), LM((Str('n'), I(6))))), rust_wrapper_arc='true'),
            F(7, 'pc', R('P'), 'default', Id('KP'), rust_wrapper_arc='true'),
            F(8, 'tp', R('P2'), 'default', LM((Str('n'), I(7))), rust_wrapper_arc='true'),
            F(9, 'nod', R('P'), 'optional', rust_wrapper_arc='true'),
        ]),
        # the same on method arguments: ArgsSend keeps the Arc, ArgsRecv holds the plain type; the default is the same value
        Service('ArcSvc', [
            Method('put', 'void', [F(1, 'p', R('P'), 'default', LM((Str('n'), I(8))), rust_wrapper_arc='true'),
                                   F(2, 's', 'string', 'optional', Str('arg'), rust_type='string', rust_wrapper_arc='true'),
                                   F(3, 'lp', L(R('P')), 'optional', LL(LM((Str('n'), I(9)))), rust_wrapper_arc='true')]),
        ]),
    ], style=0, configs=('plain', 'split'))))
    # a reference to a const of list / set / map type
    out.append(('container-const-reference', Doc('dcref', [
        Typedef('IntList', L('i32')),
        Const('KL', L('i32'), LL(I(1), I(2))), Const('KSET', S('string'), LL(Str('a'))), Const('KM', M('string', 'i32'), LM((Str('k'), I(1)))),
        Const('KLS', L('string'), LL(Str('x'), Str('y'))), Const('KSD', S('double'), LL(I(1), D('2.5'))),
        Const('KLL', L(L('i32')), LL(Id('KL'), LL(I(3)))), Const('KLSET', L(S('string')), LL(Id('KSET'))),
        Struct('CRef', [
            F(1, 'l', L('i32'), 'default', Id('KL')), F(2, 's', S('string'), 'required', Id('KSET')),
            F(3, 'm', M('string', 'i32'), 'optional', Id('KM')), F(4, 'ls', L('string'), 'default', Id('KLS')),
            F(5, 'td', R('IntList'), 'default', Id('KL')), F(6, 'll', L(L('i32')), 'default', LL(Id('KL'), LL())),
            F(7, 'bs', S('string'), 'default', Id('KSET'), rust_type='btree'), F(8, 'sd', S('double'), 'default', Id('KSD')),
            F(9, 'mv', M('i32', L('i32')), 'default', LM((I(1), Id('KL')))),
        ]),
        Service('CRefSvc', [
            Method('take', 'void', [F(1, 'l', L('i32'), 'default', Id('KL')), F(2, 's', S('string'), 'optional', Id('KSET')),
                                    F(3, 'm', M('string', 'i32'), 'default', Id('KM'))]),
        ]),
    ], style=1)))
    # the double constant `-+x`
    out.append(('double-sign-run', Doc('dsign', [
        Const('KD', 'double', D('-+2.5')),
        Struct('Sign', [F(1, 'd', 'double', 'default', D('-+1.5')), F(2, 'e', 'double', 'required', D('-+1e3')),
                        F(3, 's', S('double'), 'default', LL(D('-+0.5'))), F(4, 'p', 'double', 'default', D('+2.5')),
                        F(5, 'c', 'double', 'default', Id('KD')), F(6, 'z', 'double', 'default', D('-+0.0'))]),
    ], style=2)))
    # a double constant whose exponent has several `-` signs or 0x digits (the exponent is an IDL integer constant)
    out.append(('double-exponent-form', Doc('dexp', [
        Const('KE', 'double', D('2.5e--1')), Const('KH', 'double', D('1e0x10')),
        Struct('Exp', [F(1, 'a', 'double', 'default', D('1.5e--3')), F(2, 'b', 'double', 'required', D('1e---2')),
                       F(3, 'c', 'double', 'optional', D('1e0x10')), F(4, 'd', 'double', 'default', D('-2.5E-0x2')),
                       F(5, 's', S('double'), 'default', LL(D('1e--1'), D('0.5e0xA'))), F(6, 'm', M('double', 'double'), 'default', LM((D('1e----0'), D('.5e--2')))),
                       F(7, 'k', 'double', 'default', Id('KE')), F(8, 'plain', 'double', 'default', D('1.5e-3')),
                       F(9, 'big', 'double', 'default', D('1e0x1F4')), F(10, 'z', 'double', 'default', D('1.e---0x0'))]),
        Service('ExpSvc', [Method('pow', 'double', [F(1, 'x', 'double', 'default', D('1e--2')), F(2, 'y', 'double', 'optional', D('2e0x2'))])]),
    ], style=0)))
    # a string default on a `binary` field with pilota.rust_type = "vec" (Vec<u8>): no (String, Vec) arm
    out.append(('string-at-bytesvec', Doc('dbvec', [
        Struct('BVec', [F(1, 'a', 'binary', 'default', Str('xy'), rust_type='vec'), F(2, 'b', 'binary', 'required', Str(''), rust_type='vec'),
                        F(3, 'c', 'binary', 'optional', Str('line\\nnl \\\\ "q"'.replace('"', '\\"')), rust_type='vec'),
                        F(4, 'd', 'binary', 'default', Str('single " inside', "'"), rust_type='vec'),
                        F(5, 'plain', 'binary', 'default', Str('bytes'))]),
        Service('BVecSvc', [Method('put', 'void', [F(1, 'data', 'binary', 'default', Str('arg'), rust_type='vec'),
                                                   F(2, 'more', 'binary', 'optional', Str('héllo'), rust_type='vec')])]),
    ], style=1)))
    # a map literal (or `[]` for an empty map) as a map KEY: mk_map lowers keys through lit_into_ty, which has no arm for them.
    # btree: BTreeMap<BTreeMap<..>, ..> is a type the emitted code compiles for (a hash map is no hash key)
    out.append(('map-key-map', Doc('dmkey', [
        Struct('MKey', [F(1, 'm', M(M('i32', 'i32'), 'i32'), 'default', LM((LM((I(1), I(2))), I(3)), (LM((I(4), I(5)), (I(6), I(7))), I(8))), rust_type='btree'),
                        F(2, 'e', M(M('string', 'i8'), L('i32')), 'required', LM((LL(), LL(I(1))), (LM((Str('k'), I(1))), LL())), rust_type='btree'),
                        F(3, 'n', M(M(M('i8', 'i8'), 'bool'), 'string'), 'optional', LM((LM((LM((I(1), I(2))), I(1))), Str('deep'))), rust_type='btree'),
                        F(4, 'plain', M('i32', M('i32', 'i32')), 'default', LM((I(1), LM((I(2), I(3))))), rust_type='btree')]),
    ], style=2)))
    # a const of a TYPEDEF type used at the aliased type: ident_into_ty looks through the newtypes of the target only
    out.append(('const-typedef-at-target', Doc('dpconv', [
        Typedef('Count', 'i32'), Typedef('Label', 'string'), Typedef('Count2', R('Count')),
        Const('K', R('Count'), I(1)), Const('KS', R('Label'), Str('x')), Const('K2', R('Count2'), I(2)),
        Struct('PConv', [F(1, 'x', 'i32', 'default', Id('K')), F(2, 's', 'string', 'optional', Id('KS')), F(3, 'c', R('Count'), 'default', Id('K')),
                         F(4, 'y', R('Count'), 'required', Id('K2')), F(5, 'l', L('i32'), 'default', LL(Id('K')))]),
    ], style=0)))
    return out


def repair_doc_class(doc):
    """the decidable class of a document: does it contain the shape that needs the repair?  -> set of class names"""
    out = set()
    consts = {it.name: it for it in doc.items if it.kind == 'const'}

    typedefs = {it.name: it for it in doc.items if it.kind == 'typedef'}

    def is_map_ty(ty):
        return isinstance(ty, tuple) and ty[0] == 'map'

    def walk(lit, ty, ann):
        if ann.get('pilota.rust_wrapper_arc') == 'true':
            out.add('arc-field-default')
        if lit[0] == 'str' and ty == 'binary' and ann.get('pilota.rust_type') == 'vec':
            out.add('string-at-bytesvec')
        if lit[0] == 'map' and is_map_ty(ty) and any(k[0] == 'map' or (k[0] == 'list' and is_map_ty(ty[1])) for k, _ in lit[1]):
            out.add('map-key-map')
        if lit[0] == 'id' and lit[1] in consts and isinstance(consts[lit[1]].ty, tuple) and consts[lit[1]].ty[0] == 'ref' \
                and consts[lit[1]].ty[1] in typedefs and ty != consts[lit[1]].ty:
            out.add('const-typedef-at-target')
        if lit[0] == 'dbl' and lit[1].startswith('-+'):
            out.add('double-sign-run')
        if lit[0] == 'dbl' and re.search(r'[eE](--|-?0x)', lit[1]):
            out.add('double-exponent-form')
        if lit[0] == 'id' and lit[1] in consts and isinstance(consts[lit[1]].ty, tuple) and consts[lit[1]].ty[0] in ('list', 'set', 'map'):
            out.add('container-const-reference')
        if lit[0] == 'list':
            for x in lit[1]:
                walk(x, ty[1] if isinstance(ty, tuple) and ty[0] in ('list', 'set') else None, {})
        if lit[0] == 'map':
            for a, b in lit[1]:
                walk(a, ty[1] if is_map_ty(ty) else None, {}); walk(b, ty[2] if is_map_ty(ty) else None, {})
    for it in doc.items:
        if it.kind == 'const':
            walk(it.lit, it.ty, {})
        if it.kind == 'struct':
            for f in it.fields:
                if f.default is not None:
                    walk(f.default, f.ty, f.ann)
        if it.kind == 'service':
            for m in it.methods:
                for f in m.args:
                    if f.default is not None:
                        walk(f.default, f.ty, f.ann)
    return out


def expand_includes(docs):
    """entry files are all documents; included ones are found next to them"""
    return docs


if __name__ == '__main__':
    import sys
    ds = corpus()
    sch = lower_docs(ds)
    if len(sys.argv) > 1 and sys.argv[1] == 'idl':
        for d in ds:
            print('// ---- %s.thrift' % d.name)
            print(doc_idl(d))
    else:
        sys.stdout.write(schema_txt(sch))


# ------------------------------------------------------------------ value tokens -> value (inverse of show)

def parse_value(sch, ty, toks, pos=0):
    """-> (value, next position)"""
    t = sch.resolve(ty)
    k = t[0]
    tok = toks[pos]
    if k == 'bool':
        return tok == 'b1', pos + 1
    if k in ('i8', 'i16', 'i32', 'i64'):
        return int(tok[1:]), pos + 1
    if k == 'double':
        return (0x7FF8000000000000 if tok == 'dNaN' else int(tok[1:])), pos + 1
    if k in ('string', 'binary'):
        return (b'' if tok == 's-' else bytes.fromhex(tok[1:])), pos + 1
    if k == 'uuid':
        return bytes.fromhex(tok[1:]), pos + 1
    if k == 'void':
        return None, pos + 1
    if k in ('list', 'set'):
        n, pos = int(tok[1:]), pos + 1
        out = []
        for _ in range(n):
            x, pos = parse_value(sch, t[1], toks, pos)
            out.append(x)
        return out, pos
    if k == 'map':
        n, pos = int(tok[1:]), pos + 1
        out = []
        for _ in range(n):
            a, pos = parse_value(sch, t[1], toks, pos)
            b, pos = parse_value(sch, t[2], toks, pos)
            out.append((a, b))
        return out, pos
    d = sch.types[t[1]]
    if d['kind'] == 'enum':
        return int(tok[1:]), pos + 1
    if d['kind'] == 'struct':
        n, pos = int(tok[1:]), pos + 1
        out = {}
        byid = {f['id']: f for f in d['fields']}
        for _ in range(n):
            fid = int(toks[pos][1:])
            out[fid], pos = parse_value(sch, byid[fid]['ty'], toks, pos + 1)
        if pos < len(toks) and toks[pos].startswith('X'):
            out['X'] = bytes.fromhex(toks[pos][1:])
            pos += 1
        return out, pos
    if d['kind'] == 'union':
        if tok == 'U?':
            if pos + 1 < len(toks) and toks[pos + 1].startswith('X'):
                return ('?', bytes.fromhex(toks[pos + 1][1:])), pos + 2
            return ('?', b''), pos + 1
        vid = int(tok[1:])
        var = [x for x in d['variants'] if x['id'] == vid][0]
        x, pos = parse_value(sch, var['ty'], toks, pos + 1)
        return (vid, x), pos
    raise ValueError(ty)


# ------------------------------------------------------------------ seeded random documents (thorough tier)

KEY_BASE = ['string', 'i8', 'i16', 'i32', 'i64', 'bool', 'binary']
VAL_BASE = ['bool', 'byte', 'i8', 'i16', 'i32', 'i64', 'double', 'string', 'binary']


def random_doc(rng, name):
    """a conservative random document: only references to earlier declarations (plus self recursion through
    optional fields / lists), hashable keys, defaults of base kinds; avoids the generator defects of FINDINGS.md"""
    items, structs, unions, enums, tdefs = [], [], [], [], []

    def rand_ty(depth, allow_self=None):
        c = rng.random()
        if depth > 0 and c < 0.35:
            k = rng.choice(['list', 'list', 'set', 'map'])
            if k == 'list':
                return L(rand_ty(depth - 1, allow_self))
            if k == 'set':
                return S(rng.choice(KEY_BASE + [R(e) for e in enums]))
            return M(rng.choice(KEY_BASE + [R(e) for e in enums]), rand_ty(depth - 1, allow_self))
        if c < 0.55 and (structs or unions or enums or tdefs):
            return R(rng.choice(structs + unions + enums + tdefs))
        return rng.choice(VAL_BASE)

    def rand_default(ty):
        if ty in ('i8', 'byte'):
            return I(rng.randrange(-128, 128))
        if ty == 'i16':
            return I(rng.choice([0, -1, 32767, -32768, 1234]))
        if ty == 'i32':
            return I(rng.choice([0, 1, -1, 2147483647, -2147483648, 77]))
        if ty == 'i64':
            return I(rng.choice([0, -1, 9223372036854775807, -9223372036854775807, 5000000000]))   # i64::MIN is not accepted by the IDL parser
        if ty == 'bool':
            return rng.choice([I(0), I(1), I(2), ('bool', True), ('bool', False)])
        if ty == 'double':
            return rng.choice([I(3), I(-4), D('0.5'), D('-2.25'), D('1e10'), D('6.02e23')])
        if ty == 'string':
            return Str(rng.choice(['', 'plain', 'with space', 'q\\"q', "it\\'s", 'uni é日']), rng.choice(['"', "'"]))
        if ty == 'binary':
            return Str(rng.choice(['', 'bin', 'b\\nn']))
        if isinstance(ty, tuple) and ty[0] == 'ref' and ty[1] in enums:
            e = [it for it in items if it.name == ty[1]][0]
            n, v = rng.choice(e.numbers())
            return rng.choice([I(v), Id('%s.%s' % (e.name, n))])
        if isinstance(ty, tuple) and ty[0] == 'list' and ty[1] in ('i32', 'i64', 'string'):
            return LL(*[rand_default(ty[1]) for _ in range(rng.randrange(0, 3))])
        return None

    for k in range(rng.randrange(1, 3)):
        n = 'Re%d' % k
        vals = sorted(set(rng.choice([0, 1, 2, 5, -1, -7, 100, 70000, 2147483647]) for _ in range(rng.randrange(1, 6))))
        rng.shuffle(vals)
        items.append(Enum(n, [('M%d' % i, v) for i, v in enumerate(vals)]))
        enums.append(n)
    for k in range(rng.randrange(3, 7)):
        kind = rng.choice(['struct', 'struct', 'struct', 'union', 'typedef'])
        if kind == 'typedef':
            n = 'Rt%d' % k
            t = rand_ty(2)
            if t == 'binary' or t == 'byte':
                t = 'i32'
            items.append(Typedef(n, t))
            tdefs.append(n)
        elif kind == 'union':
            n = 'Ru%d' % k
            ids = rng.sample([1, 2, 3, 7, 15, 16, 100, 3000], rng.randrange(1, 5))
            fs = []
            for i in ids:
                t = rand_ty(2)
                if isinstance(t, tuple) and t[0] == 'ref' and t[1] in unions:
                    t = 'i32'          # by-value union-in-union cycles are not boxed (F-14b); keep unions flat
                fs.append(F(i, 'v%d' % i, t))
            items.append(Union(n, fs))
            unions.append(n)
        else:
            n = 'Rs%d' % k
            ids = rng.sample([1, 2, 3, 4, 5, 14, 15, 16, 17, 31, 127, 128, 1000, 32767], rng.randrange(0, 9))
            fs = []
            for i in ids:
                req = rng.choice(['required', 'optional', 'default', 'default'])
                c = rng.random()
                if c < 0.12:
                    t = R(n); req = 'optional'           # self recursion through an optional field
                elif c < 0.2:
                    t = L(R(n))
                elif c < 0.25:
                    t = 'uuid'
                else:
                    t = rand_ty(3)
                d = rand_default(t) if rng.random() < 0.4 else None
                fs.append(F(i, 'f%d' % i, t, req, d))
            items.append(Struct(n, fs, exception=rng.random() < 0.1))
            structs.append(n)
    return Doc(name, items, style=rng.randrange(3))


def random_docs(seed, n):
    rng = random.Random(seed * 7919 + 17)
    return [random_doc(rng, 'rnd%d' % i) for i in range(n)]


# ------------------------------------------------------------------ literal schema (C20, fam/gen/coq/Lit.v; FORMAT.md section 4)
#
# What pilota-build's middle end sees of a document: rir types after resolve.rs (lower_type, lower_type_for_hash_key,
# modify_ty_by_tags) and the literal ASTs with their paths resolved.  Written NEXT TO schema.txt (same item order, same
# global names, so item indices agree); schema.txt itself is unchanged.

def rty_tags(r, ann):
    """resolve.rs modify_ty_by_tags (field / typedef / const annotations)"""
    rt = ann.get('pilota.rust_type')
    if r == ('string',) and rt == 'string':
        r = ('stdstring',)
    elif r == ('bytes',) and rt == 'vec':
        r = ('bytesvec',)
    if rt == 'btree':
        def bt(x):
            if x[0] == 'vec':
                return ('vec', bt(x[1]))
            if x[0] == 'set':
                return ('btreeset', bt(x[1]))
            if x[0] == 'map':
                return ('btreemap', bt(x[1]), bt(x[2]))
            return x
        r = bt(r)
    if ann.get('pilota.rust_wrapper_arc') == 'true':
        def arc(x):
            if x[0] in ('vec', 'set', 'btreeset'):
                return (x[0], arc(x[1]))
            if x[0] in ('map', 'btreemap'):
                return (x[0], x[1], arc(x[2]))
            if x[0] in ('path', 'stdstring', 'bytesvec'):
                return ('arc', x)
            raise ValueError('rust_wrapper_arc on %r: resolve.rs panics' % (x,))
        r = arc(r)
    return r


def rty_txt(r):
    if r[0] in ('vec', 'set', 'btreeset', 'arc'):
        return r[0] + ' ' + rty_txt(r[1])
    if r[0] in ('map', 'btreemap'):
        return r[0] + ' ' + rty_txt(r[1]) + ' ' + rty_txt(r[2])
    if r[0] == 'path':
        return 'path ' + r[1]
    return r[0]


def lit_toks(sch, lit, doc, const_index):
    """literal AST with paths resolved the way resolve.rs lower_path does (Value namespace: consts, enum members)"""
    k = lit[0]
    if k == 'int':
        return ['i%d' % lit[1]]
    if k == 'bool':
        return ['b%d' % (1 if lit[1] else 0)]
    if k == 'dbl':
        return ['f' + lit[1].encode('utf-8').hex()]
    if k == 'str':
        return ['s' + (lit[1].encode('utf-8').hex() or '-')]
    if k == 'id':
        g = find_const(sch, lit[1], doc)
        if g is not None:
            return ['c%d' % const_index[g]]
        parts = lit[1].split('.')
        ename, mem = '.'.join(parts[:-1]), parts[-1]
        ge = ename if ename in sch.types else doc.name + '.' + ename
        d = sch.types.get(ge)
        if d and d['kind'] == 'enum':
            for i, (n, _) in enumerate(d['members']):
                if n == mem:
                    return ['m:%s:%d' % (ge, i)]
        raise ValueError('unknown identifier ' + lit[1])
    if k == 'list':
        out = ['L%d' % len(lit[1])]
        for x in lit[1]:
            out += lit_toks(sch, x, doc, const_index)
        return out
    if k == 'map':
        out = ['M%d' % len(lit[1])]
        for a, b in lit[1]:
            out += lit_toks(sch, a, doc, const_index) + lit_toks(sch, b, doc, const_index)
        return out
    raise ValueError(lit)


def lschema_txt(sch):
    """one line per item of schema.txt (same order) + one `lconst` line per const"""
    const_index = {g: i for i, g in enumerate(sch.consts)}
    out = []
    for n in sch.order:
        d = sch.types[n]
        fl = d.get('flags') or '-'
        if d['kind'] == 'struct':
            parts = ['lstruct', n, fl, str(len(d['fields']))]
            for f in d['fields']:
                r = rty_tags(lowered_rty(f['ty']), f.get('ann') or {})
                lt = '-' if f['lit'] is None else ','.join(lit_toks(sch, f['lit'], f['doc'], const_index))
                parts += [str(f['id']), 'req' if f['req'] == 'required' else 'opt', f['name'].encode('utf-8').hex() or '-',
                          rty_txt(r), lt]
            out.append(' '.join(parts))
        elif d['kind'] == 'union':
            parts = ['lunion', n, fl, str(len(d['variants']))]
            for v in d['variants']:
                parts += [str(v['id']), rty_txt(lowered_rty(v['ty']))]
            out.append(' '.join(parts))
        elif d['kind'] == 'enum':
            out.append(' '.join(['lenum', n, str(len(d['members']))] + [str(v) for _, v in d['members']]))
        else:
            out.append('ltypedef %s %s' % (n, rty_txt(lowered_rty(d['ty']))))
    for g, (cty, clit, cdoc) in sch.consts.items():
        r = lowered_rty(cty)
        out.append('lconst %s %s %s' % (g, rty_txt(r), ','.join(lit_toks(sch, clit, cdoc, const_index))))
    return '\n'.join(out) + '\n'


def lowered_rty(t, hash_key=False):
    """resolve.rs lower_type / lower_type_for_hash_key, from the lowered schema type: string -> FastStr, binary -> Bytes,
    double -> F64, but OrderedF64 inside a set element / map key (also below lists / sets nested in the key)"""
    k = t[0]
    if k == 'double':
        return ('of64',) if hash_key else ('f64',)
    if k == 'binary':
        return ('bytes',)
    if k == 'list':
        return ('vec', lowered_rty(t[1], hash_key))
    if k == 'set':
        return ('set', lowered_rty(t[1], True))
    if k == 'map':
        return ('map', lowered_rty(t[1], True), lowered_rty(t[2], False))
    if k == 'ref':
        return ('path', t[1])
    return (k,)


def ty_idl_lowered(t):
    """IDL spelling of a lowered schema type (for messages)"""
    if t[0] in ('list', 'set'):
        return '%s<%s>' % (t[0], ty_idl_lowered(t[1]))
    if t[0] == 'map':
        return 'map<%s, %s>' % (ty_idl_lowered(t[1]), ty_idl_lowered(t[2]))
    if t[0] == 'ref':
        return t[1]
    return t[0]
