(* An INDEPENDENT specification of the Apache Thrift binary and compact encodings, written from the
   protocol documents (thrift-binary-protocol.md, thrift-compact-protocol.md), not from pilota:
   its own type-code tables, a pure encoder over value trees annotated with every alternative form
   the specifications leave to the writer, and the message envelope.
   Nothing here mentions pilota's writer state machine (pending bool, id stack): the field-id
   context of the compact protocol is an explicit argument. *)
From PV Require Export Thrift.Value.
Open Scope Z_scope.

(* ---- type codes of the specifications ---- *)
(* binary protocol: BOOL 2, BYTE 3, DOUBLE 4, I16 6, I32 8, I64 10, STRING 11, STRUCT 12, MAP 13,
   SET 14, LIST 15, UUID 16 *)
Definition spec_btype (t : ttype) : option Z :=
  match t with
  | TBool => Some 2 | TI8 => Some 3 | TDouble => Some 4 | TI16 => Some 6 | TI32 => Some 8
  | TI64 => Some 10 | TBinary => Some 11 | TStruct => Some 12 | TMap => Some 13 | TSet => Some 14
  | TList => Some 15 | TUuid => Some 16
  | TStop | TVoid => None
  end.
(* compact protocol, field-type / element-type nibble: BOOLEAN_TRUE 1, BOOLEAN_FALSE 2, I8 3, I16 4,
   I32 5, I64 6, DOUBLE 7, BINARY 8, LIST 9, SET 10, MAP 11, STRUCT 12, UUID 13 *)
Definition spec_ctype (t : ttype) : option Z :=
  match t with
  | TBool => Some 1 | TI8 => Some 3 | TI16 => Some 4 | TI32 => Some 5 | TI64 => Some 6
  | TDouble => Some 7 | TBinary => Some 8 | TList => Some 9 | TSet => Some 10 | TMap => Some 11
  | TStruct => Some 12 | TUuid => Some 13
  | TStop | TVoid => None
  end.
Definition oz (o : option Z) : Z := match o with Some z => z | None => 0 end.

(* ---- annotated value trees: every free choice of a conforming writer is explicit ---- *)
Inductive sval :=
| SBool (b : bool) (tb : byte)           (* binary protocol: the byte written for true (any non-zero) *)
| SI8 (z : Z) | SI16 (z : Z) | SI32 (z : Z) | SI64 (z : Z)
| SDouble (bits : Z)
| SBinary (l : list byte)
| SUuid (l : list byte)
| SStruct (fs : list (Z * bool * sval))  (* (field id, use the long-form compact header, value) *)
| SList (et : ttype) (long b2 : bool) (l : list sval)   (* long-form size header; bool element type as 2 *)
| SSet (et : ttype) (long b2 : bool) (l : list sval)
| SMap (kt vt : ttype) (kb2 vb2 : bool) (l : list (sval * sval)).

Fixpoint erase (s : sval) : tval :=
  match s with
  | SBool b _ => VBool b
  | SI8 z => VI8 z | SI16 z => VI16 z | SI32 z => VI32 z | SI64 z => VI64 z
  | SDouble b => VDouble b | SBinary l => VBinary l | SUuid l => VUuid l
  | SStruct fs => VStruct (map (fun '(i, _, x) => (i, erase x)) fs)
  | SList et _ _ l => VList et (map erase l)
  | SSet et _ _ l => VSet et (map erase l)
  | SMap kt vt _ _ l => VMap kt vt (map (fun '(a, b) => (erase a, erase b)) l)
  end.

Definition stype (s : sval) : ttype := ttype_of (erase s).

(* ---- shared scalar encodings ---- *)
Definition s_i (n : nat) (bits : Z) (z : Z) : list byte := be_bytes n (z mod 2 ^ bits).  (* big-endian two's complement *)
Definition s_zz (z : Z) : list byte := encode_var (zigzag z).                            (* zigzag + ULEB128 *)
Definition s_uv (n : Z) : list byte := encode_var n.

(* ---- binary protocol ---- *)
Fixpoint sencB (s : sval) : list byte :=
  match s with
  | SBool b tb => [if b then (if Byte.eqb tb x00 then x01 else tb) else x00]
  | SI8 z => [z2b z]
  | SI16 z => s_i 2 16 z
  | SI32 z => s_i 4 32 z
  | SI64 z => s_i 8 64 z
  | SDouble b => be_bytes 8 b
  | SBinary l => s_i 4 32 (Z.of_nat (length l)) ++ l
  | SUuid l => l
  | SStruct fs =>
      (fix go (fs : list (Z * bool * sval)) : list byte :=
         match fs with
         | [] => [x00]
         | (id, _, x) :: t => z2b (oz (spec_btype (stype x))) :: s_i 2 16 id ++ sencB x ++ go t
         end) fs
  | SList et _ _ l | SSet et _ _ l =>
      z2b (oz (spec_btype et)) :: s_i 4 32 (Z.of_nat (length l)) ++
      (fix go (l : list sval) : list byte := match l with [] => [] | x :: t => sencB x ++ go t end) l
  | SMap kt vt _ _ l =>
      z2b (oz (spec_btype kt)) :: z2b (oz (spec_btype vt)) :: s_i 4 32 (Z.of_nat (length l)) ++
      (fix go (l : list (sval * sval)) : list byte :=
         match l with [] => [] | (a, b) :: t => sencB a ++ sencB b ++ go t end) l
  end.

(* ---- compact protocol ---- *)
(* element-type nibble; BOOL may be written as 1 or as 2 (readers must accept both) *)
Definition s_etype (t : ttype) (b2 : bool) : Z :=
  match t with TBool => if b2 then 2 else 1 | _ => oz (spec_ctype t) end.

(* field header: short form dddd tttt for 1 <= delta <= 15 unless the long form is requested,
   long form 0000 tttt followed by the zigzag varint field id *)
Definition s_fhdr (last id : Z) (long : bool) (t : Z) : list byte :=
  let delta := id - last in
  if negb long && (0 <? delta) && (delta <=? 15) then [z2b (delta * 16 + t)]
  else z2b t :: s_zz id.

Definition s_lhdr (n : Z) (long : bool) (t : Z) : list byte :=
  if negb long && (n <=? 14) then [z2b (n * 16 + t)] else z2b (240 + t) :: s_uv n.

Fixpoint sencC (s : sval) : list byte :=
  match s with
  | SBool b tb => [if b then x01 else if Byte.eqb tb x00 then x00 else x02]
      (* as a collection element / map key / value; false is 2 (the Apache libraries) or, annotation byte 00, 0 (the protocol text) *)
  | SI8 z => [z2b z]
  | SI16 z | SI32 z | SI64 z => s_zz z
  | SDouble b => le_bytes 8 b
  | SBinary l => s_uv (Z.of_nat (length l)) ++ l
  | SUuid l => l
  | SStruct fs =>
      (fix go (last : Z) (fs : list (Z * bool * sval)) : list byte :=
         match fs with
         | [] => [x00]
         | (id, long, x) :: t =>
             match x with
             | SBool b _ => s_fhdr last id long (if b then 1 else 2) ++ go id t
             | _ => s_fhdr last id long (oz (spec_ctype (stype x))) ++ sencC x ++ go id t
             end
         end) 0 fs
  | SList et long b2 l | SSet et long b2 l =>
      s_lhdr (Z.of_nat (length l)) long (s_etype et b2) ++
      (fix go (l : list sval) : list byte := match l with [] => [] | x :: t => sencC x ++ go t end) l
  | SMap kt vt kb2 vb2 l =>
      match l with
      | [] => [x00]
      | _ => s_uv (Z.of_nat (length l)) ++ [z2b (s_etype kt kb2 * 16 + s_etype vt vb2)] ++
             (fix go (l : list (sval * sval)) : list byte :=
                match l with [] => [] | (a, b) :: t => sencC a ++ sencC b ++ go t end) l
      end
  end.

Definition senc (compact : bool) (s : sval) : list byte := if compact then sencC s else sencB s.

(* named versions of the inner loops *)
Fixpoint sencB_fields (fs : list (Z * bool * sval)) : list byte :=
  match fs with
  | [] => [x00]
  | (id, _, x) :: t => z2b (oz (spec_btype (stype x))) :: s_i 2 16 id ++ sencB x ++ sencB_fields t
  end.
Fixpoint sencB_elems (l : list sval) : list byte := match l with [] => [] | x :: t => sencB x ++ sencB_elems t end.
Fixpoint sencB_pairs (l : list (sval * sval)) : list byte :=
  match l with [] => [] | (a, b) :: t => sencB a ++ sencB b ++ sencB_pairs t end.
Fixpoint sencC_fields (last : Z) (fs : list (Z * bool * sval)) : list byte :=
  match fs with
  | [] => [x00]
  | (id, long, x) :: t =>
      match x with
      | SBool b _ => s_fhdr last id long (if b then 1 else 2) ++ sencC_fields id t
      | _ => s_fhdr last id long (oz (spec_ctype (stype x))) ++ sencC x ++ sencC_fields id t
      end
  end.
Fixpoint sencC_elems (l : list sval) : list byte := match l with [] => [] | x :: t => sencC x ++ sencC_elems t end.
Fixpoint sencC_pairs (l : list (sval * sval)) : list byte :=
  match l with [] => [] | (a, b) :: t => sencC a ++ sencC b ++ sencC_pairs t end.

(* ---- the canonical annotation: the choices pilota's writer makes ---- *)
(* short form exactly for 0 < delta < 15, true as 0x01, short list header up to 14, bool element
   type 1 *)
Fixpoint annot (v : tval) : sval :=
  match v with
  | VBool b => SBool b x01
  | VI8 z => SI8 z | VI16 z => SI16 z | VI32 z => SI32 z | VI64 z => SI64 z
  | VDouble b => SDouble b | VBinary l => SBinary l | VUuid l => SUuid l
  | VStruct fs =>
      SStruct ((fix go (last : Z) (fs : list (Z * tval)) : list (Z * bool * sval) :=
                  match fs with
                  | [] => []
                  | (id, x) :: t => (id, (id - last =? 15), annot x) :: go id t
                  end) 0 fs)
  | VList et l => SList et false false (map annot l)
  | VSet et l => SSet et false false (map annot l)
  | VMap kt vt l => SMap kt vt false false (map (fun '(a, b) => (annot a, annot b)) l)
  end.
Fixpoint annot_fields (last : Z) (fs : list (Z * tval)) : list (Z * bool * sval) :=
  match fs with
  | [] => []
  | (id, x) :: t => (id, (id - last =? 15), annot x) :: annot_fields id t
  end.

(* ---- message envelope ---- *)
(* binary, strict: 1vvvvvvv vvvvvvvv unused 00000mmm | name (i32 length + bytes) | seqid i32,
   version = 1; compact: 0x82 | mmmvvvvv (version 1) | seqid as ULEB128 of its 32-bit pattern |
   name (varint length + bytes).  Message types: Call 1, Reply 2, Exception 3, Oneway 4. *)
Definition spec_mtype (t : mtype) : Z :=
  match t with MCall => 1 | MReply => 2 | MException => 3 | MOneWay => 4 end.

Definition spec_msgB (name : list byte) (t : mtype) (seq : Z) (unused : byte) : list byte :=
  [x80; x01; unused; z2b (spec_mtype t)] ++ s_i 4 32 (Z.of_nat (length name)) ++ name ++ s_i 4 32 seq.

Definition spec_msgC (name : list byte) (t : mtype) (seq : Z) : list byte :=
  [x82; z2b (spec_mtype t * 32 + 1)] ++ s_uv (seq mod 2 ^ 32) ++ s_uv (Z.of_nat (length name)) ++ name.

(* the standard application exception: struct { 1: string message, 2: i32 type } *)
Definition spec_app_exception (msg : list byte) (kind : Z) : sval :=
  SStruct [(1, false, SBinary msg); (2, false, SI32 kind)].
