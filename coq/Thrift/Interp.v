(* L2: the value interpreter -- writes / reads a self-describing value tree using only
   the primitive protocol operations.  The Rust harness contains the same interpreter
   over the real TOutputProtocol / TInputProtocol API. *)
From PV Require Export Thrift.Proto.
Open Scope Z_scope.

Section Interp.
  Variable p : pk.
  Variable k : bk.

  Fixpoint write_val (v : tval) : wm :=
    match v with
    | VBool b => w_bool p b
    | VI8 z => w_i8 z
    | VI16 z => w_i16 p z
    | VI32 z => w_i32 p z
    | VI64 z => w_i64 p z
    | VDouble b => w_double p b
    | VBinary l => w_bytes p k l
    | VUuid l => w_uuid l
    | VStruct fs =>
        w_struct_begin p ;;
        (fix go (fs : list (Z * tval)) : wm :=
           match fs with
           | [] => wnop
           | (id, x) :: t =>
               w_field_begin p (ttype_of x) id ;; write_val x ;; w_field_end p ;; go t
           end) fs ;;
        w_field_stop p ;; w_struct_end p
    | VList et l | VSet et l =>
        w_coll_begin p et (Z.of_nat (length l)) ;;
        (fix go (l : list tval) : wm :=
           match l with
           | [] => wnop
           | x :: t => write_val x ;; go t
           end) l
    | VMap kt vt l =>
        w_map_begin p kt vt (Z.of_nat (length l)) ;;
        (fix go (l : list (tval * tval)) : wm :=
           match l with
           | [] => wnop
           | (a, b) :: t => write_val a ;; write_val b ;; go t
           end) l
    end.

  Definition write_fields : list (Z * tval) -> wm :=
    fix go (fs : list (Z * tval)) : wm :=
      match fs with
      | [] => wnop
      | (id, x) :: t =>
          w_field_begin p (ttype_of x) id ;; write_val x ;; w_field_end p ;; go t
      end.
  Definition write_elems : list tval -> wm :=
    fix go (l : list tval) : wm :=
      match l with
      | [] => wnop
      | x :: t => write_val x ;; go t
      end.
  Definition write_pairs : list (tval * tval) -> wm :=
    fix go (l : list (tval * tval)) : wm :=
      match l with
      | [] => wnop
      | (a, b) :: t => write_val a ;; write_val b ;; go t
      end.

  Fixpoint write_vals (vs : list tval) : wm :=
    match vs with
    | [] => wnop
    | v :: t => write_val v ;; write_vals t
    end.

  (* the reader's loops, parametric in the recursive call *)
  Section Loops.
    Variable rec : ttype -> rst -> res (tval * rst).

    Fixpoint fields_loop (n : nat) (s : rst) (acc : list (Z * tval)) {struct n}
      : res (list (Z * tval) * rst) :=
      match n with
      | O => Err EOutOfFuel
      | S n' =>
          let* (h, s) := r_field_begin p s in
          if ttype_eqb (fst h) TStop then Ok (rev acc, s)
          else
            let* (x, s) := rec (fst h) s in
            fields_loop n' s ((match snd h with Some i => i | None => 0 end, x) :: acc)
      end.

    Fixpoint elems_loop (m : nat) (et : ttype) (n : Z) (s : rst) (acc : list tval) {struct m}
      : res (list tval * rst) :=
      if n <=? 0 then Ok (rev acc, s) else
      match m with
      | O => Err EOutOfFuel
      | S m' =>
          let* (x, s) := rec et s in
          elems_loop m' et (n - 1) s (x :: acc)
      end.

    Fixpoint pairs_loop (m : nat) (kt vt : ttype) (n : Z) (s : rst) (acc : list (tval * tval)) {struct m}
      : res (list (tval * tval) * rst) :=
      if n <=? 0 then Ok (rev acc, s) else
      match m with
      | O => Err EOutOfFuel
      | S m' =>
          let* (a, s) := rec kt s in
          let* (b, s) := rec vt s in
          pairs_loop m' kt vt (n - 1) s ((a, b) :: acc)
      end.
  End Loops.

  (* [fuel] bounds recursion depth *and* every loop *)
  Fixpoint read_val (fuel : nat) (ty : ttype) (s : rst) {struct fuel} : res (tval * rst) :=
    match fuel with
    | O => Err EOutOfFuel
    | S f =>
        match ty with
        | TBool => let* (b, s) := r_bool p s in Ok (VBool b, s)
        | TI8 => let* (z, s) := r_i8 s in Ok (VI8 z, s)
        | TI16 => let* (z, s) := r_i16 p s in Ok (VI16 z, s)
        | TI32 => let* (z, s) := r_i32 p s in Ok (VI32 z, s)
        | TI64 => let* (z, s) := r_i64 p s in Ok (VI64 z, s)
        | TDouble => let* (z, s) := r_double p s in Ok (VDouble z, s)
        | TBinary => let* (l, s) := r_bytes p s in Ok (VBinary l, s)
        | TUuid => let* (l, s) := r_uuid s in Ok (VUuid l, s)
        | TStruct =>
            let* (_, s) := r_struct_begin p s in
            let* (fs, s) := fields_loop (read_val f) (S f) s [] in
            let* (_, s) := r_struct_end p s in
            Ok (VStruct fs, s)
        | TList =>
            let* (h, s) := r_coll_begin p s in
            let* (l, s) := elems_loop (read_val f) (S f) (fst h) (snd h) s [] in
            Ok (VList (fst h) l, s)
        | TSet =>
            let* (h, s) := r_coll_begin p s in
            let* (l, s) := elems_loop (read_val f) (S f) (fst h) (snd h) s [] in
            Ok (VSet (fst h) l, s)
        | TMap =>
            let* (h, s) := r_map_begin p s in
            let* (l, s) := pairs_loop (read_val f) (S f) (fst (fst h)) (snd (fst h)) (snd h) s [] in
            Ok (VMap (fst (fst h)) (snd (fst h)) l, s)
        | TStop | TVoid => Err EInvalidData
        end
    end.

  Fixpoint read_vals (fuel : nat) (tys : list ttype) (s : rst) : res (list tval * rst) :=
    match tys with
    | [] => Ok ([], s)
    | ty :: t =>
        let* (v, s) := read_val fuel ty s in
        let* (vs, s) := read_vals fuel t s in
        Ok (v :: vs, s)
    end.
End Interp.

(* encoding of a value on a fresh writer: flattened bytes *)
Definition enc (p : pk) (k : bk) (v : tval) : res (list byte) :=
  let* (ss, _) := write_val p k v w0 in Ok (flat ss).

(* the only information the wire does not carry: key/value types of an empty compact map *)
Definition canon1 (p : pk) (v : tval) : tval :=
  match p, v with
  | PCompact, VMap _ _ [] => VMap TStop TStop []
  | _, _ => v
  end.
Fixpoint canon (p : pk) (v : tval) : tval :=
  match v with
  | VStruct fs => VStruct (map (fun '(i, x) => (i, canon p x)) fs)
  | VList et l => VList et (map (canon p) l)
  | VSet et l => VSet et (map (canon p) l)
  | VMap kt vt l =>
      canon1 p (VMap kt vt (map (fun '(a, b) => (canon p a, canon p b)) l))
  | _ => v
  end.
