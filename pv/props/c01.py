"""C01 -- Thrift runtime round trip on every protocol and buffer kind."""
import random
from .. import core, thriftgen as tg

PKS = ["binary", "binary_le", "compact"]
BKS = ["contig", "linked", "linked_zc"]

FIXED = [
    # three-level struct with bool fields, long-form id jump, sibling after nested struct
    "S4 f1 b1 f2 S2 f1 b0 f5 S1 f3 b1 f3 i7 f200 h-3",
    "S3 f1 S1 f5 i1 f2 i2 f3 S0",
    "S2 f32767 i1 f-32768 i2",
    "S2 f-32768 i1 f32767 i2",
    "S3 f10 b1 f11 b0 f26 b1",
    "M11,8,0", "M2,2,2 b1 b0 b0 b1", "L2,3 b1 b0 b1", "T4,1 d4609434218613702656",
    "L12,2 S1 f1 b1 S1 f1 b0", "L15,2 L8,1 i1 L8,0", "M8,13,1 i1 M11,11,0",
    "u000102030405060708090a0b0c0d0e0f", "d9221120237041090560", "l-9223372036854775808",
    "L3,15 " + " ".join("y%d" % i for i in range(15)),
    "L3,14 " + " ".join("y%d" % i for i in range(14)),
    "s" + "ab" * 4096, "s" + "cd" * 4095, "S1 f1 s" + "ef" * 5000,
]


def gen_cases(rng, n):
    cases = []
    for v in FIXED:
        for pk in PKS:
            for bk in BKS:
                cases.append("rt %s %s - 1 %s" % (pk, bk, v))
                cases.append("rt %s %s ff00 2 %s %s" % (pk, bk, v, "S1 f1 b1"))
    while len(cases) < n:
        pk = rng.choice(PKS)
        bk = rng.choice(BKS)
        k = rng.choice([1, 1, 1, 2, 3])
        depth = rng.choice([1, 2, 2, 3, 4, 6])
        vals = [tg.gen_top(rng, depth) for _ in range(k)]
        rest = bytes(rng.randrange(256) for _ in range(rng.choice([0, 0, 1, 3, 9])))
        cases.append("rt %s %s %s %d %s" % (pk, bk, tg.hx(rest), k, " ".join(vals)))
    return cases


def split_case(case):
    t = case.split(" ")
    pk, bk, rest, n = t[1], t[2], t[3], int(t[4])
    return pk, bk, rest, n, t[5:]


def oracle(case, out):
    """property C01 restated on the implementation's output alone. returns None or a reason"""
    pk, bk, rest, n, vtoks = split_case(case)
    if not out.startswith("W "):
        return "writing a well-typed value failed: " + out
    if " R " not in out:
        return "reading back failed: " + out[out.index(" Z "):] if " Z " in out else out
    r = out[out.index(" R ") + 3:]
    toks = r.split(" ")
    if "REM" not in toks:
        return "malformed output"
    i = toks.index("REM")
    got, rem = toks[:i], int(toks[i + 1])
    want = tg.canon_tokens(pk, vtoks)
    if got != want:
        return "value read back differs from value written"
    restlen = 0 if rest == "-" else len(rest) // 2
    if rem != restlen:
        return "reader consumed %d bytes more than were written" % (restlen - rem)
    if "ORACLE-FAIL" in out:
        return "buffer kinds / API flavours disagree: " + out[out.index("ORACLE-FAIL"):]
    return None


def norm_model(line):
    # the model names the panic site; the implementation only says "panic"
    import re
    return re.sub(r"panic \w+", "panic", line)


def norm_impl(line):
    i = line.find(" ORACLE-FAIL")
    return line if i < 0 else line[:i]


SEQS = [0, 1, -1, 7, 255, 256, 65535, 65536, (1 << 24) - 1, 1 << 24, (1 << 24) + 1, 0x01020304, (1 << 31) - 1, -(1 << 31), -2]
NAMES = [b"", b"m", b"ping", b"getUser", b"n" * 300]


def gen_msg_cases(rng, n):
    """mrt: sequences of enveloped messages (write_message_begin + value + write_message_end) written with ONE writer and
    read back with ONE reader: the four protocols (incl. the unchecked binary codec), every buffer kind, in-memory and
    asynchronous readers"""
    cases = []
    def one(pk, bk, mode, k):
        parts = []
        for _ in range(k):
            name = rng.choice(NAMES) if rng.random() < 0.9 else b"z" * rng.choice([4095, 4096, 5000])
            seq = rng.choice(SEQS) if rng.random() < 0.7 else rng.randrange(-(1 << 31), 1 << 31)
            v = rng.choice(["S2 f1 b1 f2 i5", "S0", "S1 f1 S1 f2 b0", "S3 f1 s6162 f2 L2,2 b1 b0 f16 y-1"]) if rng.random() < 0.5 \
                else tg.gen_of_type(rng, "struct", rng.choice([1, 2, 3]), big_ok=False)
            parts.append("%s %d %d %s" % (tg.hx(name), rng.choice([1, 2, 3, 4]), seq, v))
        rest = bytes(rng.randrange(256) for _ in range(rng.choice([0, 0, 2, 7])))
        return "mrt %s %s %s %s %d %s" % (pk, bk, mode, tg.hx(rest), k, " ".join(parts))
    for pk in PKS + ["unsafe"]:
        for bk in BKS:
            for k in (1, 2, 3):
                cases.append(one(pk, bk, "sync", k))
                if pk != "unsafe":
                    cases.append(one(pk, bk, "async:" + rng.choice(["all", "b1", "h", "b1/p1"]), k))
    while len(cases) < n:
        pk = rng.choice(PKS + ["unsafe", "unsafe"])
        mode = "sync" if pk == "unsafe" or rng.random() < 0.6 else "async:" + rng.choice(["all", "b1", "h", "all/p2", "b1/p1"])
        cases.append(one(pk, rng.choice(BKS), mode, rng.choice([1, 2, 2, 3])))
    return cases


def val_end(toks, j):
    """index after the value starting at toks[j]"""
    tok = toks[j]; c = tok[0]; j += 1
    if c == "S":
        for _ in range(int(tok[1:])):
            j = val_end(toks, j + 1)
    elif c in "LT":
        for _ in range(int(tok.split(",")[1])):
            j = val_end(toks, j)
    elif c == "M":
        for _ in range(2 * int(tok.split(",")[2])):
            j = val_end(toks, j)
    return j


def msg_want(case):
    """expected R tokens and REM of an mrt case"""
    t = case.split(" ")
    pk, rest, k = t[1], t[4], int(t[5])
    toks = t[6:]
    want, i = [], 0
    for _ in range(k):
        want += toks[i:i + 3]
        e = val_end(toks, i + 3)
        want += tg.canon_tokens("compact" if pk == "compact" else "binary", toks[i + 3:e])
        i = e
    return want, (0 if rest == "-" else len(rest) // 2)


def msg_oracle(case, out):
    if not out.startswith("W "):
        return "writing an enveloped message failed: " + out[:80]
    if " R " not in out:
        return "reading an enveloped message back failed: " + out[out.index(" ", 2):][:80]
    r = out[out.index(" R ") + 3:].split(" ")
    if "REM" not in r:
        return "malformed output"
    j = r.index("REM")
    want, nrest = msg_want(case)
    if r[:j] != want:
        return "message sequence read back differs from what was written (envelope, or the value after an envelope)"
    if int(r[j + 1]) != nrest:
        return "reader of enveloped messages consumed %d bytes more than were written" % (nrest - int(r[j + 1]))
    return None


def answered(x):
    """a harness / runner line that is an answer (not empty, not the driver's marker for a dead or silent process)"""
    return bool(x) and not x.startswith(("CRASH", "HANG", "TIMEOUT", "NOANSWER"))

def run(chk, replay=None):
    return run_rt(chk, replay, oracle, "C01", extra=(gen_msg_cases, msg_oracle, "mrt"))


def run_rt(chk, replay, oracle, prop, extra=None):
    gate, hb = core.std_setup(chk)
    rng = random.Random(chk.seed)
    n = 3000 if chk.tier == "quick" else 400000
    cases = gen_cases(rng, n) if replay is None else [replay["case"]]
    if extra is not None:
        xgen, xoracle, xname = extra
        if replay is None:
            cases = cases + xgen(rng, max(120, min(n, 6000) // 5))
        base_oracle = oracle
        oracle = lambda c, o: xoracle(c, o) if c.startswith(xname + " ") else base_oracle(c, o)
    chk.cov["rule"] = ("rt cases: protocol x buffer kind x 1-3 generated value trees (depth<=6, boundary ints, "
                       "field ids around short/long-form and i16 limits, sizes around 14/15 and the 4096 zero-copy "
                       "threshold) x trailing bytes; written back to back with one writer and read with one reader; "
                       "non-trivial = contains a non-empty struct/container; distinct by SHA-1 of the case line. "
                       "mrt (C01): 1-3 enveloped messages (name lengths 0..5000, 4 message types, boundary sequence ids) x {binary, "
                       "binary_le, compact, unchecked binary} x buffer kinds x {in-memory, async reader under a schedule}, one writer / "
                       "one reader. apps (C04): ApplicationException size()/encode() sequences on one protocol object")
    bins = []
    if hb:
        bins.append(("debug", hb))
        if chk.tier == "thorough":
            ok, hb2, log = core.build_harness(release=True)
            if ok:
                bins.append(("release", hb2))
    model = [norm_model(l) for l in core.run_lines(core.RUNNER, cases)] if gate is not None and core.os.path.exists(core.RUNNER) else None
    failing = []      # (case, reason)
    mism = []
    compared = oracled = 0      # pairs (implementation answer, model answer) actually compared / answers put to the oracle
    for prof, b in bins:
        impl = core.run_lines(b, cases)
        for c, o in zip(cases, impl):
            oracled += 1
            why = oracle(c, o)
            if why:
                failing.append((c, "%s [%s build]" % (why, prof), o))
        if model is not None:
            for c, o, m in zip(cases, impl, model):
                if not (answered(o) and answered(m)):
                    if answered(o) != answered(m):
                        mism.append((c, o, m, prof))
                    continue
                compared += 1
                if norm_impl(o) != m:
                    mism.append((c, o, m, prof))
    for c in cases:
        if c.startswith("rt "):
            chk.count(c, tg.nontrivial(split_case(c)[4]))
        else:
            chk.count(c, True)
    chk.sample(cases[0]); chk.sample(cases[len(cases) // 2]); chk.sample(cases[-1])
    chk.cov["disagreements_checked"] = compared
    chk.cov["oracle_checked"] = oracled
    chk.cov["model_impl_mismatches"] = len(mism)
    rts = [c for c in cases if c.startswith("rt ")]
    chk.cov["distribution"] = dict(
        protocols={p: sum(1 for c in rts if c.split(" ")[1] == p) for p in PKS},
        buffers={b: sum(1 for c in rts if c.split(" ")[2] == b) for b in BKS},
        multi_value=sum(1 for c in rts if int(c.split(" ")[4]) > 1),
        with_trailing=sum(1 for c in rts if c.split(" ")[3] != "-"),
        other_suites={k: sum(1 for c in cases if c.startswith(k + " ")) for k in ("mrt", "apps")},
        max_case_len=max(len(c) for c in cases))
    # report
    for c, why, o in failing[:3]:
        chk.violation(prop + " fails on the implementation: " + why, dict(kind="case", case=c, impl_output=o[:2000]))
    if not failing:
        if mism:
            c, o, m, prof = mism[0]
            chk.violation("correspondence prim-trace/rt broken: model and implementation disagree (%d cases) but the "
                          "round-trip oracle found no failing input" % len(mism),
                          dict(kind="correspondence", correspondence="prim-trace rt (coq/Thrift/Interp.v vs pilota::thrift)",
                               case=c, impl_output=o[:2000], model_output=m[:2000], build=prof), no_input=True)
        if not gate["ok"]:
            chk.violation("proof obligation broken: %s (%s)" % (gate.get("failed"), gate.get("error", "")[:300]),
                          dict(kind="proof", theorem_file="coq/Properties/%s.v" % prop, failed=gate.get("failed"),
                               error=gate.get("error"), theorems=gate["theorems"]), no_input=True)
    return chk.finish()
