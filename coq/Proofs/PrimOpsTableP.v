(* C01 / C03 / C04, tie to the method bodies (continued): from the pinned bodies (Proofs/PrimOpsP.v known_sound) to the
   rows of the regenerated table. *)
From Coq Require Import String.
From PV Require Import Thrift.Len Thrift.Msg Thrift.Async Thrift.PrimOp Thrift.PrimOpsSem Thrift.PrimOpsRSem Thrift.PrimOpsKnown Generated.PrimOps.
From PV Require Import Proofs.VarintP Proofs.TablesP Proofs.PrimP Proofs.HeaderP Proofs.RoundtripP Proofs.LenP Proofs.PrimOpsP.
From Coq Require Import ZifyN ZifyNat ZifyBool.
Open Scope Z_scope.

(* ================================================================== *)
(* (3) the regenerated rows *)

Lemma core_run_w p k r e a c : row_core r = entry_core e -> run_w p k r a c = run_w p k (row_of e) a c.
Proof. unfold row_core, entry_core. intros H. injection H as H1 H2 H3 H4. unfold run_w, row_of. cbn [r_body r_method]. rewrite H2, H3. reflexivity. Qed.
Lemma core_run_l p r e a c : row_core r = entry_core e -> run_l p r a c = run_l p (row_of e) a c.
Proof. unfold row_core, entry_core. intros H. injection H as H1 H2 H3 H4. unfold run_l, row_of. cbn [r_body r_method r_value]. rewrite H2, H3, H4. reflexivity. Qed.

(* prim_ops_model: every row of the regenerated table denotes the primitive of the model selected by its method name,
   for the protocol of its struct, every buffer kind, every argument and every writer context the Rust types allow.
   Writers: same bytes (the flattened segments) and same final context, same error, same panic.  Length methods: same
   number and same final context. *)
Lemma core_run_r async p r e s : row_core r = entry_core e -> run_r async p r s = run_r async p (row_of e) s.
Proof. unfold row_core, entry_core. intros H. injection H as H1 H2 H3 H4. unfold run_r, row_of. cbn [r_body r_value]. rewrite H3, H4. reflexivity. Qed.

Lemma row_entry r : In r prim_ops ->
  row_core r = entry_core (entry_of r) /\ In (r_proto r) (e_protos (entry_of r)) /\
  In (r_flavour r) (e_flavours (entry_of r)) /\ sound (entry_of r).
Proof.
  intros Hr. destruct table_known as (T1 & T2 & T2' & T3).
  pose proof T1 as Hcore. rewrite map_ext_in_iff in Hcore. specialize (Hcore r Hr). cbv beta in Hcore.
  rewrite forallb_forall in T2, T2', T3. specialize (T2 r Hr). specialize (T2' r Hr). specialize (T3 r Hr).
  apply Nat.ltb_lt in T3.
  assert (Hin : In (entry_of r) known) by (apply nth_In; exact T3).
  split; [exact Hcore|]. split; [|split].
  - apply existsb_exists in T2 as (pr & Hpr & Epr). apply String.eqb_eq in Epr. subst pr. exact Hpr.
  - apply existsb_exists in T2' as (pr & Hpr & Epr). apply String.eqb_eq in Epr. subst pr. exact Hpr.
  - exact (proj1 (Forall_forall _ _) known_sound _ Hin).
Qed.

Theorem prim_ops_model : forall r, In r prim_ops ->
  forall p, pk_of (r_proto r) = Some p ->
  forall k a c, args_ok (r_method r) a c ->
    (r_class r = "write"%string -> exists w, wspec p k (r_method r) a = Some w /\ fl (run_w p k r a c) = fl (w c)) /\
    (r_class r = "len"%string -> exists l, lspec p (r_method r) a = Some l /\ run_l p r a c = l c).
Proof.
  intros r Hr p Hp k a c Hok.
  destruct (row_entry r Hr) as (Hcore & Hpr & _ & S).
  assert (Hm : r_method r = e_method (entry_of r)) by (unfold row_core, entry_core in Hcore; congruence).
  assert (Hc : r_class r = e_class (entry_of r)) by (unfold row_core, entry_core in Hcore; congruence).
  rewrite Hm in Hok |- *. rewrite Hc.
  destruct (S (r_proto r) p Hpr Hp) as (SW & SL & _).
  split; intros Hcls.
  - destruct (SW Hcls k a c Hok) as (w & E1 & E2). exists w. split; [exact E1|]. rewrite (core_run_w p k r _ a c Hcore). exact E2.
  - destruct (SL Hcls k a c Hok) as (l & E1 & E2). exists l. split; [exact E1|]. rewrite (core_run_l p r _ a c Hcore). exact E2.
Qed.

(* ... and every reader row (in-memory and asynchronous, the methods the translator lowers) IS the reader primitive of
   Proto.v / Async.v selected by its method name: same value, same remaining input and context, same error, on every
   reader state *)
Theorem prim_ops_model_read : forall r, In r prim_ops -> r_class r = "read"%string ->
  forall p, pk_of (r_proto r) = Some p ->
  exists m, rspec (seqb (r_flavour r) "async") p (r_method r) = Some m /\
    forall s, run_r (seqb (r_flavour r) "async") p r s = m s.
Proof.
  intros r Hr Hcls p Hp.
  destruct (row_entry r Hr) as (Hcore & Hpr & Hfl & S).
  assert (Hm : r_method r = e_method (entry_of r)) by (unfold row_core, entry_core in Hcore; congruence).
  assert (Hc : r_class r = e_class (entry_of r)) by (unfold row_core, entry_core in Hcore; congruence).
  rewrite Hc in Hcls. rewrite Hm.
  destruct (S (r_proto r) p Hpr Hp) as (_ & _ & SR).
  destruct (SR Hcls (r_flavour r) Hfl) as (m & E1 & E2). exists m. split; [exact E1|].
  intros s. rewrite (core_run_r _ p r _ s Hcore). apply E2.
Qed.

(* the primitives the writer rows are compared with do not depend on the buffer kind, up to flattening *)
Lemma w_bytes_fl p k k' l c : fl (w_bytes p k l c) = fl (w_bytes p k' l c).
Proof. exact (buffer_independent p k k' (VBinary l) c). Qed.
Lemma w_bwl_fl k k' l c : fl (w_bytes_without_len k l c) = fl (w_bytes_without_len k' l c).
Proof.
  unfold w_bytes_without_len. destruct k as [|[|]], k' as [|[|]]; try reflexivity;
    destruct (zero_copy_threshold <=? Z.of_nat (length l)); reflexivity.
Qed.

Lemma wspec_kind_independent p k k' m a w w' c :
  wspec p k m a = Some w -> wspec p k' m a = Some w' -> fl (w c) = fl (w' c).
Proof.
  unfold wspec.
  repeat match goal with
         | |- context [if ?b then _ else _] => destruct b
         end; intros H1 H2; try discriminate; injection H1 as <-; injection H2 as <-; try reflexivity.
  - (* message begin *)
    destruct p; cbn [w_message_begin].
    + apply fl_wseq_ext; [apply fl_wseq_ext; [reflexivity|intros; apply w_bytes_fl]|reflexivity].
    + apply fl_wseq_ext; [apply fl_wseq_ext; [reflexivity|intros; apply w_bytes_fl]|reflexivity].
    + apply fl_wseq_ext; [reflexivity|intros; apply w_bytes_fl].
  - apply w_bytes_fl.
  - apply w_bwl_fl.
Qed.

(* buffer independence at the level of the regenerated bodies: two rows of the same protocol and method -- the BytesMut
   and the LinkedBytes flavour of a writer, zero-copy on or off -- denote the same bytes and the same final context *)
Theorem prim_ops_flavour_independent : forall r1 r2, In r1 prim_ops -> In r2 prim_ops ->
  r_class r1 = "write"%string -> r_class r2 = "write"%string ->
  r_proto r1 = r_proto r2 -> r_method r1 = r_method r2 ->
  forall p, pk_of (r_proto r1) = Some p ->
  forall k1 k2 a c, args_ok (r_method r1) a c ->
    fl (run_w p k1 r1 a c) = fl (run_w p k2 r2 a c).
Proof.
  intros r1 r2 H1 H2 C1 C2 Ep Em p Hp k1 k2 a c Hok.
  destruct (proj1 (prim_ops_model r1 H1 p Hp k1 a c Hok) C1) as (w1 & S1 & E1).
  rewrite Ep in Hp. rewrite Em in Hok.
  destruct (proj1 (prim_ops_model r2 H2 p Hp k2 a c Hok) C2) as (w2 & S2 & E2).
  rewrite E1, E2. rewrite Em in S1. exact (wspec_kind_independent p k1 k2 _ a w1 w2 c S1 S2).
Qed.

(* ================================================================== *)
(* (4) C04: a *_len row returns the number of bytes the matching write_* row emits *)

Fixpoint assoc {A} (x : string) (l : list (string * A)) : option A :=
  match l with
  | [] => None
  | (y, v) :: t => if String.eqb x y then Some v else assoc x t
  end.
Lemma assoc_in {A} x (l : list (string * A)) y : assoc x l = Some y -> In (x, y) l.
Proof.
  induction l as [|[z v] t IH]; cbn [assoc In]; [discriminate|].
  destruct (String.eqb_spec x z) as [->|]; [intros H; injection H as <-; left; reflexivity|right; auto].
Qed.

Definition len_pairs : list (string * string) :=
  [("write_i8", "i8_len"); ("write_i16", "i16_len"); ("write_i32", "i32_len"); ("write_i64", "i64_len");
   ("write_double", "double_len"); ("write_uuid", "uuid_len"); ("write_byte", "byte_len"); ("write_bool", "bool_len");
   ("write_bytes", "bytes_len"); ("write_string", "string_len"); ("write_faststr", "faststr_len");
   ("write_bytes_vec", "bytes_vec_len"); ("write_field_begin", "field_begin_len"); ("write_field_end", "field_end_len");
   ("write_field_stop", "field_stop_len"); ("write_struct_begin", "struct_begin_len"); ("write_struct_end", "struct_end_len");
   ("write_list_begin", "list_begin_len"); ("write_set_begin", "set_begin_len"); ("write_map_begin", "map_begin_len");
   ("write_list_end", "list_end_len"); ("write_set_end", "set_end_len"); ("write_map_end", "map_end_len");
   ("write_message_end", "message_end_len")]%string.
Definition len_method (mw : string) : option string := assoc mw len_pairs.

(* what the Rust types / the wire format guarantee about the values (the preconditions of C04_prim) *)
Definition vals_ok (a : margs) : Prop :=
  in_s 16 (a_id a) /\ len_ok (length (a_bytes a)) = true /\ 0 <= a_z a.
Definition int_ok (mw : string) (a : margs) : Prop :=
  (seqb mw "write_i16" = true -> in_s 16 (a_z a)) /\
  (seqb mw "write_i32" = true -> in_s 32 (a_z a)) /\
  (seqb mw "write_i64" = true -> in_s 64 (a_z a)) /\
  (seqb mw "write_uuid" = true -> length (a_bytes a) = 16%nat).

Lemma LWp_byte z : LWp (lret 1) (w_byte z).
Proof. apply LWp_of; [apply LW_ret; reflexivity|apply pres_ret]. Qed.
Lemma LWp_msg_end p : LWp (assert_no_pending_l p 0) (assert_no_pending_w p).
Proof. exact (LWp_field_end p). Qed.

Definition pair_ok (q : string * string) : Prop :=
  forall p k a w l, wspec p k (fst q) a = Some w -> lspec p (snd q) a = Some l ->
    vals_ok a -> int_ok (fst q) a -> LWp l w.

Ltac pair_start :=
  intros p k a w l Hw Hl (Hid & Hlen & Hz) (H16 & H32 & H64 & Hu); cbn [fst snd] in *;
  cbv [wspec lspec seqb is_any existsb String.eqb Ascii.eqb Bool.eqb orb] in Hw, Hl;
  injection Hw as <-; injection Hl as <-.

Lemma len_pairs_ok : Forall pair_ok len_pairs.
Proof.
  unfold len_pairs. repeat (apply Forall_cons; [|]); try apply Forall_nil; pair_start.
  - apply LWp_i8.
  - apply LWp_i16. apply H16. reflexivity.
  - apply LWp_i32. apply H32. reflexivity.
  - apply LWp_i64. apply H64. reflexivity.
  - apply LWp_double.
  - apply LWp_uuid. apply Hu. reflexivity.
  - apply LWp_byte.
  - apply LWp_bool.
  - apply LWp_bytes. exact Hlen.
  - apply LWp_bytes. exact Hlen.
  - apply LWp_bytes. exact Hlen.
  - apply LWp_bytes. exact Hlen.
  - apply LWp_field_begin. exact Hid.
  - apply LWp_field_end.
  - apply LWp_field_stop.
  - apply LWp_struct_begin.
  - apply LWp_struct_end.
  - apply LWp_coll_begin. exact Hz.
  - apply LWp_coll_begin. exact Hz.
  - apply LWp_map_begin.
  - apply LWp_nop.
  - apply LWp_nop.
  - apply LWp_nop.
  - apply LWp_msg_end.
Qed.

Theorem prim_ops_len : forall rw rl, In rw prim_ops -> In rl prim_ops ->
  r_class rw = "write"%string -> r_class rl = "len"%string -> r_proto rw = r_proto rl ->
  len_method (r_method rw) = Some (r_method rl) ->
  forall p, pk_of (r_proto rw) = Some p ->
  forall k a c, in_s 16 (w_last c) -> pend_ok c -> vals_ok a -> int_ok (r_method rw) a ->
  forall ss c', run_w p k rw a c = Ok (ss, c') ->
    run_l p rl a c = Ok (Z.of_nat (length (flat ss)), c').
Proof.
  intros rw rl Hw Hl Cw Cl Ep Hlm p Hp k a c Hlast Hpend Hv Hint ss c' Hrun.
  assert (Okw : args_ok (r_method rw) a c) by (destruct Hv as (Hid & Hlen & Hz); split; [exact Hid|split; [exact Hlast|intros _; exact Hz]]).
  assert (Okl : args_ok (r_method rl) a c) by (destruct Hv as (Hid & Hlen & Hz); split; [exact Hid|split; [exact Hlast|intros _; exact Hz]]).
  destruct (proj1 (prim_ops_model rw Hw p Hp k a c Okw) Cw) as (w & Sw & Ew).
  rewrite Ep in Hp.
  destruct (proj2 (prim_ops_model rl Hl p Hp k a c Okl) Cl) as (l & Sl & El).
  rewrite El.
  pose proof (proj1 (Forall_forall _ _) len_pairs_ok _ (assoc_in _ _ _ Hlm) p k a w l Sw Sl Hv Hint) as HL.
  rewrite Hrun in Ew. cbn [fl] in Ew.
  destruct (w c) as [[ss2 c2]| |] eqn:Ewc; cbn [fl] in Ew; try discriminate.
  injection Ew as Ef Ec. subst c2.
  destruct (HL c ss2 c' Hpend Ewc) as [E _]. rewrite E, <- Ef. reflexivity.
Qed.

(* ================================================================== *)
(* (5) C03: a writer row of a scalar emits what the independent specification prescribes for that scalar *)
From PV Require Import Thrift.Spec Proofs.SpecP.

Definition scalar_tbl : list (string * (margs -> tval)) :=
  [("write_bool", fun a => VBool (a_bool a));
   ("write_bytes", fun a => VBinary (a_bytes a)); ("write_string", fun a => VBinary (a_bytes a));
   ("write_faststr", fun a => VBinary (a_bytes a)); ("write_bytes_vec", fun a => VBinary (a_bytes a));
   ("write_uuid", fun a => VUuid (a_bytes a));
   ("write_i8", fun a => VI8 (a_z a)); ("write_i16", fun a => VI16 (a_z a)); ("write_i32", fun a => VI32 (a_z a));
   ("write_i64", fun a => VI64 (a_z a)); ("write_double", fun a => VDouble (a_z a))]%string.
Definition scalar_of (m : string) (a : margs) : option tval := option_map (fun f => f a) (assoc m scalar_tbl).

Definition scalar_ok (q : string * (margs -> tval)) : Prop :=
  is_size_method (fst q) = false /\ forall p k a w, wspec p k (fst q) a = Some w -> forall c, fl (w c) = fl (write_val p k (snd q a) c).

Lemma scalar_tbl_ok : Forall scalar_ok scalar_tbl.
Proof.
  unfold scalar_tbl. repeat (apply Forall_cons; [|]); try apply Forall_nil;
    (split; [reflexivity|]); intros p k a w Hw c; cbn [fst snd] in *;
    cbv [wspec seqb is_any existsb String.eqb Ascii.eqb Bool.eqb orb] in Hw; injection Hw as <-; reflexivity.
Qed.

Theorem prim_ops_spec : forall r, In r prim_ops -> r_class r = "write"%string ->
  forall p, pk_of (r_proto r) = Some p -> p <> PBinaryLE ->
  forall k a c v, in_s 16 (a_id a) -> in_s 16 (w_last c) -> w_pend c = None ->
    scalar_of (r_method r) a = Some v -> wt v = true ->
    fl (run_w p k r a c) = Ok (sp p (annot v), c).
Proof.
  intros r Hr Cw p Hp Hle k a c v Hid Hlast Hpend Hs Hwt.
  unfold scalar_of in Hs. destruct (assoc (r_method r) scalar_tbl) as [f|] eqn:Ea; [|discriminate].
  cbn [option_map] in Hs. injection Hs as <-.
  destruct (proj1 (Forall_forall _ _) scalar_tbl_ok _ (assoc_in _ _ _ Ea)) as [Hsz Hwv]. cbn [fst snd] in *.
  assert (Hok : args_ok (r_method r) a c) by (split; [exact Hid|split; [exact Hlast|rewrite Hsz; discriminate]]).
  destruct (proj1 (prim_ops_model r Hr p Hp k a c Hok) Cw) as (w & Sw & Ew).
  rewrite Ew, (Hwv p k a w Sw c).
  destruct (roundtrip_val p k (f a) Hwt c Hpend) as (ss & Hw & _).
  rewrite Hw. cbn [fl]. f_equal. f_equal. exact (writes_spec p k Hle (f a) Hwt c ss c Hpend Hw).
Qed.

(* non-vacuity of the three theorems: the compact write_double row exists, is a writer row, and on the bit pattern of
   1.5 it emits the eight little-endian bytes the specification prescribes *)
Example prim_ops_example :
  existsb (fun r => String.eqb (r_method r) "write_double" && String.eqb (r_proto r) "compact" &&
                    match fl (run_w PCompact BContig r (mkA 4609434218613702656 0 false [] TBool TBool CStop (mkMsg [] MCall 0)) w0) with
                    | Ok (l, _) => match l with [x00; x00; x00; x00; x00; x00; xf8; x3f] => true | _ => false end
                    | _ => false
                    end) prim_ops = true.
Proof. vm_compute. reflexivity. Qed.
