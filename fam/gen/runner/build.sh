#!/bin/sh
# builds the gen model runner from the freshly extracted model (fam/gen/coq/model.ml, model.mli)
set -e
cd "$(dirname "$0")"
mkdir -p _build
cp ../coq/model.ml ../coq/model.mli ../../../model_runner/util.ml main.ml _build/
cd _build
ocamlfind ocamlopt -O3 -w -a -o ../runner model.mli model.ml util.ml main.ml 2>/dev/null || ocamlfind ocamlopt -w -a -o ../runner model.mli model.ml util.ml main.ml
