(* Pure part of the struct round trip: the field variables after the decode loop, run through
   finish_fields, are the fill_defaults image of the encoded struct value. *)
From PVGen Require Import Gen GenSpec Proofs.GenBase Proofs.EncP.
From Coq Require Import ZifyN ZifyNat ZifyBool.
Open Scope Z_scope.

(* position of the first declaration with this id *)
Fixpoint idx_of (dfs : list field) (id : Z) : nat :=
  match dfs with
  | [] => O
  | g :: r => if f_id g =? id then O else Datatypes.S (idx_of r id)
  end.

Lemma ttype_eqb_refl t : ttype_eqb t t = true.
Proof. destruct t; reflexivity. Qed.

Lemma match_field_found S dfs : forall i id f, find_field dfs id = Some f ->
  match_field S dfs i (Some id) (ttype_of_ty S (f_ty f)) = Some ((i + idx_of dfs id)%nat, f).
Proof.
  induction dfs as [|g r IH]; intros i id f; cbn [find_field match_field idx_of]; [discriminate|].
  destruct (f_id g =? id) eqn:E.
  - intros H. injection H as ->. rewrite ttype_eqb_refl. cbn [andb]. rewrite Nat.add_0_r. reflexivity.
  - intros H. cbn [andb]. rewrite (IH _ _ _ H). f_equal. f_equal. lia.
Qed.

Lemma find_idx_app a f b id : (forall g, In g a -> f_id g <> id) -> f_id f = id ->
  find_field (a ++ f :: b) id = Some f /\ idx_of (a ++ f :: b) id = length a.
Proof.
  intros Ha Hf. induction a as [|g a IH]; cbn [app find_field idx_of length].
  - replace (f_id f =? id) with true by lia. auto.
  - replace (f_id g =? id) with false by (specialize (Ha g (or_introl eq_refl)); lia).
    destruct IH as [-> ->]; auto. intros h Hh. apply Ha. right. exact Hh.
Qed.

Lemma set_nth_app {A} (a : list A) x v b : set_nth (length a) v (a ++ x :: b) = a ++ v :: b.
Proof. induction a as [|y a IH]; cbn [length app set_nth]; [reflexivity|]. rewrite IH. reflexivity. Qed.

Lemma nodup_ids_before a f b : nodup_ids (map f_id (a ++ f :: b)) = true -> forall g, In g a -> f_id g <> f_id f.
Proof.
  induction a as [|h a IH]; intros H g Hg; [destruct Hg|].
  cbn [app map nodup_ids] in H. apply andb_prop in H as [H1 H2]. apply negb_true_iff in H1.
  destruct Hg as [<-|Hg]; [|apply IH; auto].
  apply (existsb_eqb_false _ _ H1). rewrite map_app. apply in_or_app. right. left. reflexivity.
Qed.

Section Finish.
  Variable S : schema.

  (* the variables after decoding the fields of the value in order *)
  Fixpoint apply_fields (dfs : list field) (fs : list (Z * gval)) (vars : list (option gval)) : list (option gval) :=
    match fs with
    | [] => vars
    | (id, x) :: r =>
        match find_field dfs id with
        | Some f => apply_fields dfs r (set_nth (idx_of dfs id) (Some (fill_defaults S (f_ty f) x)) vars)
        | None => apply_fields dfs r vars
        end
    end.

  Lemma finish_app pre : forall vpre b vb a b',
    length vpre = length pre -> finish_fields pre vpre = Ok a -> finish_fields b vb = Ok b' ->
    finish_fields (pre ++ b) (vpre ++ vb) = Ok (a ++ b').
  Proof.
    induction pre as [|f pre IH]; intros vpre b vb a b' Hl Ha Hb.
    - destruct vpre; [|discriminate]. cbn [finish_fields] in Ha. injection Ha as <-. exact Hb.
    - destruct vpre as [|v vpre]; [discriminate|]. cbn [length] in Hl.
      cbn [app finish_fields] in *.
      destruct (finish_fields pre vpre) as [rest| |] eqn:Er; cbn [bind] in Ha; try discriminate.
      rewrite (IH vpre b vb rest b' ltac:(lia) Er Hb). cbn [bind].
      destruct v as [x|].
      + injection Ha as <-. reflexivity.
      + destruct (f_dflt f) as [[? d]|].
        * injection Ha as <-. reflexivity.
        * destruct (f_req f); [discriminate|]. injection Ha as <-. reflexivity.
  Qed.

  Lemma finish_optional dfs : all_optional dfs = true -> finish_fields dfs (map init_var dfs) = Ok (defaults_of dfs).
  Proof.
    induction dfs as [|f r IH]; intros H; [reflexivity|].
    cbn [all_optional forallb] in H. apply andb_prop in H as [Hf Hr].
    cbn [map finish_fields defaults_of flat_map]. rewrite (IH Hr). cbn [bind].
    unfold init_var. destruct (f_dflt f) as [[[|] d]|]; try reflexivity.
    destruct (f_req f); [discriminate|reflexivity].
  Qed.

  Lemma finish_apply dfs : nodup_ids (map f_id dfs) = true ->
    forall fs pre vpre dfs' a, dfs = pre ++ dfs' -> length vpre = length pre ->
    finish_fields pre vpre = Ok a -> ht_fields S fs dfs' = true ->
    finish_fields dfs (apply_fields dfs fs (vpre ++ map init_var dfs')) = Ok (a ++ fd_fields S fs dfs').
  Proof.
    intros Hnd. induction fs as [|[id x] r IH]; intros pre vpre dfs' a Hd Hl Ha Ht.
    - cbn [apply_fields fd_fields ht_fields] in *. subst dfs. apply finish_app; auto. apply finish_optional; auto.
    - rewrite ht_fields_cons in Ht. rewrite fd_fields_cons.
      destruct (split_at dfs' id) as [[[sk f] rest]|] eqn:Es; [|discriminate].
      apply andb_prop in Ht as [Hx Hr].
      destruct (split_at_inv _ _ _ _ _ Es) as (-> & Hid & Hopt & Hne).
      assert (Hpre : forall g, In g (pre ++ sk) -> f_id g <> id).
      { intros g Hg. apply in_app_or in Hg as [Hg|Hg]; [|auto].
        rewrite <- Hid. subst dfs. rewrite app_assoc in Hnd.
        apply (nodup_ids_before _ _ _ Hnd). apply in_or_app. left. exact Hg. }
      assert (Hd' : dfs = (pre ++ sk) ++ f :: rest) by (rewrite <- app_assoc; exact Hd).
      destruct (find_idx_app (pre ++ sk) f rest id Hpre Hid) as [Hff Hidx].
      rewrite <- Hd' in Hff, Hidx.
      cbn [apply_fields]. rewrite Hff, Hidx.
      rewrite map_app. cbn [map]. rewrite app_assoc.
      replace (length (pre ++ sk)) with (length (vpre ++ map init_var sk))
        by (rewrite !app_length, map_length; lia).
      rewrite set_nth_app.
      change (Some (fill_defaults S (f_ty f) x) :: map init_var rest) with
        ([Some (fill_defaults S (f_ty f) x)] ++ map init_var rest).
      rewrite app_assoc.
      rewrite (IH ((pre ++ sk) ++ [f]) ((vpre ++ map init_var sk) ++ [Some (fill_defaults S (f_ty f) x)]) rest
                  ((a ++ defaults_of sk) ++ [(id, fill_defaults S (f_ty f) x)])).
      + rewrite <- !app_assoc. reflexivity.
      + rewrite <- app_assoc. exact Hd'.
      + rewrite !app_length, map_length. cbn [length]. lia.
      + apply finish_app; [rewrite !app_length, map_length; lia| |cbn [finish_fields bind]; rewrite Hid; reflexivity].
        apply finish_app; auto. apply finish_optional; auto.
      + exact Hr.
  Qed.

  Corollary finish_apply_top dfs fs : nodup_ids (map f_id dfs) = true -> ht_fields S fs dfs = true ->
    finish_fields dfs (apply_fields dfs fs (map init_var dfs)) = Ok (fd_fields S fs dfs).
  Proof.
    intros Hnd Ht. exact (finish_apply dfs Hnd fs [] [] dfs [] eq_refl eq_refl eq_refl Ht).
  Qed.
End Finish.
