(* Round-trip laws of bool, container headers, field headers, struct begin/end. *)
From PV Require Import Thrift.Interp Proofs.VarintP Proofs.TablesP Proofs.PrimP.
From Coq Require Import ZifyN ZifyNat ZifyBool.
Open Scope Z_scope.

Definition idle (c : rctx) : Prop := r_pbool c = None /\ r_pfield c = false.

Lemma idle_eta c : idle c -> mkR (r_last c) (r_stack c) None false = c.
Proof. destruct c as [a b d e]. unfold idle. cbn. intros [-> ->]. reflexivity. Qed.

(* read_field_begin (compact) first drops the pending bool field announcement (fix F-09g); a no-op when none is pending *)
Lemma clear_pfield_nop b c : r_pfield c = false -> clear_pfield (mkS b c) = mkS b c.
Proof. destruct c as [a d e f]. cbn. intros ->. reflexivity. Qed.
Lemma clear_pfield_eq b c : clear_pfield (mkS b c) = mkS b (mkR (r_last c) (r_stack c) (r_pbool c) false).
Proof. reflexivity. Qed.
Lemma clear_pfield_id s : r_pfield (rc s) = false -> clear_pfield s = s.
Proof. destruct s as [b c]. apply clear_pfield_nop. Qed.
Lemma clear_pfield_buf s : rbuf (clear_pfield s) = rbuf s.
Proof. reflexivity. Qed.

Lemma idle_r0 : idle r0.
Proof. split; reflexivity. Qed.

Lemma wret_eq l c : wret l c = Ok ([Copy l], c).
Proof. reflexivity. Qed.

Lemma w_byte_eq b c : w_byte b c = Ok ([Copy [z2b b]], c).
Proof. reflexivity. Qed.

Lemma check_size_ok n r c : 0 <= n <= Z.of_nat (length r) -> check_size n (mkS r c) = Ok n.
Proof.
  intros H. unfold check_size. cbn [rbuf].
  replace (n <? 0) with false by lia.
  replace (Z.of_nat (length r) <? n) with false by lia. reflexivity.
Qed.

(* ---- bool (not a struct field) ---- *)
Lemma w_bool_ok p b c : w_pend c = None ->
  exists l, w_bool p b c = Ok ([Copy l], c) /\ (1 <= length l)%nat /\
  forall r rcx, idle rcx -> r_bool p (mkS (l ++ r) rcx) = Ok (b, mkS r rcx).
Proof.
  intros Hp. destruct p; cbn [w_bool r_bool].
  1,2: eexists; split; [reflexivity|]; split; [cbn; lia|]; intros r rcx _;
       cbn [app]; rewrite r_i8_rt by (destruct b; unfold in_s; cbn; lia); cbn [bind];
       destruct b; reflexivity.
  rewrite Hp. eexists. split; [apply w_byte_eq|]. split; [cbn; lia|].
  intros r rcx Hi. destruct Hi as [Hb Hf]. cbn [rc]. rewrite Hb.
  assert (E : mkR (r_last rcx) (r_stack rcx) None false = rcx) by (apply idle_eta; split; auto).
  unfold set_rc. cbn [rc rbuf]. rewrite E. cbn [app].
  pose proof (ctype_code_range (if b then CBooleanTrue else CBooleanFalse)) as Hr.
  rewrite r_byte_rt by lia. cbn [bind].
  rewrite ctype_of_code_code. destruct b; reflexivity.
Qed.

(* ---- list / set header ---- *)
Lemma wrap_s32_small n : 0 <= n < 2 ^ 31 -> wrap_s 32 n = n.
Proof. intros. apply wrap_s_id; [lia|]. unfold in_s. change (2 ^ (32 - 1)) with (2 ^ 31). lia. Qed.

Lemma wrap_u32_small n : 0 <= n < 2 ^ 31 -> wrap_u 32 n = n.
Proof.
  intros. unfold wrap_u. apply Z.mod_small.
  assert (2 ^ 31 < 2 ^ 32) by (apply Z.pow_lt_mono_r; lia). lia.
Qed.

Lemma r_ttype_rt t r c : r_ttype (mkS (z2b (ttype_code t) :: r) c) = Ok (t, mkS r c).
Proof.
  unfold r_ttype. rewrite r_byte_rt by apply ttype_code_range. cbn [bind].
  rewrite ttype_of_byte_code. reflexivity.
Qed.

Lemma w_coll_ok p et n c : elem_ttype_ok et = true -> 0 <= n < 2 ^ 31 ->
  exists ss, w_coll_begin p et n c = Ok (ss, c) /\
  forall r rcx, n <= Z.of_nat (length r) ->
    r_coll_begin p (mkS (flat ss ++ r) rcx) = Ok ((et, n), mkS r rcx).
Proof.
  intros Het Hn.
  assert (Hin : in_s 32 n) by (unfold in_s; change (2 ^ (32 - 1)) with (2 ^ 31); lia).
  destruct p; cbn [w_coll_begin r_coll_begin].
  1,2: match goal with |- context [w_i32 ?p ?z] => destruct (w_i32_ok p z c) as (l & Hw & Hr) end;
       rewrite wrap_s32_small in * by lia;
       eexists; split; [eapply wseq_ok; [apply w_byte_eq | exact Hw]|];
       intros r rcx Hlen; rewrite flat_app, !flat_copy; cbn [app];
       rewrite r_ttype_rt; cbn [bind]; rewrite Hr by auto; cbn [bind];
       rewrite check_size_ok by lia; reflexivity.
  destruct (ctype_of_ttype_some et Het) as (ct & Hct). rewrite Hct.
  pose proof (ctype_code_range ct) as Hcr.
  destruct (Z.leb_spec n 14) as [Hs|Hl].
  - eexists. split; [apply w_byte_eq|]. intros r rcx Hlen.
    rewrite flat_copy. cbn [app]. rewrite r_byte_rt by lia. cbn [bind].
    replace ((n * 16 + ctype_code ct) mod 16) with (ctype_code ct) by lia.
    rewrite (ttype_of_nibble_code _ _ Hct). cbn [bind].
    replace ((n * 16 + ctype_code ct) / 16) with n by lia.
    replace (negb (n =? 15)) with true by lia.
    rewrite check_size_ok by lia. reflexivity.
  - eexists. split; [eapply wseq_ok; [apply w_byte_eq | apply wret_eq]|].
    intros r rcx Hlen. rewrite flat_app, !flat_copy. cbn [app].
    rewrite r_byte_rt by lia. cbn [bind].
    replace ((240 + ctype_code ct) mod 16) with (ctype_code ct) by lia.
    rewrite (ttype_of_nibble_code _ _ Hct). cbn [bind].
    replace ((240 + ctype_code ct) / 16) with 15 by lia.
    cbn [Z.eqb Pos.eqb negb].
    rewrite wrap_u32_small by lia.
    rewrite r_varint_rt.
    + cbn [bind]. rewrite wrap_s32_small by lia. rewrite check_size_ok by lia. reflexivity.
    + unfold maxsize_32; lia.
    + change (128 ^ Z.of_nat maxsize_32) with (2 ^ 35).
      assert (2 ^ 31 < 2 ^ 35) by (apply Z.pow_lt_mono_r; lia). lia.
    + unfold two64. assert (2 ^ 31 < 2 ^ 64) by (apply Z.pow_lt_mono_r; lia). lia.
Qed.

(* ---- map header ---- *)
Definition map_hdr_canon (p : pk) (kt vt : ttype) (n : Z) : ttype * ttype * Z :=
  match p with
  | PCompact => if n =? 0 then (TStop, TStop, 0) else (kt, vt, n)
  | _ => (kt, vt, n)
  end.

Lemma w_map_ok p kt vt n c : elem_ttype_ok kt = true -> elem_ttype_ok vt = true -> 0 <= n < 2 ^ 31 ->
  exists ss, w_map_begin p kt vt n c = Ok (ss, c) /\
  forall r rcx, n <= Z.of_nat (length r) ->
    r_map_begin p (mkS (flat ss ++ r) rcx) = Ok (map_hdr_canon p kt vt n, mkS r rcx).
Proof.
  intros Hk Hv Hn.
  assert (Hin : in_s 32 n) by (unfold in_s; change (2 ^ (32 - 1)) with (2 ^ 31); lia).
  destruct p; cbn [w_map_begin r_map_begin map_hdr_canon].
  1,2: match goal with |- context [w_i32 ?p ?z] => destruct (w_i32_ok p z c) as (l & Hw & Hr) end;
       rewrite wrap_s32_small in * by lia;
       eexists; split; [eapply wseq_ok; [eapply wseq_ok; [apply w_byte_eq | apply w_byte_eq] | exact Hw]|];
       intros r rcx Hlen; rewrite !flat_app, !flat_copy; cbn [app];
       rewrite r_ttype_rt; cbn [bind]; rewrite r_ttype_rt; cbn [bind]; rewrite Hr by auto; cbn [bind];
       rewrite check_size_ok by lia; reflexivity.
  destruct (Z.eqb_spec n 0) as [->|Hnz].
  - eexists. split; [apply w_byte_eq|]. intros r rcx Hlen.
    rewrite flat_copy. cbn [app].
    unfold r_varint. cbn [rbuf]. unfold read_var_u64.
    change (z2b (ttype_code TStop)) with x00. cbn [rd_var maxsize_32 b2z].
    reflexivity.
  - destruct (ctype_of_ttype_some kt Hk) as (kc & Hkc). rewrite Hkc.
    destruct (ctype_of_ttype_some vt Hv) as (vc & Hvc). rewrite Hvc.
    pose proof (ctype_code_range kc). pose proof (ctype_code_range vc).
    eexists. split; [eapply wseq_ok; [apply wret_eq | apply w_byte_eq]|].
    intros r rcx Hlen. rewrite flat_app, !flat_copy. rewrite <- app_assoc. cbn [app].
    rewrite wrap_u32_small by lia.
    rewrite r_varint_rt.
    + cbn [bind]. rewrite wrap_s32_small by lia.
      replace (n =? 0) with false by lia.
      rewrite r_byte_rt by lia. cbn [bind].
      replace ((ctype_code kc * 16 + ctype_code vc) / 16) with (ctype_code kc) by lia.
      replace ((ctype_code kc * 16 + ctype_code vc) mod 16) with (ctype_code vc) by lia.
      rewrite (ttype_of_nibble_code _ _ Hkc), (ttype_of_nibble_code _ _ Hvc). cbn [bind].
      rewrite check_size_ok by lia. reflexivity.
    + unfold maxsize_32; lia.
    + change (128 ^ Z.of_nat maxsize_32) with (2 ^ 35).
      assert (2 ^ 31 < 2 ^ 35) by (apply Z.pow_lt_mono_r; lia). lia.
    + unfold two64. assert (2 ^ 31 < 2 ^ 64) by (apply Z.pow_lt_mono_r; lia). lia.
Qed.

(* ---- field headers ---- *)
Definition wlast_upd (p : pk) (id : Z) (c : wctx) : wctx :=
  match p with PCompact => mkW id (w_stack c) (w_pend c) | _ => c end.
Definition rlast_upd (p : pk) (id : Z) (c : rctx) : rctx :=
  match p with PCompact => mkR id (r_stack c) (r_pbool c) (r_pfield c) | _ => c end.

Lemma wrap_s16_id z : in_s 16 z -> wrap_s 16 z = z.
Proof. intros. apply wrap_s_id; auto; lia. Qed.

(* the compact field header, shared by ordinary fields and bool fields *)
Lemma w_field_header_ok ct id c :
  in_s 16 id -> in_s 16 (w_last c) ->
  exists ss, w_field_header ct id c = Ok (ss, mkW id (w_stack c) (w_pend c)) /\ (1 <= length (flat ss))%nat /\
  forall r, exists r' delta,
    flat ss ++ r = z2b (delta * 16 + ctype_code ct) :: r' /\ 0 <= delta < 15 /\
    (delta <> 0 -> r' = r /\ wrap_s 16 (w_last c + delta) = id) /\
    (delta = 0 -> forall rcx, r_i16 PCompact (mkS r' rcx) = Ok (id, mkS r rcx)).
Proof.
  intros Hid Hl. unfold w_field_header.
  destruct ((0 <? id - w_last c) && (id - w_last c <? 15)) eqn:E.
  - eexists. split; [reflexivity|]. split; [cbn; lia|]. intros r.
    exists r, (id - w_last c). rewrite flat_copy. cbn [app].
    split; [reflexivity|]. split; [lia|]. split.
    + intros _. split; auto. replace (w_last c + (id - w_last c)) with id by lia. apply wrap_s16_id; auto.
    + lia.
  - destruct (w_i16_ok PCompact id (mkW id (w_stack c) (w_pend c))) as (l & Hw & Hr).
    eexists. split; [eapply wseq_ok; [apply w_byte_eq | exact Hw]|].
    split; [rewrite flat_app, !flat_copy; cbn; lia|]. intros r.
    exists (l ++ r), 0. rewrite flat_app, !flat_copy. rewrite <- app_assoc. cbn [app].
    split; [reflexivity|]. split; [lia|]. split; [lia|].
    intros _ rcx. apply Hr; auto.
Qed.

Lemma r_field_begin_compact_nonbool ct ty delta r' rcx :
  ttype_of_ctype ct = Some ty -> ty <> TStop ->
  (ctype_code ct =? ctype_code CBooleanTrue) = false -> (ctype_code ct =? ctype_code CBooleanFalse) = false ->
  0 <= delta < 15 -> r_pfield rcx = false ->
  r_field_begin PCompact (mkS (z2b (delta * 16 + ctype_code ct) :: r') rcx) =
    if negb (delta =? 0) then
      Ok ((ty, Some (wrap_s 16 (r_last rcx + delta))), mkS r' (rlast_upd PCompact (wrap_s 16 (r_last rcx + delta)) rcx))
    else
      let* (id, s) := r_i16 PCompact (mkS r' rcx) in
      Ok ((ty, Some id), set_rc s (rlast_upd PCompact id (rc s))).
Proof.
  intros Ht Hns H1 H2 Hd Hpf. pose proof (ctype_code_range ct) as Hc.
  cbn [r_field_begin]. rewrite (clear_pfield_nop _ _ Hpf). rewrite r_byte_rt by lia. cbn [bind].
  replace ((delta * 16 + ctype_code ct) mod 16) with (ctype_code ct) by lia.
  replace ((delta * 16 + ctype_code ct) / 16) with delta by lia.
  rewrite H1, H2. rewrite ctype_of_code_code, Ht. cbn [bind].
  destruct ty; try congruence; cbn [rc]; destruct (negb (delta =? 0)); try reflexivity;
    destruct (r_i16 PCompact (mkS r' rcx)) as [[i s]| |]; reflexivity.
Qed.

Lemma w_field_ok p ty id c :
  (p = PCompact -> ty <> TBool) -> ty <> TStop -> elem_ttype_ok ty = true -> in_s 16 id -> w_pend c = None ->
  (p = PCompact -> in_s 16 (w_last c)) ->
  exists ss, w_field_begin p ty id c = Ok (ss, wlast_upd p id c) /\ (1 <= length (flat ss))%nat /\
  forall r rcx, (p = PCompact -> r_last rcx = w_last c) -> r_pfield rcx = false ->
    r_field_begin p (mkS (flat ss ++ r) rcx) = Ok ((ty, Some id), mkS r (rlast_upd p id rcx)).
Proof.
  intros Hnb Hns Hok Hid Hp Hl.
  destruct p; cbn [w_field_begin wlast_upd rlast_upd].
  1,2: eexists; split; [apply wret_eq|]; split; [rewrite flat_copy; cbn; lia|]; intros r rcx _ _;
       rewrite flat_copy; cbn [app r_field_begin]; rewrite r_ttype_rt; cbn [bind];
       (destruct ty; try congruence);
       match goal with |- context [fx ?p 2 _] =>
         change (r_i16 p) with (r_fixed p 2 16); rewrite r_fixed_rt by (auto; lia) end; reflexivity.
  specialize (Hnb eq_refl).
  destruct (ctype_of_ttype_some ty Hok) as (ct & Hct).
  assert (Hw : w_field_begin PCompact ty id c = w_field_header ct id c).
  { cbn [w_field_begin]. rewrite Hct. destruct ty; congruence. }
  cbn [w_field_begin] in Hw. rewrite Hw. clear Hw.
  destruct (w_field_header_ok ct id c Hid (Hl eq_refl)) as (ss & Hw & Hlen & Hr).
  exists ss. rewrite Hp in Hw. split; [rewrite Hp; exact Hw|]. split; [exact Hlen|].
  intros r rcx Hlast Hpf. specialize (Hlast eq_refl).
  destruct (Hr r) as (r' & delta & Hb & Hd & Hnz & Hz). rewrite Hb.
  destruct (ctype_nonbool _ _ Hct Hnb) as [N1 N2].
  rewrite (r_field_begin_compact_nonbool ct ty delta r' rcx (ctype_ttype_inv _ _ Hct) Hns N1 N2 Hd Hpf).
  destruct (Z.eqb_spec delta 0) as [D0|Dn]; cbn [negb].
  - rewrite (Hz D0). cbn [bind set_rc rc rbuf]. reflexivity.
  - destruct (Hnz Dn) as [-> Hwr]. rewrite Hlast, Hwr. reflexivity.
Qed.

(* bool field under compact: header and value share one byte *)
Lemma w_boolfield_ok b id c :
  in_s 16 id -> w_pend c = None -> in_s 16 (w_last c) ->
  exists ss, (w_field_begin PCompact TBool id ;; w_bool PCompact b ;; w_field_end PCompact) c
             = Ok (ss, mkW id (w_stack c) None) /\ (1 <= length (flat ss))%nat /\
  forall r rcx, r_last rcx = w_last c -> idle rcx ->
    exists s1, r_field_begin PCompact (mkS (flat ss ++ r) rcx) = Ok ((TBool, Some id), s1) /\
               r_bool PCompact s1 = Ok (b, mkS r (mkR id (r_stack rcx) None false)).
Proof.
  intros Hid Hp Hl.
  set (ct := if b then CBooleanTrue else CBooleanFalse).
  destruct (w_field_header_ok ct id (mkW (w_last c) (w_stack c) None) Hid Hl) as (ss & Hw & Hlen & Hr).
  cbn [w_last w_stack w_pend] in Hw.
  exists (([] ++ ss) ++ []). split.
  - eapply wseq_ok; [eapply wseq_ok|].
    + cbn [w_field_begin]. rewrite Hp. reflexivity.
    + cbn [w_bool w_pend w_last w_stack]. exact Hw.
    + reflexivity.
  - cbn [app]. rewrite app_nil_r. split; [exact Hlen|].
    intros r rcx Hlast [Hb Hf].
    destruct (Hr r) as (r' & delta & Hbytes & Hd & Hnz & Hz). rewrite Hbytes.
    pose proof (ctype_code_range ct) as Hc.
    cbn [r_field_begin]. rewrite (clear_pfield_nop _ _ Hf). rewrite r_byte_rt by lia. cbn [bind].
    replace ((delta * 16 + ctype_code ct) mod 16) with (ctype_code ct) by lia.
    replace ((delta * 16 + ctype_code ct) / 16) with delta by lia.
    cbn [w_last] in Hnz.
    destruct (Z.eqb_spec delta 0) as [D0|Dn].
    + specialize (Hz D0).
      destruct b; subst ct; cbn [Z.eqb ctype_code Pos.eqb bind rc rbuf negb]; unfold set_rc; cbn [rbuf rc r_last r_stack r_pbool r_pfield].
      all: rewrite Hz; cbn [bind rc rbuf r_bool r_pbool r_last r_stack]; unfold set_rc; cbn [rbuf rc r_pbool r_last r_stack];
           eexists; split; [reflexivity|]; cbn [r_bool rc r_pbool r_last r_stack]; unfold set_rc; cbn [rbuf rc]; reflexivity.
    + destruct (Hnz Dn) as [-> Hwr].
      destruct b; subst ct; cbn [Z.eqb ctype_code Pos.eqb bind rc rbuf negb]; unfold set_rc; cbn [rbuf rc r_last r_stack r_pbool r_pfield].
      all: rewrite Hlast, Hwr; cbn [bind rc rbuf r_bool r_pbool r_last r_stack]; unfold set_rc; cbn [rbuf rc r_pbool r_last r_stack];
           eexists; split; [reflexivity|]; cbn [r_bool rc r_pbool r_last r_stack]; unfold set_rc; cbn [rbuf rc]; reflexivity.
Qed.

(* ---- stop / struct begin / struct end ---- *)
Lemma w_field_stop_ok p c : w_pend c = None ->
  w_field_stop p c = Ok ([Copy [x00]], c) /\
  forall r rcx, r_pfield rcx = false -> exists oid, r_field_begin p (mkS (x00 :: r) rcx) = Ok ((TStop, oid), mkS r rcx).
Proof.
  intros Hp. split.
  - unfold w_field_stop, wseq, assert_no_pending_w. rewrite Hp. destruct p; reflexivity.
  - intros r rcx Hpf. destruct p; eexists; cbn [r_field_begin]; rewrite ?(clear_pfield_nop _ _ Hpf); reflexivity.
Qed.

(* the stop byte from ANY reader context: under compact the pending bool field announcement is dropped *)
Definition clrp (p : pk) (c : rctx) : rctx :=
  match p with PCompact => mkR (r_last c) (r_stack c) (r_pbool c) false | _ => c end.
Lemma r_field_begin_stop p r rcx :
  exists oid, r_field_begin p (mkS (x00 :: r) rcx) = Ok ((TStop, oid), mkS r (clrp p rcx)).
Proof. destruct p; eexists; reflexivity. Qed.
Lemma clrp_idle p c : r_pfield c = false -> clrp p c = c.
Proof. destruct p; auto. destruct c as [a b d e]. cbn. intros ->. reflexivity. Qed.

Lemma w_field_end_ok p c : w_pend c = None -> w_field_end p c = Ok ([], c).
Proof. intros Hp. unfold w_field_end, assert_no_pending_w. rewrite Hp. destruct p; reflexivity. Qed.
