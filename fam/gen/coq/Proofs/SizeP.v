(* P2 (C04 at the generated-code level): the emitted size() is the value interpreter's size pass on to_tval
   -- outside the class of finding F-04a (compact + a field whose declared type is a typedef of bool) -- hence,
   by the primitive-level theorem len_val_exact, the number of bytes the emitted encoder writes. *)
From PVGen Require Import Gen GenSpec Proofs.GenBase Proofs.EncP.
From PV Require Import Proofs.TablesP Proofs.PrimP Proofs.HeaderP Proofs.RoundtripP Proofs.LenP.
From Coq Require Import ZifyN ZifyNat ZifyBool.
Open Scope Z_scope.

Section Size.
  Variable S : schema.
  Hypothesis Hwf : wf_schema S = true.
  Variable p : pk.
  Hypothesis Hnb : p = PCompact -> no_tdbool S = true.

  (* the only place where size() and encode announce different TTypes *)
  Lemma l_field_begin_size_ttype t id c :
    ttype_ok S t = true -> (p = PCompact -> tdbool_field S t = false) ->
    l_field_begin p (size_field_ttype S t) id c = l_field_begin p (ttype_of_ty S t) id c.
  Proof.
    intros Hok Hb. unfold size_field_ttype. destruct (is_nonenum_path S t) eqn:E; [|reflexivity].
    destruct p; try reflexivity.
    specialize (Hb eq_refl). unfold tdbool_field in Hb. rewrite E in Hb. cbn [andb] in Hb.
    unfold ttype_ok in Hok. unfold path_field_len_ttype.
    destruct (ttype_of_ty S t); cbn in Hok, Hb; try discriminate; reflexivity.
  Qed.

  Lemma no_tdbool_field n dfs kp ia f : lookup S n = Some (DStruct dfs kp ia) -> In f dfs ->
    p = PCompact -> tdbool_field S (f_ty f) = false.
  Proof.
    intros Hl Hin Hp. specialize (Hnb Hp). unfold no_tdbool in Hnb. rewrite forallb_forall in Hnb.
    specialize (Hnb _ (nth_error_In _ _ Hl)). cbn [decl_no_tdbool] in Hnb.
    rewrite forallb_forall in Hnb. specialize (Hnb _ Hin). apply negb_true_iff in Hnb. exact Hnb.
  Qed.

  Lemma no_tdbool_variant n vs vok kp id vt : lookup S n = Some (DUnion vs vok kp) -> In (id, vt) vs ->
    p = PCompact -> tdbool_field S vt = false.
  Proof.
    intros Hl Hin Hp. specialize (Hnb Hp). unfold no_tdbool in Hnb. rewrite forallb_forall in Hnb.
    specialize (Hnb _ (nth_error_In _ _ Hl)). cbn [decl_no_tdbool] in Hnb.
    rewrite forallb_forall in Hnb. specialize (Hnb _ Hin). cbn in Hnb. apply negb_true_iff in Hnb. exact Hnb.
  Qed.


  Theorem size_as_len v : forall t, has_type S t v = true ->
    forall c, size_ty S p t v c = len_val p (to_tval S t v) c.
  Proof.
    induction v using gval_ind'; intros t Ht c.
    1-10: cbn [has_type size_ty to_tval len_val] in *; res_cases S t; try reflexivity.
    - decl_cases S n. reflexivity.
    - (* list *)
      rewrite has_type_list in Ht. rewrite size_ty_list, to_tval_list. res_cases S t.
      apply andb_prop in Ht as [_ He].
      change (len_val p (VList (ttype_of_ty S et) (tv_elems S et l))) with
        (l_coll_begin p (ttype_of_ty S et) (Z.of_nat (length (tv_elems S et l))) +++ len_elems p (tv_elems S et l)).
      rewrite tv_elems_length. apply lseq_ext; [reflexivity|]. clear c.
      induction l as [|x r IHr]; intros c; [reflexivity|].
      inversion H as [|? ? Hx Hr]; subst. cbn [ht_elems] in He. apply andb_prop in He as [He1 He2].
      rewrite size_elems_cons. cbn [tv_elems].
      change (len_elems p (to_tval S et x :: tv_elems S et r)) with
        (len_val p (to_tval S et x) +++ len_elems p (tv_elems S et r)).
      apply lseq_ext; [apply Hx; exact He1|intros; apply IHr; auto].
    - (* set *)
      rewrite has_type_set in Ht. rewrite size_ty_set, to_tval_set. res_cases S t.
      apply andb_prop in Ht as [_ He].
      change (len_val p (VSet (ttype_of_ty S et) (tv_elems S et l))) with
        (l_coll_begin p (ttype_of_ty S et) (Z.of_nat (length (tv_elems S et l))) +++ len_elems p (tv_elems S et l)).
      rewrite tv_elems_length. apply lseq_ext; [reflexivity|]. clear c.
      induction l as [|x r IHr]; intros c; [reflexivity|].
      inversion H as [|? ? Hx Hr]; subst. cbn [ht_elems] in He. apply andb_prop in He as [He1 He2].
      rewrite size_elems_cons. cbn [tv_elems].
      change (len_elems p (to_tval S et x :: tv_elems S et r)) with
        (len_val p (to_tval S et x) +++ len_elems p (tv_elems S et r)).
      apply lseq_ext; [apply Hx; exact He1|intros; apply IHr; auto].
    - (* map *)
      rewrite has_type_map in Ht. rewrite size_ty_map, to_tval_map. res_cases S t.
      apply andb_prop in Ht as [_ He].
      change (len_val p (VMap (ttype_of_ty S kt) (ttype_of_ty S vt) (tv_pairs S kt vt l))) with
        (l_map_begin p (ttype_of_ty S kt) (ttype_of_ty S vt) (Z.of_nat (length (tv_pairs S kt vt l))) +++
         len_pairs p (tv_pairs S kt vt l)).
      rewrite tv_pairs_length. apply lseq_ext; [reflexivity|]. clear c.
      induction l as [|[a b] r IHr]; intros c; [reflexivity|].
      inversion H as [|? ? Hx Hr]; subst. cbn [fst snd] in Hx. destruct Hx as [Ha Hb].
      cbn [ht_pairs] in He. apply andb_prop in He as [He He3]. apply andb_prop in He as [He1 He2].
      rewrite size_pairs_cons. cbn [tv_pairs].
      change (len_pairs p ((to_tval S kt a, to_tval S vt b) :: tv_pairs S kt vt r)) with
        (len_val p (to_tval S kt a) +++ len_val p (to_tval S vt b) +++ len_pairs p (tv_pairs S kt vt r)).
      apply lseq_ext; [|intros; apply IHr; auto].
      apply lseq_ext; [apply Ha; exact He1|intros; apply Hb; exact He2].
    - (* struct *)
      rewrite has_type_struct in Ht. rewrite size_ty_struct, to_tval_struct. destruct unk; [|discriminate].
      res_cases S t. decl_cases S n.
      pose proof (ht_struct_inv S Hwf _ _ _ _ _ Elk Ht) as HF. clear Ht.
      change (len_val p (VStruct (tv_fields S dfs fs))) with
        (l_struct_begin p +++ len_fields p (tv_fields S dfs fs) +++ l_field_stop p +++ l_struct_end p).
      apply lseq_ext; [|reflexivity]. apply lseq_ext; [|reflexivity].
      cbn [l_unknown fold_right]. rewrite lseq_ret0_r.
      apply lseq_ext; [reflexivity|]. clear c.
      induction fs as [|[id x] r IHr]; intros c; [reflexivity|].
      inversion H as [|? ? Hx Hr]; subst. inversion HF as [|? ? (f & Hf & Hok & Hty) HFr]; subst.
      cbn [fst snd] in *. rewrite size_fields_cons, tv_fields_cons, Hf.
      change (len_fields p ((id, to_tval S (f_ty f) x) :: tv_fields S dfs r)) with
        (l_field_begin p (ttype_of (to_tval S (f_ty f) x)) id +++ len_val p (to_tval S (f_ty f) x) +++
         l_field_end p +++ len_fields p (tv_fields S dfs r)).
      apply lseq_ext; [|intros; apply IHr; auto].
      destruct (field_ok_inv _ _ Hok) as (_ & Hto & Hnv & _).
      unfold size_field. rewrite Hnv, (to_tval_ttype _ _ _ Hty).
      apply lseq_ext; [|reflexivity]. apply lseq_ext; [|intros c1; apply Hx; exact Hty].
      apply l_field_begin_size_ttype; [exact Hto|].
      eapply no_tdbool_field; [exact Elk|]. apply (find_field_in _ _ _ Hf).
    - (* union *)
      rewrite has_type_union in Ht. rewrite size_ty_union, to_tval_union. res_cases S t. decl_cases S n.
      destruct (find_variant vs id) as [vt|] eqn:Ev; [|discriminate].
      destruct (is_void (resolve S vt)) eqn:Evoid; [reflexivity|].
      change (len_val p (VStruct [(id, to_tval S vt v)])) with
        (l_struct_begin p +++
         (l_field_begin p (ttype_of (to_tval S vt v)) id +++ len_val p (to_tval S vt v) +++ l_field_end p +++ lret 0) +++
         l_field_stop p +++ l_struct_end p).
      apply lseq_ext; [|reflexivity]. apply lseq_ext; [|reflexivity]. apply lseq_ext; [reflexivity|].
      intros c1. rewrite lseq_ret0_r, (to_tval_ttype _ _ _ Ht).
      apply lseq_ext; [|reflexivity]. apply lseq_ext; [|intros c2; apply IHv; exact Ht].
      pose proof (find_variant_in _ _ _ Ev) as Hin.
      apply l_field_begin_size_ttype; [eapply (wf_variant_ok S Hwf); eauto|eapply no_tdbool_variant; eauto].
    - discriminate.
  Qed.
End Size.

(* ---------- C04 at the generated-code level ---------- *)
Theorem size_exact : forall S p k t v,
  wf_schema S = true -> has_type S t v = true -> (p = PCompact -> no_tdbool S = true) ->
  forall c ss c', pend_ok c -> enc_ty S p k t v c = Ok (ss, c') ->
    size_ty S p t v c = Ok (Z.of_nat (length (flat ss)), c') /\ pend_ok c'.
Proof.
  intros S p k t v Hwf Ht Hnb c ss c' Hp He.
  rewrite (enc_as_tval S Hwf p k v t Ht) in He.
  rewrite (size_as_len S Hwf p Hnb v t Ht).
  exact (len_val_exact p k _ (to_tval_wt S Hwf v t Ht) c ss c' Hp He).
Qed.

(* the top-level entry points: fresh protocol object *)
Corollary gen_size_exact : forall S p k t v b,
  wf_schema S = true -> has_type S t v = true -> (p = PCompact -> no_tdbool S = true) ->
  gen_encode S p k t v = Ok b -> gen_size S p t v = Ok (Z.of_nat (length b)).
Proof.
  intros S p k t v b Hwf Ht Hnb He. unfold gen_encode in He. unfold gen_size.
  destruct (enc_ty S p k t v w0) as [[ss c']| |] eqn:E; cbn [bind] in He; try discriminate.
  injection He as <-.
  destruct (size_exact S p k t v Hwf Ht Hnb w0 ss c' I E) as [-> _]. reflexivity.
Qed.

(* the excluded class is a real divergence of the emitted code (finding F-04a) *)
Definition S_f04a : schema := [DTypedef TyBool; DStruct [mkField 1 Required (TyRef 0) None] false false].
Definition v_f04a : gval := GStruct [(1, GBool true)] [].

Theorem size_refuted : exists S t v,
  wf_schema S = true /\ has_type S t v = true /\
  exists n b, gen_size S PCompact t v = Ok n /\ gen_encode S PCompact BContig t v = Ok b /\ n <> Z.of_nat (length b).
Proof.
  exists S_f04a, (TyRef 1), v_f04a. split; [vm_compute; reflexivity|]. split; [vm_compute; reflexivity|].
  exists 3, [x11; x00]. split; [vm_compute; reflexivity|]. split; [vm_compute; reflexivity|].
  vm_compute. discriminate.
Qed.

(* ---------- non-vacuity ---------- *)
Definition S0 : schema :=
  [ DTypedef TyBool;
    DStruct [mkField 1 Required (TyRef 0) None; mkField 2 Optional TyI32 (Some (true, GI32 7));
             mkField 5 Optional (TyList TyString) None] false false;
    DUnion [(1, TyI32); (2, TyRef 1)] false false;
    DEnum [1; 2] ].
Definition v0 : gval := GStruct [(1, GBool true); (5, GList [GBytes [x61]; GBytes []])] [].

(* S0 without the typedef-of-bool field: inside the C04 domain for compact as well *)
Definition S1 : schema :=
  [ DTypedef TyI64;
    DStruct [mkField 1 Required TyBool None; mkField 2 Optional TyI32 (Some (true, GI32 7));
             mkField 5 Optional (TyList TyString) None; mkField 9 Optional (TyRef 0) None;
             mkField 300 Optional (TyMap TyI16 (TyRef 3)) None] false false;
    DUnion [(1, TyI32); (2, TyRef 1)] false false;
    DEnum [1; 2] ].
Definition v1 : gval :=
  GUnion 2 (GStruct [(1, GBool true); (5, GList [GBytes [x61]; GBytes []]); (9, GI64 (-5));
                     (300, GMap [(GI16 3, GEnum 2)])] []).

Example size_exact_nonvacuous :
  wf_schema S1 = true /\ has_type S1 (TyRef 2) v1 = true /\ no_tdbool S1 = true /\
  (exists b, gen_encode S1 PCompact BContig (TyRef 2) v1 = Ok b /\ (10 < length b)%nat) /\
  wf_schema S0 = true /\ has_type S0 (TyRef 1) v0 = true /\ no_tdbool S0 = false.
Proof.
  split; [vm_compute; reflexivity|]. split; [vm_compute; reflexivity|]. split; [vm_compute; reflexivity|].
  split; [eexists; split; [vm_compute; reflexivity|cbn; lia]|].
  split; [vm_compute; reflexivity|]. split; vm_compute; reflexivity.
Qed.
