(* Hand-written glue between text lines and the extracted model types (trusted). *)
open Model

(* byte: 256 constant constructors in order X00..Xff -> immediate ints 0..255 *)
let byte_of_int (i : int) : byte = Obj.magic (i land 255)
let int_of_byte (b : byte) : int = (Obj.magic b : int)

let () =
  (* self-test of the representation trick against the extracted b2z *)
  let rec pos_to_int = function XH -> 1 | XO p -> 2 * pos_to_int p | XI p -> 2 * pos_to_int p + 1 in
  let z_to_int = function Z0 -> 0 | Zpos p -> pos_to_int p | Zneg p -> - (pos_to_int p) in
  List.iter (fun i -> if z_to_int (b2z (byte_of_int i)) <> i then failwith "byte representation self-test failed")
    [0; 1; 65; 127; 128; 254; 255]

let rec pos_of_int (i : int) : positive =
  if i = 1 then XH else if i land 1 = 0 then XO (pos_of_int (i lsr 1)) else XI (pos_of_int (i lsr 1))
let z_of_int (i : int) : z = if i = 0 then Z0 else if i > 0 then Zpos (pos_of_int i) else Zneg (pos_of_int (- i))
let rec nat_of_int (i : int) : nat = if i <= 0 then O else S (nat_of_int (i - 1))

let z10 = z_of_int 10

(* decimal string (optional leading '-') -> z, arbitrary magnitude *)
let z_of_string (s : string) : z =
  let neg = String.length s > 0 && s.[0] = '-' in
  let start = if neg then 1 else 0 in
  if String.length s = start then failwith ("bad integer: " ^ s);
  let acc = ref Z0 in
  for i = start to String.length s - 1 do
    let c = s.[i] in
    if c < '0' || c > '9' then failwith ("bad integer: " ^ s);
    acc := Z.add (Z.mul !acc z10) (z_of_int (Char.code c - 48))
  done;
  if neg then Z.opp !acc else !acc

let rec pos_to_int_opt (p : positive) (bits : int) : int option =
  if bits > 61 then None else
  match p with
  | XH -> Some 1
  | XO q -> (match pos_to_int_opt q (bits + 1) with Some v -> Some (2 * v) | None -> None)
  | XI q -> (match pos_to_int_opt q (bits + 1) with Some v -> Some (2 * v + 1) | None -> None)

let string_of_z (v : z) : string =
  let small = match v with
    | Z0 -> Some 0
    | Zpos p -> pos_to_int_opt p 0
    | Zneg p -> (match pos_to_int_opt p 0 with Some x -> Some (- x) | None -> None) in
  match small with
  | Some i -> string_of_int i
  | None ->
    let neg, a = (match v with Zneg p -> true, Zpos p | _ -> false, v) in
    let buf = Buffer.create 24 in
    let cur = ref a in
    while !cur <> Z0 do
      let d = Z.modulo !cur z10 in
      let di = (match d with Z0 -> 0 | Zpos p -> (match pos_to_int_opt p 0 with Some x -> x | None -> assert false) | Zneg _ -> assert false) in
      Buffer.add_char buf (Char.chr (48 + di));
      cur := Z.div !cur z10
    done;
    let s = Buffer.contents buf in
    let n = String.length s in
    let r = String.init n (fun i -> s.[n - 1 - i]) in
    if neg then "-" ^ r else r

let int_of_z (v : z) : int =
  match v with
  | Z0 -> 0
  | Zpos p -> (match pos_to_int_opt p 0 with Some x -> x | None -> failwith "int_of_z: too large")
  | Zneg p -> (match pos_to_int_opt p 0 with Some x -> - x | None -> failwith "int_of_z: too large")

let hexval c =
  match c with
  | '0'..'9' -> Char.code c - 48
  | 'a'..'f' -> Char.code c - 87
  | 'A'..'F' -> Char.code c - 55
  | _ -> failwith "bad hex"

(* "-" denotes the empty byte string *)
let bytes_of_hex (s : string) : byte list =
  if s = "-" then [] else begin
    let n = String.length s in
    if n land 1 = 1 then failwith "odd hex";
    let rec go i acc = if i < 0 then acc else go (i - 2) (byte_of_int (hexval s.[i] * 16 + hexval s.[i + 1]) :: acc) in
    go (n - 2) []
  end

let hex_of_bytes (l : byte list) : string =
  match l with
  | [] -> "-"
  | _ ->
    let buf = Buffer.create 64 in
    List.iter (fun b -> Buffer.add_string buf (Printf.sprintf "%02x" (int_of_byte b))) l;
    Buffer.contents buf

let rec list_length_int l = List.length l

let string_of_err = function
  | EInvalidData -> "InvalidData" | EBadVersion -> "BadVersion" | EDepthLimit -> "DepthLimit"
  | ENegativeSize -> "NegativeSize" | ESizeLimit -> "SizeLimit" | ETransport -> "Transport"
  | EOutOfFuel -> "OutOfFuel" | EOther -> "Other"

let string_of_site = function
  | SPendingBoolWrite -> "PendingBoolWrite" | SPendingBoolRead -> "PendingBoolRead"
  | SPendingBoolTwice -> "PendingBoolTwice" | SNoFieldId -> "NoFieldId" | SUnwrap -> "Unwrap"
  | SOverflow -> "Overflow" | SSplit -> "Split" | SAlloc -> "Alloc" | SOob -> "Oob" | SOtherPanic -> "Other"

(* token stream *)
type toks = { mutable rest : string list }
let next (t : toks) : string =
  match t.rest with
  | [] -> failwith "unexpected end of line"
  | x :: r -> t.rest <- r; x
let next_int t = int_of_string (next t)
let next_z t = z_of_string (next t)
