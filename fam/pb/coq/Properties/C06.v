(* C06 -- Protobuf wire format conforms to the protobuf encoding spec (interop).
   Spec.v is written from the encoding guide, independently of pilota's code.  Only statements. *)
From PVPb Require Import Wire Codec Msg Spec Proofs.SpecP Proofs.MsgRtP Proofs.SpecDecP Proofs.SpecMsgP Proofs.UnknownP Conform Proofs.EngineP Proofs.ConformP Chunks Proofs.ChunksP.
Open Scope Z_scope.

(* The link between "declared sint32" and "uses the sint32 codec": for all 16 declared scalar types
   (15 scalars + enum) the module selected by the REGENERATED tables -- parser/protobuf lower_ty,
   resolve.rs lower_type, ProtobufBackend::ty_module and ty_category arms, first match wins -- is the
   one the encoding guide prescribes.  By computation over the regenerated tables. *)
Theorem C06_module_table : forall t, In t declared_scalars ->
  scalar_module t = spec_module t /\ spec_module t <> None.
Proof. exact module_table. Qed.
Print Assumptions C06_module_table.

Theorem C06_message_table : module_of_decl TYPE_MESSAGE = Some MMessage /\ category_of_decl TYPE_MESSAGE = Some CatMessage /\
  scalar_module TYPE_MESSAGE = None /\ module_of_decl TYPE_GROUP = None.
Proof. exact message_table. Qed.
Print Assumptions C06_message_table.

(* out direction, field level: for every declared scalar type, every field number and every value of the
   type, the bytes pilota's selected codec writes ARE the bytes the guide prescribes (ZigZag for sint,
   little-endian fixed widths, sign-extended negative int32, length-delimited strings) *)
Theorem C06_scalar_out : forall t m tag v, In t declared_scalars -> scalar_module t = Some m -> tag_ok tag ->
  spec_value_ok t v = true ->
  encode_scalar m tag v = spec_encode_field t tag v.
Proof. exact spec_scalar_bytes. Qed.
Print Assumptions C06_scalar_out.

(* in direction, field level: what a conforming encoder writes, pilota's selected codec reads back,
   consuming exactly the record *)
Theorem C06_scalar_in : forall t m tag v r a, In t declared_scalars -> scalar_module t = Some m -> tag_ok tag ->
  spec_value_ok t v = true ->
  bind decode_key (fun k => merge_scalar m (snd k)) (mkR (spec_encode_field t tag v ++ r) a)
  = OOk v (mkR r (a + payload_cost m v)).
Proof. exact spec_scalar_in. Qed.
Print Assumptions C06_scalar_in.

(* repeated numeric fields: the packed record of a conforming encoder is accepted (pilota itself writes
   the unpacked form, C05_repeated_rt; both are accepted by merge_repeated) *)
Theorem C06_packed_in : forall t m tag vs acc r a, In t declared_scalars -> scalar_module t = Some m ->
  numeric_mod m = true -> tag_ok tag -> vs <> [] -> Forall (fun v => spec_value_ok t v = true) vs ->
  zlen (flat_map (spec_payload t) vs) < two64 ->
  bind decode_key (fun k => merge_repeated m (snd k) acc) (mkR (spec_encode_packed t tag vs ++ r) a)
  = OOk (acc ++ vs) (mkR r (a + Z.of_nat (length vs))).
Proof. exact spec_packed_in. Qed.
Print Assumptions C06_packed_in.

(* the reference decoder's own primitives: a record written by a conforming encoder for a declared scalar type is
   cut out exactly by the tokeniser, and its payload is read back as the value *)
Theorem C06_spec_record : forall f p tag v rest, tag_ok tag -> spec_value_ok p v = true ->
  spec_record (S f) (spec_encode_field p tag v ++ rest) = Some (tag, stok p v, rest).
Proof. exact spec_record_spec. Qed.
Print Assumptions C06_spec_record.

Theorem C06_spec_value : forall t v, spec_value_ok t v = true -> spec_scalar_value t (stok t v) = Some v.
Proof. exact spec_scalar_value_rt. Qed.
Print Assumptions C06_spec_value.

(* C06_out, message level: what the generated encoder writes, the schema-aware reference decoder (two passes:
   tokenise, then interpret by the schema; written from the encoding guide) reads back as the same value -- every
   well-formed schema, both settings of pb-encode-default-value, every typed value of every message type (nested
   messages, repeated, maps, oneofs) whose encoding fits in a usize.  [lossless] as in C05_msg_rt: where the encoder
   skips a map value as `== default`, the value is the default (F-06b is its failure: a -0.0 map value is left off the
   wire, so ANY conforming decoder reads +0.0). *)
Theorem C06_out : forall edv sc d i v, schema_ok sc = true -> wt_msg d sc i v = true -> lossless edv d sc i v ->
  zlen (enc_msg edv d sc i v) < two64 -> (d <= depth_fuel)%nat ->
  spec_decode_msg sc i (enc_msg edv d sc i v) = Some v.
Proof. exact spec_decode_rt. Qed.
Print Assumptions C06_out.

(* in direction, message level: EVERY encoding the encoding guide allows for a value decodes to that value.
   [conforming ub d sc i v bs] (Conform.v, written from the encoding guide in the vocabulary of Spec.v) holds of every
   byte string bs that is a sequence of records in which
     - the records of different fields come in any order, unknown fields (any wire type, groups nested <= ub deep,
       valid field number) anywhere in between, at every level;
     - a singular / optional scalar occurs any number of times (last one wins; not at all = default / unset);
     - a singular / optional embedded message is split over any number of length-delimited records whose bodies,
       concatenated, conform one level down;
     - a repeated scalar is any mixture of unpacked records and packed runs (numeric types; empty runs included) in
       element order; a repeated message / string / bytes has one record per element;
     - a map has one record per entry, inside which key and value come in either order, any number of times or not at
       all, the value message possibly split, unknown fields in between; later equal keys replace earlier ones;
     - a oneof is the run of the records of all its members, the last one deciding, consecutive message-typed records of
       one member merging;
   d bounds the message nesting depth of v.  The model of the generated decoder (msg_decode = Message::decode of the
   generated impl) maps every such byte string to v and consumes it entirely, under
     - schema_ok (field numbers valid and distinct, types declared -- what pilota-build accepts),
     - the input shorter than 2^64 bytes,
     - the recursion budget: a message level costs one unit, a map entry with a message value two (the entry and its
       value both enter), the unknown groups at most ub more: 2 d - 1 + ub <= recursion_limit (= 100).
   Proof: the record loop is a projection engine (Proofs/EngineP.v: every record is routed to one struct slot, reads
   and writes that slot only), so the result is determined slot by slot by the records of that slot in arrival order;
   per slot the C18 facts (last wins, repeated order, packed = unpacked, oneof replace, embedded merge = concatenation,
   map insert) identify what the chain of records makes of the default with the value the relation prescribes. *)
Theorem C06_in : forall ub sc d i v bs a,
  schema_ok sc = true -> 0 <= ub -> conforming ub d sc i v bs -> zlen bs < two64 ->
  2 * Z.of_nat d - 1 + ub <= recursion_limit ->
  exists a', msg_decode sc i (mkR bs a) = OOk v (mkR [] a').
Proof. exact conforming_decodes. Qed.
Print Assumptions C06_in.

(* the relation behind it, at record level: a conforming record list drives the loop body of message #j from the default
   value to v, whatever follows in the buffer (any depth fuel dm, Dd >= d, any budget c in the window) *)
Theorem C06_in_records : forall ub sc, schema_ok sc = true -> 0 <= ub -> forall d j x rs dm c Dd,
  mconf ub d sc j x rs -> Forall fits rs -> (d <= dm)%nat -> (d <= Dd)%nat -> 2 * Z.of_nat d - 1 + ub <= c <= recursion_limit ->
  rsteps (rbody sc dm j c) (default_msg Dd sc j) rs x.
Proof. exact mconf_run. Qed.
Print Assumptions C06_in_records.

(* the canonical encoding is one of the conforming ones is C06_out + C05_msg_rt; non-vacuity of the rest:
   Proofs/ConformP.v conforming_nonvacuous -- a value of demo_schema with an encoding that has records out of order, a
   singular field twice, packed + unpacked chunks mixed, an unknown field, a oneof set twice, a map entry with the value
   before the key and an embedded message split in two; it conforms, differs from the canonical encoding and decodes
   to the value. *)

(* chunk independence: the decoders are generic over `Buf`, and a Buf may hand out its bytes in several chunks
   (Buf::chain, VecDeque<u8>, ropes).  Only decode_varint looks at the chunk structure (it dispatches on the first chunk);
   everything else reads through Buf's chunk-agnostic get_u8 / get_*_le / advance / copy_to_bytes / take.  Chunks.v models
   decode_varint on a chunk list -- first chunk for the dispatch and the unrolled slice decoder, get_u8 across chunks for
   the byte-at-a-time loop, whose bound `min(10, buf.remaining())` is REGENERATED from the source (dsl_bound: a bound by
   the first chunk, or none, changes the model and breaks this proof).  For EVERY way of cutting ANY byte string into
   chunks (empty chunks included) the answer is the contiguous decoder's: same value and same remaining bytes, or the
   same "invalid varint"; never a panic.  Keys, length prefixes, varint scalars, packed elements, length delimiters are
   all read through this function. *)
Theorem C06_chunk_independent : forall cs bs, concat cs = bs -> cres_flat (cdecode_varint cs) = decode_varint_b bs.
Proof. exact chunk_independent. Qed.
Print Assumptions C06_chunk_independent.

(* ... and it IS the only one: the regenerated list of every `.chunk()` in pilota/src/prost/*.rs, by enclosing function, is
   [decode_varint] (a payload read through `buf.chunk()[..len]` or `extend_from_slice(buf.chunk())` adds an entry) *)
Theorem C06_chunk_readers : chunk_readers = accounted_chunk_readers.
Proof. exact chunk_readers_accounted. Qed.
Print Assumptions C06_chunk_readers.
(* non-vacuity: Proofs/ChunksP.v chunked_nonvacuous (300 cut between its bytes, 2^63 over ten one-byte chunks),
   chunk_bound_would_reject (the same loop bounded by the first chunk rejects AC | 02).  The message-level decoders over
   non-contiguous buffers are exercised on every run (pv-gen-pb / pv-harness-pb: every decode entry point over two-chunk
   cuts, Buf::chain, small pieces and a wrapped VecDeque<u8>, answers compared with the contiguous one). *)

(* the defaults the reference decoder (Spec.v spec_decode_msg) and the relation of conforming encodings (Conform.v) start
   from are the model's default_scalar / default_msg / default_ty; Spec.v states the guide's defaults on its own
   (spec_default_*: 0 / false / empty string / empty bytes / first enum value; optional unset; repeated and maps empty; a bare
   message field holds the message with all fields at their defaults) and they are the same -- for every declared type,
   every schema, every message, every fuel.  A wrong default in the model breaks this proof. *)
Theorem C06_defaults_spec :
  (forall p, spec_default_scalar p = default_scalar p) /\
  (forall d sc i, spec_default_msg d sc i = default_msg d sc i) /\
  (forall d sc t, match t with TScalar p => spec_default_scalar p | TMsg j => spec_default_msg d sc j end = default_ty d sc t).
Proof. exact defaults_spec. Qed.
Print Assumptions C06_defaults_spec.

(* F-06b: REFUTED without [lossless] -- pilota's bytes for map<int32, double> { 5: -0.0 } (feature off) mean { 5: +0.0 } to the
   reference decoder; F-06c: the same for the f32 / f64 wrappers is C05_wrapper_negzero_refuted (the bytes are empty) *)
Theorem C06_out_negzero_refuted :
  let sc := [[FMap 1 TYPE_INT32 (TScalar TYPE_DOUBLE)]] in
  let v := VL NMsg [VL NMap [VL NPair [VI 5; VI 9223372036854775808]]] in
  schema_ok sc = true /\ wt_msg 1 sc 0 v = true /\
  spec_decode_msg sc 0 (enc_msg false 1 sc 0 v) = Some (VL NMsg [VL NMap [VL NPair [VI 5; VI 0]]]) /\
  spec_decode_msg sc 0 (enc_msg true 1 sc 0 v) = Some v.
Proof. exact spec_out_negzero_refuted. Qed.
Print Assumptions C06_out_negzero_refuted.
