(* C20 at the generated-code level: the emitted decoder maps the empty struct (the single byte 00) to
   Default::default() of the emitted type.  Statements only; lemmas in Proofs/DefaultP.v. *)
From PVGen Require Import Gen GenSpec Defaults Proofs.DefaultP.
From PV Require Import Proofs.HeaderP.
Open Scope Z_scope.

(* every protocol, every fuel, ANY reader context, arbitrary trailing bytes: if decoding the empty struct at a
   declared struct type succeeds, the result is exactly the Default value of that type (explicit Default impl:
   IDL defaults, None for optionals), and exactly the one byte has been consumed with the reader context restored *)
Theorem C20_decode_empty : forall S p fuel n fs kp ia r rcx x s',
  wf_schema S = true -> lookup S n = Some (DStruct fs kp ia) ->
  gen_decode S p fuel (TyRef n) (mkS (x00 :: r) rcx) = Ok (x, s') -> idle rcx ->
  default_of S (TyRef n) = Some x.
Proof. exact decode_empty_is_default. Qed.
Print Assumptions C20_decode_empty.

(* stronger: neither well-formedness nor an idle reader is needed, and the rest state is determined
   (clrp: the compact reader has dropped a pending bool field announcement, if there was one) *)
Theorem C20_decode_empty_strong : forall S p fuel n fs kp ia r rcx x s',
  lookup S n = Some (DStruct fs kp ia) ->
  gen_decode S p fuel (TyRef n) (mkS (x00 :: r) rcx) = Ok (x, s') ->
  default_of S (TyRef n) = Some x /\ s' = mkS r (clrp p rcx).
Proof. exact decode_empty_default. Qed.
Print Assumptions C20_decode_empty_strong.

(* it succeeds iff the post-loop pass over the initial variables does, i.e. no required field lacks a default *)
Theorem C20_decode_empty_succeeds : forall S p f n fs kp ia r rcx out,
  lookup S n = Some (DStruct fs kp ia) -> idle rcx ->
  finish_fields fs (map init_var fs) = Ok out ->
  gen_decode S p (Datatypes.S f) (TyRef n) (mkS (x00 :: r) rcx) = Ok (GStruct out [], mkS r rcx).
Proof. exact decode_empty_succeeds. Qed.
Print Assumptions C20_decode_empty_succeeds.

(* ================= the MEANING of the defaults: literal level (gen-D) =================
   Lit.v models Context::lit_into_ty / lit_as_rvalue / ident_into_ty / def_lit / default_val of pilota-build (dispatching on
   the arm tables REGENERATED from context.rs), LitSpec.v gives the meaning of an IDL literal at a Thrift type from the IDL
   semantics, LitClass.v the decidable panic classes.  [parse_f64] (decimal text -> nearest double) is a parameter shared by
   model and specification; everything else is computed over Z.  Lemmas: Proofs/LitNum.v, LitP.v, LitTopP.v. *)
From PVGen Require Import Lit LitSpec LitClass Proofs.LitNum Proofs.LitP Proofs.LitTopP.

(* the arm lists of lit_into_ty / lit_as_rvalue / ident_into_ty regenerated from the Rust source are, arm for arm and in
   source order, the lists the model was written against (a removed / merged / added / reordered arm breaks this); the enum
   default BY NUMBER names the member it found by the member's own path, as the enum's definition does (a path spelled from the
   raw member name -- wrong under pilota.name, change_case(false) and for names that collide after case conversion -- breaks it) *)
Theorem C20_arm_tables :
  lit_into_ty_arms = model_lit_into_ty_arms ++ (if string_at_bytesvec_ok then [strvec_into_arm] else []) ++ [arc_into_arm] /\
  lit_as_rvalue_arms = [ ([(LPMap, CPLazyStaticRef)], FFalse); ([(LPMap, CPMap)], FFalse); ([(LPMap, CPBTreeMap)], FFalse);
                         ([(LPList, CPLazyMap)], FFalse); ([(LPList, CPLazyStaticRef)], FFalse);
                         ([(LPList, CPMap)], FFalse); ([(LPList, CPBTreeMap)], FFalse) ] /\
  ident_into_ty_arms = model_ident_into_ty_arms ++ [([(CPAny, CPArc)], FFalse)] /\
  int_float_casts = [(CPF32, CPF32); (CPF64, CPF64); (CPOrderedF64, CPF64)] /\ int_bool_test = (true, 0) /\
  enum_number_member_path = true.
Proof.
  exact (conj lit_into_ty_arms_pinned (conj lit_as_rvalue_arms_pinned (conj ident_into_ty_arms_pinned
           (conj (proj1 lit_scalars_pinned) (conj (proj1 (proj2 lit_scalars_pinned)) enum_number_member_path_pinned))))).
Qed.
Print Assumptions C20_arm_tables.

(* the general theorems below are stated for the generator AS IT IS: with the repairs F-20a (Arc arms), F-20b (a reference to a
   const of container type is lowered from the const's literal), F-20c and F-20d (parse_double).  Each flag is regenerated from
   context.rs; were one of them to regenerate to false, this obligation -- and Proofs/LitP.v, which uses it -- fails *)
Theorem C20_repairs_present :
  arc_ok = true /\ const_inline_present = true /\ double_sign_run_ok = true /\ double_exponent_ok = true.
Proof. exact flags_now. Qed.
Print Assumptions C20_repairs_present.

(* every literal (unbounded nesting: induction over the literal), every type, every schema on whose defaults the generator
   meets no panic class: a well-typed literal outside the classes is lowered to an expression denoting exactly the value the
   IDL gives it (plus the const flag).  INSIDE the domain (the classes of LitClass.v follow the source as it is): a target
   wrapped by pilota.rust_wrapper_arc at any level (the value is the wrapped type's value; never const), a reference to a const
   of list / set / map type (the meaning of the const's literal at the target type, followed through further such references by
   unfolding fuel), double constants written -+x or with an exponent of several signs / 0x digits (sign_norm, exp_norm), a
   const whose type is a typedef anywhere on the target's typedef chain *)
Theorem C20_literal_meaning : forall parse_f64 S,
  class_free_schema S = true -> forall t l,
  well_typed_lit parse_f64 S (erase t) l = true ->
  pclass_top S l (item_cty t) = None ->
  exists v c, default_val_lit parse_f64 S t l = LOk (v, c) /\ lit_value_top parse_f64 S (erase t) l = Some v.
Proof. exact literal_meaning. Qed.
Print Assumptions C20_literal_meaning.

(* FULL statement wanted: on every well-typed literal the lowering returns a value.  It is REFUTED by the witnesses below
   (C20_path_convert_refuted, and, until their repairs are in the source, C20_string_at_bytesvec_refuted and
   C20_map_key_refuted); what holds: the only failures (panic or otherwise) on well-typed literals are inside the decidable
   classes.  _partial also because (1) the hypothesis class_free_schema is about the whole schema (the generator lowers every
   default of a crate; a panic anywhere leaves no emitted code) and (2) consts of container type are outside `const_simple`:
   their own definitions are modelled (def_lit) and compared on every run, but only their USES are specified. *)
Theorem C20_lowering_total_partial : forall parse_f64 S,
  class_free_schema S = true -> forall t l,
  well_typed_lit parse_f64 S (erase t) l = true ->
  match default_val_lit parse_f64 S t l with
  | LOk _ => True
  | LErr _ | LPanic _ => pclass_top S l (item_cty t) <> None
  end.
Proof. exact lowering_total. Qed.
Print Assumptions C20_lowering_total_partial.

(* REPAIRED (pilota-build fix F-14g, container literal inside container literal): a map literal below the top of a default
   -- element of a list literal, value of a map literal, behind a typedef, member of a struct literal -- is lowered to
   its IDL value (before the fix: panic!("unexpected literal")) *)
Theorem C20_nested_map_literal_repaired :
  default_val_lit pf0 W_nested_map (RVec (RMap RI8 RFastStr)) (LList [LMap [(LInt 1, LString [x78])]])
    = LOk (GList [GMap [(GI8 1, GBytes [x78])]], false) /\
  default_val_lit pf0 W_nested_map (RMap RI8 (RMap RI8 RFastStr)) (LMap [(LInt 1, LMap [(LInt 2, LString [x78])]); (LInt 3, LList [])])
    = LOk (GMap [(GI8 1, GMap [(GI8 2, GBytes [x78])]); (GI8 3, GMap [])], false) /\
  default_val_lit pf0 W_nested_map (RPath 1) (LMap [(LInt 1, LInt 2)]) = LOk (GMap [(GI8 1, GI8 2)], false) /\
  default_val_lit pf0 W_nested_map (RPath 2) (LMap [(LString [x61], LInt 1); (LString [x6d], LMap [(LString [x6b], LInt 5)])])
    = LOk (GStruct [(1, GI32 1); (2, GMap [(GBytes [x6b], GI32 5)])] [], false).
Proof. exact (proj2 (proj2 nested_map_repaired)). Qed.
Print Assumptions C20_nested_map_literal_repaired.

(* REPAIRED (fix F-14l, enum default through typedef, and its siblings): an enum member and a const reference at a
   typedef'd target (one or several typedefs) denote the member / the const (before: panic!("invalid convert")) *)
Theorem C20_path_through_typedef_repaired :
  default_val_lit pf0 W_enum_typedef (RPath 1) (LMember 0 1) = LOk (GEnum 1, true) /\
  default_val_lit pf0 W_enum_typedef (RPath 2) (LConst 0) = LOk (GI32 7, true) /\
  default_val_lit pf0 W_enum_typedef (RPath 4) (LConst 0) = LOk (GI32 7, true) /\
  default_val_lit pf0 W_enum_typedef (RPath 3) (LConst 1) = LOk (GBytes [x6c], true).
Proof.
  exact (conj (proj1 (proj2 (proj2 enum_typedef_repaired)))
          (conj (proj1 (proj2 (proj2 (proj2 (proj2 enum_typedef_repaired)))))
            (conj (proj1 (proj2 (proj2 (proj2 (proj2 (proj2 enum_typedef_repaired))))))
                  (proj1 (proj2 (proj2 (proj2 (proj2 (proj2 (proj2 enum_typedef_repaired)))))))))).
Qed.
Print Assumptions C20_path_through_typedef_repaired.

(* REPAIRED (fix F-14i, const of set type): the const item is generated, with or without elements (before: assert! /
   panic!("invalid map type")) *)
Theorem C20_const_of_set_repaired :
  const_value pf0 W_const_set 0 = LOk (GSet [GI32 1; GI32 2]) /\ const_value pf0 W_const_set 1 = LOk (GSet []) /\
  const_value pf0 W_const_set 2 = LOk (GSet [GBytes [x61]]).
Proof. exact const_set_repaired. Qed.
Print Assumptions C20_const_of_set_repaired.

(* REPAIRED (fixes F-14x, set literal nested in a const container, and F-14y, list nested in a const list): the const items
   are generated (before: panic!("unexpected literal") / arrays of length 0) *)
Theorem C20_const_nested_container_repaired :
  const_value pf0 W_const_nested 0 = LOk (GList [GSet [GI64 1]; GSet []]) /\
  const_value pf0 W_const_nested 1 = LOk (GMap [(GI32 1, GSet [GBytes [x61]])]) /\
  const_value pf0 W_const_nested 2 = LOk (GList [GList [GI32 1]; GList [GI32 2]]) /\
  const_value pf0 W_const_nested 3 = LOk (GList [GMap []; GMap [(GI32 1, GI32 2)]]).
Proof. exact (proj2 const_nested_repaired). Qed.
Print Assumptions C20_const_nested_container_repaired.

(* REPAIRED (new arms): an integer at a set<double> element / map key is the nearest double; a string const at a
   `pilota.rust_type = "string"` field *)
Theorem C20_missing_arms_repaired :
  default_val_lit pf0 (mkLS [] []) (RSet ROrderedF64) (LList [LInt 1; LFloat [x32; x2e; x35]])
    = LOk (GSet [GDouble 4607182418800017408; GDouble 4612811918334230528], false) /\
  default_val_lit pf0 (mkLS [] []) (RMap ROrderedF64 RFastStr) (LMap [(LInt 3, LString [x78])])
    = LOk (GMap [(GDouble 4613937818241073152, GBytes [x78])], false) /\
  default_val_lit pf0 (mkLS [] [(RFastStr, LString [x78])]) RString (LConst 0) = LOk (GBytes [x78], false).
Proof.
  exact (conj (proj1 other_arms_repaired) (conj (proj1 (proj2 (proj2 other_arms_repaired)))
          (proj1 (proj2 (proj2 (proj2 other_arms_repaired)))))).
Qed.
Print Assumptions C20_missing_arms_repaired.

(* ---- three proposed repairs (fam/gen/patches: arc-field-default, container-const-reference, double-sign-run).  The
   regenerated tables say whether the generator has them; each pair below holds in BOTH forms, one of the two vacuously ---- *)

(* a default on a `pilota.rust_wrapper_arc` field: no literal of any kind had an arm (class arc-field-default) *)
Theorem C20_arc_field_default_refuted : arc_ok = false ->
  well_typed_lit pf0 W_arc (erase (RArc (RPath 0))) (LMap [(LString [x6e], LInt 1)]) = true /\
  pclass_top W_arc (LMap [(LString [x6e], LInt 1)]) (item_cty (RArc (RPath 0))) = Some PCNoArm /\
  default_val_lit pf0 W_arc (RArc (RPath 0)) (LMap [(LString [x6e], LInt 1)]) = LPanic PUnexpectedLiteral /\
  default_val_lit pf0 W_arc (RArc RString) (LString [x61]) = LPanic PUnexpectedLiteral /\
  default_val_lit pf0 W_arc (RArc RString) (LConst 0) = LPanic PInvalidConvert.
Proof. exact arc_field_default_refuted. Qed.
Print Assumptions C20_arc_field_default_refuted.

Theorem C20_arc_field_default_repaired : arc_ok = true ->
  pclass_top W_arc (LMap [(LString [x6e], LInt 1)]) (item_cty (RArc (RPath 0))) = None /\
  pclass_top W_arc (LConst 0) (item_cty (RArc RString)) = None /\
  default_val_lit pf0 W_arc (RArc (RPath 0)) (LMap [(LString [x6e], LInt 1)]) = LOk (GStruct [(2, GI32 1)] [], false) /\
  default_val_lit pf0 W_arc (RArc RString) (LString [x61]) = LOk (GBytes [x61], false) /\
  default_val_lit pf0 W_arc (RArc RString) (LConst 0) = LOk (GBytes [x6b], false) /\
  default_val_lit pf0 W_arc (RVec (RArc (RPath 0))) (LList [LMap [(LString [x6e], LInt 4)]]) = LOk (GList [GStruct [(2, GI32 4)] []], false) /\
  default_val_lit pf0 W_arc (RMap RFastStr (RArc (RPath 0))) (LMap [(LString [x61], LMap [(LString [x6e], LInt 5)])])
    = LOk (GMap [(GBytes [x61], GStruct [(2, GI32 5)] [])], false).
Proof. exact arc_field_default_repaired. Qed.
Print Assumptions C20_arc_field_default_repaired.

(* a reference to a const of list / set / map type (class container-const-reference) *)
Theorem C20_container_const_reference_refuted : const_inline_present = false ->
  well_typed_lit pf0 W_const_ref (erase (RSet RFastStr)) (LConst 1) = true /\
  pclass_top W_const_ref (LConst 1) (item_cty (RSet RFastStr)) = Some PCPathConvert /\
  default_val_lit pf0 W_const_ref (RVec RI32) (LConst 0) = LPanic PInvalidConvert /\
  default_val_lit pf0 W_const_ref (RSet RFastStr) (LConst 1) = LPanic PInvalidConvert /\
  default_val_lit pf0 W_const_ref (RMap RFastStr RI32) (LConst 2) = LPanic PInvalidConvert.
Proof. exact container_const_reference_refuted. Qed.
Print Assumptions C20_container_const_reference_refuted.

Theorem C20_container_const_reference_repaired : const_inline_present = true ->
  pclass_top W_const_ref (LConst 1) (item_cty (RSet RFastStr)) = None /\
  pclass_top W_const_ref (LList [LConst 0; LList []]) (item_cty (RVec (RVec RI32))) = None /\
  default_val_lit pf0 W_const_ref (RVec RI32) (LConst 0) = LOk (GList [GI32 1; GI32 2], false) /\
  default_val_lit pf0 W_const_ref (RSet RFastStr) (LConst 1) = LOk (GSet [GBytes [x61]], false) /\
  default_val_lit pf0 W_const_ref (RBTreeSet RFastStr) (LConst 1) = LOk (GSet [GBytes [x61]], false) /\
  default_val_lit pf0 W_const_ref (RMap RFastStr RI32) (LConst 2) = LOk (GMap [(GBytes [x6b], GI32 1)], false) /\
  default_val_lit pf0 W_const_ref (RPath 0) (LConst 0) = LOk (GList [GI32 1; GI32 2], false) /\
  default_val_lit pf0 W_const_ref (RVec (RVec RI32)) (LList [LConst 0; LList []]) = LOk (GList [GList [GI32 1; GI32 2]; GList []], false).
Proof. exact container_const_reference_repaired. Qed.
Print Assumptions C20_container_const_reference_repaired.

(* the double constant `-+1.5` (class double-sign-run): accepted by the IDL grammar, not by f64::from_str *)
Theorem C20_double_sign_run_refuted : double_sign_run_ok = false ->
  well_typed_lit pf0 (mkLS [] []) TyDouble (LFloat [x2d; x2b; x31; x2e; x35]) = true /\
  default_val_lit pf0 (mkLS [] []) RF64 (LFloat [x2d; x2b; x31; x2e; x35]) = LPanic PParseFloat /\
  pclass_top (mkLS [] []) (LFloat [x2d; x2b; x31; x2e; x35]) (item_cty RF64) = Some PCFloatSigns.
Proof. exact double_sign_run_refuted. Qed.
Print Assumptions C20_double_sign_run_refuted.

Theorem C20_double_sign_run_repaired : double_sign_run_ok = true ->
  default_val_lit pf0 (mkLS [] []) RF64 (LFloat [x2d; x2b; x31; x2e; x35]) = LOk (GDouble 13832806255468478464, true) /\
  default_val_lit pf0 (mkLS [] []) (RSet ROrderedF64) (LList [LFloat [x2d; x2b; x31; x2e; x35]]) = LOk (GSet [GDouble 13832806255468478464], false) /\
  pclass_top (mkLS [] []) (LFloat [x2d; x2b; x31; x2e; x35]) (item_cty RF64) = None.
Proof. exact double_sign_run_repaired. Qed.
Print Assumptions C20_double_sign_run_repaired.

(* double-exponent-form (F-20d): the exponent of a double constant is an IDL integer constant -- a run of `-` signs, then decimal
   or 0x digits (1.5e--3, 1e0x10).  The specification gives it IntConstant's own meaning (sign parity, hexadecimal value:
   LitSpec.lit_value through Lit.exp_norm); the generator hands the text to f64::from_str and panics, unless parse_double rewrites
   the exponent first (fam/gen/patches/double-exponent.diff, flag double_exponent_ok regenerated from context.rs) *)
Theorem C20_double_exponent_refuted : double_exponent_ok = false ->
  well_typed_lit pf0 (mkLS [] []) TyDouble (LFloat [x31; x2e; x35; x65; x2d; x2d; x33]) = true /\
  default_val_lit pf0 (mkLS [] []) RF64 (LFloat [x31; x2e; x35; x65; x2d; x2d; x33]) = LPanic PParseFloat /\
  default_val_lit pf0 (mkLS [] []) RF64 (LFloat [x31; x65; x30; x78; x31; x30]) = LPanic PParseFloat /\
  pclass_top (mkLS [] []) (LFloat [x31; x2e; x35; x65; x2d; x2d; x33]) (item_cty RF64) = Some PCFloatExp /\
  pclass_top (mkLS [] []) (LFloat [x31; x65; x30; x78; x31; x30]) (item_cty RF64) = Some PCFloatExp.
Proof. exact double_exponent_refuted. Qed.
Print Assumptions C20_double_exponent_refuted.

Theorem C20_double_exponent_repaired : double_exponent_ok = true ->
  default_val_lit pf0 (mkLS [] []) RF64 (LFloat [x31; x2e; x35; x65; x2d; x2d; x33]) = LOk (GDouble 4654311885213007872, true) /\
  default_val_lit pf0 (mkLS [] []) RF64 (LFloat [x31; x65; x30; x78; x31; x30]) = LOk (GDouble 4846369599423283200, true) /\
  default_val_lit pf0 (mkLS [] []) RF64 (LFloat [x31; x45; x2d; x30; x78; x31; x30]) = LOk (GDouble 4367597403136100796, true) /\
  default_val_lit pf0 (mkLS [] []) (RSet ROrderedF64) (LList [LFloat [x2d; x31; x65; x2d; x2d; x2d; x32]]) = LOk (GSet [GDouble 13800290266158863483], false) /\
  pclass_top (mkLS [] []) (LFloat [x31; x2e; x35; x65; x2d; x2d; x33]) (item_cty RF64) = None.
Proof. exact double_exponent_repaired. Qed.
Print Assumptions C20_double_exponent_repaired.

(* ---- the classes left after F-20a..d.  Two have a proposed repair (fam/gen/patches/string-at-bytesvec.diff, map-key-rvalue.diff;
   flags string_at_bytesvec_ok / map_key_rvalue regenerated from context.rs; each pair holds in both forms, one vacuously), one
   is open whatever the flags ---- *)

(* class string-at-bytesvec (F-20e): a string default on a `binary` field with pilota.rust_type = "vec" (no (String, Vec) arm) *)
Theorem C20_string_at_bytesvec_refuted : string_at_bytesvec_ok = false ->
  well_typed_lit pf0 (mkLS [] []) (erase RBytesVec) (LString [x61]) = true /\
  default_val_lit pf0 (mkLS [] []) RBytesVec (LString [x61]) = LPanic PUnexpectedLiteral /\
  pclass_top (mkLS [] []) (LString [x61]) (item_cty RBytesVec) = Some PCNoArm.
Proof. exact string_at_bytesvec_refuted. Qed.
Print Assumptions C20_string_at_bytesvec_refuted.

Theorem C20_string_at_bytesvec_repaired : string_at_bytesvec_ok = true ->
  default_val_lit pf0 (mkLS [] []) RBytesVec (LString [x61]) = LOk (GBytes [x61], false) /\
  default_val_lit pf0 (mkLS [] []) RBytesVec (LString [x5c; x6e; x22]) = LOk (GBytes [x0a; x22], false) /\
  pclass_top (mkLS [] []) (LString [x61]) (item_cty RBytesVec) = None.
Proof. exact string_at_bytesvec_repaired. Qed.
Print Assumptions C20_string_at_bytesvec_repaired.

(* class map-key-map (F-20f): a map literal as a map KEY -- mk_map lowers keys through lit_into_ty, which has no arm for a
   map literal (map<map<i8,i8>, i8> with pilota.rust_type = "btree" is a type the emitted code compiles for: BTreeMap is Ord) *)
Theorem C20_map_key_refuted : map_key_rvalue = false ->
  well_typed_lit pf0 (mkLS [] []) (erase (RBTreeMap (RBTreeMap RI8 RI8) RI8)) (LMap [(LMap [(LInt 1, LInt 2)], LInt 3)]) = true /\
  default_val_lit pf0 (mkLS [] []) (RBTreeMap (RBTreeMap RI8 RI8) RI8) (LMap [(LMap [(LInt 1, LInt 2)], LInt 3)]) = LPanic PUnexpectedLiteral /\
  pclass_top (mkLS [] []) (LMap [(LMap [(LInt 1, LInt 2)], LInt 3)]) (item_cty (RBTreeMap (RBTreeMap RI8 RI8) RI8)) = Some PCNestedMap.
Proof. exact map_key_refuted. Qed.
Print Assumptions C20_map_key_refuted.

Theorem C20_map_key_repaired : map_key_rvalue = true ->
  default_val_lit pf0 (mkLS [] []) (RBTreeMap (RBTreeMap RI8 RI8) RI8) (LMap [(LMap [(LInt 1, LInt 2)], LInt 3)])
    = LOk (GMap [(GMap [(GI8 1, GI8 2)], GI8 3)], false) /\
  default_val_lit pf0 (mkLS [] []) (RBTreeMap (RBTreeMap RI8 RI8) RI8) (LMap [(LList [], LInt 3)]) = LOk (GMap [(GMap [], GI8 3)], false) /\
  pclass_top (mkLS [] []) (LMap [(LMap [(LInt 1, LInt 2)], LInt 3)]) (item_cty (RBTreeMap (RBTreeMap RI8 RI8) RI8)) = None.
Proof. exact map_key_repaired. Qed.
Print Assumptions C20_map_key_repaired.

(* open whatever the flags, class const-typedef-at-target (F-20g): a const of a TYPEDEF type used at the aliased type
   (`typedef i32 Count  const Count K = 1  struct S { 1: i32 x = K }`): ident_into_ty looks through the newtypes of the target,
   not of the source *)
Theorem C20_path_convert_refuted : exists parse_f64 S t l,
  well_typed_lit parse_f64 S (erase t) l = true /\ default_val_lit parse_f64 S t l = LPanic PInvalidConvert /\
  pclass_top S l (item_cty t) = Some PCPathConvert.
Proof. exists pf0, (mkLS [INewType RI32] [(RPath 0, LInt 1)]), RI32, (LConst 0). exact path_convert_refuted. Qed.
Print Assumptions C20_path_convert_refuted.

(* Default::default(): the model of ImplDefaultPlugin (Defaults.default_of) over the schema whose field defaults are the
   LOWERED literals (Lit.proj) holds, field for field, the value of the IDL default (present also when the field is
   optional), else absence / the type's empty value: exactly what the IDL alone determines (LitSpec.expected_default).
   Hypotheses: every field default of the schema is well-typed, and none is in a panic class. *)
Theorem C20_default_is_idl : forall parse_f64 S,
  class_free_schema S = true -> lits_typed parse_f64 S = true -> forall n,
  default_of (proj parse_f64 S) (TyRef n) = expected_default parse_f64 S n.
Proof. exact default_is_idl. Qed.
Print Assumptions C20_default_is_idl.

(* ... and that is not an equality of two Nones: the expected default EXISTS (and is the emitted Default value) for every type
   whose declarations have the shape for it -- decided on the declarations alone, no literal is evaluated: no chain of required
   by-value members without default deeper than the schema, no empty union, no unresolved typedef (default_shape_ok;
   LitTopP.default_exists_nonvacuous: the shape holds for the example schema and fails exactly for a required by-value cycle) *)
Theorem C20_default_exists : forall parse_f64 S,
  lits_typed parse_f64 S = true -> class_free_schema S = true -> forall n,
  default_shape_ok S (Datatypes.S (Datatypes.S (length (ls_items S)))) (TyRef n) = true ->
  exists v, expected_default parse_f64 S n = Some v /\ default_of (proj parse_f64 S) (TyRef n) = Some v.
Proof. exact default_exists. Qed.
Print Assumptions C20_default_exists.

(* an integer literal at a double: the arm's value, for every i and every schema ... *)
Theorem C20_int_at_double : forall parse_f64 S i,
  default_val_lit parse_f64 S RF64 (LInt i) = LOk (GDouble (f64_enc (z2f 53 i)), true).
Proof. exact int_at_double. Qed.
Print Assumptions C20_int_at_double.

(* ... is the double NEAREST to i: no m * 2^e with |m| < 2^53, e >= -1074 (= no finite double, subnormals included) is
   closer to i than z2f 53 i (distances scaled by 2^1074: integers only, no real numbers) ... *)
Theorem C20_int_double_nearest : forall i m e, Z.abs m < 2 ^ 53 -> -1074 <= e ->
  Z.abs (i - z2f 53 i) * 2 ^ 1074 <= Z.abs (i * 2 ^ 1074 - m * 2 ^ (e + 1074)).
Proof. exact z2f53_nearest. Qed.
Print Assumptions C20_int_double_nearest.

(* ... it is itself such a number, with a 53-bit significand ... *)
Theorem C20_int_double_representable : forall n, 0 <= n ->
  exists m e, fst (rne 53 n) * 2 ^ snd (rne 53 n) = m * 2 ^ e /\ 0 <= m < 2 ^ 53 /\ 0 <= e.
Proof. exact rne53_is_double. Qed.
Print Assumptions C20_int_double_representable.

(* ... ties go to the even significand ... *)
Theorem C20_int_double_ties_even : forall n m E, 0 <= n -> 0 <= m < 2 ^ 53 -> 0 <= E ->
  Z.abs (n - fst (rne 53 n) * 2 ^ snd (rne 53 n)) * 2 ^ 1074 = Z.abs (n * 2 ^ 1074 - m * 2 ^ E) ->
  m * 2 ^ E <> fst (rne 53 n) * 2 ^ snd (rne 53 n) * 2 ^ 1074 ->
  Z.even (fst (rne 53 n)) = true.
Proof. exact rne53_tie_even_mag. Qed.
Print Assumptions C20_int_double_ties_even.

(* ... and f64_enc is the binary64 interchange layout (sign, biased exponent, 52 fraction bits) of that number *)
Theorem C20_double_layout : forall v, v <> 0 -> Z.abs v < 2 ^ 1024 ->
  exists s e f, f64_enc v = s * 2 ^ 63 + e * 2 ^ 52 + f /\ (s = 0 \/ s = 1) /\ (s = 1 <-> v < 0) /\
                0 < e < 2047 /\ 0 <= f < 2 ^ 52 /\
                ((Z.abs v * 2 ^ 52) mod 2 ^ (e - 1023) = 0 -> (2 ^ 52 + f) * 2 ^ (e - 1023) = Z.abs v * 2 ^ 52).
Proof. exact f64_enc_layout. Qed.
Print Assumptions C20_double_layout.

(* the specification's "nearest double by its two neighbours" is the same function as the model's closed form *)
Theorem C20_int_double_spec_agrees : forall i, int_to_double i = f64_enc (z2f 53 i).
Proof. exact int_to_double_model. Qed.
Print Assumptions C20_int_double_spec_agrees.

(* ================= the last clause: encoding the Default value yields a valid message that conforms to the schema =================
   For every struct of every literal schema in the model's domain (defaults well-typed and outside the panic classes; the
   projected schema well-formed, no void container elements): the value the IDL alone determines IS the emitted Default value, is
   well-typed for the schema, and its encoding by the emitted encoder -- all three protocols, every buffer kind, any writer
   context -- is the runtime writer's output for the value's self-describing tree (each field with its declared wire type), is a
   LEGAL encoding of that tree under the protocol specifications (coq/Thrift/Spec.v: binary, compact; binary-LE is pilota's own
   variant and has no specification), is read back by the generic reader to exactly that tree and by the emitted decoder to the
   value (fill_defaults: absent optional members of NESTED struct literals come back holding their own defaults -- the
   difference C02 permits), each consuming exactly the message.  Composition of C20_default_is_idl, default values are
   well-typed (DefaultEncP.dv_typed), C02_roundtrip, C02_encode_is_write_val, C02_tree_well_typed, C03_written_is_legal, C01. *)
From PVGen Require Import ErrSpec Proofs.DefaultEncP.
From PV Require Import Proofs.SpecTreeP.
Theorem C20_default_encoding_conforms : forall parse_f64 (S : lschema),
  class_free_schema S = true -> lits_typed parse_f64 S = true ->
  wf_schema (proj parse_f64 S) = true -> elems_ok (proj parse_f64 S) = true ->
  forall n fs kp ia v, nth_error (ls_items S) n = Some (IStruct fs kp ia) -> expected_default parse_f64 S n = Some v ->
  let G := proj parse_f64 S in
  let tv := to_tval G (TyRef n) v in
  default_of G (TyRef n) = Some v /\ has_type G (TyRef n) v = true /\
  wt tv = true /\ ttype_of tv = TStruct /\
  forall p k c, w_pend c = None ->
    exists ss,
      enc_ty G p k (TyRef n) v c = Ok (ss, c) /\
      write_val p k tv c = Ok (ss, c) /\
      (p <> PBinaryLE -> legal p tv (flat ss)) /\
      (forall fuel r rcx, (vsize tv <= fuel)%nat -> idle rcx ->
         read_val p fuel TStruct (mkS (flat ss ++ r) rcx) = Ok (canon p tv, mkS r rcx)) /\
      (forall fuel r rcx, (vsize tv <= fuel)%nat -> idle rcx ->
         gen_decode G p fuel (TyRef n) (mkS (flat ss ++ r) rcx) = Ok (fill_defaults G (TyRef n) v, mkS r rcx)).
Proof. exact default_encoding_conforms. Qed.
Print Assumptions C20_default_encoding_conforms.
