"""Parser of Rust `{:?}` renderings (derived Debug of the emitted types and of the std / bytes / faststr /
ordered-float / ahash types they contain) into a generic tree:

  ('int', n) ('float', bits | 'NaN') ('bool', b) ('str', text) ('bytes', b'..') ('none',) ('some', t)
  ('seq', [t..])            [a, b]           Vec, arrays, VecDeque
  ('set', [t..])            {a, b}           hash / btree sets      ({} parses as ('map', []))
  ('map', [(k, v)..])       {k: v}           hash / btree maps
  ('struct', Name, [(field, t)..])   Name { f: t, .. }   |  ('tuple', Name, [t..])  Name(t, ..)  |  ('unit', Name)

`python3 -m pv.gendebug` runs the self-test."""
import struct


class ParseError(Exception):
    pass


def parse(s):
    p = _P(s)
    t = p.value()
    p.ws()
    if p.i != len(p.s):
        raise ParseError('trailing text at %d: %r' % (p.i, p.s[p.i:p.i + 30]))
    return t


def float_bits(text):
    if text in ('NaN', '-NaN'):
        return 'NaN'
    if text == 'inf':
        return 0x7FF0000000000000
    if text == '-inf':
        return 0xFFF0000000000000
    return struct.unpack('>Q', struct.pack('>d', float(text)))[0]


class _P:
    def __init__(self, s):
        self.s, self.i = s, 0

    def ws(self):
        while self.i < len(self.s) and self.s[self.i] in ' \n\t':
            self.i += 1

    def peek(self):
        return self.s[self.i] if self.i < len(self.s) else ''

    def expect(self, c):
        self.ws()
        if not self.s.startswith(c, self.i):
            raise ParseError('expected %r at %d: %r' % (c, self.i, self.s[self.i:self.i + 30]))
        self.i += len(c)

    def value(self):
        self.ws()
        c = self.peek()
        if c == '"':
            return ('str', self.string())
        if c == 'b' and self.s.startswith('b"', self.i):
            self.i += 1
            return ('bytes', self.bytestr())
        if c == '[':
            self.i += 1
            return ('seq', self.items(']'))
        if c == '{':
            self.i += 1
            return self.braces()
        if c == '(':
            self.i += 1
            xs = self.items(')')
            return ('unit', '()') if not xs else ('tuple', '', xs)
        if c == '-' or c.isdigit():
            return self.number()
        if c.isalpha() or c == '_':
            return self.named()
        raise ParseError('unexpected %r at %d' % (c, self.i))

    def number(self):
        j = self.i
        if self.s[j] == '-':
            j += 1
        if self.s.startswith('inf', j) or self.s.startswith('NaN', j):
            j += 3
            t = self.s[self.i:j]
            self.i = j
            return ('float', float_bits(t))
        k = j
        while k < len(self.s) and (self.s[k].isdigit() or self.s[k] in '.eE+-' and k > j):
            # a '-' or '+' is part of the number only right after an exponent marker
            if self.s[k] in '+-' and self.s[k - 1] not in 'eE':
                break
            k += 1
        t = self.s[self.i:k]
        self.i = k
        if any(ch in t for ch in '.eE'):
            return ('float', float_bits(t))
        return ('int', int(t))

    def ident(self):
        j = self.i
        while j < len(self.s) and (self.s[j].isalnum() or self.s[j] == '_'):
            j += 1
        t = self.s[self.i:j]
        self.i = j
        return t

    def named(self):
        name = self.ident()
        # paths such as a::B
        while self.s.startswith('::', self.i):
            self.i += 2
            name += '::' + self.ident()
        if name == 'true':
            return ('bool', True)
        if name == 'false':
            return ('bool', False)
        if name == 'None':
            return ('none',)
        if name == 'NaN':
            return ('float', 'NaN')
        if name == 'inf':
            return ('float', float_bits('inf'))
        save = self.i
        self.ws()
        c = self.peek()
        if c == '(':
            self.i += 1
            xs = self.items(')')
            if name == 'Some' and len(xs) == 1:
                return ('some', xs[0])
            return ('tuple', name, xs)
        if c == '{':
            self.i += 1
            fs = []
            while True:
                self.ws()
                if self.peek() == '}':
                    self.i += 1
                    break
                f = self.ident()
                if not f:
                    raise ParseError('field name expected at %d' % self.i)
                self.expect(':')
                fs.append((f, self.value()))
                self.ws()
                if self.peek() == ',':
                    self.i += 1
            return ('struct', name, fs)
        self.i = save
        return ('unit', name)

    def items(self, close):
        out = []
        while True:
            self.ws()
            if self.peek() == close:
                self.i += 1
                return out
            out.append(self.value())
            self.ws()
            if self.peek() == ',':
                self.i += 1
            elif self.peek() != close:
                raise ParseError('expected , or %s at %d: %r' % (close, self.i, self.s[self.i:self.i + 30]))

    def braces(self):
        self.ws()
        if self.peek() == '}':
            self.i += 1
            return ('map', [])
        first = self.value()
        self.ws()
        if self.peek() == ':':
            self.i += 1
            out = [(first, self.value())]
            while True:
                self.ws()
                if self.peek() == '}':
                    self.i += 1
                    return ('map', out)
                self.expect(',')
                self.ws()
                if self.peek() == '}':
                    self.i += 1
                    return ('map', out)
                k = self.value()
                self.expect(':')
                out.append((k, self.value()))
        out = [first]
        while True:
            self.ws()
            if self.peek() == '}':
                self.i += 1
                return ('set', out)
            self.expect(',')
            self.ws()
            if self.peek() == '}':
                self.i += 1
                return ('set', out)
            out.append(self.value())

    def string(self):
        """Rust str Debug: \\" \\\\ \\n \\r \\t \\0 \\' \\u{..}; everything else literal"""
        assert self.s[self.i] == '"'
        self.i += 1
        out = []
        while True:
            if self.i >= len(self.s):
                raise ParseError('unterminated string')
            c = self.s[self.i]
            if c == '"':
                self.i += 1
                return ''.join(out)
            if c == '\\':
                n = self.s[self.i + 1]
                if n == 'u':
                    j = self.s.index('}', self.i)
                    out.append(chr(int(self.s[self.i + 3:j], 16)))
                    self.i = j + 1
                    continue
                if n == 'x':
                    out.append(chr(int(self.s[self.i + 2:self.i + 4], 16)))
                    self.i += 4
                    continue
                out.append({'n': '\n', 'r': '\r', 't': '\t', '0': '\0', '\\': '\\', '"': '"', "'": "'"}[n])
                self.i += 2
                continue
            out.append(c)
            self.i += 1

    def bytestr(self):
        """bytes::Bytes Debug: b"..." with \\n \\r \\t \\\\ \\" \\0 \\xNN, printable ASCII literal"""
        assert self.s[self.i] == '"'
        self.i += 1
        out = bytearray()
        while True:
            if self.i >= len(self.s):
                raise ParseError('unterminated byte string')
            c = self.s[self.i]
            if c == '"':
                self.i += 1
                return bytes(out)
            if c == '\\':
                n = self.s[self.i + 1]
                if n == 'x':
                    out.append(int(self.s[self.i + 2:self.i + 4], 16))
                    self.i += 4
                    continue
                out.append({'n': 10, 'r': 13, 't': 9, '0': 0, '\\': 92, '"': 34, "'": 39}[n])
                self.i += 2
                continue
            o = ord(c)
            if o > 127:
                raise ParseError('non-ASCII character in byte string')
            out.append(o)
            self.i += 1


def selftest():
    cases = [
        ('S { flag: true, inner: Some(Inner { x: 7, names: Some(["a", "b"]) }), m: Some({"k": 1.5}), bin: Some(b"\\0\\xffz"), e: Some(E(2)), u: Some(B("hi")) }',
         ('struct', 'S', [('flag', ('bool', True)),
                          ('inner', ('some', ('struct', 'Inner', [('x', ('int', 7)), ('names', ('some', ('seq', [('str', 'a'), ('str', 'b')])))]))),
                          ('m', ('some', ('map', [(('str', 'k'), ('float', float_bits('1.5')))]))),
                          ('bin', ('some', ('bytes', b'\x00\xffz'))), ('e', ('some', ('tuple', 'E', [('int', 2)]))),
                          ('u', ('some', ('tuple', 'B', [('str', 'hi')])))])),
        ('{}', ('map', [])), ('{1, 2}', ('set', [('int', 1), ('int', 2)])), ('[]', ('seq', [])),
        ('{OrderedFloat(NaN): -0.0, OrderedFloat(-inf): 1e300}',
         ('map', [(('tuple', 'OrderedFloat', [('float', 'NaN')]), ('float', 1 << 63)),
                  (('tuple', 'OrderedFloat', [('float', 0xFFF0000000000000)]), ('float', float_bits('1e300')))])),
        ('"a\\"b\\\\c\\n\\u{1f600}\\u{7f}é, } ] )"', ('str', 'a"b\\c\n\U0001f600\x7fé, } ] )')),
        ('Empty', ('unit', 'Empty')), ('Ok(())', ('tuple', 'Ok', [('unit', '()')])),
        ('Pt { x: -5, y: None, _unknown_fields: LinkedBytes { list: [b"\\x08\\0\\t"], size: 3 } }',
         ('struct', 'Pt', [('x', ('int', -5)), ('y', ('none',)),
                           ('_unknown_fields', ('struct', 'LinkedBytes', [('list', ('seq', [('bytes', b'\x08\x00\t')])), ('size', ('int', 3))]))])),
        ('[0, 255]', ('seq', [('int', 0), ('int', 255)])),
        ('1.7976931348623157e308', ('float', 0x7FEFFFFFFFFFFFFF)), ('5e-324', ('float', 1)), ('-15000000000.0', ('float', float_bits('-1.5e10'))),
        ('{[1, 2]: {"a"}, []: {}}', ('map', [(('seq', [('int', 1), ('int', 2)]), ('set', [('str', 'a')])), (('seq', []), ('map', []))])),
        ('A { }', ('struct', 'A', [])), ('A {}', ('struct', 'A', [])),
    ]
    for text, want in cases:
        got = parse(text)
        assert got == want, (text, got, want)
    for bad in ['{1: }', '"abc', 'S { x 1 }', '[1 2]']:
        try:
            parse(bad)
        except (ParseError, KeyError, ValueError, IndexError):
            continue
        raise AssertionError('accepted ' + bad)
    return len(cases)


if __name__ == '__main__':
    print('gendebug self-test: %d cases ok' % selftest())
