(* C13 / C04 for values that carry retained chunks, binary protocols: size() of ANY value the emitted encoder
   accepts is the number of bytes it writes -- retained chunks count with their length, nested retention included.
   No typing of the value against the schema is needed (where the encoder would not type-check the model's encoder
   fails and the statement is void); uuids must have their 16 bytes.  Structural induction on the value, LW
   combinators of PV.Proofs.LenP. *)
From PVGen Require Import Gen GenKeep GenSpec KeepSpec Proofs.GenBase Proofs.EncP.
From PV Require Import Proofs.TablesP Proofs.PrimP Proofs.HeaderP Proofs.RoundtripP Proofs.LenP.
From Coq Require Import ZifyN ZifyNat ZifyBool.
Open Scope Z_scope.

Lemma LW_fail : LW lfail wfail.
Proof. intros c ss c' H. discriminate. Qed.

Lemma LW_ok0 (l : lm) (w : wm) : (forall c, w c = Ok ([], c)) -> (forall c, l c = Ok (0, c)) -> LW l w.
Proof. intros Hw Hl c ss c' H. rewrite Hw in H. injection H as <- <-. rewrite Hl. reflexivity. Qed.

(* ----- primitive operations of the binary protocols ----- *)
Lemma LWb_bool p b : p <> PCompact -> LW (l_bool p) (w_bool p b).
Proof. destruct p; try congruence; intros _; apply LW_ret; reflexivity. Qed.
Lemma LWb_i8 z : LW l_i8 (w_i8 z).
Proof. apply LW_ret. reflexivity. Qed.
Lemma LWb_i16 p z : p <> PCompact -> LW (l_i16 p z) (w_i16 p z).
Proof. destruct p; try congruence; intros _; apply LW_ret; cbn [fx]; rewrite ?be_bytes_length, ?le_bytes_length; reflexivity. Qed.
Lemma LWb_i32 p z : p <> PCompact -> LW (l_i32 p z) (w_i32 p z).
Proof. destruct p; try congruence; intros _; apply LW_ret; cbn [fx]; rewrite ?be_bytes_length, ?le_bytes_length; reflexivity. Qed.
Lemma LWb_i64 p z : p <> PCompact -> LW (l_i64 p z) (w_i64 p z).
Proof. destruct p; try congruence; intros _; apply LW_ret; cbn [fx]; rewrite ?be_bytes_length, ?le_bytes_length; reflexivity. Qed.
Lemma LWb_double p z : LW l_double (w_double p z).
Proof. destruct p; apply LW_ret; rewrite ?be_bytes_length, ?le_bytes_length; reflexivity. Qed.
Lemma LWb_uuid l : length l = 16%nat -> LW l_uuid (w_uuid l).
Proof. intros H. apply LW_ret. rewrite H. reflexivity. Qed.

Lemma LWb_bwl k b : LW (lret (Z.of_nat (length b))) (w_bytes_without_len k b).
Proof.
  intros c ss c' H. destruct (w_bwl_ok k b c) as (s & Hs & Hb). rewrite Hs in H. injection H as <- <-.
  unfold lret, flat. cbn [map concat]. rewrite Hb, app_nil_r. reflexivity.
Qed.

Lemma LWb_bytes p k b : p <> PCompact -> LW (l_bytes p (Z.of_nat (length b))) (w_bytes p k b).
Proof.
  intros Hb. unfold w_bytes.
  assert (E : l_bytes p (Z.of_nat (length b)) = (lret 4 +++ lret (Z.of_nat (length b)))).
  { destruct p; try congruence; reflexivity. }
  intros c ss c' H. apply wseq_inv in H as (s1 & c1 & s2 & Ha & Hw & ->).
  assert (Hl1 : c1 = c /\ length (flat s1) = 4%nat).
  { destruct p; try congruence; cbn [w_len w_i32] in Ha; unfold wret in Ha; injection Ha as <- <-;
      rewrite flat_copy; cbn [fx]; rewrite ?be_bytes_length, ?le_bytes_length; auto. }
  destruct Hl1 as [-> Hl1]. pose proof (LWb_bwl k b _ _ _ Hw) as Hl2. unfold lret in Hl2. injection Hl2 as Hl2 <-.
  assert (E2 : l_bytes p (Z.of_nat (length b)) c = Ok (4 + Z.of_nat (length b), c)) by (destruct p; try congruence; reflexivity).
  rewrite E2, flat_app, app_length. f_equal. f_equal. lia.
Qed.

Lemma LWb_struct_begin p : p <> PCompact -> LW (l_struct_begin p) (w_struct_begin p).
Proof. intros Hb. apply LW_ok0; intros c; destruct p; try congruence; reflexivity. Qed.
Lemma LWb_struct_end p : p <> PCompact -> LW (l_struct_end p) (w_struct_end p).
Proof. intros Hb. apply LW_ok0; intros c; destruct p; try congruence; reflexivity. Qed.
Lemma LWb_field_begin p ty ty' id : p <> PCompact -> LW (l_field_begin p ty id) (w_field_begin p ty' id).
Proof. destruct p; try congruence; intros _; apply LW_ret; cbn [length fx]; rewrite ?be_bytes_length, ?le_bytes_length; reflexivity. Qed.
Lemma LWb_field_end p : p <> PCompact -> LW (l_field_end p) (w_field_end p).
Proof. intros Hb. apply LW_ok0; intros c; destruct p; try congruence; reflexivity. Qed.
Lemma LWb_field_stop p : p <> PCompact -> LW (l_field_stop p) (w_field_stop p).
Proof.
  intros Hb c ss c' H. destruct p; try congruence;
    unfold w_field_stop, wseq, assert_no_pending_w, w_byte, wret in H; cbn [bind] in H; injection H as <- <-; reflexivity.
Qed.
Lemma LWb_coll_begin p et n : p <> PCompact -> LW (l_coll_begin p et n) (w_coll_begin p et n).
Proof.
  intros Hb c ss c' H. destruct p; try congruence;
    cbn [w_coll_begin] in H; unfold wseq, w_byte, w_i32, wret in H; cbn [bind] in H; injection H as <- <-;
    unfold flat; cbn [map concat seg_bytes app length fx l_coll_begin lret]; rewrite ?app_length, ?be_bytes_length, ?le_bytes_length; reflexivity.
Qed.
Lemma LWb_map_begin p kt vt n : p <> PCompact -> LW (l_map_begin p kt vt n) (w_map_begin p kt vt n).
Proof.
  intros Hb c ss c' H. destruct p; try congruence;
    cbn [w_map_begin] in H; unfold wseq, w_byte, w_i32, wret in H; cbn [bind] in H; injection H as <- <-;
    unfold flat; cbn [map concat seg_bytes app length fx l_map_begin lret]; rewrite ?app_length, ?be_bytes_length, ?le_bytes_length; reflexivity.
Qed.

Lemma LWb_unknown k unk : LW (l_unknown unk) (w_unknown k unk).
Proof.
  induction unk as [|u r IH].
  - apply LW_nop.
  - cbn [w_unknown fold_right]. unfold l_unknown. cbn [fold_right].
    change (LW (lret (Z.of_nat (length u) + fold_right (fun c a => Z.of_nat (length c) + a) 0 r))
               (w_bytes_without_len k u ;; w_unknown k r)).
    intros c ss c' H. pose proof (LW_seq _ _ _ _ (LWb_bwl k u) IH c ss c' H) as E.
    unfold lseq, lret, l_unknown in *. cbn [bind] in E. exact E.
Qed.

Section SizeBin.
  Variable S : schema.
  Variable p : pk.
  Hypothesis Hbin : p <> PCompact.
  Variable k : bk.

  Definition SZ (v : gval) : Prop := uuids_ok v = true -> forall t, LW (size_ty S p t v) (enc_ty S p k t v).

  Lemma sz_field f id x : SZ x -> uuids_ok x = true -> LW (size_field S p f id x) (enc_field S p k f id x).
  Proof.
    intros Hx Hu. unfold size_field, enc_field. destruct (is_void (resolve S (f_ty f))); [apply LW_nop|].
    apply LW_seq; [apply LW_seq; [apply LWb_field_begin; exact Hbin|apply Hx; exact Hu]|apply LWb_field_end; exact Hbin].
  Qed.

  Theorem size_keep_all v : SZ v.
  Proof.
    induction v using gval_ind'; intros Hu t.
    1-10: cbn [size_ty enc_ty]; destruct (resolve S t); try apply LW_fail.
    - apply LWb_bool; exact Hbin.
    - apply LWb_i8.
    - apply LWb_i16; exact Hbin.
    - apply LWb_i32; exact Hbin.
    - apply LWb_i64; exact Hbin.
    - apply LWb_double.
    - apply LWb_bytes; exact Hbin.
    - apply LWb_bytes; exact Hbin.
    - apply LWb_uuid. cbn [uuids_ok] in Hu. apply Nat.eqb_eq. exact Hu.
    - apply LW_seq; [apply LWb_struct_begin|apply LWb_struct_end]; exact Hbin.
    - destruct (lookup S n) as [[]|]; try apply LW_fail. apply LWb_i32; exact Hbin.
    - (* list *)
      rewrite size_ty_list, enc_ty_list. destruct (resolve S t); try apply LW_fail.
      apply LW_seq; [apply LWb_coll_begin; exact Hbin|]. cbn [uuids_ok] in Hu.
      induction l as [|x r IHr]; [apply LW_nop|]. inversion H as [|? ? Hx Hr]; subst.
      cbn [forallb] in Hu. apply andb_prop in Hu as [Hu1 Hu2].
      rewrite size_elems_cons, enc_elems_cons. apply LW_seq; [apply Hx; exact Hu1|apply IHr; auto].
    - (* set *)
      rewrite size_ty_set, enc_ty_set. destruct (resolve S t); try apply LW_fail.
      apply LW_seq; [apply LWb_coll_begin; exact Hbin|]. cbn [uuids_ok] in Hu.
      induction l as [|x r IHr]; [apply LW_nop|]. inversion H as [|? ? Hx Hr]; subst.
      cbn [forallb] in Hu. apply andb_prop in Hu as [Hu1 Hu2].
      rewrite size_elems_cons, enc_elems_cons. apply LW_seq; [apply Hx; exact Hu1|apply IHr; auto].
    - (* map *)
      rewrite size_ty_map, enc_ty_map. destruct (resolve S t); try apply LW_fail.
      apply LW_seq; [apply LWb_map_begin; exact Hbin|]. cbn [uuids_ok] in Hu.
      induction l as [|[a b] r IHr]; [apply LW_nop|]. inversion H as [|? ? [Ha Hb] Hr]; subst. cbn [fst snd] in *.
      cbn [forallb fst snd] in Hu. apply andb_prop in Hu as [Hu1 Hu2]. apply andb_prop in Hu1 as [Hua Hub].
      rewrite size_pairs_cons, enc_pairs_cons.
      apply LW_seq; [apply LW_seq; [apply Ha; exact Hua|apply Hb; exact Hub]|apply IHr; auto].
    - (* struct *)
      rewrite size_ty_struct, enc_ty_struct. destruct (resolve S t); try apply LW_fail.
      destruct (lookup S n) as [[dfs ? ?|? ? ?|?|?]|]; try apply LW_fail.
      apply LW_seq; [|apply LWb_struct_end; exact Hbin]. apply LW_seq; [|apply LWb_field_stop; exact Hbin].
      apply LW_seq; [|apply LWb_unknown]. apply LW_seq; [apply LWb_struct_begin; exact Hbin|].
      cbn [uuids_ok] in Hu.
      induction fs as [|[id x] r IHr]; [apply LW_nop|]. inversion H as [|? ? Hx Hr]; subst. cbn [snd] in Hx.
      cbn [forallb snd] in Hu. apply andb_prop in Hu as [Hu1 Hu2].
      rewrite size_fields_cons, enc_fields_cons. destruct (find_field dfs id) as [f|]; [|apply LW_fail].
      apply LW_seq; [apply sz_field; auto|apply IHr; auto].
    - (* union *)
      rewrite size_ty_union, enc_ty_union. destruct (resolve S t); try apply LW_fail.
      destruct (lookup S n) as [[? ? ?|vs ? ?|?|?]|]; try apply LW_fail.
      destruct (find_variant vs id) as [vt|]; [|apply LW_fail]. cbn [uuids_ok] in Hu.
      apply LW_seq; [|apply LWb_struct_end; exact Hbin]. apply LW_seq; [|apply LWb_field_stop; exact Hbin].
      apply LW_seq; [apply LWb_struct_begin; exact Hbin|].
      destruct (is_void (resolve S vt)); [apply LW_nop|].
      apply LW_seq; [apply LW_seq; [apply LWb_field_begin; exact Hbin|apply IHv; exact Hu]|apply LWb_field_end; exact Hbin].
    - (* _UnknownFields *)
      cbn [size_ty enc_ty]. destruct (resolve S t); try apply LW_fail.
      destruct (lookup S n) as [[? ? ?|vs ? [|]|?|?]|]; try apply LW_fail.
      apply LW_seq; [|apply LWb_struct_end; exact Hbin]. apply LW_seq; [|apply LWb_field_stop; exact Hbin].
      apply LW_seq; [apply LWb_struct_begin; exact Hbin|apply LWb_bwl].
  Qed.
End SizeBin.

Theorem keep_size_exact : forall S p k t v b,
  p <> PCompact -> uuids_ok v = true ->
  gen_encode S p k t v = Ok b -> gen_size S p t v = Ok (Z.of_nat (length b)).
Proof.
  intros S p k t v b Hb Hu He. unfold gen_encode in He. unfold gen_size.
  destruct (enc_ty S p k t v w0) as [[ss c']| |] eqn:E; cbn [bind] in He; try discriminate. injection He as <-.
  rewrite (size_keep_all S p Hb k v Hu t w0 ss c' E). reflexivity.
Qed.
