(* C13, encode side and the finding: layout of a re-encoded struct (known fields, then the retained chunks byte for
   byte, then the stop byte), every retained chunk is a contiguous slice of the message, the refutation witness of
   finding F-13a (a type that is both keep and is_arg swallows the rest of the buffer). *)
From PVGen Require Import Gen GenKeep GenSpec EvoSpec KeepSpec Proofs.GenBase Proofs.EncP Proofs.EvoBase Proofs.KeepBase Proofs.KeepP Proofs.KeepArgP.
From PV Require Import Proofs.TablesP Proofs.PrimP Proofs.HeaderP Proofs.RoundtripP Proofs.LenP.
From Coq Require Import ZifyN ZifyNat ZifyBool.
Open Scope Z_scope.

(* ---------- re-encoding: known fields, retained chunks, stop ---------- *)
Lemma w_unknown_flat k unk : forall c ss c', w_unknown k unk c = Ok (ss, c') -> c' = c /\ flat ss = concat unk.
Proof.
  induction unk as [|u r IH]; intros c ss c' H.
  - unfold w_unknown in H. cbn [fold_right] in H. unfold wnop in H. injection H as <- <-. auto.
  - change (w_unknown k (u :: r)) with (w_bytes_without_len k u ;; w_unknown k r) in H.
    apply wseq_inv in H as (s1 & c1 & s2 & Ha & Hb & ->).
    destruct (w_bwl_ok k u c) as (sg & Hs & Hbytes). rewrite Hs in Ha. injection Ha as <- <-.
    destruct (IH _ _ _ Hb) as [-> E]. split; [reflexivity|].
    rewrite flat_app, E. unfold flat. cbn [map concat]. rewrite Hbytes, app_nil_r. reflexivity.
Qed.

Theorem keep_encode_layout : forall S p k t n dfs kp ia fs unk c ss c',
  p <> PCompact -> resolve S t = TyRef n -> lookup S n = Some (DStruct dfs kp ia) ->
  enc_ty S p k t (GStruct fs unk) c = Ok (ss, c') ->
  exists sf c2, enc_fields S p k dfs fs c = Ok (sf, c2) /\ flat ss = flat sf ++ concat unk ++ [x00].
Proof.
  intros S p k t n dfs kp ia fs unk c ss c' Hb Hr Hl H.
  rewrite enc_ty_struct, Hr, Hl in H.
  apply wseq_inv in H as (s1 & c1 & s5 & H & H5 & ->).
  apply wseq_inv in H as (s2 & c2 & s4 & H & H4 & ->).
  apply wseq_inv in H as (s3 & c3 & su & H & Hu & ->).
  apply wseq_inv in H as (s0 & c0 & sf & H0 & Hf & ->).
  rewrite (bin_struct_begin_w p c Hb) in H0. injection H0 as <- <-.
  destruct (w_unknown_flat _ _ _ _ _ Hu) as [-> Eu].
  exists sf, c3. split; [exact Hf|].
  assert (E4 : flat s4 = [x00]).
  { destruct p; try congruence; unfold w_field_stop, wseq, assert_no_pending_w, w_byte, wret in H4; cbn [bind] in H4;
      injection H4 as <- _; reflexivity. }
  assert (E5 : flat s5 = []).
  { destruct p; try congruence; cbn [w_struct_end] in H5; injection H5 as <- _; reflexivity. }
  rewrite !flat_app, Eu, E4, E5. cbn [flat map concat app]. rewrite app_nil_r, <- !app_assoc. reflexivity.
Qed.

(* ---------- every retained chunk of the top-level struct is a contiguous slice of the message ---------- *)
Lemma write_fields_slice p k c : p <> PCompact -> w_pend c = None ->
  forall fs ss, wtf fs = true -> write_fields p k fs c = Ok (ss, c) ->
  forall id x, In (id, x) fs -> exists a b, flat ss = a ++ fbytes p k c id x ++ b.
Proof.
  intros Hb Hc. induction fs as [|[i y] t IH]; intros ss Hwt Hw id x Hin; [destruct Hin|].
  cbn [wtf] in Hwt. apply andb_prop in Hwt as [Hwt Hwr]. apply andb_prop in Hwt as [Hid Hwy].
  change (write_fields p k ((i, y) :: t)) with
    (w_field_begin p (ttype_of y) i ;; write_val p k y ;; w_field_end p ;; write_fields p k t) in Hw.
  apply wseq_inv in Hw as (s1 & c1 & s2 & Ha & Hbk & ->).
  assert (Ec1 : c1 = c).
  { apply wseq_inv in Ha as (sa & ca & sb & Ha1 & Ha2 & _). apply wseq_inv in Ha1 as (sh & ch & sv & Hh & Hv & _).
    rewrite (bin_field_begin_w p _ _ _ Hb) in Hh. injection Hh as _ <-.
    destruct (roundtrip_val p k y Hwy c Hc) as (ss' & Hw' & _). rewrite Hv in Hw'. injection Hw' as _ ->.
    rewrite (w_field_end_ok p c Hc) in Ha2. injection Ha2 as _ <-. reflexivity. }
  subst c1. rewrite flat_app. destruct Hin as [E|Hin].
  - injection E as -> ->. exists [], (flat s2). cbn [app]. unfold fbytes. rewrite Ha. reflexivity.
  - destruct (IH s2 Hwr Hbk id x Hin) as (a & b & ->). exists (flat s1 ++ a), b. rewrite <- !app_assoc. reflexivity.
Qed.

(* ---------- finding F-13a: keep + is_arg ---------- *)
(* struct Req { 1: required i32 a }   -- a method argument type, hence in pilota-build's `args` set
   struct Holder { 1: optional Req r; 2: optional i32 after }
   Once the one known field of Req is read the template takes `remaining - 2` bytes of the WHOLE buffer: the stop byte
   of Req, the sibling field `after` and the stop byte of Holder are swallowed. *)
Definition Sarg : schema :=
  [ DStruct [mkField 1 Required TyI32 None] true true;
    DStruct [mkField 1 Optional (TyRef 0) None; mkField 2 Optional TyI32 None] true false ].
Definition tvarg : tval := VStruct [(1, VStruct [(1, VI32 1)]); (2, VI32 2)].

Theorem keep_is_arg_refuted :
  exists S p k T tv ss,
    wf_schema S = true /\ arg_free S T tv = false /\ wt tv = true /\ ttype_of tv = ttype_of_ty S T /\
    evo_dom S T tv = true /\ no_retyped_variant S T tv = true /\
    write_val p k tv w0 = Ok (ss, w0) /\
    viewk S p k w0 T tv = Ok (GStruct [(1, GStruct [(1, GI32 1)] []); (2, GI32 2)] []) /\
    gen_decode_keep S p 40 T (mkS (flat ss) r0) = Err EInvalidData.
Proof.
  exists Sarg, PBinary, BContig, (TyRef 1), tvarg. eexists.
  split; [vm_compute; reflexivity|]. split; [vm_compute; reflexivity|]. split; [vm_compute; reflexivity|].
  split; [vm_compute; reflexivity|]. split; [vm_compute; reflexivity|]. split; [vm_compute; reflexivity|].
  split; [vm_compute; reflexivity|]. split; vm_compute; reflexivity.
Qed.

(* ---------- non-vacuity of keep_decode ---------- *)
(* reader (keep): struct Top { 1: required i32 a; 3: optional Sub s }   struct Sub { 1: optional bool b }
   union U { 1: i64 n }  (field 5 of Top) *)
Definition Rk : schema :=
  [ DStruct [mkField 1 Required TyI32 None; mkField 3 Optional (TyRef 1) None; mkField 5 Optional (TyRef 2) None] true false;
    DStruct [mkField 1 Optional TyBool None] true false;
    DUnion [(1, TyI64)] false true ].
Definition tvk : tval :=
  VStruct [ (9, VBinary [x61; x62]); (1, VI32 7);
            (3, VStruct [(1, VBool true); (8, VDouble 0)]);
            (5, VStruct [(4, VList TI8 [VI8 1])]);
            (2, VI64 5) ].

Example keep_decode_nonvacuous :
  wf_schema Rk = true /\ arg_free Rk (TyRef 0) tvk = true /\ wt tvk = true /\
  evo_dom Rk (TyRef 0) tvk = true /\ no_retyped_variant Rk (TyRef 0) tvk = true /\
  viewk Rk PBinary BContig w0 (TyRef 0) tvk =
    Ok (GStruct [(1, GI32 7);
                 (3, GStruct [(1, GBool true)] [[x04; x00; x08; x00; x00; x00; x00; x00; x00; x00; x00]]);
                 (5, GUnionUnknown [x0f; x00; x04; x03; x00; x00; x00; x01; x01])]
                [[x0b; x00; x09; x00; x00; x00; x02; x61; x62]; [x0a; x00; x02; x00; x00; x00; x00; x00; x00; x00; x05]]) /\
  forall p, p <> PCompact -> exists ss, write_val p BContig tvk w0 = Ok (ss, w0) /\
    gen_decode_keep Rk p 40 (TyRef 0) (mkS (flat ss ++ [xff]) r0)
    = lift_view (viewk Rk p BContig w0 (TyRef 0) tvk) (mkS [xff] r0).
Proof.
  split; [vm_compute; reflexivity|]. split; [vm_compute; reflexivity|]. split; [vm_compute; reflexivity|].
  split; [vm_compute; reflexivity|]. split; [vm_compute; reflexivity|]. split; [vm_compute; reflexivity|].
  intros p Hp.
  destruct (keep_decode Rk p BContig (TyRef 0) tvk Hp eq_refl eq_refl eq_refl eq_refl eq_refl w0 eq_refl) as (ss & Hw & Hr).
  exists ss. split; [exact Hw|]. apply Hr; [vm_compute; lia|apply idle_r0].
Qed.

(* the message-level slice statement *)
Theorem keep_chunk_slice : forall p k c fs ss id x,
  p <> PCompact -> w_pend c = None -> wt (VStruct fs) = true ->
  write_val p k (VStruct fs) c = Ok (ss, c) -> In (id, x) fs ->
  exists a b, flat ss = a ++ fbytes p k c id x ++ b.
Proof.
  intros p k c fs ss id x Hb Hc Hwt Hw Hin. rewrite wt_struct in Hwt.
  change (write_val p k (VStruct fs)) with (w_struct_begin p ;; write_fields p k fs ;; w_field_stop p ;; w_struct_end p) in Hw.
  apply wseq_inv in Hw as (s1 & c1 & s5 & H & H5 & ->).
  apply wseq_inv in H as (s2 & c2 & s4 & H & H4 & ->).
  apply wseq_inv in H as (s0 & c0 & sf & H0 & Hf & ->).
  rewrite (bin_struct_begin_w p c Hb) in H0. injection H0 as <- <-.
  assert (Ec2 : c2 = c).
  { destruct (roundtrip_val p k (VStruct fs) ltac:(rewrite wt_struct; exact Hwt) c Hc) as (ss' & Hw' & _).
    change (write_val p k (VStruct fs)) with (w_struct_begin p ;; write_fields p k fs ;; w_field_stop p ;; w_struct_end p) in Hw'.
    apply wseq_inv in Hw' as (t1 & d1 & t5 & Hw' & _ & _). apply wseq_inv in Hw' as (t2 & d2 & t4 & Hw' & G4 & _).
    apply wseq_inv in Hw' as (t0 & d0 & tf & G0 & Gf & _).
    rewrite (bin_struct_begin_w p c Hb) in G0. injection G0 as _ <-. rewrite Hf in Gf. injection Gf as _ <-.
    destruct p; try congruence; unfold w_field_stop, wseq, assert_no_pending_w in G4;
      destruct (w_pend c2) eqn:Ep; cbn [bind] in G4; try discriminate.
    all: clear -H4 H5; unfold w_field_stop, wseq, assert_no_pending_w, w_byte, wret in H4; cbn [bind] in H4;
         injection H4 as _ <-; cbn [w_struct_end] in H5; injection H5 as _ <-; reflexivity. }
  subst c2.
  destruct (write_fields_slice p k c Hb Hc fs sf Hwt Hf id x Hin) as (a & b & E).
  exists a, (b ++ flat s4 ++ flat s5). cbn [app]. rewrite !flat_app, E, <- !app_assoc. reflexivity.
Qed.

(* ---------- a schema WITH a service: the argument struct is keep + is_arg, the other types are in the domain ----------
   struct Req { 1: required i64 id }                       -- method argument: keep, is_arg
   struct Top { 1: required i32 a; 3: optional Sub s }     -- keeps, does not reach Req
   struct Sub { 1: optional bool b }
   struct ArgsRecv { 1: optional Req req }                 -- synthesised, never keeps: reaches Req *)
Definition Rsvc : schema :=
  [ DStruct [mkField 1 Required TyI64 None] true true;
    DStruct [mkField 1 Required TyI32 None; mkField 3 Optional (TyRef 2) None] true false;
    DStruct [mkField 1 Optional TyBool None] true false;
    DStruct [mkField 1 Optional (TyRef 0) None] false false ].
Definition tvsvc : tval :=
  VStruct [ (9, VBinary [x61; x62]); (1, VI32 7); (3, VStruct [(1, VBool true); (8, VDouble 0)]); (2, VI64 5) ].

Example keep_decode_service_nonvacuous :
  wf_schema Rsvc = true /\ no_keep_arg Rsvc = false /\
  arg_free Rsvc (TyRef 1) tvsvc = true /\ wt tvsvc = true /\
  evo_dom Rsvc (TyRef 1) tvsvc = true /\ no_retyped_variant Rsvc (TyRef 1) tvsvc = true /\
  (forall v, arg_free Rsvc (TyRef 1) v = true) /\
  forall p, p <> PCompact -> exists ss g, write_val p BContig tvsvc w0 = Ok (ss, w0) /\
    viewk Rsvc p BContig w0 (TyRef 1) tvsvc = Ok g /\ chunks_of g <> [] /\
    gen_decode_keep Rsvc p 40 (TyRef 1) (mkS (flat ss ++ [xff]) r0) = Ok (g, mkS [xff] r0).
Proof.
  split; [vm_compute; reflexivity|]. split; [vm_compute; reflexivity|]. split; [vm_compute; reflexivity|].
  split; [vm_compute; reflexivity|]. split; [vm_compute; reflexivity|]. split; [vm_compute; reflexivity|]. split.
  { (* type level: nothing reachable from Top is keep + is_arg *)
    intros v. apply KeepArgP.reach_arg_free.
    apply (KeepArgP.nkar_invariant Rsvc (fun t => t = TyRef 1 \/ t = TyI32 \/ t = TyRef 2 \/ t = TyBool)); [auto| |].
    - intros t u Ht Hs.
      destruct Ht as [-> | [-> | [-> | ->]]]; inversion Hs; subst;
        repeat match goal with
        | H : resolve Rsvc _ = _ |- _ => vm_compute in H; first [discriminate H | injection H as <-]
        | H : lookup Rsvc _ = _ |- _ => vm_compute in H; first [discriminate H | injection H as <- <- <-]
        | H : In _ _ |- _ => cbn [In] in H; decompose [or] H; clear H; subst; try contradiction
        end; cbn [f_ty]; auto.
    - intros t n dfs ia Ht Er El.
      destruct Ht as [-> | [-> | [-> | ->]]]; vm_compute in Er; try discriminate Er; injection Er as <-;
        vm_compute in El; try discriminate El; injection El as _ <-; reflexivity. }
  intros p Hp.
  destruct (keep_decode Rsvc p BContig (TyRef 1) tvsvc Hp eq_refl eq_refl eq_refl eq_refl eq_refl w0 eq_refl) as (ss & Hw & Hr).
  assert (Hv : exists g, viewk Rsvc p BContig w0 (TyRef 1) tvsvc = Ok g /\ chunks_of g <> []).
  { destruct p; try congruence; eexists; (split; [vm_compute; reflexivity|cbn; discriminate]). }
  destruct Hv as (g & Hv & Hc).
  exists ss, g. split; [exact Hw|]. split; [exact Hv|]. split; [exact Hc|].
  rewrite (Hr 40%nat [xff] r0 ltac:(vm_compute; lia) idle_r0), Hv. reflexivity.
Qed.

(* ---------- outside unions_single: a keeping union whose only field is a variant the reader does not know ----------
   The keep build returns `_UnknownFields` (and re-emits the field), the plain build reports an empty union: the one place
   where retention is visible in the decode OUTCOME.  By design of the `_UnknownFields` variant, and no known field is
   involved; pinned here so that the restriction of C13_known_unchanged is exact. *)
Theorem keep_unknown_variant_refuted :
  exists S p k T tv ss,
    wf_schema S = true /\ arg_free S T tv = true /\ wt tv = true /\ ttype_of tv = ttype_of_ty S T /\
    evo_dom S T tv = true /\ no_retyped_variant S T tv = true /\ unions_single S T tv = false /\
    write_val p k tv w0 = Ok (ss, w0) /\
    gen_decode_keep S p 40 T (mkS (flat ss) r0) = Ok (GUnionUnknown [x0f; x00; x04; x03; x00; x00; x00; x01; x01], mkS [] r0) /\
    gen_decode S p 40 T (mkS (flat ss) r0) = Err EInvalidData.
Proof.
  exists Rk, PBinary, BContig, (TyRef 2), (VStruct [(4, VList TI8 [VI8 1])]). eexists.
  split; [vm_compute; reflexivity|]. split; [vm_compute; reflexivity|]. split; [vm_compute; reflexivity|].
  split; [vm_compute; reflexivity|]. split; [vm_compute; reflexivity|]. split; [vm_compute; reflexivity|].
  split; [vm_compute; reflexivity|]. split; [vm_compute; reflexivity|]. split; [vm_compute; reflexivity|].
  vm_compute. reflexivity.
Qed.
