(* BoxCycle.v -- executable model of TypeGraph + BoxedPlugin (C14).

   Modelled code:
     pilota-build/src/middle/type_graph.rs  TypeGraph::from_items, is_nested
     pilota-build/src/plugin/mod.rs         BoxedPlugin::on_item (lines 168-184)
     pilota-build/src/codegen/mod.rs        write_struct: `if adjust.boxed() { ty = Box<ty> }`
   A type is laid out "by value" inside another through: a message field whose type is directly a path
   (`ty::Path`, optional or not -- Option<T> holds T by value), an enum/union variant payload that is
   directly a path, a newtype of a path.  Vec / Set / Map / Arc are indirections and are not edges
   (TypeGraph only looks at `ty::Path` at the top of the type).  petgraph's has_path_connecting is
   modelled as reflexive-transitive reachability.  No proofs here. *)
From Coq Require Import List Bool Arith.
Import ListNotations.

Inductive fty := TPath (d : nat) | TOther.

Inductive item :=
| IMsg (fields : list fty)              (* struct / exception / protobuf message *)
| IEnum (variants : list (list fty))    (* enum, union, oneof: payload types per variant *)
| INewType (t : fty)                    (* typedef *)
| IOther.                               (* service, const, mod: no edges *)

Definition graph := list (nat * item).  (* DefId -> item *)

Fixpoint paths (l : list fty) : list nat :=
  match l with [] => [] | TPath d :: r => d :: paths r | TOther :: r => paths r end.

Definition item_targets (it : item) : list nat :=
  match it with
  | IMsg fs => paths fs
  | IEnum vs => paths (concat vs)
  | INewType t => paths [t]
  | IOther => []
  end.

Definition edges_of (targets : nat -> item -> list nat) (g : graph) : list (nat * nat) :=
  flat_map (fun di => map (pair (fst di)) (targets (fst di) (snd di))) g.

(* TypeGraph::from_items *)
Definition edges (g : graph) : list (nat * nat) := edges_of (fun _ it => item_targets it) g.

(* has_path_connecting(a, b): depth-first search; the out-edges of a node are dropped once it has been
   expanded (a simple path never leaves the same node twice), so |E| + 1 levels always suffice *)
Definition succs (E : list (nat * nat)) (a : nat) : list nat :=
  map snd (filter (fun e => fst e =? a) E).
Definition drop_from (E : list (nat * nat)) (a : nat) : list (nat * nat) :=
  filter (fun e => negb (fst e =? a)) E.

Fixpoint dfs (fuel : nat) (E : list (nat * nat)) (a b : nat) : bool :=
  match fuel with
  | 0 => false
  | S f => (a =? b) || existsb (fun c => dfs f (drop_from E a) c b) (succs E a)
  end.

Definition reachb (E : list (nat * nat)) (a b : nat) : bool := dfs (S (length E)) E a b.

(* TypeGraph::is_nested(a, b) *)
Definition is_nested (g : graph) (a b : nat) : bool := reachb (edges g) a b.

(* BoxedPlugin: field f of message `owner` gets Box iff its type is a path that reaches the owner *)
Definition boxed (g : graph) (owner : nat) (t : fty) : bool :=
  match t with TPath d => is_nested g d owner | TOther => false end.

(* what is still held by value after boxing *)
Definition residual_targets (g : graph) (d : nat) (it : item) : list nat :=
  match it with
  | IMsg fs => paths (filter (fun t => negb (boxed g d t)) fs)
  | _ => item_targets it
  end.
Definition residual_edges (g : graph) : list (nat * nat) := edges_of (residual_targets g) g.

(* by-value edges that do not start at a message field (never boxed) *)
Definition nonstruct_targets (it : item) : list nat :=
  match it with IMsg _ => [] | _ => item_targets it end.
Definition nonstruct_edges (g : graph) : list (nat * nat) := edges_of (fun _ it => nonstruct_targets it) g.

(* is there a by-value cycle made of union variants / typedefs only?  (decides the hypothesis of box_acyclic) *)
Definition cyclic_b (E : list (nat * nat)) (nodes : list nat) : bool :=
  existsb (fun a => existsb (fun c => reachb E c a) (succs E a)) nodes.
Definition union_cycle_b (g : graph) : bool := cyclic_b (nonstruct_edges g) (map fst g).

(* decision list for the correspondence: (owner, field index, boxed?) for every path-typed message field *)
Fixpoint box_fields (g : graph) (owner : nat) (i : nat) (fs : list fty) : list (nat * nat * bool) :=
  match fs with
  | [] => []
  | TPath d :: r => (owner, i, is_nested g d owner) :: box_fields g owner (S i) r
  | TOther :: r => box_fields g owner (S i) r
  end.
Definition box_decisions (g : graph) : list (nat * nat * bool) :=
  flat_map (fun di => match snd di with IMsg fs => box_fields g (fst di) 0 fs | _ => [] end) g.

(* specification side *)
Inductive reach (E : list (nat * nat)) : nat -> nat -> Prop :=
| reach_refl a : reach E a a
| reach_step a c b : In (a, c) E -> reach E c b -> reach E a b.

Definition on_cycle (E : list (nat * nat)) (a : nat) : Prop := exists c, In (a, c) E /\ reach E c a.

(* rustc accepts the layout iff the by-value graph is acyclic (E0072 otherwise) *)
Definition finite_size (g : graph) : Prop := forall a, ~ on_cycle (residual_edges g) a.
