(* The model artefact PIllTyped (a value whose constructor does not fit the schema reaching a model function)
   is unreachable: for a well-formed schema, Message::merge_field keeps message values in the shape of their
   descriptor (struct fields pair up; repeated fields are vectors, maps are maps, message-typed fields hold
   messages), Default::default() has that shape, and on such values no model function answers PIllTyped. *)
From PVPb Require Import Msg Proofs.BitsP Proofs.VarintP Proofs.WireP Proofs.CastP Proofs.CodecP Proofs.TotalP.
From Coq Require Import ZifyN ZifyNat ZifyBool.
Open Scope Z_scope.

(* what the shape says about a scalar: a declared `string` (modules faststr / string) holds valid UTF-8 *)
Definition scalar_shape (p : proto_type) (x : val) : Prop :=
  match scalar_module p with
  | Some MFastStr | Some MString => utf8_valid (vbytes x) = true
  | _ => True
  end.

Section Shape.
  Variable sc : schema.

  Inductive shaped : nat -> val -> Prop :=
  | Shaped i fs xs : nth_error sc i = Some fs -> shaped_fields fs xs -> shaped i (VL NMsg xs)
  with shaped_fields : list field -> list val -> Prop :=
  | SFnil_l xs : shaped_fields [] xs
  | SFnil_r fs : shaped_fields fs []
  | SFcons f x fs xs : shaped_field f x -> shaped_fields fs xs -> shaped_fields (f :: fs) (x :: xs)
  with shaped_field : field -> val -> Prop :=
  | SFsing t ty x : shaped_ty ty x -> shaped_field (FSingular t ty) x
  | SFopt_some t ty v : shaped_ty ty v -> shaped_field (FOptional t ty) (VL NSome [v])
  | SFopt_other t ty x : (forall v, x <> VL NSome [v]) -> shaped_field (FOptional t ty) x
  | SFrep t ty l : shaped_field (FRepeated t ty) (VL NRep l)
  | SFmap t k vt l : shaped_field (FMap t k vt) (VL NMap l)
  | SFoneof ms x : (forall j v tag ty, x = VL (NOne j) [v] -> find_member ms tag 0 = Some (j, ty) -> shaped_ty ty v) ->
                   shaped_field (FOneof ms) x
  with shaped_ty : ty -> val -> Prop :=
  | STscalar p x : scalar_shape p x -> shaped_ty (TScalar p) x
  | STmsg j x : shaped j x -> shaped_ty (TMsg j) x.
End Shape.

(* ------------------------------------------------------------------ "not ill-typed" outcomes *)
Definition nit {A} (P : A -> Prop) (r : out A) : Prop :=
  match r with OOk v _ => P v | OErr e _ => e <> PIllTyped | OPanic _ => True end.

Definition any {A} (_ : A) : Prop := True.

Lemma nit_bind {A B} (P : A -> Prop) (Q : B -> Prop) (m : M A) (f : A -> M B) s :
  nit P (m s) -> (forall a s', P a -> nit Q (f a s')) -> nit Q (bind m f s).
Proof. unfold bind. destruct (m s) as [a s'|e s'|p]; cbn; auto. Qed.

Lemma nit_ret {A} (P : A -> Prop) a s : P a -> nit P (ret a s).
Proof. cbn. auto. Qed.

Lemma nit_fail {A} (P : A -> Prop) e s : e <> PIllTyped -> nit P (@fail A e s).
Proof. cbn. auto. Qed.

Lemma nit_any {A} (r : out A) : (forall e s, r <> OErr e s \/ e <> PIllTyped) -> nit any r.
Proof. intros H. destruct r as [a s|e s|p]; cbn; unfold any; auto. destruct (H e s); congruence. Qed.

Lemma nit_weaken {A} (P Q : A -> Prop) r : (forall a, P a -> Q a) -> nit P r -> nit Q r.
Proof. destruct r; cbn; auto. Qed.

Lemma nit_decode_varint s : nit any (decode_varint s).
Proof. destruct (decode_varint_cases s) as [(v & s' & E)|E]; rewrite E; cbn; unfold any; auto. discriminate. Qed.

Lemma nit_decode_key s : nit any (decode_key s).
Proof.
  unfold decode_key. eapply nit_bind; [apply nit_decode_varint|]. intros key s' _.
  destruct (_ <? _); [apply nit_fail; discriminate|]. destruct (wire_type_of_code _); [|apply nit_fail; discriminate].
  destruct (_ <? _); [apply nit_fail; discriminate|apply nit_ret; exact I].
Qed.

Lemma nit_check e a s : nit any (check_wire_type e a s).
Proof. unfold check_wire_type. destruct (wire_type_eqb e a); [apply nit_ret; exact I|apply nit_fail; discriminate]. Qed.

Lemma nit_limit c s : nit any (limit_reached c s).
Proof. unfold limit_reached. destruct (c =? 0); [apply nit_fail; discriminate|apply nit_ret; exact I]. Qed.

Lemma nit_enter c s : nit any (enter_recursion c s).
Proof. unfold enter_recursion. destruct (c <? 1); [exact I|apply nit_ret; exact I]. Qed.

Lemma nit_remaining s : nit any (remaining s).
Proof. exact I. Qed.

Lemma nit_charge n s : nit any (charge n s).
Proof. exact I. Qed.

Lemma nit_take n s : nit any (take_bytes n s).
Proof. unfold take_bytes. destruct (Nat.ltb _ _); exact I. Qed.

Lemma nit_advance n s : nit any (advance n s).
Proof. unfold advance. destruct (Nat.ltb _ _); exact I. Qed.

Lemma nit_while {T} (P : T -> Prop) (body : T -> M T) limit :
  (forall v s, P v -> nit P (body v s)) -> forall f v s, P v -> nit P (while_remaining f limit body v s).
Proof.
  intros Hb. induction f as [|f IH]; intros v s Hv; cbn [while_remaining];
    (destruct (Nat.ltb limit (length (rb s))); [|apply nit_ret; exact Hv]).
  - cbn. discriminate.
  - eapply nit_bind; [apply Hb; exact Hv|]. intros v' s' Hv'. apply IH; exact Hv'.
Qed.

Lemma nit_merge_loop {T} (P : T -> Prop) (body : T -> M T) v s :
  (forall v s, P v -> nit P (body v s)) -> P v -> nit P (merge_loop body v s).
Proof.
  intros Hb Hv. unfold merge_loop. eapply nit_bind; [apply nit_decode_varint|]. intros len s1 _.
  eapply nit_bind; [apply nit_remaining|]. intros rem s2 _.
  destruct (_ <? _); [apply nit_fail; discriminate|].
  eapply nit_bind with (P := P).
  - unfold while_rem. eapply nit_bind; [apply nit_remaining|]. intros r s3 _. apply nit_while; auto.
  - intros v' s3 Hv'. eapply nit_bind; [apply nit_remaining|]. intros r s4 _.
    destruct (Nat.eqb _ _); [apply nit_ret; exact Hv'|apply nit_fail; discriminate].
Qed.

Lemma nit_group_loop_f {T} (P : T -> Prop) (body : T -> Z -> wire_type -> M T) tag :
  (forall v t w s, P v -> nit P (body v t w s)) -> forall f v s, P v -> nit P (group_loop_f f tag body v s).
Proof.
  intros Hb. induction f as [|f IH]; intros v s Hv; cbn [group_loop_f]; [apply nit_fail; discriminate|].
  eapply nit_bind; [apply nit_decode_key|]. intros [ftag fwt] s1 _.
  assert (Hgo : nit P (bind (body v ftag fwt) (fun v' => group_loop_f f tag body v') s1)).
  { eapply nit_bind; [apply Hb; exact Hv|]. intros v' s2 Hv'. apply IH; exact Hv'. }
  destruct fwt; try exact Hgo. destruct (ftag =? tag); [apply nit_ret; exact Hv|apply nit_fail; discriminate].
Qed.

Lemma nit_skip_field : forall d wt tag ctx s, nit any (skip_field d wt tag ctx s).
Proof.
  induction d as [|d IH]; intros wt tag ctx s; cbn [skip_field]; [apply nit_fail; discriminate|].
  eapply nit_bind; [apply nit_limit|]. intros _ s1 _.
  eapply nit_bind with (P := any).
  - destruct wt; try (apply nit_ret; exact I).
    + eapply nit_bind; [apply nit_decode_varint|]. intros; apply nit_ret; exact I.
    + apply nit_decode_varint.
    + eapply nit_bind with (P := any); [|intros; apply nit_ret; exact I].
      unfold group_loop. eapply nit_bind; [apply nit_remaining|]. intros rem s2 _.
      apply nit_group_loop_f; [|exact I]. intros [] t w s3 _.
      eapply nit_bind; [apply nit_enter|]. intros c s4 _. apply IH.
    + apply nit_fail; discriminate.
  - intros len s2 _. eapply nit_bind; [apply nit_remaining|]. intros rem s3 _.
    destruct (_ <? _); [apply nit_fail; discriminate|apply nit_advance].
Qed.

Lemma nit_len_tail wt s :
  nit any (bind (check_wire_type LengthDelimited wt) (fun _ =>
           bind decode_varint (fun len => bind remaining (fun rem =>
             if Z.of_nat rem <? len then fail PUnderflow else
             bind (charge len) (fun _ => bind (take_bytes (Z.to_nat len)) (fun bs => ret (VB bs)))))) s).
Proof.
  eapply nit_bind; [apply nit_check|]. intros _ s1 _. eapply nit_bind; [apply nit_decode_varint|]. intros len s2 _.
  eapply nit_bind; [apply nit_remaining|]. intros rem s3 _. destruct (_ <? _); [apply nit_fail; discriminate|].
  eapply nit_bind; [apply nit_charge|]. intros _ s4 _. eapply nit_bind; [apply nit_take|]. intros; apply nit_ret; exact I.
Qed.

Lemma nit_merge_scalar m wt s : scalar_mod m = true -> nit any (merge_scalar m wt s).
Proof.
  intros Hs. unfold merge_scalar. destruct (is_varint_mod m) eqn:Ev.
  - eapply nit_bind; [apply nit_check|]. intros _ s1 _. unfold merge_varint_value.
    eapply nit_bind; [apply nit_decode_varint|]. intros; apply nit_ret; exact I.
  - destruct (fixed_of m) as [[[t w] fwt]|] eqn:Ef.
    + eapply nit_bind; [apply nit_check|]. intros _ s1 _. unfold merge_fixed_value.
      eapply nit_bind; [apply nit_remaining|]. intros rem s2 _. destruct (_ <? _); [apply nit_fail; discriminate|].
      eapply nit_bind; [apply nit_take|]. intros; apply nit_ret; exact I.
    + unfold scalar_mod, is_fixed_mod in Hs. rewrite Ev, Ef in Hs. cbn [orb] in Hs.
      destruct m; try discriminate Hs.
      * unfold string_merge. eapply nit_bind; [apply nit_len_tail|]. intros v s1 _.
        destruct (utf8_valid _); [apply nit_ret; exact I|apply nit_fail; discriminate].
      * unfold faststr_merge. eapply nit_bind; [apply nit_len_tail|]. intros v s1 _.
        destruct (utf8_valid _); [apply nit_ret; exact I|apply nit_fail; discriminate].
      * apply nit_len_tail.
Qed.

Lemma nit_push vs v s : nit any (push vs v s).
Proof. exact I. Qed.

Lemma nit_merge_repeated m wt vs s : scalar_mod m = true -> nit any (merge_repeated m wt vs s).
Proof.
  intros Hs. unfold merge_repeated.
  assert (H1 : forall wt' s', nit any (bind (merge_scalar m wt') (fun v => push vs v) s')).
  { intros. eapply nit_bind; [apply nit_merge_scalar; exact Hs|]. intros; apply nit_push. }
  destruct (is_len_mod m).
  - eapply nit_bind; [apply nit_check|]. intros; apply H1.
  - destruct wt; try (eapply nit_bind; [apply nit_check|]; intros; apply H1).
    apply nit_merge_loop; [|exact I]. intros vs' s' _.
    eapply nit_bind; [apply nit_merge_scalar; exact Hs|]. intros; apply nit_push.
Qed.

(* the codec-selection tables only ever name scalar modules for scalar types *)
Lemma scalar_module_scalar p m : scalar_module p = Some m -> scalar_mod m = true.
Proof. destruct p; vm_compute; intros H; inversion H; reflexivity. Qed.

Lemma nit_message_merge {T} (P : T -> Prop) (mf : T -> Z -> wire_type -> Z -> M T) wt x ctx s :
  (forall x tag wt c s, P x -> nit P (mf x tag wt c s)) -> P x -> nit P (message_merge mf wt x ctx s).
Proof.
  intros Hm Hx. unfold message_merge. eapply nit_bind; [apply nit_check|]. intros _ s1 _.
  eapply nit_bind; [apply nit_limit|]. intros _ s2 _. eapply nit_bind; [apply nit_enter|]. intros c s3 _.
  apply nit_merge_loop; [|exact Hx]. intros msg s' Hmsg.
  eapply nit_bind; [apply nit_decode_key|]. intros [tag fwt] s'' _. apply Hm; exact Hmsg.
Qed.

Lemma nit_map_entry {K V} (PK : K -> Prop) (PV : V -> Prop) (km : wire_type -> K -> Z -> M K) (vm : wire_type -> V -> Z -> M V) kd vd ctx s :
  (forall wt k c s, PK k -> nit PK (km wt k c s)) -> (forall wt v c s, PV v -> nit PV (vm wt v c s)) -> PK kd -> PV vd ->
  nit (fun kv => PK (fst kv) /\ PV (snd kv)) (map_entry_merge km vm kd vd ctx s).
Proof.
  intros Hk Hv Hkd Hvd. unfold map_entry_merge. eapply nit_bind; [apply nit_limit|]. intros _ s1 _.
  eapply nit_bind; [apply nit_enter|]. intros c s2 _.
  apply nit_merge_loop; [|cbn; auto]. intros [k v] s' [Hk0 Hv0]. cbn [fst snd] in *.
  eapply nit_bind; [apply nit_decode_key|]. intros [tag wt] s'' _.
  destruct (tag =? 1).
  - eapply nit_bind; [apply Hk; exact Hk0|]. intros k' s3 Hk'. apply nit_ret. cbn. auto.
  - destruct (tag =? 2).
    + eapply nit_bind; [apply Hv; exact Hv0|]. intros v' s3 Hv'. apply nit_ret. cbn. auto.
    + eapply nit_bind; [apply nit_skip_field|]. intros _ s3 _. apply nit_ret. cbn. auto.
Qed.

(* ------------------------------------------------------------------ the schema-directed decoder keeps shapes *)
Section StepShape.
  Variable sc : schema.
  Variable rec : nat -> val -> Z -> wire_type -> Z -> M val.
  Variable dflt : ty -> val.
  Hypothesis rec_nit : forall j x tag wt c s, shaped sc j x -> nit (shaped sc j) (rec j x tag wt c s).
  Hypothesis dflt_shaped : forall t, ty_ok sc t = true -> shaped_ty sc t (dflt t).

  Lemma nit_merge_ty_scalar p wt x c s : ty_ok sc (TScalar p) = true -> nit (shaped_ty sc (TScalar p)) (merge_ty rec (TScalar p) wt x c s).
  Proof.
    intros Hok. cbn [merge_ty]. cbn [ty_ok] in Hok. destruct (scalar_module p) as [m|] eqn:E; [|discriminate].
    pose proof (nit_merge_scalar m wt s (scalar_module_scalar p m E)) as N.
    destruct (merge_scalar m wt s) as [v s'|e s'|pp] eqn:Em; cbn [nit] in *; auto.
    constructor. unfold scalar_shape. rewrite E.
    destruct m; try exact I; unfold merge_scalar in Em; cbn in Em;
      unfold string_merge, faststr_merge, bind in Em; destruct (bytes_merge_one_copy wt s) as [v0 s0|e0 s0|p0]; try discriminate Em;
      destruct (utf8_valid (vbytes v0)) eqn:Eu; try discriminate Em; inversion Em; subst; exact Eu.
  Qed.

  Lemma nit_merge_ty t wt x c s : ty_ok sc t = true -> shaped_ty sc t x -> nit (shaped_ty sc t) (merge_ty rec t wt x c s).
  Proof.
    intros Hok Hx. destruct t as [p|j]; [apply nit_merge_ty_scalar; exact Hok|]. cbn [merge_ty].
    inversion Hx; subst. eapply nit_weaken; [intros a Ha; constructor; exact Ha|].
      apply nit_message_merge; [|assumption]. intros. apply rec_nit. assumption.
  Qed.

  Lemma nit_merge_fieldval f x tag wt c s : field_ok sc f = true -> shaped_field sc f x ->
    existsb (Z.eqb tag) (field_tags f) = true -> nit (shaped_field sc f) (merge_fieldval rec dflt f x tag wt c s).
  Proof.
    intros Hok Hx Hin. destruct f as [t ty|t ty|t ty|t k vt|ms]; cbn [merge_fieldval field_ok] in *.
    - inversion Hx; subst. eapply nit_weaken; [|apply nit_merge_ty; eauto]. intros; constructor; assumption.
    - assert (Hcur : shaped_ty sc ty (match x with VL NSome [v] => v | _ => dflt ty end)).
      { inversion Hx; subst; [assumption|].
        destruct x as [z|l|k l]; try (apply dflt_shaped; exact Hok). destruct k; try (apply dflt_shaped; exact Hok).
        destruct l as [|v [|w l]]; try (apply dflt_shaped; exact Hok). exfalso. eapply H2; reflexivity. }
      eapply nit_bind; [apply nit_merge_ty; eauto|]. intros v' s' Hv'. apply nit_ret. constructor; exact Hv'.
    - inversion Hx; subst. eapply nit_bind with (P := any); [|intros; apply nit_ret; constructor].
      destruct ty as [p|j]; cbn [merge_rep ty_ok] in *.
      + destruct (scalar_module p) as [m|] eqn:E; [|discriminate].
        apply nit_merge_repeated. eapply scalar_module_scalar; eauto.
      + eapply nit_bind; [apply nit_check|]. intros _ s1 _.
        eapply nit_bind with (P := shaped sc j); [|intros; apply nit_push].
        pose proof (dflt_shaped (TMsg j) Hok) as Hd. inversion Hd; subst.
        apply nit_message_merge; [|assumption]. intros. apply rec_nit. assumption.
    - inversion Hx; subst. eapply nit_bind with (P := any); [|intros; apply nit_ret; constructor].
      apply andb_prop in Hok. destruct Hok as [Hok Hvt]. apply andb_prop in Hok. destruct Hok as [_ Hk].
      unfold merge_map. eapply nit_bind; [|intros kv s1 _; eapply nit_bind; [apply nit_charge|]; intros; apply nit_ret; exact I].
      apply (nit_map_entry (shaped_ty sc (TScalar k)) (shaped_ty sc vt)).
      * intros. apply nit_merge_ty; assumption.
      * intros. apply nit_merge_ty; assumption.
      * apply dflt_shaped; exact Hk.
      * apply dflt_shaped; exact Hvt.
    - unfold merge_oneof. destruct (find_member ms tag 0) as [[idx t]|] eqn:Ef; [|exact I].
      assert (Hty : ty_ok sc t = true).
      { clear -Hok Ef. revert Ef. generalize 0%nat. induction ms as [|[t0 ty0] ms IH]; intros k0 Ef; cbn [find_member] in Ef; [discriminate|].
        cbn [forallb] in Hok. apply andb_prop in Hok. destruct Hok as [H0 H1]. destruct (t0 =? tag).
        - inversion Ef; subst. exact H0.
        - eapply IH; eauto. }
      assert (Hstart : shaped_ty sc t (match x with VL (NOne j) [v] => if Nat.eqb j idx then v else dflt t | _ => dflt t end)).
      { inversion Hx; subst. destruct x as [z|l|k l]; try (apply dflt_shaped; exact Hty). destruct k; try (apply dflt_shaped; exact Hty).
        destruct l as [|v [|w l]]; try (apply dflt_shaped; exact Hty).
        destruct (Nat.eqb_spec idx0 idx); [|apply dflt_shaped; exact Hty]. subst. eapply H0; eauto. }
      eapply nit_bind; [apply nit_merge_ty; eauto|]. intros v' s' Hv'. apply nit_ret. constructor.
      intros j v tag' ty' E Ef'. inversion E; subst.
      (* the member index determines the member type *)
      assert (Hsame : forall ms k0 tagA tagB tyA tyB jj, find_member ms tagA k0 = Some (jj, tyA) -> find_member ms tagB k0 = Some (jj, tyB) -> tyA = tyB).
      { clear. induction ms as [|[t0 ty0] ms IH]; intros k0 tagA tagB tyA tyB jj HA HB; cbn [find_member] in *; [discriminate|].
        assert (Hge : forall ms k1 tg jj1 ty1, find_member ms tg k1 = Some (jj1, ty1) -> (k1 <= jj1)%nat).
        { clear. induction ms as [|[t1 ty1] ms IH]; intros k1 tg jj1 ty2 H; cbn [find_member] in H; [discriminate|].
          destruct (t1 =? tg); [inversion H; lia|]. apply IH in H. lia. }
        destruct (t0 =? tagA), (t0 =? tagB).
        - inversion HA; inversion HB; subst. reflexivity.
        - inversion HA; subst. apply Hge in HB. lia.
        - inversion HB; subst. apply Hge in HA. lia.
        - eapply IH; eauto. }
      rewrite (Hsame ms 0%nat tag' tag ty' t j Ef' Ef). exact Hv'.
  Qed.

  Lemma nit_merge_in_fields : forall fs xs tag wt c s, forallb (field_ok sc) fs = true -> shaped_fields sc fs xs ->
    nit (shaped_fields sc fs) (merge_in_fields rec dflt fs xs tag wt c s).
  Proof.
    induction fs as [|f fs IH]; intros xs tag wt c s Hok Hx; cbn [merge_in_fields].
    - eapply nit_bind; [apply nit_skip_field|]. intros; apply nit_ret; constructor.
    - destruct xs as [|x xs]; [eapply nit_bind; [apply nit_skip_field|]; intros; apply nit_ret; constructor|].
      cbn [forallb] in Hok. apply andb_prop in Hok. destruct Hok as [Hf Hfs]. inversion Hx; subst.
      destruct (existsb (Z.eqb tag) (field_tags f)) eqn:E.
      + eapply nit_bind; [apply nit_merge_fieldval; eauto|]. intros x' s' Hx'. apply nit_ret. constructor; assumption.
      + eapply nit_bind; [apply IH; eauto|]. intros r s' Hr. apply nit_ret. constructor; assumption.
  Qed.
End StepShape.

Lemma schema_ok_fields sc i fs : schema_ok sc = true -> nth_error sc i = Some fs -> forallb (field_ok sc) fs = true.
Proof.
  intros Hs Hn. unfold schema_ok in Hs. apply andb_prop in Hs. apply proj1 in Hs. rewrite forallb_forall in Hs. apply nth_error_In in Hn. specialize (Hs fs Hn).
  unfold msgdesc_ok in Hs. apply andb_prop in Hs. destruct Hs as [Hs _]. apply andb_prop in Hs. tauto.
Qed.

Lemma default_scalar_shape p : scalar_shape p (default_scalar p).
Proof.
  unfold scalar_shape, default_scalar. destruct (scalar_module p) as [m|]; [|exact I]. destruct m; try exact I; reflexivity.
Qed.

Lemma default_field_shaped sc (dt : ty -> val) f : (forall t, ty_ok sc t = true -> shaped_ty sc t (dt t)) -> field_ok sc f = true ->
  shaped_field sc f (default_field dt f).
Proof.
  intros Hdt Hok. destruct f as [t ty|t ty|t ty|t k vt|ms]; cbn [default_field field_ok] in *.
  - constructor. apply Hdt; exact Hok.
  - apply SFopt_other. discriminate.
  - constructor.
  - constructor.
  - constructor. intros j v tag ty E. discriminate E.
Qed.

Theorem default_msg_shaped sc : schema_ok sc = true -> forall d i, (i < length sc)%nat -> shaped sc i (default_msg d sc i).
Proof.
  intros Hs. induction d as [|d IH]; intros i Hi; destruct (nth_error sc i) as [fs|] eqn:E;
    try (apply nth_error_None in E; lia).
  - cbn [default_msg]. econstructor; [exact E|constructor].
  - cbn [default_msg]. rewrite E. econstructor; [exact E|].
    pose proof (schema_ok_fields sc i fs Hs E) as Hf. clear E.
    induction fs as [|f fs IHf]; cbn [map]; [constructor|].
    cbn [forallb] in Hf. apply andb_prop in Hf. destruct Hf as [Hf0 Hf1]. constructor; [|apply IHf; exact Hf1].
    apply default_field_shaped; [|exact Hf0]. intros [p|j] Hok; [constructor; apply default_scalar_shape|]. constructor. apply IH.
    cbn [ty_ok] in Hok. apply Nat.ltb_lt in Hok. exact Hok.
Qed.

Lemma default_ty_shaped sc d t : schema_ok sc = true -> ty_ok sc t = true -> shaped_ty sc t (default_ty d sc t).
Proof.
  intros Hs Hok. destruct t as [p|j]; cbn [default_ty]; constructor; [apply default_scalar_shape|]. apply default_msg_shaped; [exact Hs|].
  cbn [ty_ok] in Hok. apply Nat.ltb_lt in Hok. exact Hok.
Qed.

Theorem merge_field_shaped sc : schema_ok sc = true -> forall d i x tag wt c s,
  shaped sc i x -> nit (shaped sc i) (merge_field d sc i x tag wt c s).
Proof.
  intros Hs. induction d as [|d IH]; intros i x tag wt c s Hx; cbn [merge_field]; [apply nit_fail; discriminate|].
  inversion Hx as [i0 fs xs Hn Hf]; subst. rewrite Hn.
  eapply nit_bind with (P := shaped_fields sc fs).
  - apply nit_merge_in_fields; [intros; apply IH; assumption|intros; apply default_ty_shaped; assumption| |exact Hf].
    eapply schema_ok_fields; eauto.
  - intros xs' s' Hxs'. apply nit_ret. econstructor; eauto.
Qed.

Theorem msg_merge_shaped sc i x s : schema_ok sc = true -> shaped sc i x -> nit (shaped sc i) (msg_merge sc i x s).
Proof.
  intros Hs Hx. unfold msg_merge, while_rem. eapply nit_bind; [apply nit_remaining|]. intros rem s1 _.
  apply nit_while; [|exact Hx]. intros v s' Hv.
  eapply nit_bind; [apply nit_decode_key|]. intros [tag wt] s'' _. apply merge_field_shaped; assumption.
Qed.

Lemma wr_done {T} (body : T -> M T) : forall f v s v' s', while_remaining f 0 body v s = OOk v' s' -> rb s' = [].
Proof.
  induction f as [|f IH]; intros v s v' s' H; cbn [while_remaining] in H.
  - destruct (Nat.ltb_spec 0 (length (rb s))); [discriminate H|]. inversion H; subst. destruct (rb s'); [reflexivity|cbn in *; lia].
  - destruct (Nat.ltb_spec 0 (length (rb s))).
    + unfold bind in H. destruct (body v s) as [v1 s1|e1 s1|p]; try discriminate H. eapply IH; eauto.
    + inversion H; subst. destruct (rb s'); [reflexivity|cbn in *; lia].
Qed.

(* C10_total at full strength for generated messages: a shaped value or a DecodeError of the implementation --
   neither a panic nor one of the model's artefacts (out of fuel, ill-typed) *)
Definition real_err (e : perr) : Prop := e <> POutOfFuel /\ e <> PIllTyped.

Theorem msg_decode_total sc i l a : schema_ok sc = true -> (i < length sc)%nat ->
  match msg_decode sc i (mkR l a) with
  | OOk x s' => shaped sc i x /\ rb s' = []
  | OErr e _ => real_err e
  | OPanic _ => False
  end.
Proof.
  intros Hs Hi. pose proof (msg_decode_sound sc i (mkR l a)) as H1.
  pose proof (msg_merge_shaped sc i (default_msg depth_fuel sc i) (mkR l a) Hs (default_msg_shaped sc Hs _ i Hi)) as H2.
  unfold msg_decode in *. destruct (msg_merge sc i (default_msg depth_fuel sc i) (mkR l a)) as [x s'|e s'|p] eqn:E; cbn in *.
  - split; [exact H2|].
    change (while_remaining (S (length (rb (mkR l a)))) 0
              (fun x0 => let+ (tag, wt) := decode_key in merge_field depth_fuel sc i x0 tag wt ctx_default)
              (default_msg depth_fuel sc i) (mkR l a) = OOk x s') in E.
    eapply wr_done; exact E.
  - split; tauto.
  - exact H1.
Qed.

Example shaped_nonvacuous :
  schema_ok [[FSingular 1 (TScalar TYPE_INT32); FOptional 2 (TMsg 0); FMap 4 TYPE_STRING (TMsg 0)]] = true.
Proof. vm_compute. reflexivity. Qed.

(* what [shaped] says about strings: a singular / optional / oneof `string` field of a shaped message holds valid UTF-8 *)
Lemma shaped_string_utf8 sc p x : shaped_ty sc (TScalar p) x -> scalar_module p = Some MFastStr -> utf8_valid (vbytes x) = true.
Proof. intros H E. inversion H as [? ? Hs|]; subst. unfold scalar_shape in Hs. rewrite E in Hs. exact Hs. Qed.
