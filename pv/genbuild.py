"""gen family -- the two-step build performed by every check:
   corpus (pv/gengen.py) -> IDL files -> REAL pilota-build from core.REPO's working tree (bin pv-gen-build)
   -> emitted .rs per builder configuration -> scraped type paths -> generated dispatch table
   -> cargo build of the driver pv-harness-gen (includes the emitted files).
Everything lives under /verif/.cache (gen_out[_<tag>], target_gen[_<tag>]); one build is shared by all
checks of the family (flock; files are only rewritten when their content changes, so cargo rebuilds the
driver only when the emitted code or the sources it depends on changed)."""
import hashlib, json, os, re, shutil
from . import core, gengen

FAM_DIR = os.path.join(core.ROOT, 'fam', 'gen')
CONFIGS_QUICK = ('plain', 'keep', 'nocase')      # nocase = change_case(false), only for the documents that opt in (gengen.OPT_IN_CONFIGS)


def repo_tag():
    r = os.path.realpath(core.REPO)
    return '' if r == '/repo' else '_' + hashlib.sha1(r.encode()).hexdigest()[:8]


def write_if_changed(path, text):
    if os.path.exists(path) and open(path, encoding='utf-8').read() == text:
        return False
    tmp = path + '.tmp'
    open(tmp, 'w', encoding='utf-8').write(text)
    os.replace(tmp, path)
    return True


# ------------------------------------------------------------------ scraping the emitted text

def _lex_depth(text):
    """yields (index, char) for structural characters outside strings / chars / comments"""
    i, n = 0, len(text)
    while i < n:
        c = text[i]
        if c == '/' and text.startswith('//', i):
            j = text.find('\n', i)
            i = n if j < 0 else j
            continue
        if c == '/' and text.startswith('/*', i):
            j = text.find('*/', i + 2)
            i = n if j < 0 else j + 2
            continue
        if c == '"':
            i += 1
            while i < n and text[i] != '"':
                i += 2 if text[i] == '\\' else 1
            i += 1
            continue
        if c == 'r' and re.match(r'r#*"', text[i:i + 8]) and (i == 0 or not (text[i - 1].isalnum() or text[i - 1] == '_')):
            m = re.match(r'r(#*)"', text[i:i + 8])
            end = '"' + m.group(1)
            j = text.find(end, i + len(m.group(0)))
            i = n if j < 0 else j + len(end)
            continue
        if c == "'":
            m = re.match(r"'(\\.[^']*|[^'\\])'", text[i:i + 12])
            if m:
                i += len(m.group(0))
                continue
            i += 1
            continue
        if c in '{}':
            yield i, c
        i += 1


def scrape(text):
    """-> (types: {'a::b::Name': kind}, variants: {'a::b::Name': [variant names in order]},
            fields: {'a::b::Name': [field names in order]})"""
    types, variants, fields = {}, {}, {}
    stack = []          # (kind, name, open_index)
    pending = None      # (kind, name) waiting for its '{'
    last = 0
    decl_re = re.compile(r'pub\s+(mod|struct|enum)\s+(\w+)')
    for idx, ch in _lex_depth(text):
        seg = text[last:idx]
        last = idx + 1
        if ch == '{':
            ms = list(decl_re.finditer(seg))
            # unit / tuple structs end with ';' before any '{' : record them now
            hit = None
            for m in ms:
                tail = seg[m.end():]
                path = '::'.join([s[1] for s in stack if s[0] == 'mod'] + [m.group(2)])
                if m.group(1) == 'struct' and ';' in tail:
                    types[path] = 'struct'
                    fields[path] = None
                else:
                    hit = m
            if hit is not None:
                stack.append((hit.group(1), hit.group(2), idx))
                if hit.group(1) != 'mod':
                    path = '::'.join([s[1] for s in stack if s[0] == 'mod'] + [hit.group(2)])
                    types[path] = hit.group(1)
            else:
                stack.append(('block', None, idx))
        else:
            ms = list(decl_re.finditer(seg))
            for m in ms:
                tail = seg[m.end():]
                if m.group(1) == 'struct' and ';' in tail:
                    path = '::'.join([s[1] for s in stack if s[0] == 'mod'] + [m.group(2)])
                    types[path] = 'struct'
                    fields[path] = None
            if stack:
                kind, name, oi = stack.pop()
                if kind in ('enum', 'struct'):
                    path = '::'.join([s[1] for s in stack if s[0] == 'mod'] + [name])
                    body = text[oi + 1:idx]
                    names = _top_level_names(body)
                    if kind == 'enum':
                        variants[path] = names
                    else:
                        fields[path] = names
    return types, variants, fields


def arg_decoders(text):
    """-> set of 'a::b::Name' whose `impl ::pilota::thrift::Message for Name` contains the field countdown of the ARGUMENT-type
    decoder (`__pilota_fields_num`: codegen/thrift/mod.rs emits it for keep_unknown_fields && db.is_arg(def_id)): the set of
    argument types as the generator sees it, read off the emitted code"""
    out = set()
    stack = []          # (kind, name, open_index)
    last = 0
    mod_re = re.compile(r'pub\s+mod\s+(\w+)\s*$')
    impl_re = re.compile(r'impl\s+::pilota::thrift::Message\s+for\s+(\w+)\s*$')
    for idx, ch in _lex_depth(text):
        seg = text[last:idx]
        last = idx + 1
        if ch == '{':
            m, mi = mod_re.search(seg), impl_re.search(seg)
            stack.append(('mod', m.group(1), idx) if m else ('impl', mi.group(1), idx) if mi else ('block', None, idx))
        elif stack:
            kind, name, oi = stack.pop()
            if kind == 'impl' and '__pilota_fields_num' in text[oi:idx]:
                out.add('::'.join([x[1] for x in stack if x[0] == 'mod'] + [name]))
    return out


def _top_level_names(body):
    """first identifier of each comma-separated chunk at nesting depth 0 (attributes skipped)"""
    out, depth, cur = [], 0, []
    chunks = []
    for c in body:
        if c in '([{<':
            depth += 1
        elif c in ')]}>':
            depth -= 1
        if c == ',' and depth == 0:
            chunks.append(''.join(cur)); cur = []
        else:
            cur.append(c)
    chunks.append(''.join(cur))
    for ch in chunks:
        ch = re.sub(r'#\[[^\]]*\]', ' ', ch)
        ch = re.sub(r'\bpub\b', ' ', ch)
        m = re.search(r'[A-Za-z_]\w*', ch)
        if m:
            out.append(m.group(0))
    return out


# ------------------------------------------------------------------ the build

class GenBuild:
    def __init__(self):
        self.ok = False
        self.error = ''
        self.stage = ''
        self.bin = None
        self.out_dir = None
        self.schema = None          # gengen.Schema
        self.names = {}             # cfg -> {type name: [rust variant names]}
        self.docs = None
        self.configs = ()
        self.emitted = {}           # cfg -> path of emitted file
        self.arg_mismatch = []      # [(cfg, type name, 'generator' | 'model')]: argument types of one side only (keep builds)

    def variant_names(self, cfg):
        return self.names.get(cfg, {})


def _harness_dir(tag):
    hd = os.path.join(FAM_DIR, 'harness')
    if not tag:
        return hd
    alt = os.path.join(core.CACHE, 'harness_gen' + tag)
    shutil.rmtree(alt, ignore_errors=True)
    shutil.copytree(hd, alt, ignore=shutil.ignore_patterns('target', 'Cargo.lock'))
    for d, _, fs in os.walk(alt):
        for f in fs:
            if f == 'Cargo.toml':
                q = os.path.join(d, f)
                t = open(q).read().replace('"/repo/', '"%s/' % os.path.realpath(core.REPO))
                open(q, 'w').write(t)
    return alt


def build(configs=CONFIGS_QUICK, docs=None, release=False):
    gb = GenBuild()
    gb.configs = tuple(configs)
    tag = repo_tag()
    default_corpus = docs is None
    docs = docs if docs is not None else gengen.corpus()
    gb.docs = docs
    if not (default_corpus and tuple(configs) == tuple(CONFIGS_QUICK)):
        # a different corpus / configuration set gets its own output and target directory, so that a thorough run and
        # a quick run (or two seeds) going on at the same time do not replace each other's schema and driver
        import hashlib
        h = hashlib.sha1(repr(tuple(configs)).encode())
        for d in docs:
            h.update(d.name.encode()); h.update(gengen.doc_idl(d).encode())
        tag += '_corp' + h.hexdigest()[:8]
        olds = sorted((x for x in os.listdir(core.CACHE) if x.startswith('gen_out' + repo_tag() + '_corp') and x != 'gen_out' + tag),
                      key=lambda x: os.path.getmtime(os.path.join(core.CACHE, x)))
        for x in olds[:-1]:          # keep the most recent other one
            shutil.rmtree(os.path.join(core.CACHE, x), ignore_errors=True)
            shutil.rmtree(os.path.join(core.CACHE, x.replace('gen_out', 'target_gen')), ignore_errors=True)
    out = os.path.join(core.CACHE, 'gen_out' + tag)
    target = os.path.join(core.CACHE, 'target_gen' + tag)
    gb.out_dir = out
    try:
        sch = gengen.lower_docs(docs)
    except Exception as e:       # a corpus bug, not an implementation bug
        gb.stage, gb.error = 'corpus', 'lowering the corpus failed: %r' % (e,)
        return gb
    gb.schema = sch
    with core.Lock('gen_build' + tag):
        os.makedirs(os.path.join(out, 'idl'), exist_ok=True)
        hd = _harness_dir(tag)
        lock_src, lock_dst = os.path.join(core.REPO, 'Cargo.lock'), os.path.join(hd, 'Cargo.lock')
        if os.path.exists(lock_src) and not os.path.exists(lock_dst):
            shutil.copy(lock_src, lock_dst)
        env = dict(core.ENV, CARGO_TARGET_DIR=target, PV_GEN_OUT=out)
        prof = ['--release'] if release else []
        # 1. the generator binary, from the working tree
        gb.stage = 'cargo build pv-gen-build'
        rc, log = core.sh(['timeout', '2400', 'cargo', 'build', '--offline', '--quiet', '-p', 'pv-gen-build'] + prof, cwd=hd, env=env, timeout=2500)
        if rc != 0 and 'Cargo.lock' in log:
            shutil.copy(lock_src, lock_dst)
            rc, log = core.sh(['timeout', '2400', 'cargo', 'build', '--offline', '--quiet', '-p', 'pv-gen-build'] + prof, cwd=hd, env=env, timeout=2500)
        if rc != 0:
            gb.error = _errs(log)
            return gb
        genbin = os.path.join(target, 'release' if release else 'debug', 'pv-gen-build')
        # 2. IDL files
        idl_dir = os.path.join(out, 'idl')
        keep = set()
        for d in docs:
            p = os.path.join(idl_dir, d.name + '.thrift')
            write_if_changed(p, gengen.doc_idl(d))
            keep.add(d.name + '.thrift')
        for f in os.listdir(idl_dir):
            if f not in keep:
                os.remove(os.path.join(idl_dir, f))
        # 3. run the real Builder per configuration
        includes = []
        arms = []
        for cfg in configs:
            gb.stage = 'pilota-build run (%s)' % cfg
            tmp_dir = os.path.join(out, 'tmp_' + cfg)
            shutil.rmtree(tmp_dir, ignore_errors=True)
            os.makedirs(tmp_dir)
            tmp = os.path.join(tmp_dir, cfg + '.rs')
            entries = [os.path.join(idl_dir, d.name + '.thrift') for d in docs if gengen.doc_in_config(d.configs, cfg)]
            if not entries:
                continue            # no document of this corpus opts into the configuration
            rc, log = core.sh(['timeout', '600', genbin, cfg, tmp] + entries, env=dict(env, RUST_BACKTRACE='0'), timeout=630)
            if rc != 0 or not os.path.exists(tmp):
                gb.error = 'pilota-build failed on the corpus (%s): %s' % (cfg, '\n'.join(
                    l for l in log.splitlines() if not l.startswith('cargo:'))[-1500:])
                return gb
            text = open(tmp, encoding='utf-8').read()
            is_split = any(os.path.isdir(os.path.join(tmp_dir, f)) for f in os.listdir(tmp_dir))
            if is_split:
                # split builds write a directory tree of item files next to the main file
                _sync_dir(tmp_dir, os.path.join(out, cfg + '_d'))
                dst = os.path.join(out, cfg + '_d', cfg + '.rs')
                includes.append('include!(concat!(env!("PV_GEN_OUT"), "/%s_d/%s.rs"));' % (cfg, cfg))
                full = _inline_includes(text, tmp_dir)
            else:
                dst = os.path.join(out, cfg + '.rs')
                write_if_changed(dst, text)
                includes.append('include!(concat!(env!("PV_GEN_OUT"), "/%s.rs"));' % cfg)
                full = text
            gb.emitted[cfg] = dst
            types, variants, fields = scrape(full)
            names = {}
            for n in sch.names_in(cfg):
                d = sch.types[n]
                path = cfg + '::' + d['rust']
                if path not in types:
                    gb.stage = 'scrape (%s)' % cfg
                    gb.error = 'type %s: expected Rust path %s not found in the emitted code' % (n, path)
                    return gb
                if d['kind'] == 'union':
                    vs = [v for v in variants.get(path, []) if v != '_UnknownFields']
                    if len(vs) != len(d['variants']):
                        gb.stage = 'scrape (%s)' % cfg
                        gb.error = 'union %s: %d variants emitted, %d declared' % (n, len(vs), len(d['variants']))
                        return gb
                    names[n] = vs
                arms.append('        ("%s", "%s") => Some(run::<%s>(c)),' % (cfg, n, path))
            gb.names[cfg] = names
            if 'keep' in cfg:
                # the `args` set of the generator (read off the emitted decoders) against the model's is_arg (schema flag `a`:
                # the types NAMED as a parameter / result type of a method), for every struct of the corpus compiled with retention
                argd = arg_decoders(full)
                for n in sch.names_in(cfg):
                    d = sch.types[n]
                    if d['kind'] == 'struct' and 'k' not in d['flags']:
                        gen_arg, model_arg = (cfg + '::' + d['rust']) in argd, 'a' in d['flags']
                        if gen_arg != model_arg:
                            gb.arg_mismatch.append((cfg, n, 'generator' if gen_arg else 'model'))
            shutil.rmtree(tmp_dir, ignore_errors=True)
        write_if_changed(os.path.join(out, 'includes.rs'), '\n'.join(includes) + '\n')
        write_if_changed(os.path.join(out, 'dispatch.rs'),
                         'pub fn dispatch(cfg: &str, ty: &str, c: &Case) -> Option<String> {\n    match (cfg, ty) {\n'
                         + '\n'.join(arms) + '\n        _ => None,\n    }\n}\n')
        write_if_changed(os.path.join(out, 'schema.txt'), gengen.schema_txt(sch))
        # the rir types with their Arc wrappers (C19: the runner marks Arc boxes for the ownership model; C20 writes the same text)
        write_if_changed(os.path.join(out, 'lschema.txt'), gengen.lschema_txt(sch))
        write_if_changed(os.path.join(out, 'names.json'), json.dumps(gb.names, indent=0, sort_keys=True))
        # 4. the driver
        gb.stage = 'cargo build pv-harness-gen (emitted code + driver)'
        rc, log = core.sh(['timeout', '2400', 'cargo', 'build', '--offline', '--quiet', '-p', 'pv-harness-gen'] + prof, cwd=hd, env=env, timeout=2500)
        if rc != 0:
            gb.error = _errs(log)
            return gb
        gb.bin = os.path.join(target, 'release' if release else 'debug', 'pv-harness-gen')
        gb.ok = True
        gb.stage = 'done'
    return gb


def _sync_dir(src, dst):
    os.makedirs(dst, exist_ok=True)
    seen = set()
    for d, _, fs in os.walk(src):
        rel = os.path.relpath(d, src)
        os.makedirs(os.path.join(dst, rel), exist_ok=True)
        for f in fs:
            seen.add(os.path.normpath(os.path.join(rel, f)))
            write_if_changed(os.path.join(dst, rel, f), open(os.path.join(d, f), encoding='utf-8').read())
    for d, _, fs in os.walk(dst):
        rel = os.path.relpath(d, dst)
        for f in fs:
            if os.path.normpath(os.path.join(rel, f)) not in seen:
                os.remove(os.path.join(d, f))


def _inline_includes(text, base):
    """textual expansion of include!("relative path") (paths are relative to the including file)"""
    def rep(m):
        p = os.path.join(base, m.group(1))
        if not os.path.exists(p):
            return ''
        return _inline_includes(open(p, encoding='utf-8').read(), os.path.dirname(p))
    return re.sub(r'include!\(\s*"([^"]+)"\s*\);', rep, text)


def _errs(log):
    errs = '\n'.join(l for l in log.splitlines() if l.startswith('error') or '-->' in l)[:3000]
    return errs or log[-3000:]


if __name__ == '__main__':
    import sys, time
    t0 = time.time()
    gb = build(tuple(sys.argv[1:]) or CONFIGS_QUICK)
    print('ok' if gb.ok else 'FAILED at %s: %s' % (gb.stage, gb.error), '%.1fs' % (time.time() - t0), gb.bin)
