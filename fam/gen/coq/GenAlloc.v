(* C09, memory, at the generated-code level: the decode templates of pilota-build with a ghost ALLOCATION counter
   (bytes requested from the allocator), threaded beside the reader state exactly as PV.Thrift.Alloc does for the
   value interpreter: an instrumented decoder returns its outcome AND the counter at the end -- also when the outcome
   is an error or a panic.  The counter is cumulative (an upper bound of the peak).  Charged sites:

   * ty.rs codegen_decode_ty, ty::Vec: `Vec::with_capacity(list_ident.size)` in BOTH arms (sync raw-pointer arm, async
     push arm): size_of::<T>() * count, at the header, before any element is read;
   * decode_set / decode_map: `AHashSet / AHashMap::with_capacity(size)` (hashbrown: the next power of two of 8/7 of
     the count buckets of size_of::<(K, V)>() + 1 control byte), BTreeSet / BTreeMap::new() + insert (nodes of 11
     slots): one generous formula [hash_cost] covers both;
   * strings / binaries: PV.Thrift.Alloc.r_bytes_alloc (in-memory readers: the copying flavours String / Vec<u8>
     allocate the declared length AFTER it was checked against the buffer; FastStr / Bytes are slices) and
     a_bytes_alloc (async: rw_ext::read_exact_to_vec, `vec![0; len]` up to PREALLOC_LIMIT before a byte arrives,
     amortised doubling beyond);
   * every struct / union decode (`Message::decode` / `decode_async` of a Path type): [frame_cost] = the value itself
     when it is boxed (BoxedPlugin) or wrapped in an Arc, the boxed future of decode_async (`Box::pin(async move ..)`,
     mod.rs codegen_impl_message), the error text prepended on the failure path
     (`err.prepend_msg(&format!("decode struct `..` field(#..) failed, caused by: "))`), the compact reader's field id
     stack slot, and -- sync decoders of keep_unknown_fields builds -- `LinkedBytes::new()`: a constant per mode
     [frame_const] plus the size of the value;
   * keep builds: every retained chunk (`get_bytes(Some(ptr), len)`: copy_from_slice) : its length.
   size_of is not known to the model: [esz] is an upper bound computed from the lowered schema (every field padded to a
   word, Option tags, FastStr 40, Bytes 32, Vec 24, hash containers 64, recursion = Box = one word).
   The constants of [frame_const] are calibrated against the allocator measurement of the driver on every run of the
   check (pv/genalloc.py: measured peak <= model count on every case; the distribution of the ratio is in the evidence).
   Model only, no proofs (Proofs/AllocGenP.v). *)
From PV Require Import Thrift.Alloc Thrift.Skip.
From PVGen Require Export Gen GenKeep GenAsync Own.
Open Scope Z_scope.

(* ---------- upper bound of size_of of the emitted Rust type ---------- *)
Definition word : Z := 8.
Definition linked_bytes_size : Z := 128.      (* the `_unknown_fields: LinkedBytes` member of a keep build *)

Fixpoint esz_n (kb : bool) (S : schema) (fuel : nat) (t : ty) {struct fuel} : Z :=
  match fuel with
  | O => word                                   (* a by-value cycle is broken by Box *)
  | Datatypes.S f =>
      match t with
      | TyBool | TyI8 => 1
      | TyI16 => 2
      | TyI32 => 4
      | TyI64 | TyDouble => 8
      | TyString => 40
      | TyBinary => 32
      | TyUuid => 16
      | TyVoid => 0
      | TyList _ => 24
      | TySet _ | TyMap _ _ => 64
      | TyRef n =>
          match lookup S n with
          | Some (DStruct fs keep _) =>
              word + (if kb && keep then linked_bytes_size else 0) +
              fold_right (fun fd acc => word + esz_n kb S f (f_ty fd) + acc) 0 fs
          | Some (DUnion vs _ keep) =>
              word + (if kb && keep then linked_bytes_size else 0) +
              fold_right (fun q acc => Z.max (esz_n kb S f (snd q)) acc) 0 vs
          | Some (DEnum _) => 4
          | Some (DTypedef t') => esz_n kb S f t'
          | None => 0
          end
      end
  end.
Definition esz (kb : bool) (S : schema) (t : ty) : Z := esz_n kb S (Datatypes.S (length S)) t.

(* ---------- charges ---------- *)
Definition list_cost (e n : Z) : Z := e * Z.max n 0.
Definition hash_cost (e n : Z) : Z := 4 * (Z.max n 0 + 12) * (e + 16).

(* per struct / union decode, beyond the size of the value: calibrated constants (bytes) *)
Definition frame_const (md : dmode) (kb : bool) : Z :=
  match md with
  | MSync => if kb then 2048 else 512
  | MAsync => 2048
  end.
(* building the IDL default values of a struct (const defaults initialise the field variables, the others are filled in
   after the loop): a generous size of the value -- 64 bytes per node, the bytes of strings, a hash table of 144-byte
   slots per set / map *)
Fixpoint vcost (v : gval) : Z :=
  match v with
  | GBytes l => Z.of_nat (length l)
  | GList l =>
      (fix go (l : list gval) : Z := match l with [] => 0 | x :: r => 64 + vcost x + go r end) l
  | GSet l =>
      hash_cost 128 (Z.of_nat (length l)) +
      (fix go (l : list gval) : Z := match l with [] => 0 | x :: r => vcost x + go r end) l
  | GMap l =>
      hash_cost 128 (Z.of_nat (length l)) +
      (fix go (l : list (gval * gval)) : Z := match l with [] => 0 | (a, b) :: r => vcost a + vcost b + go r end) l
  | GStruct fs _ =>
      64 + (fix go (fs : list (Z * gval)) : Z := match fs with [] => 0 | (_, x) :: r => vcost x + go r end) fs
  | GUnion _ x => 64 + vcost x
  | _ => 0
  end.
Definition dflt_cost (S : schema) (n : nat) : Z :=
  match lookup S n with
  | Some (DStruct fs _ _) =>
      fold_right (fun fd acc => match f_dflt fd with Some (_, d) => vcost d + acc | None => acc end) 0 fs
  | _ => 0
  end.

Definition frame_cost (md : dmode) (kb : bool) (S : schema) (n : nat) : Z :=
  frame_const md kb + esz kb S (TyRef n) + Z.max 0 (dflt_cost S n).

Definition m_bytes_alloc (md : dmode) (p : pk) : am (list byte) :=
  match md with MSync => r_bytes_alloc p | MAsync => a_bytes_alloc p end.

(* ---------- the skippers ---------- *)
(* in-memory readers: the default skipper advances over fixed widths and byte strings, the compact skipper reads with
   read_bytes (a slice): nothing is requested.  Asynchronous readers: TAsyncInputProtocol::skip reads a byte string with
   read_bytes_vec / read_string -> rw_ext::read_exact_to_vec: the same charge as a decoded string (a_bytes_alloc). *)
Section ASkipAlloc.
  Variable p : pk.
  Section L.
    Variable rec : ttype -> am unit.
    Fixpoint askip_fields_a (n : nat) (s : rst) (a : Z) {struct n} : ares unit :=
      match n with
      | O => (Err EOutOfFuel, a)
      | Datatypes.S n' =>
          abind (alift (a_field_begin p) s a) (fun h s a =>
            if ttype_eqb (fst h) TStop then (Ok (tt, s), a)
            else abind (rec (fst h) s a) (fun _ s a => askip_fields_a n' s a))
      end.
    Fixpoint askip_elems_a (m : nat) (et : ttype) (n : Z) (s : rst) (a : Z) {struct m} : ares unit :=
      if n <=? 0 then (Ok (tt, s), a) else
      match m with
      | O => (Err EOutOfFuel, a)
      | Datatypes.S m' => abind (rec et s a) (fun _ s a => askip_elems_a m' et (n - 1) s a)
      end.
    Fixpoint askip_pairs_a (m : nat) (kt vt : ttype) (n : Z) (s : rst) (a : Z) {struct m} : ares unit :=
      if n <=? 0 then (Ok (tt, s), a) else
      match m with
      | O => (Err EOutOfFuel, a)
      | Datatypes.S m' =>
          abind (rec kt s a) (fun _ s a => abind (rec vt s a) (fun _ s a => askip_pairs_a m' kt vt (n - 1) s a))
      end.
  End L.

  Fixpoint askip_val_a (f : nat) (d : nat) (ty : ttype) (s : rst) (a : Z) {struct f} : ares unit :=
    match f with
    | O => (Err EOutOfFuel, a)
    | Datatypes.S f' =>
        match d with
        | O => (Err EDepthLimit, a)
        | Datatypes.S d' =>
            match ty with
            | TBool => alift (drop (a_bool p)) s a
            | TI8 => alift (drop a_i8) s a
            | TI16 => alift (drop (a_i16 p)) s a
            | TI32 => alift (drop (a_i32 p)) s a
            | TI64 => alift (drop (a_i64 p)) s a
            | TDouble => alift (drop (a_double p)) s a
            | TBinary => amap (fun _ => tt) (a_bytes_alloc p s a)
            | TUuid => alift (drop a_uuid) s a
            | TStruct =>
                abind (alift (a_struct_begin p) s a) (fun _ s a =>
                  abind (askip_fields_a (askip_val_a f' d') (Datatypes.S f') s a) (fun _ s a => alift (a_struct_end p) s a))
            | TList | TSet =>
                abind (alift (a_coll_begin p) s a) (fun h s a =>
                  askip_elems_a (askip_val_a f' d') (Datatypes.S f') (fst h) (snd h) s a)
            | TMap =>
                abind (alift (a_map_begin p) s a) (fun h s a =>
                  askip_pairs_a (askip_val_a f' d') (Datatypes.S f') (fst (fst h)) (snd (fst h)) (snd h) s a)
            | TStop | TVoid => (Err EDepthLimit, a)
            end
        end
    end.
End ASkipAlloc.

Definition m_skip_alloc (md : dmode) (p : pk) (fuel : nat) (ft : ttype) : am unit :=
  match md with
  | MSync => alift (m_skip MSync p fuel ft)
  | MAsync => askip_val_a p fuel skip_depth ft
  end.

Section AllocLoops.
  Variable md : dmode.
  Variable S : schema.
  Variable p : pk.
  Variable fuel_skip : nat.
  Variable rec : ty -> am gval.

  Fixpoint al_elems (m : nat) (et : ty) (n : Z) (acc : list gval) (s : rst) (a : Z) {struct m} : ares (list gval) :=
    if n <=? 0 then (Ok (rev acc, s), a) else
    match m with
    | O => (Err EOutOfFuel, a)
    | Datatypes.S m' => abind (rec et s a) (fun x s a => al_elems m' et (n - 1) (x :: acc) s a)
    end.

  Fixpoint al_pairs (m : nat) (kt vt : ty) (n : Z) (acc : list (gval * gval)) (s : rst) (a : Z) {struct m}
    : ares (list (gval * gval)) :=
    if n <=? 0 then (Ok (rev acc, s), a) else
    match m with
    | O => (Err EOutOfFuel, a)
    | Datatypes.S m' =>
        abind (rec kt s a) (fun x s a =>
          abind (rec vt s a) (fun y s a => al_pairs m' kt vt (n - 1) ((x, y) :: acc) s a))
    end.

  (* the struct loop (Own.own_fields without the ownership ghost) *)
  Fixpoint al_fields (m : nat) (fs : list field) (vars : list (option gval)) (s : rst) (a : Z) {struct m}
    : ares (list (option gval)) :=
    match m with
    | O => (Err EOutOfFuel, a)
    | Datatypes.S m' =>
        abind (alift (m_field_begin md p) s a) (fun h s a =>
          if ttype_eqb (fst h) TStop then
            abind (alift (m_field_stop_len md p) s a) (fun _ s a => (Ok (vars, s), a))
          else
            abind (alift (m_field_begin_len md p (fst h) (snd h)) s a) (fun _ s a =>
              abind (match match_field S fs O (snd h) (fst h) with
                     | Some (i, f) => abind (rec (f_ty f) s a) (fun x s a => (Ok (set_nth i (Some x) vars, s), a))
                     | None => abind (m_skip_alloc md p fuel_skip (fst h) s a) (fun _ s a => (Ok (vars, s), a))
                     end) (fun vars s a =>
                abind (alift (m_field_end_len md p) s a) (fun _ s a => al_fields m' fs vars s a))))
    end.

  Fixpoint al_variants (m : nat) (vs : list (Z * ty)) (ret : option (Z * gval)) (s : rst) (a : Z) {struct m}
    : ares (option (Z * gval)) :=
    match m with
    | O => (Err EOutOfFuel, a)
    | Datatypes.S m' =>
        abind (alift (m_field_begin md p) s a) (fun h s a =>
          if ttype_eqb (fst h) TStop then
            abind (alift (m_field_stop_len md p) s a) (fun _ s a => (Ok (ret, s), a))
          else
            abind (alift (m_field_begin_len md p (fst h) (snd h)) s a) (fun _ s a =>
              let known := match snd h with
                           | Some id => match find_variant vs id with
                                        | Some vt => if is_void (resolve S vt) then None else Some (id, vt)
                                        | None => None
                                        end
                           | None => None
                           end in
              match known with
              | Some (id, vt) =>
                  match ret with
                  | None => abind (rec vt s a) (fun x s a => al_variants m' vs (Some (id, x)) s a)
                  | Some _ => (Err EInvalidData, a)
                  end
              | None => abind (m_skip_alloc md p fuel_skip (fst h) s a) (fun _ s a => al_variants m' vs ret s a)
              end))
    end.
End AllocLoops.

(* the plain templates: decode (MSync) and decode_async (MAsync); [kb] only enters the size of the values *)
Fixpoint alloc_decode (md : dmode) (kb : bool) (S : schema) (p : pk) (fuel : nat) (t : ty) (s : rst) (a : Z) {struct fuel}
  : ares gval :=
  match fuel with
  | O => (Err EOutOfFuel, a)
  | Datatypes.S f =>
      match resolve S t with
      | TyBool => amap GBool (alift (m_bool md p) s a)
      | TyI8 => amap GI8 (alift (m_i8 md) s a)
      | TyI16 => amap GI16 (alift (m_i16 md p) s a)
      | TyI32 => amap GI32 (alift (m_i32 md p) s a)
      | TyI64 => amap GI64 (alift (m_i64 md p) s a)
      | TyDouble => amap GDouble (alift (m_double md p) s a)
      | TyString | TyBinary => amap GBytes (m_bytes_alloc md p s a)
      | TyUuid => amap GUuid (alift (m_uuid md) s a)
      | TyVoid =>
          abind (alift (m_struct_begin md p) s a) (fun _ s a =>
            abind (alift (m_struct_end md p) s a) (fun _ s a => (Ok (GVoid, s), a)))
      | TyList et =>
          abind (alift (m_coll_begin md p) s a) (fun h s a =>
            amap GList (al_elems (alloc_decode md kb S p f) (Datatypes.S f) et (snd h) [] s
                                 (a + list_cost (esz kb S et) (snd h))))
      | TySet et =>
          abind (alift (m_coll_begin md p) s a) (fun h s a =>
            amap GSet (al_elems (alloc_decode md kb S p f) (Datatypes.S f) et (snd h) [] s
                                (a + hash_cost (esz kb S et) (snd h))))
      | TyMap kt vt =>
          abind (alift (m_map_begin md p) s a) (fun h s a =>
            amap GMap (al_pairs (alloc_decode md kb S p f) (Datatypes.S f) kt vt (snd h) [] s
                                (a + hash_cost (esz kb S kt + esz kb S vt) (snd h))))
      | TyRef n =>
          match lookup S n with
          | Some (DEnum _) => amap GEnum (alift (m_i32 md p) s a)
          | Some (DStruct fs _ _) =>
              abind (alift (m_struct_begin md p) s (a + frame_cost md kb S n)) (fun _ s a =>
                abind (al_fields md S p f (alloc_decode md kb S p f) (Datatypes.S f) fs (map init_var fs) s a) (fun vars s a =>
                  abind (alift (m_struct_end md p) s a) (fun _ s a =>
                    match finish_fields fs vars with
                    | Ok out => (Ok (GStruct out [], s), a)
                    | Err e => (Err e, a)
                    | Panic st => (Panic st, a)
                    end)))
          | Some (DUnion vs void_ok _) =>
              abind (alift (m_struct_begin md p) s (a + frame_cost md kb S n)) (fun _ s a =>
                abind (al_variants md S p f (alloc_decode md kb S p f) (Datatypes.S f) vs None s a) (fun ret s a =>
                  abind (alift (m_struct_end md p) s a) (fun _ s a =>
                    match ret with
                    | Some (id, x) => (Ok (GUnion id x, s), a)
                    | None =>
                        if void_ok then
                          match vs with
                          | (id0, _) :: _ => (Ok (GUnion id0 GVoid, s), a)
                          | [] => (Err EInvalidData, a)
                          end
                        else (Err EInvalidData, a)
                    end)))
          | Some (DTypedef _) => (Err EOther, a)
          | None => (Err EOther, a)
          end
      end
  end.

(* ---------- the sync templates of a keep_unknown_fields build (GenKeep.v) ---------- *)
(* every retained chunk is `get_bytes(Some(ptr), len)` = Bytes::copy_from_slice of len = field_begin_len + skipped bytes,
   pushed into the LinkedBytes (a deque node): len + chunk_cost.  `LinkedBytes::new()` (8 KiB buffer + deque; a union creates
   it when the unknown field arrives) is charged with the frame: frame_const. *)
Definition chunk_cost : Z := 128.

Section AllocKeepLoops.
  Variable S : schema.
  Variable p : pk.
  Variable fuel_skip : nat.
  Variable rec : ty -> am gval.

  Fixpoint al_fields_keep (m : nat) (fs : list field) (is_arg : bool) (vars : list (option gval)) (num : Z)
           (unk : list (list byte)) (s : rst) (a : Z) {struct m} : ares (list (option gval) * list (list byte)) :=
    match m with
    | O => (Err EOutOfFuel, a)
    | Datatypes.S m' =>
        if is_arg && (num =? 0) then
          let rem := Z.of_nat (length (rbuf s)) in
          if rem <? 2 then (Panic SOverflow, a)
          else match r_take (Z.to_nat (rem - 2)) s with
               | Ok (chunk, s') => (Ok ((vars, unk ++ [chunk]), s'), a + chunk_cost)     (* get_bytes(None, ..): a slice *)
               | Err e => (Err e, a)
               | Panic st => (Panic st, a)
               end
        else
          let s0 := s in
          abind (alift (r_field_begin p) s a) (fun h s a =>
            if ttype_eqb (fst h) TStop then
              abind (alift (r_field_stop_len p) s a) (fun _ s a => (Ok ((vars, unk), s), a))
            else
              abind (alift (r_field_begin_len p (fst h) (snd h)) s a) (fun n1 s a =>
                abind (match match_field S fs O (snd h) (fst h) with
                       | Some (i, f) =>
                           abind (rec (f_ty f) s a) (fun x s a => (Ok ((set_nth i (Some x) vars, num - 1, unk), s), a))
                       | None =>
                           abind (alift (skip p fuel_skip (fst h)) s a) (fun n2 s a =>
                             (Ok ((vars, num, unk ++ [firstn (Z.to_nat (n1 + n2)) (rbuf s0)]), s),
                              a + chunk_cost + Z.max 0 (n1 + n2)))
                       end) (fun r s a =>
                  abind (alift (r_field_end_len p) s a) (fun _ s a =>
                    al_fields_keep m' fs is_arg (fst (fst r)) (snd (fst r)) (snd r) s a))))
    end.

  Fixpoint al_variants_keep (m : nat) (vs : list (Z * ty)) (ret : uret) (s : rst) (a : Z) {struct m} : ares uret :=
    match m with
    | O => (Err EOutOfFuel, a)
    | Datatypes.S m' =>
        let s0 := s in
        abind (alift (r_field_begin p) s a) (fun h s a =>
          if ttype_eqb (fst h) TStop then
            abind (alift (r_field_stop_len p) s a) (fun _ s a => (Ok (ret, s), a))
          else
            abind (alift (r_field_begin_len p (fst h) (snd h)) s a) (fun n1 s a =>
              let known := match snd h with
                           | Some id => match find_variant vs id with
                                        | Some vt => if is_void (resolve S vt) then None else Some (id, vt)
                                        | None => None
                                        end
                           | None => None
                           end in
              match known with
              | Some (id, vt) =>
                  match ret with
                  | UNone => abind (rec vt s a) (fun x s a => al_variants_keep m' vs (UKnown id x) s a)
                  | _ => (Err EInvalidData, a)
                  end
              | None =>
                  abind (alift (skip p fuel_skip (fst h)) s a) (fun n2 s a =>
                    match ret with
                    | UNone =>
                        al_variants_keep m' vs (UUnknown (firstn (Z.to_nat (n1 + n2)) (rbuf s0))) s
                                         (a + chunk_cost + Z.max 0 (n1 + n2))
                    | _ => (Err EInvalidData, a)
                    end)
              end))
    end.
End AllocKeepLoops.

Fixpoint alloc_decode_keep (S : schema) (p : pk) (fuel : nat) (t : ty) (s : rst) (a : Z) {struct fuel} : ares gval :=
  match fuel with
  | O => (Err EOutOfFuel, a)
  | Datatypes.S f =>
      match resolve S t with
      | TyBool => amap GBool (alift (r_bool p) s a)
      | TyI8 => amap GI8 (alift r_i8 s a)
      | TyI16 => amap GI16 (alift (r_i16 p) s a)
      | TyI32 => amap GI32 (alift (r_i32 p) s a)
      | TyI64 => amap GI64 (alift (r_i64 p) s a)
      | TyDouble => amap GDouble (alift (r_double p) s a)
      | TyString | TyBinary => amap GBytes (r_bytes_alloc p s a)
      | TyUuid => amap GUuid (alift r_uuid s a)
      | TyVoid =>
          abind (alift (r_struct_begin p) s a) (fun _ s a =>
            abind (alift (r_struct_end p) s a) (fun _ s a => (Ok (GVoid, s), a)))
      | TyList et =>
          abind (alift (r_coll_begin p) s a) (fun h s a =>
            amap GList (al_elems (alloc_decode_keep S p f) (Datatypes.S f) et (snd h) [] s
                                 (a + list_cost (esz true S et) (snd h))))
      | TySet et =>
          abind (alift (r_coll_begin p) s a) (fun h s a =>
            amap GSet (al_elems (alloc_decode_keep S p f) (Datatypes.S f) et (snd h) [] s
                                (a + hash_cost (esz true S et) (snd h))))
      | TyMap kt vt =>
          abind (alift (r_map_begin p) s a) (fun h s a =>
            amap GMap (al_pairs (alloc_decode_keep S p f) (Datatypes.S f) kt vt (snd h) [] s
                                (a + hash_cost (esz true S kt + esz true S vt) (snd h))))
      | TyRef n =>
          match lookup S n with
          | Some (DEnum _) => amap GEnum (alift (r_i32 p) s a)
          | Some (DStruct fs true is_arg) =>
              abind (alift (r_struct_begin p) s (a + frame_cost MSync true S n)) (fun _ s a =>
                abind (al_fields_keep S p f (alloc_decode_keep S p f) (Datatypes.S f) fs is_arg (map init_var fs)
                                      (Z.of_nat (length fs)) [] s a) (fun r s a =>
                  abind (alift (r_struct_end p) s a) (fun _ s a =>
                    match finish_fields fs (fst r) with
                    | Ok out => (Ok (GStruct out (snd r), s), a)
                    | Err e => (Err e, a)
                    | Panic st => (Panic st, a)
                    end)))
          | Some (DStruct fs false _) =>
              abind (alift (r_struct_begin p) s (a + frame_cost MSync true S n)) (fun _ s a =>
                abind (al_fields MSync S p f (alloc_decode_keep S p f) (Datatypes.S f) fs (map init_var fs) s a) (fun vars s a =>
                  abind (alift (r_struct_end p) s a) (fun _ s a =>
                    match finish_fields fs vars with
                    | Ok out => (Ok (GStruct out [], s), a)
                    | Err e => (Err e, a)
                    | Panic st => (Panic st, a)
                    end)))
          | Some (DUnion vs void_ok true) =>
              abind (alift (r_struct_begin p) s (a + frame_cost MSync true S n)) (fun _ s a =>
                abind (al_variants_keep S p f (alloc_decode_keep S p f) (Datatypes.S f) vs UNone s a) (fun ret s a =>
                  abind (alift (r_struct_end p) s a) (fun _ s a =>
                    match ret with
                    | UKnown id x => (Ok (GUnion id x, s), a)
                    | UUnknown c => (Ok (GUnionUnknown c, s), a)
                    | UNone =>
                        if void_ok then
                          match vs with (id0, _) :: _ => (Ok (GUnion id0 GVoid, s), a) | [] => (Err EInvalidData, a) end
                        else (Err EInvalidData, a)
                    end)))
          | Some (DUnion vs void_ok false) =>
              abind (alift (r_struct_begin p) s (a + frame_cost MSync true S n)) (fun _ s a =>
                abind (al_variants MSync S p f (alloc_decode_keep S p f) (Datatypes.S f) vs None s a) (fun ret s a =>
                  abind (alift (r_struct_end p) s a) (fun _ s a =>
                    match ret with
                    | Some (id, x) => (Ok (GUnion id x, s), a)
                    | None =>
                        if void_ok then
                          match vs with (id0, _) :: _ => (Ok (GUnion id0 GVoid, s), a) | [] => (Err EInvalidData, a) end
                        else (Err EInvalidData, a)
                    end)))
          | Some (DTypedef _) => (Err EOther, a)
          | None => (Err EOther, a)
          end
      end
  end.

(* ---------- the class outside F-09e / F-09h: a certificate of bounded weight ---------- *)
(* [wgt] assigns a weight to declarations (an association list; a declaration without an entry is outside the
   certificate).  The weight of a type is what one unit of reader potential may cost when a value of that type is
   decoded: containers ADD the price of their preallocation to the weight of their element type, structs and unions
   take the MAXIMUM over their members -- so a certificate exists exactly when no cycle of the schema reachable from
   the type passes through a container (F-09h), and, for the async templates, when no container is reachable at all
   (F-09e: the async readers cannot bound the announced count). *)
Fixpoint wlookup (wgt : list (nat * Z)) (n : nat) : option Z :=
  match wgt with
  | [] => None
  | (m, z) :: r => if Nat.eqb m n then Some z else wlookup r n
  end.

Section Weights.
  Variable md : dmode.
  Variable kb : bool.
  Variable S : schema.
  Variable wgt : list (nat * Z).

  (* None: the type is outside the certificate *)
  Fixpoint gw (t : ty) : option Z :=
    match t with
    | TyList et =>
        match md, gw et with
        | MSync, Some g => if is_void (resolve S et) then None else Some (esz kb S et + g)
        | _, _ => None
        end
    | TySet et =>
        match md, gw et with
        | MSync, Some g => if is_void (resolve S et) then None else Some (52 * (esz kb S et + 16) + g)
        | _, _ => None
        end
    | TyMap kt vt =>
        match md, gw kt, gw vt with
        | MSync, Some g1, Some g2 =>
            if is_void (resolve S kt) || is_void (resolve S vt) then None
            else Some (52 * (esz kb S kt + esz kb S vt + 16) + Z.max g1 g2)
        | _, _, _ => None
        end
    | TyRef n => wlookup wgt n
    | TyString | TyBinary => Some 1
    | _ => Some 0
    end.

  Definition le_opt (o : option Z) (z : Z) : bool := match o with Some g => g <=? z | None => false end.

  (* the entry of declaration [n] with weight [z] is justified *)
  Definition decl_weight_ok (n : nat) (z : Z) : bool :=
    (0 <=? z) &&
    match lookup S n with
    | Some (DStruct fs keep ia) =>
        (* F-13a (keep-is-arg-swallow): the sync decoder of an `args` struct with retention is outside the class *)
        negb (is_sync md && kb && keep && ia) &&
        (frame_cost md kb S n <=? z) && forallb (fun f => le_opt (gw (f_ty f)) z) fs
    | Some (DUnion vs _ _) => (frame_cost md kb S n <=? z) && forallb (fun q => le_opt (gw (snd q)) z) vs
    | Some (DTypedef t') => le_opt (gw t') z
    | Some (DEnum _) => true
    | None => false
    end.

  Definition weights_ok : bool := forallb (fun e => decl_weight_ok (fst e) (snd e)) wgt.
End Weights.

(* the decidable class of C09_gen_alloc: [wgt] certifies type [t] for the template instance [md] *)
Definition alloc_class (md : dmode) (kb : bool) (S : schema) (wgt : list (nat * Z)) (t : ty) : bool :=
  weights_ok md kb S wgt && match gw md kb S wgt t with Some _ => true | None => false end.

(* the explicit constants of the bound  alloc <= a * |input| + b *)
Definition pot_w (md : dmode) : Z := match md with MSync => 2 | MAsync => 3 end.
Definition bytes_k (md : dmode) : Z := match md with MSync => 1 | MAsync => PV.Generated.ReaderSites.prealloc_limit + 1 end.
Definition alloc_a (md : dmode) (kb : bool) (S : schema) (wgt : list (nat * Z)) (t : ty) : Z :=
  pot_w md * match gw md kb S wgt t with Some g => g | None => 0 end.
Definition alloc_b (md : dmode) (kb : bool) (S : schema) (wgt : list (nat * Z)) (t : ty) : Z :=
  2 * match gw md kb S wgt t with Some g => g | None => 0 end + bytes_k md.

(* entry point of the runner: fresh protocol object over the bytes, counter 0 *)
(* outside the decoder proper: the protocol object (compact: a 24-slot field id stack), the second handle to the input, the
   error value and its message; async: the reader and the outermost future.  Calibrated like frame_const. *)
Definition top_const (md : dmode) : Z := match md with MSync => 1024 | MAsync => 2048 end.

Definition alloc_decode_keep_top (S : schema) (p : pk) (t : ty) (l : list byte) : res (gval * list byte) * Z :=
  let r := alloc_decode_keep S p (length l + 80) t (mkS l r0) 0 in
  ((let* (v, s) := fst r in Ok (v, rbuf s)), top_const MSync + snd r).

Definition alloc_decode_top (md : dmode) (kb : bool) (S : schema) (p : pk) (t : ty) (l : list byte) : res (gval * list byte) * Z :=
  let r := alloc_decode md kb S p (length l + 80) t (mkS l r0) 0 in
  ((let* (v, s) := fst r in Ok (v, rbuf s)), top_const md + snd r).
