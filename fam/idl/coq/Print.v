(* Layout-parametric printer of Thrift IDL documents (the specification side of C15).

   A *layout* supplies every choice the IDL grammar leaves free.  It is represented as a concrete syntax tree
   (CST): the descriptor AST of Ast.v with, at every slot where the grammar allows it, the blank chosen there (any
   sequence of white space and comments in the three styles), the list separator chosen there (',' ';' or none)
   and the quote style of every literal.  [erase_* c] is the document a CST denotes (forget the choices);
   [pr_* c k] is its text followed by the text k (printers are written in continuation style so that the text is a
   right-nested concatenation).  "print λ d" of DESIGN.md is [pr c] for a CST c with [erase c = d]; the layouts of a
   document d are exactly the CSTs c with [erase c = d].

   Every keyword and symbol is spelled out HERE, independently of Generated/IdlConsts.v (which is regenerated from
   the parser source): the printer is the specification of the concrete syntax, so a changed tag in the Rust source
   breaks the round-trip proofs instead of silently changing both sides. *)
From PVIdl Require Import Comb Ast.
From Coq Require Import String Ascii.
Open Scope Z_scope.

Definition txt (s : string) : list byte := list_byte_of_string s.

(* ---------- blanks ---------- *)
Inductive batom :=
| BWs (ws : list byte)         (* a maximal run of ' ' \t \r \n *)
| BLine (body : list byte)     (* // body   (up to, not including, the newline) *)
| BHash (body : list byte)     (* # body *)
| BBlock (body : list byte).   (* /* body */ *)
Definition blank := list batom.

Definition pr_atom (a : batom) (k : list byte) : list byte :=
  match a with
  | BWs ws => ws ++ k
  | BLine body => txt "//" ++ body ++ k
  | BHash body => txt "#" ++ body ++ k
  | BBlock body => txt "/*" ++ body ++ txt "*/" ++ k
  end.

Fixpoint pr_blank (bl : blank) (k : list byte) : list byte :=
  match bl with
  | [] => k
  | a :: bl' => pr_atom a (pr_blank bl' k)
  end.

Definition is_nl (b : byte) : bool := Byte.eqb b x0a.

(* body of a block comment: "*/" does not occur in it *)
Fixpoint no_star_slash (l : list byte) : bool :=
  match l with
  | [] => true
  | b :: l' => negb (Byte.eqb b x2a && match l' with c :: _ => Byte.eqb c x2f | [] => false end) && no_star_slash l'
  end.

Definition wf_atom (a : batom) : bool :=
  match a with
  | BWs ws => negb (is_nil ws) && forallb is_space ws
  | BLine body | BHash body => forallb (fun b => negb (is_nl b)) body
  | BBlock body => no_star_slash body
  end.

(* what the grammar demands of a sequence of atoms: white-space runs are maximal, a line comment is ended by a
   newline (which begins the following white-space run) *)
Definition adj_ok (a : batom) (rest : blank) : bool :=
  match a with
  | BWs _ => match rest with BWs _ :: _ => false | _ => true end
  | BLine _ | BHash _ => match rest with BWs (b :: _) :: _ => is_nl b | _ => false end
  | BBlock _ => true
  end.

Fixpoint wf_blank (bl : blank) : bool :=
  match bl with
  | [] => true
  | a :: bl' => wf_atom a && adj_ok a bl' && wf_blank bl'
  end.

(* the last blank of a text: its last atom may be a line comment that runs to the end of input (the grammar demands
   the newline only when something follows the comment) *)
Definition adj_ok_eof (a : batom) (rest : blank) : bool :=
  match a with
  | BLine _ | BHash _ => match rest with [] => true | _ => adj_ok a rest end
  | _ => adj_ok a rest
  end.
Fixpoint wf_blank_eof (bl : blank) : bool :=
  match bl with
  | [] => true
  | a :: bl' => wf_atom a && adj_ok_eof a bl' && wf_blank_eof bl'
  end.
(* [wfb eof bl]: a blank slot; eof = the slot is followed by the end of input *)
Definition wfb (eof : bool) (bl : blank) : bool := if eof then wf_blank_eof bl else wf_blank bl.

(* ---------- tokens ---------- *)
Definition is_ident (s : list byte) : bool :=
  match s with
  | [] => false
  | h :: t => (is_alpha h || is_underscore h) && forallb (fun c => is_alnum c || is_underscore c) t
  end.

(* annotation keys may contain dots after the first character *)
Definition is_annkey (s : list byte) : bool :=
  match s with
  | [] => false
  | h :: t => (is_alpha h || is_underscore h) && forallb (fun c => is_alnum c || is_underscore c || is_dot c) t
  end.

(* literal: quote style + raw body (escape sequences are kept as written, as the parser keeps them) *)
Record clit := mkLit { l_dq : bool; l_body : list byte }.
Definition quote_of (dq : bool) : byte := if dq then x22 else x27.
Definition pr_lit (l : clit) (k : list byte) : list byte := quote_of (l_dq l) :: l_body l ++ quote_of (l_dq l) :: k.
Definition erase_lit (l : clit) : Literal := l_body l.

(* a literal body: bytes other than the backslash and the delimiting quote, or a backslash followed by one of
   the four escapable bytes (single quote, double quote, n, backslash) *)
Fixpoint lit_body_ok (q : byte) (l : list byte) : bool :=
  match l with
  | [] => true
  | b :: l' =>
    if Byte.eqb b x5c then
      match l' with
      | c :: l'' => bmem c [x27; x22; x6e; x5c] && lit_body_ok q l''
      | [] => false
      end
    else negb (Byte.eqb b q) && lit_body_ok q l'
  end.
Definition wf_lit (l : clit) : bool := lit_body_ok (quote_of (l_dq l)) (l_body l).

(* optional list separator: none, or ',' / ';' followed by an optional blank *)
Inductive csep := SepNone | SepSome (semi : bool) (after : blank).
Definition sep_byte (semi : bool) : byte := if semi then x3b else x2c.
Definition pr_sep (s : csep) (k : list byte) : list byte :=
  match s with
  | SepNone => k
  | SepSome semi bl => sep_byte semi :: pr_blank bl k
  end.
Definition wf_sep (s : csep) : bool := match s with SepNone => true | SepSome _ bl => wf_blank bl end.

(* ---------- paths ---------- *)
Record cpath := mkCPath { cp_head : Ident; cp_tail : list (blank * blank * Ident) }.   (* a  [bl . bl b]* *)
Fixpoint pr_path_tail (t : list (blank * blank * Ident)) (k : list byte) : list byte :=
  match t with
  | [] => k
  | (b1, b2, s) :: t' => pr_blank b1 (txt "." ++ pr_blank b2 (s ++ pr_path_tail t' k))
  end.
Definition pr_path (p : cpath) (k : list byte) : list byte := cp_head p ++ pr_path_tail (cp_tail p) k.
Definition erase_path (p : cpath) : Path := cp_head p :: map (fun x => snd x) (cp_tail p).
Definition wf_path (p : cpath) : bool :=
  is_ident (cp_head p) &&
  forallb (fun x => wf_blank (fst (fst x)) && wf_blank (snd (fst x)) && is_ident (snd x)) (cp_tail p).

(* ---------- annotations:  ( [bl key bl = bl lit bl sep]+ ) ---------- *)
Record cann := mkCAnn { ca_b1 : blank; ca_key : list byte; ca_b2 : blank; ca_b3 : blank; ca_lit : clit;
                        ca_b4 : blank; ca_sep : csep }.
Definition pr_ann (a : cann) (k : list byte) : list byte :=
  pr_blank (ca_b1 a) (ca_key a ++ pr_blank (ca_b2 a) (txt "=" ++ pr_blank (ca_b3 a)
    (pr_lit (ca_lit a) (pr_blank (ca_b4 a) (pr_sep (ca_sep a) k))))).
Fixpoint pr_ann_list (l : list cann) (k : list byte) : list byte :=
  match l with [] => k | a :: l' => pr_ann a (pr_ann_list l' k) end.
Definition pr_anns (l : list cann) (k : list byte) : list byte := txt "(" ++ pr_ann_list l (txt ")" ++ k).
Definition erase_ann (a : cann) : Annotation := mkAnnotation (ca_key a) (erase_lit (ca_lit a)).
Definition erase_anns (l : list cann) : Annotations := map erase_ann l.

(* two optional blank slots are adjacent between annotations (the trailing blank or the separator's blank of one and
   the leading blank of the next): the layout puts the blank in the first of them, so only the first annotation of a
   list may have a leading blank *)
Definition wf_ann (a : cann) : bool :=
  wf_blank (ca_b1 a) && is_annkey (ca_key a) && wf_blank (ca_b2 a) && wf_blank (ca_b3 a) && wf_lit (ca_lit a) &&
  wf_blank (ca_b4 a) && wf_sep (ca_sep a).
Fixpoint wf_ann_list (l : list cann) : bool :=
  match l with
  | [] => true
  | a :: l' => wf_ann a && match l' with [] => true | a' :: _ => is_nil (ca_b1 a') end && wf_ann_list l'
  end.
Definition wf_anns (l : list cann) : bool := negb (is_nil l) && wf_ann_list l.

(* ---------- types ---------- *)
Inductive base_ty := BString | BVoid | BByte | BBool | BBinary | BI8 | BI16 | BI32 | BI64 | BDouble | BUuid.
Definition base_kw (b : base_ty) : list byte :=
  match b with
  | BString => txt "string" | BVoid => txt "void" | BByte => txt "byte" | BBool => txt "bool"
  | BBinary => txt "binary" | BI8 => txt "i8" | BI16 => txt "i16" | BI32 => txt "i32" | BI64 => txt "i64"
  | BDouble => txt "double" | BUuid => txt "uuid"
  end.
Definition base_ast (b : base_ty) : Ty :=
  match b with
  | BString => TString | BVoid => TVoid | BByte => TByte | BBool => TBool | BBinary => TBinary | BI8 => TI8
  | BI16 => TI16 | BI32 => TI32 | BI64 => TI64 | BDouble => TDouble | BUuid => TUuid
  end.

(* cpp_type clause:  <mandatory blank> cpp_type <mandatory blank> literal *)
Record ccpp := mkCCpp { cc_b1 : blank; cc_b2 : blank; cc_lit : clit }.
Definition pr_cpp (c : ccpp) (k : list byte) : list byte :=
  pr_blank (cc_b1 c) (txt "cpp_type" ++ pr_blank (cc_b2 c) (pr_lit (cc_lit c) k)).
Definition pr_ocpp (c : option ccpp) (k : list byte) : list byte := match c with Some c => pr_cpp c k | None => k end.
Definition erase_ocpp (c : option ccpp) : option Literal := option_map (fun c => erase_lit (cc_lit c)) c.
Definition wf_cpp (c : ccpp) : bool :=
  wf_blank (cc_b1 c) && negb (is_nil (cc_b1 c)) && wf_blank (cc_b2 c) && negb (is_nil (cc_b2 c)) && wf_lit (cc_lit c).
Definition wf_ocpp (c : option ccpp) : bool := match c with Some c => wf_cpp c | None => true end.

Inductive cty :=
| CTBase (b : base_ty)
| CTList (b1 b2 : blank) (inner : ctype) (b3 : blank) (cpp : option ccpp)          (* list b1 < b2 T b3 > cpp *)
| CTSet (cpp : option ccpp) (b1 b2 : blank) (inner : ctype) (b3 : blank)           (* set cpp b1 < b2 T b3 > *)
| CTMap (cpp : option ccpp) (b1 b2 : blank) (key : ctype) (b3 : blank) (semi : bool) (b4 : blank)
        (value : ctype) (b5 : blank)                                               (* map cpp b1 < b2 K b3 , b4 V b5 > *)
| CTPath (p : cpath)
with ctype :=
| CType (t : cty) (anns : option (blank * list cann)).                            (* T [bl (annotations)] *)

Fixpoint pr_ty (t : cty) (k : list byte) : list byte :=
  match t with
  | CTBase b => base_kw b ++ k
  | CTList b1 b2 inner b3 cpp =>
    txt "list" ++ pr_blank b1 (txt "<" ++ pr_blank b2 (pr_type inner (pr_blank b3 (txt ">" ++ pr_ocpp cpp k))))
  | CTSet cpp b1 b2 inner b3 =>
    txt "set" ++ pr_ocpp cpp (pr_blank b1 (txt "<" ++ pr_blank b2 (pr_type inner (pr_blank b3 (txt ">" ++ k)))))
  | CTMap cpp b1 b2 key b3 semi b4 value b5 =>
    txt "map" ++ pr_ocpp cpp (pr_blank b1 (txt "<" ++ pr_blank b2 (pr_type key (pr_blank b3
      (sep_byte semi :: pr_blank b4 (pr_type value (pr_blank b5 (txt ">" ++ k))))))))
  | CTPath p => pr_path p k
  end
with pr_type (t : ctype) (k : list byte) : list byte :=
  match t with
  | CType t None => pr_ty t k
  | CType t (Some (bl, anns)) => pr_ty t (pr_blank bl (pr_anns anns k))
  end.

Fixpoint erase_ty (t : cty) : Ty :=
  match t with
  | CTBase b => base_ast b
  | CTList _ _ inner _ cpp => TList (erase_type inner) (erase_ocpp cpp)
  | CTSet cpp _ _ inner _ => TSet (erase_type inner) (erase_ocpp cpp)
  | CTMap cpp _ _ key _ _ _ value _ => TMap (erase_type key) (erase_type value) (erase_ocpp cpp)
  | CTPath p => TPath (erase_path p)
  end
with erase_type (t : ctype) : Type_ :=
  match t with
  | CType t None => MkType (erase_ty t) []
  | CType t (Some (_, anns)) => MkType (erase_ty t) (erase_anns anns)
  end.

(* the words a type name must not be, because the grammar reads them as base types in type position.  The container
   words list / set / map are NOT among them: where no '<' follows (after an optional cpp_type clause and blank) the
   grammar reads them as type names, and nothing that can follow a type in a document begins with '<' *)
Definition base_words : list (list byte) :=
  [txt "string"; txt "void"; txt "byte"; txt "bool"; txt "binary"; txt "i8"; txt "i16"; txt "i32"; txt "i64";
   txt "double"; txt "uuid"].
Definition type_words : list (list byte) := base_words ++ [txt "list"; txt "set"; txt "map"].

Fixpoint bytes_eq (a b : list byte) : bool :=
  match a, b with
  | [], [] => true
  | x :: a', y :: b' => Byte.eqb x y && bytes_eq a' b'
  | _, _ => false
  end.
Fixpoint bytes_in (s : list byte) (l : list (list byte)) : bool :=
  match l with [] => false | x :: l' => bytes_eq s x || bytes_in s l' end.

(* does the text of the type end with a word character (so that a following word needs a blank)? *)
Definition ty_ends_word (t : cty) : bool :=
  match t with
  | CTBase _ | CTPath _ => true
  | _ => false
  end.
Definition type_ends_word (t : ctype) : bool :=
  match t with CType t None => ty_ends_word t | CType _ (Some _) => false end.

Fixpoint wf_ty (t : cty) : bool :=
  match t with
  | CTBase _ => true
  | CTList b1 b2 inner b3 cpp => wf_blank b1 && wf_blank b2 && wf_type inner && wf_blank b3 && wf_ocpp cpp
  | CTSet cpp b1 b2 inner b3 =>
    wf_ocpp cpp && wf_blank b1 && wf_blank b2 && wf_type inner && wf_blank b3
  | CTMap cpp b1 b2 key b3 semi b4 value b5 =>
    wf_ocpp cpp && wf_blank b1 && wf_blank b2 && wf_type key && wf_blank b3 && wf_blank b4 && wf_type value && wf_blank b5
  | CTPath p => wf_path p && negb (bytes_in (cp_head p) base_words)
  end
with wf_type (t : ctype) : bool :=
  match t with
  | CType t None => wf_ty t
  | CType t (Some (bl, anns)) => wf_ty t && wf_blank bl && wf_anns anns
  end.

(* ---------- integer constants:  '-'*  [0x] digits  ---------- *)
(* the value is spelled out here independently of the parser's conversion: plain positional notation *)
Definition digits_value (radix : Z) (ds : list byte) : Z := fold_left (fun acc d => acc * radix + digit_val d) ds 0.
Record cint := mkCInt { ci_minus : nat; ci_hex : bool; ci_digits : list byte }.
Fixpoint minus_run (n : nat) (k : list byte) : list byte := match n with O => k | S n' => x2d :: minus_run n' k end.
Definition pr_int (i : cint) (k : list byte) : list byte :=
  minus_run (ci_minus i) ((if ci_hex i then txt "0x" else []) ++ ci_digits i ++ k).
Definition int_abs (i : cint) : Z := digits_value (if ci_hex i then 16 else 10) (ci_digits i).
Definition erase_int (i : cint) : Z := if Nat.odd (ci_minus i) then - int_abs i else int_abs i.
(* digits of the right radix, at least one, magnitude within i64 *)
Definition wf_int (i : cint) : bool :=
  negb (is_nil (ci_digits i)) && forallb (if ci_hex i then is_hexdigit else is_digit) (ci_digits i) &&
  (int_abs i <=? 9223372036854775807).

(* ---------- double constants (the parser keeps the text):  [-] [+] body,  body = d+ . d* [exp] | . d+ [exp] | d+ exp,
   exp = e|E followed by an integer constant ---------- *)
Record cexp := mkCExp { ce_upper : bool; ce_int : cint }.
Inductive cdbody :=
| DBodyA (ip fp : list byte) (ex : option cexp)
| DBodyB (fp : list byte) (ex : option cexp)
| DBodyC (ip : list byte) (ex : cexp).
Record cdbl := mkCDbl { cd_minus : bool; cd_plus : bool; cd_body : cdbody }.
Definition pr_exp (e : cexp) (k : list byte) : list byte := (if ce_upper e then x45 else x65) :: pr_int (ce_int e) k.
Definition pr_oexp (e : option cexp) (k : list byte) : list byte := match e with Some e => pr_exp e k | None => k end.
Definition pr_dbody (b : cdbody) (k : list byte) : list byte :=
  match b with
  | DBodyA ip fp ex => ip ++ x2e :: fp ++ pr_oexp ex k
  | DBodyB fp ex => x2e :: fp ++ pr_oexp ex k
  | DBodyC ip ex => ip ++ pr_exp ex k
  end.
Definition pr_dbl (d : cdbl) (k : list byte) : list byte :=
  (if cd_minus d then [x2d] else []) ++ (if cd_plus d then [x2b] else []) ++ pr_dbody (cd_body d) k.
Definition erase_dbl (d : cdbl) : str := pr_dbl d [].
Definition is_digits (ds : list byte) : bool := forallb is_digit ds.
Definition wf_exp (e : cexp) : bool := wf_int (ce_int e).
Definition wf_oexp (e : option cexp) : bool := match e with Some e => wf_exp e | None => true end.
Definition wf_dbody (b : cdbody) : bool :=
  match b with
  | DBodyA ip fp ex => negb (is_nil ip) && is_digits ip && is_digits fp && wf_oexp ex
  | DBodyB fp ex => negb (is_nil fp) && is_digits fp && wf_oexp ex
  | DBodyC ip ex => negb (is_nil ip) && is_digits ip && wf_exp ex
  end.
Definition wf_dbl (d : cdbl) : bool := wf_dbody (cd_body d).

(* ---------- where a word or a number ends ----------
   What the grammar demands of the text k that directly follows a token: that it does not continue the token.  For words
   this is one byte of look-ahead; for numbers it is the longest-match rule of the number syntax, spelled out here
   byte by byte (independently of the parser):  digits continue a digit run; "0" followed by 'x' and hexadecimal
   digits (value within i64) is a hexadecimal constant; digits followed by '.', or by e / E and an integer constant
   (value within i64 -- an exponent that overflows is not an exponent), are a double. *)
Definition hd_is (f : byte -> bool) (k : list byte) : bool := match k with b :: _ => f b | [] => false end.
Fixpoint run (f : byte -> bool) (k : list byte) : list byte :=
  match k with b :: k' => if f b then b :: run f k' else [] | [] => [] end.
Fixpoint skip_minus (k : list byte) : list byte :=
  match k with b :: k' => if Byte.eqb b x2d then skip_minus k' else k | [] => [] end.
Definition wordch (b : byte) : bool := is_alnum b || is_underscore b.
(* an integer constant can be read at the beginning of k:  '-'* digits, the decimal value within i64 ("0x.." begins
   with the digit 0) *)
Definition int_starts (k : list byte) : bool :=
  let ds := run is_digit (skip_minus k) in negb (is_nil ds) && (digits_value 10 ds <=? 9223372036854775807).
(* k begins with an exponent *)
Definition exp_starts (k : list byte) : bool :=
  match k with b :: k' => (Byte.eqb b x65 || Byte.eqb b x45) && int_starts k' | [] => false end.
(* after the single digit 0: 'x' and hexadecimal digits whose value is within i64 *)
Definition hex_continues (k : list byte) : bool :=
  match k with
  | b :: k' => Byte.eqb b x78 && (let hs := run is_hexdigit k' in negb (is_nil hs) && (digits_value 16 hs <=? 9223372036854775807))
  | [] => false
  end.
Definition is_zero (ds : list byte) : bool := match ds with [b] => Byte.eqb b x30 | _ => false end.
(* the integer constant i ends where k begins *)
Definition int_stops (i : cint) (k : list byte) : bool :=
  if ci_hex i then negb (hd_is is_hexdigit k)
  else negb (hd_is is_digit k) && negb (is_zero (ci_digits i) && hex_continues k).
(* in a position where a double is tried first: [-] digits followed by '.' or an exponent is a double *)
Definition int_not_double (i : cint) (k : list byte) : bool :=
  ci_hex i || Nat.leb 2 (ci_minus i) || negb (hd_is (fun b => Byte.eqb b x2e) k || exp_starts k).
(* the double constant d ends where k begins *)
Definition dbl_stops (d : cdbl) (k : list byte) : bool :=
  match cd_body d with
  | DBodyA _ _ None | DBodyB _ None => negb (hd_is is_digit k) && negb (exp_starts k)
  | DBodyA _ _ (Some e) | DBodyB _ (Some e) | DBodyC _ e => int_stops (ce_int e) k
  end.

(* ---------- constant values ---------- *)
Inductive cconst :=
| CCLit (l : clit)
| CCBool (b : bool)
| CCPath (p : cpath)
| CCDbl (d : cdbl)
| CCInt (i : cint)
| CCList (b0 : blank) (els : clist)            (* [ b0 (v b sep)* ] *)
| CCMap (b0 : blank) (els : cmapl)             (* { b0 (k b1 : b2 v b3 sep)* } *)
with clist := CLNil | CLCons (v : cconst) (b : blank) (s : csep) (rest : clist)
with cmapl := CMNil | CMCons (k : cconst) (b1 b2 : blank) (v : cconst) (b3 : blank) (s : csep) (rest : cmapl).

Fixpoint pr_const (v : cconst) (k : list byte) : list byte :=
  match v with
  | CCLit l => pr_lit l k
  | CCBool b => (if b then txt "true" else txt "false") ++ k
  | CCPath p => pr_path p k
  | CCDbl d => pr_dbl d k
  | CCInt i => pr_int i k
  | CCList b0 els => txt "[" ++ pr_blank b0 (pr_clist els (txt "]" ++ k))
  | CCMap b0 els => txt "{" ++ pr_blank b0 (pr_cmapl els (txt "}" ++ k))
  end
with pr_clist (l : clist) (k : list byte) : list byte :=
  match l with
  | CLNil => k
  | CLCons v b s rest => pr_const v (pr_blank b (pr_sep s (pr_clist rest k)))
  end
with pr_cmapl (l : cmapl) (k : list byte) : list byte :=
  match l with
  | CMNil => k
  | CMCons key b1 b2 v b3 s rest =>
    pr_const key (pr_blank b1 (txt ":" ++ pr_blank b2 (pr_const v (pr_blank b3 (pr_sep s (pr_cmapl rest k))))))
  end.

Fixpoint erase_const (v : cconst) : ConstValue :=
  match v with
  | CCLit l => CString (erase_lit l)
  | CCBool b => CBool b
  | CCPath p => CPath (erase_path p)
  | CCDbl d => CDouble (erase_dbl d)
  | CCInt i => CInt (erase_int i)
  | CCList _ els => CList (erase_clist els)
  | CCMap _ els => CMap (erase_cmapl els)
  end
with erase_clist (l : clist) : list ConstValue :=
  match l with CLNil => [] | CLCons v _ _ rest => erase_const v :: erase_clist rest end
with erase_cmapl (l : cmapl) : list (ConstValue * ConstValue) :=
  match l with CMNil => [] | CMCons key _ _ v _ _ rest => (erase_const key, erase_const v) :: erase_cmapl rest end.

(* does the text of the value end with a word character (a word or a number)? *)
Definition const_ends_word (v : cconst) : bool :=
  match v with CCBool _ | CCPath _ | CCDbl _ | CCInt _ => true | _ => false end.
(* does the text of the value begin with a word character or a '.' (so that it would continue a preceding word or
   number)?  Signs, quotes and brackets do not. *)
Definition const_starts_word (v : cconst) : bool :=
  match v with
  | CCBool _ | CCPath _ => true
  | CCDbl d => negb (cd_minus d) && negb (cd_plus d)
  | CCInt i => match ci_minus i with O => true | S _ => false end
  | _ => false
  end.
Definition const_starts_dot (v : cconst) : bool :=
  match v with
  | CCDbl d => negb (cd_minus d) && negb (cd_plus d) && match cd_body d with DBodyB _ _ => true | _ => false end
  | _ => false
  end.
Definition clist_starts_word (l : clist) : bool := match l with CLNil => false | CLCons v _ _ _ => const_starts_word v end.
Definition clist_starts_dot (l : clist) : bool := match l with CLNil => false | CLCons v _ _ _ => const_starts_dot v end.
Definition cmapl_starts_word (l : cmapl) : bool := match l with CMNil => false | CMCons k _ _ _ _ _ _ => const_starts_word k end.
Definition cmapl_starts_dot (l : cmapl) : bool := match l with CMNil => false | CMCons k _ _ _ _ _ _ => const_starts_dot k end.

Definition const_is_path (v : cconst) : bool := match v with CCPath _ => true | _ => false end.
(* the value v ends where the text k begins: k does not continue its last token.  (true.5 is the word true and the double
   .5; a.5 is the path a and the double .5, because a path segment does not begin with a digit) *)
Definition cont_ok (v : cconst) (k : list byte) : bool :=
  match v with
  | CCBool _ | CCPath _ => negb (hd_is wordch k)
  | CCDbl d => dbl_stops d k
  | CCInt i => int_stops i k && int_not_double i k
  | _ => true
  end.
(* what the grammar demands between a value and the text nx of the following values when neither a blank nor a separator
   is written *)
Definition glue_ok (v : cconst) (b : blank) (s : csep) (nx : list byte) : bool :=
  match s, b with
  | SepNone, [] => cont_ok v nx
  | _, _ => true
  end.

Fixpoint wf_const (v : cconst) : bool :=
  match v with
  | CCLit l => wf_lit l
  | CCBool _ => true
  | CCPath p => wf_path p && negb (bytes_in (cp_head p) [txt "true"; txt "false"])
  | CCDbl d => wf_dbl d
  | CCInt i => wf_int i
  | CCList b0 els => wf_blank b0 && wf_clist els
  | CCMap b0 els => wf_blank b0 && wf_cmapl els
  end
with wf_clist (l : clist) : bool :=
  match l with
  | CLNil => true
  | CLCons v b s rest =>
    wf_const v && wf_blank b && wf_sep s && glue_ok v b s (pr_clist rest []) && wf_clist rest
  end
with wf_cmapl (l : cmapl) : bool :=
  match l with
  | CMNil => true
  | CMCons key b1 b2 v b3 s rest =>
    wf_const key && wf_blank b1 && wf_blank b2 && wf_const v && wf_blank b3 && wf_sep s &&
    glue_ok v b3 s (pr_cmapl rest []) && wf_cmapl rest
  end.

(* ---------- optional pieces shared by the declarations ---------- *)
Definition pr_oanns (a : option (list cann)) (k : list byte) : list byte :=
  match a with Some l => pr_anns l k | None => k end.
Definition erase_oanns (a : option (list cann)) : Annotations := match a with Some l => erase_anns l | None => [] end.
Definition wf_oanns (a : option (list cann)) : bool := match a with Some l => wf_anns l | None => true end.
Definition sep_none (s : csep) : bool := match s with SepNone => true | SepSome _ _ => false end.
Definition is_none {A} (o : option A) : bool := match o with None => true | Some _ => false end.

Definition wf_sep_at (eof : bool) (s : csep) : bool := match s with SepNone => true | SepSome _ bl => wfb eof bl end.

(* the tail shared by typedef, const, struct / union / exception and service:   [blank] [annotations] [separator]
   (no blank slot between the annotation list and the separator) *)
Record ctail := mkTail { t_b : blank; t_anns : option (list cann); t_sep : csep }.
Definition pr_tail (t : ctail) (k : list byte) : list byte :=
  pr_blank (t_b t) (pr_oanns (t_anns t) (pr_sep (t_sep t) k)).
(* [eof]: the declaration is the last thing of the text; then its last blank slot may end with an unterminated comment *)
Definition wf_tail (eof : bool) (t : ctail) : bool :=
  wfb (eof && is_none (t_anns t) && sep_none (t_sep t)) (t_b t) && wf_oanns (t_anns t) && wf_sep_at eof (t_sep t).
(* the text of the tail ends in a blank slot (a blank that follows belongs to that slot) *)
Definition tail_open (t : ctail) : bool := match t_sep t with SepSome _ _ => true | SepNone => is_none (t_anns t) end.
(* the tail prints nothing *)
Definition tail_bare (t : ctail) : bool := is_nil (t_b t) && is_none (t_anns t) && sep_none (t_sep t).

(* the tail of fields and namespaces:   [annotations [blank]] [separator]   (after a blank slot) *)
Definition pr_tail2 (a : option (list cann * blank)) (s : csep) (k : list byte) : list byte :=
  match a with Some (l, b) => pr_anns l (pr_blank b (pr_sep s k)) | None => pr_sep s k end.
Definition wf_tail2 (eof : bool) (a : option (list cann * blank)) (s : csep) : bool :=
  match a with Some (l, b) => wf_anns l && wfb (eof && sep_none s) b | None => true end && wf_sep_at eof s.
Definition erase_anns2 (a : option (list cann * blank)) : option Annotations := option_map (fun x => erase_anns (fst x)) a.

(* ---------- typedef:  typedef <blank> T <blank> alias tail ---------- *)
Record ctypedef := mkCTypedef { ctd_b1 : blank; ctd_type : ctype; ctd_b2 : blank; ctd_alias : Ident; ctd_tail : ctail }.
Definition pr_typedef (c : ctypedef) (k : list byte) : list byte :=
  txt "typedef" ++ pr_blank (ctd_b1 c) (pr_type (ctd_type c) (pr_blank (ctd_b2 c) (ctd_alias c ++ pr_tail (ctd_tail c) k))).
Definition erase_typedef (c : ctypedef) : Typedef :=
  mkTypedef (erase_type (ctd_type c)) (ctd_alias c) (erase_oanns (t_anns (ctd_tail c))).
Definition wf_typedef (eof : bool) (c : ctypedef) : bool :=
  wf_blank (ctd_b1 c) && negb (is_nil (ctd_b1 c)) && wf_type (ctd_type c) && wf_blank (ctd_b2 c) && negb (is_nil (ctd_b2 c)) &&
  is_ident (ctd_alias c) && wf_tail eof (ctd_tail c).
(* does the text of the declaration end with a word character (so that a following word must be set off)? *)
Definition typedef_ends_word (c : ctypedef) : bool := tail_bare (ctd_tail c).

(* ---------- const:  const <blank> T <blank> name [blank] = [blank] value tail ---------- *)
Record cconstant := mkCConstant { ck_b1 : blank; ck_type : ctype; ck_b2 : blank; ck_name : Ident; ck_b3 : blank; ck_b4 : blank;
                                  ck_val : cconst; ck_tail : ctail }.
Definition pr_constant (c : cconstant) (k : list byte) : list byte :=
  txt "const" ++ pr_blank (ck_b1 c) (pr_type (ck_type c) (pr_blank (ck_b2 c) (ck_name c ++ pr_blank (ck_b3 c)
    (txt "=" ++ pr_blank (ck_b4 c) (pr_const (ck_val c) (pr_tail (ck_tail c) k)))))).
Definition erase_constant (c : cconstant) : Constant :=
  mkConstant (ck_name c) (erase_type (ck_type c)) (erase_const (ck_val c)) (erase_oanns (t_anns (ck_tail c))).
Definition wf_constant (eof : bool) (c : cconstant) : bool :=
  wf_blank (ck_b1 c) && negb (is_nil (ck_b1 c)) && wf_type (ck_type c) && wf_blank (ck_b2 c) && negb (is_nil (ck_b2 c)) &&
  is_ident (ck_name c) && wf_blank (ck_b3 c) && wf_blank (ck_b4 c) && wf_const (ck_val c) && wf_tail eof (ck_tail c).
Definition constant_ends_word (c : cconstant) : bool := const_ends_word (ck_val c) && tail_bare (ck_tail c).

(* ---------- fields:  id [blank] : [blank] [required|optional <blank>] T [blank] name [blank] [= [blank] value [blank]]
                       [annotations [blank]] [separator] ---------- *)
Record cfield := mkCField { cf_id : list byte; cf_b1 : blank; cf_b2 : blank; cf_attr : option (bool * blank);
                            cf_type : ctype; cf_b3 : blank; cf_name : Ident; cf_b4 : blank;
                            cf_default : option (blank * cconst * blank); cf_anns : option (list cann * blank); cf_sep : csep }.
Definition pr_attr (a : option (bool * blank)) (k : list byte) : list byte :=
  match a with
  | Some (req, b) => (if req then txt "required" else txt "optional") ++ pr_blank b k
  | None => k
  end.
Definition pr_default (d : option (blank * cconst * blank)) (k : list byte) : list byte :=
  match d with
  | Some (b1, v, b2) => txt "=" ++ pr_blank b1 (pr_const v (pr_blank b2 k))
  | None => k
  end.
Definition pr_field (f : cfield) (k : list byte) : list byte :=
  cf_id f ++ pr_blank (cf_b1 f) (txt ":" ++ pr_blank (cf_b2 f) (pr_attr (cf_attr f) (pr_type (cf_type f)
    (pr_blank (cf_b3 f) (cf_name f ++ pr_blank (cf_b4 f) (pr_default (cf_default f) (pr_tail2 (cf_anns f) (cf_sep f) k))))))).
Definition erase_attr (a : option (bool * blank)) : Attribute :=
  match a with Some (true, _) => ARequired | Some (false, _) => AOptional | None => ADefault end.
Definition erase_default (d : option (blank * cconst * blank)) : option ConstValue :=
  match d with Some (_, v, _) => Some (erase_const v) | None => None end.
Definition unwrap_anns (o : option Annotations) : Annotations := match o with Some l => l | None => [] end.
Definition erase_field (f : cfield) : Field :=
  mkField (digits_value 10 (cf_id f)) (cf_name f) (erase_attr (cf_attr f)) (erase_type (cf_type f))
          (erase_default (cf_default f)) (unwrap_anns (erase_anns2 (cf_anns f))).
(* the first word of a type, when the type is a path *)
Definition type_path_head (t : ctype) : option Ident :=
  match t with CType (CTPath p) _ => Some (cp_head p) | _ => None end.
Definition head_not_in (t : ctype) (ws : list (list byte)) : bool :=
  match type_path_head t with Some h => negb (bytes_in h ws) | None => true end.
Definition wf_attr (a : option (bool * blank)) (t : ctype) : bool :=
  match a with
  | Some (_, b) => wf_blank b && negb (is_nil b)
  | None => head_not_in t [txt "required"; txt "optional"]
  end.
Definition default_bare (d : option (blank * cconst * blank)) : bool := is_none d.
Definition wf_default (d : option (blank * cconst * blank)) : bool :=
  match d with Some (b1, v, b2) => wf_blank b1 && wf_const v && wf_blank b2 | None => true end.
Definition field_ends_word (f : cfield) : bool :=
  sep_none (cf_sep f) && is_none (cf_anns f) &&
  match cf_default f with Some (_, v, b2) => const_ends_word v && is_nil b2 | None => is_nil (cf_b4 f) end.
Definition wf_field (f : cfield) : bool :=
  negb (is_nil (cf_id f)) && is_digits (cf_id f) && (digits_value 10 (cf_id f) <=? 2147483647) &&
  wf_blank (cf_b1 f) && wf_blank (cf_b2 f) && wf_attr (cf_attr f) (cf_type f) && wf_type (cf_type f) && wf_blank (cf_b3 f) &&
  (negb (type_ends_word (cf_type f)) || negb (is_nil (cf_b3 f))) && is_ident (cf_name f) && wf_blank (cf_b4 f) &&
  wf_default (cf_default f) && wf_tail2 false (cf_anns f) (cf_sep f).

(* a run of fields: every field ends in a blank slot; one that ends with a word must not be followed directly by the
   next field (which begins with a digit) *)
Fixpoint pr_fields (fs : list cfield) (k : list byte) : list byte :=
  match fs with [] => k | f :: fs' => pr_field f (pr_fields fs' k) end.
Fixpoint wf_fields (fs : list cfield) : bool :=
  match fs with
  | [] => true
  | f :: fs' => wf_field f && (is_nil fs' || negb (field_ends_word f)) && wf_fields fs'
  end.

(* ---------- struct / union / exception:  kw <blank> name [blank] { [blank] fields } tail ---------- *)
Inductive skind := SKStruct | SKUnion | SKException.
Definition skind_kw (s : skind) : list byte :=
  match s with SKStruct => txt "struct" | SKUnion => txt "union" | SKException => txt "exception" end.
Record cstruct := mkCStruct { cs_name : Ident; cs_b1 : blank; cs_b0 : blank; cs_fields : list cfield; cs_tail : ctail }.
Definition pr_struct_like (c : cstruct) (k : list byte) : list byte :=
  cs_name c ++ pr_blank (cs_b1 c) (txt "{" ++ pr_blank (cs_b0 c) (pr_fields (cs_fields c) (txt "}" ++ pr_tail (cs_tail c) k))).
Definition erase_struct (c : cstruct) : StructLike :=
  mkStructLike (cs_name c) (map erase_field (cs_fields c)) (erase_oanns (t_anns (cs_tail c))).
Definition wf_struct (eof : bool) (c : cstruct) : bool :=
  is_ident (cs_name c) && wf_blank (cs_b1 c) && wf_blank (cs_b0 c) && wf_fields (cs_fields c) && wf_tail eof (cs_tail c).

(* ---------- enum:  enum <blank> name [blank] { [blank] values } [blank] [annotations]
   value:  name [blank] [= [blank] int [blank]] [annotations] [separator] [blank] ---------- *)
Record cenumval := mkCEnumVal { ev_cname : Ident; ev_b1 : blank; ev_val : option (blank * cint * blank);
                                ev_canns : option (list cann); ev_sep : csep; ev_b4 : blank }.
Definition pr_evalue (v : option (blank * cint * blank)) (k : list byte) : list byte :=
  match v with Some (b1, i, b2) => txt "=" ++ pr_blank b1 (pr_int i (pr_blank b2 k)) | None => k end.
Definition pr_enumval (e : cenumval) (k : list byte) : list byte :=
  ev_cname e ++ pr_blank (ev_b1 e) (pr_evalue (ev_val e) (pr_oanns (ev_canns e) (pr_sep (ev_sep e) (pr_blank (ev_b4 e) k)))).
Definition erase_enumval (e : cenumval) : EnumValue :=
  mkEnumValue (ev_cname e) (match ev_val e with Some (_, i, _) => Some (erase_int i) | None => None end) (erase_oanns (ev_canns e)).
(* the last blank slot is a slot of its own only after an annotation list without separator *)
Definition wf_enumval (e : cenumval) : bool :=
  is_ident (ev_cname e) && wf_blank (ev_b1 e) &&
  match ev_val e with Some (b1, i, b2) => wf_blank b1 && wf_int i && wf_blank b2 | None => true end &&
  wf_oanns (ev_canns e) && wf_sep (ev_sep e) && wf_blank (ev_b4 e) &&
  (is_nil (ev_b4 e) || (negb (is_none (ev_canns e)) && sep_none (ev_sep e))).
Definition enumval_ends_word (e : cenumval) : bool :=
  sep_none (ev_sep e) && is_none (ev_canns e) && is_nil (ev_b4 e) &&
  match ev_val e with Some (_, _, b2) => is_nil b2 | None => is_nil (ev_b1 e) end.
Fixpoint pr_enumvals (l : list cenumval) (k : list byte) : list byte :=
  match l with [] => k | e :: l' => pr_enumval e (pr_enumvals l' k) end.
(* a value whose text ends with its name or its number is directly followed by the name nx of the next value only if
   the number ends there (A=5B is A=5 and B; a name cannot be followed directly by a name) *)
Definition enumval_glue (e : cenumval) (nx : list byte) : bool :=
  negb (enumval_ends_word e) || match ev_val e with Some (_, i, _) => int_stops i nx | None => false end.
Fixpoint wf_enumvals (l : list cenumval) : bool :=
  match l with
  | [] => true
  | e :: l' => wf_enumval e && match l' with [] => true | e' :: _ => enumval_glue e (ev_cname e') end && wf_enumvals l'
  end.
Record cenum := mkCEnum { ce_b1 : blank; ce_name : Ident; ce_b2 : blank; ce_b0 : blank; ce_vals : list cenumval;
                          ce_b3 : blank; ce_anns : option (list cann) }.
Definition pr_enum (c : cenum) (k : list byte) : list byte :=
  txt "enum" ++ pr_blank (ce_b1 c) (ce_name c ++ pr_blank (ce_b2 c) (txt "{" ++ pr_blank (ce_b0 c)
    (pr_enumvals (ce_vals c) (txt "}" ++ pr_blank (ce_b3 c) (pr_oanns (ce_anns c) k))))).
Definition erase_enum (c : cenum) : Enum :=
  mkEnum (ce_name c) (map erase_enumval (ce_vals c)) (erase_oanns (ce_anns c)).
Definition wf_enum (eof : bool) (c : cenum) : bool :=
  wf_blank (ce_b1 c) && negb (is_nil (ce_b1 c)) && is_ident (ce_name c) && wf_blank (ce_b2 c) && wf_blank (ce_b0 c) &&
  wf_enumvals (ce_vals c) && wfb (eof && is_none (ce_anns c)) (ce_b3 c) && wf_oanns (ce_anns c).

(* ---------- function:  [oneway <blank>] T <blank> name [blank] ( [blank] fields ) [blank]
                         [throws [blank] ( [blank] fields+ ) [blank]] [annotations] [separator] ---------- *)
Record cthrows := mkCThrows { th_b1 : blank; th_b0 : blank; th_fields : list cfield; th_b2 : blank }.
Record cfunction := mkCFunction { fn_coneway : option blank; fn_type : ctype; fn_b1 : blank; fn_cname : Ident; fn_b2 : blank;
                                  fn_b0 : blank; fn_args : list cfield; fn_b3 : blank; fn_cthrows : option cthrows;
                                  fn_canns : option (list cann); fn_sep : csep }.
Definition pr_throws (t : option cthrows) (k : list byte) : list byte :=
  match t with
  | Some t => txt "throws" ++ pr_blank (th_b1 t) (txt "(" ++ pr_blank (th_b0 t) (pr_fields (th_fields t) (txt ")" ++ pr_blank (th_b2 t) k)))
  | None => k
  end.
Definition pr_function (f : cfunction) (k : list byte) : list byte :=
  (match fn_coneway f with Some b => txt "oneway" ++ pr_blank b (pr_type (fn_type f) (pr_blank (fn_b1 f) (fn_cname f ++ pr_blank (fn_b2 f)
     (txt "(" ++ pr_blank (fn_b0 f) (pr_fields (fn_args f) (txt ")" ++ pr_blank (fn_b3 f) (pr_throws (fn_cthrows f)
       (pr_oanns (fn_canns f) (pr_sep (fn_sep f) k)))))))))
   | None => pr_type (fn_type f) (pr_blank (fn_b1 f) (fn_cname f ++ pr_blank (fn_b2 f)
     (txt "(" ++ pr_blank (fn_b0 f) (pr_fields (fn_args f) (txt ")" ++ pr_blank (fn_b3 f) (pr_throws (fn_cthrows f)
       (pr_oanns (fn_canns f) (pr_sep (fn_sep f) k))))))))
   end).
(* Function::parse turns arguments without requiredness into required ones *)
Definition arg_required (f : Field) : Field :=
  match f_attribute f with
  | ADefault => mkField (f_id f) (f_name f) ARequired (f_ty f) (f_default f) (f_annotations f)
  | _ => f
  end.
Definition erase_function (f : cfunction) : Function :=
  mkFunction (fn_cname f) (negb (is_none (fn_coneway f))) (erase_type (fn_type f)) (map arg_required (map erase_field (fn_args f)))
             (match fn_cthrows f with Some t => map erase_field (th_fields t) | None => [] end) (erase_oanns (fn_canns f)).
Definition wf_throws (t : option cthrows) : bool :=
  match t with
  | Some t => wf_blank (th_b1 t) && wf_blank (th_b0 t) && negb (is_nil (th_fields t)) && wf_fields (th_fields t) && wf_blank (th_b2 t)
  | None => true
  end.
(* the result type of a function that does not begin with the keyword oneway: if its first word is "oneway" (a path
   such as oneway.x, or the type name oneway with an annotation list), the word must not be followed by a blank --
   "oneway", a blank and a type is the keyword.  (A result type whose first word is "throws" needs nothing: a throws
   clause continues with '(' and a field, a type never does.) *)
Definition oneway_head_ok (t : ctype) : bool :=
  match t with
  | CType (CTPath p) an =>
    negb (bytes_eq (cp_head p) (txt "oneway")) ||
    match cp_tail p with
    | (b1, _, _) :: _ => is_nil b1
    | [] => match an with Some (bl, _) => is_nil bl | None => false end
    end
  | _ => true
  end.
Definition wf_function (f : cfunction) : bool :=
  match fn_coneway f with
  | Some b => wf_blank b && negb (is_nil b)
  | None => oneway_head_ok (fn_type f)
  end &&
  wf_type (fn_type f) && wf_blank (fn_b1 f) && negb (is_nil (fn_b1 f)) && is_ident (fn_cname f) && wf_blank (fn_b2 f) &&
  wf_blank (fn_b0 f) && wf_fields (fn_args f) && wf_blank (fn_b3 f) && wf_throws (fn_cthrows f) && wf_oanns (fn_canns f) &&
  wf_sep (fn_sep f).
(* the text of the function ends with the ')' of its annotation list: a blank that follows is not part of it *)
Definition function_closed (f : cfunction) : bool := negb (is_none (fn_canns f)) && sep_none (fn_sep f).

(* ---------- service:  service <blank> name [<blank> extends <blank> path] [blank] { ([blank] function)* [blank] } tail ---------- *)
Record cservice := mkCService { sv_b1 : blank; sv_cname : Ident; sv_cextends : option (blank * blank * cpath); sv_b2 : blank;
                                sv_fns : list (blank * cfunction); sv_b3 : blank; sv_tail : ctail }.
Fixpoint pr_fns (l : list (blank * cfunction)) (k : list byte) : list byte :=
  match l with [] => k | (b, f) :: l' => pr_blank b (pr_function f (pr_fns l' k)) end.
Definition pr_extends (e : option (blank * blank * cpath)) (k : list byte) : list byte :=
  match e with Some (b1, b2, p) => pr_blank b1 (txt "extends" ++ pr_blank b2 (pr_path p k)) | None => k end.
Definition pr_service (c : cservice) (k : list byte) : list byte :=
  txt "service" ++ pr_blank (sv_b1 c) (sv_cname c ++ pr_extends (sv_cextends c) (pr_blank (sv_b2 c) (txt "{" ++
    pr_fns (sv_fns c) (pr_blank (sv_b3 c) (txt "}" ++ pr_tail (sv_tail c) k))))).
Definition erase_service (c : cservice) : Service :=
  mkService (sv_cname c) (match sv_cextends c with Some (_, _, p) => Some (erase_path p) | None => None end)
            (map (fun x => erase_function (snd x)) (sv_fns c)) (erase_oanns (t_anns (sv_tail c))).
(* [prev_closed]: the text before the blank slot ends with a token (the '{' or the ')' of an annotation list); otherwise
   the slot is adjacent to the last blank slot of the preceding function and must be empty *)
Fixpoint wf_fns (prev_closed : bool) (l : list (blank * cfunction)) : bool :=
  match l with
  | [] => true
  | (b, f) :: l' => wf_blank b && (prev_closed || is_nil b) && wf_function f && wf_fns (function_closed f) l'
  end.
Fixpoint last_closed (prev_closed : bool) (l : list (blank * cfunction)) : bool :=
  match l with [] => prev_closed | (_, f) :: l' => last_closed (function_closed f) l' end.
Definition wf_extends (e : option (blank * blank * cpath)) : bool :=
  match e with
  | Some (b1, b2, p) => wf_blank b1 && negb (is_nil b1) && wf_blank b2 && negb (is_nil b2) && wf_path p
  | None => true
  end.
Definition wf_service (eof : bool) (c : cservice) : bool :=
  wf_blank (sv_b1 c) && negb (is_nil (sv_b1 c)) && is_ident (sv_cname c) && wf_extends (sv_cextends c) && wf_blank (sv_b2 c) &&
  wf_fns true (sv_fns c) && wf_blank (sv_b3 c) && (last_closed true (sv_fns c) || is_nil (sv_b3 c)) && wf_tail eof (sv_tail c).

(* ---------- include / cpp_include:  kw <blank> literal [separator];  namespace <blank> scope <blank> path [blank]
   [annotations [blank]] [separator] ---------- *)
Definition scope_words : list (list byte) :=
  [txt "*"; txt "c_glib"; txt "cpp"; txt "delphi"; txt "haxe"; txt "go"; txt "java"; txt "js"; txt "lua"; txt "netstd";
   txt "perl"; txt "php"; txt "py.twisted"; txt "py"; txt "rb"; txt "st"; txt "xsd"; txt "rs"].
Record cnamespace := mkCNamespace { ns_b1 : blank; ns_cscope : list byte; ns_b2 : blank; ns_path : cpath; ns_b3 : blank;
                                    ns_canns : option (list cann * blank); ns_sep : csep }.
Definition pr_namespace (c : cnamespace) (k : list byte) : list byte :=
  txt "namespace" ++ pr_blank (ns_b1 c) (ns_cscope c ++ pr_blank (ns_b2 c) (pr_path (ns_path c) (pr_blank (ns_b3 c)
    (pr_tail2 (ns_canns c) (ns_sep c) k)))).
Definition erase_namespace (c : cnamespace) : Namespace :=
  mkNamespace (ns_cscope c) (erase_path (ns_path c)) (erase_anns2 (ns_canns c)).
Definition wf_namespace (eof : bool) (c : cnamespace) : bool :=
  wf_blank (ns_b1 c) && negb (is_nil (ns_b1 c)) && bytes_in (ns_cscope c) scope_words && wf_blank (ns_b2 c) &&
  negb (is_nil (ns_b2 c)) && wf_path (ns_path c) && wfb (eof && is_none (ns_canns c) && sep_none (ns_sep c)) (ns_b3 c) &&
  wf_tail2 eof (ns_canns c) (ns_sep c).

(* ---------- items and files ---------- *)
Inductive citem :=
| CIInclude (b : blank) (l : clit) (s : csep)
| CICppInclude (b : blank) (l : clit) (s : csep)
| CINamespace (n : cnamespace)
| CITypedef (t : ctypedef)
| CIConst (c : cconstant)
| CIEnum (e : cenum)
| CIStruct (kind : skind) (b : blank) (s : cstruct)
| CIService (s : cservice).

Definition pr_item (it : citem) (k : list byte) : list byte :=
  match it with
  | CIInclude b l s => txt "include" ++ pr_blank b (pr_lit l (pr_sep s k))
  | CICppInclude b l s => txt "cpp_include" ++ pr_blank b (pr_lit l (pr_sep s k))
  | CINamespace n => pr_namespace n k
  | CITypedef t => pr_typedef t k
  | CIConst c => pr_constant c k
  | CIEnum e => pr_enum e k
  | CIStruct kind b s => skind_kw kind ++ pr_blank b (pr_struct_like s k)
  | CIService s => pr_service s k
  end.
Definition erase_item (it : citem) : Item :=
  match it with
  | CIInclude _ l _ => IInclude (erase_lit l)
  | CICppInclude _ l _ => ICppInclude (erase_lit l)
  | CINamespace n => INamespace (erase_namespace n)
  | CITypedef t => ITypedef (erase_typedef t)
  | CIConst c => IConstant (erase_constant c)
  | CIEnum e => IEnum (erase_enum e)
  | CIStruct SKStruct _ s => IStruct (erase_struct s)
  | CIStruct SKUnion _ s => IUnion (erase_struct s)
  | CIStruct SKException _ s => IException (erase_struct s)
  | CIService s => IService (erase_service s)
  end.
Definition wf_item (eof : bool) (it : citem) : bool :=
  match it with
  | CIInclude b l s | CICppInclude b l s => wf_blank b && negb (is_nil b) && wf_lit l && wf_sep_at eof s
  | CINamespace n => wf_namespace eof n
  | CITypedef t => wf_typedef eof t
  | CIConst c => wf_constant eof c
  | CIEnum e => wf_enum eof e
  | CIStruct _ b s => wf_blank b && negb (is_nil b) && wf_struct eof s
  | CIService s => wf_service eof s
  end.
(* the text of the item ends in a blank slot: a blank that follows belongs to the item *)
Definition item_open (it : citem) : bool :=
  match it with
  | CIInclude _ _ s | CICppInclude _ _ s => negb (sep_none s)
  | CINamespace _ => true
  | CITypedef t => tail_open (ctd_tail t)
  | CIConst c => tail_open (ck_tail c)
  | CIEnum e => is_none (ce_anns e)
  | CIStruct _ _ s => tail_open (cs_tail s)
  | CIService s => tail_open (sv_tail s)
  end.
(* the text of the item ends with a word character *)
Definition item_ends_word (it : citem) : bool :=
  match it with
  | CINamespace n => is_nil (ns_b3 n) && is_none (ns_canns n) && sep_none (ns_sep n)
  | CITypedef t => typedef_ends_word t
  | CIConst c => constant_ends_word c
  | _ => false
  end.

(* the keyword an item begins with *)
Definition item_word (it : citem) : list byte :=
  match it with
  | CIInclude _ _ _ => txt "include" | CICppInclude _ _ _ => txt "cpp_include" | CINamespace _ => txt "namespace"
  | CITypedef _ => txt "typedef" | CIConst _ => txt "const" | CIEnum _ => txt "enum" | CIStruct kind _ _ => skind_kw kind
  | CIService _ => txt "service"
  end.
(* an item whose text ends with a word or a number is directly followed by the keyword nx of the next item only if it is
   a constant whose value ends there (const i8 c = 5struct S{} is two items; a name would swallow the keyword) *)
Definition item_glue (it : citem) (nx : list byte) : bool :=
  negb (item_ends_word it) || match it with CIConst c => cont_ok (ck_val c) nx | _ => false end.

(* a file:  [blank] (item [blank])*  -- the blank after an item is a slot of its own only if the item does not end in a
   blank slot; an item that ends with a word is set off from the next item; the last blank of the text (the leading blank,
   if the document has no items) may end with an unterminated line comment. *)
Record cfile := mkCFile { fl_b0 : blank; fl_items : list (citem * blank) }.
Fixpoint pr_items (l : list (citem * blank)) (k : list byte) : list byte :=
  match l with [] => k | (it, b) :: l' => pr_item it (pr_blank b (pr_items l' k)) end.
Definition pr_file (c : cfile) (k : list byte) : list byte := pr_blank (fl_b0 c) (pr_items (fl_items c) k).
Fixpoint package_of_items (items : list Item) : option Path :=
  match items with
  | [] => None
  | INamespace n :: rest => if bytes_eq (ns_scope n) (txt "rs") then Some (ns_name n) else package_of_items rest
  | _ :: rest => package_of_items rest
  end.
Definition erase_items (l : list (citem * blank)) : list Item := map (fun x => erase_item (fst x)) l.
Definition erase_file (c : cfile) : File :=
  mkFile (package_of_items (erase_items (fl_items c))) (erase_items (fl_items c)).
Fixpoint wf_items (l : list (citem * blank)) : bool :=
  match l with
  | [] => true
  | (it, b) :: l' =>
    wf_item (is_nil l' && is_nil b) it && wfb (is_nil l') b && (negb (item_open it) || is_nil b) &&
    match l' with [] => true | (it', _) :: _ => negb (is_nil b) || item_glue it (item_word it') end && wf_items l'
  end.
Definition wf_file (c : cfile) : bool := wfb (is_nil (fl_items c)) (fl_b0 c) && wf_items (fl_items c).
