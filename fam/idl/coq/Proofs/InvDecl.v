(* C15, converse direction: the declaration tails, typedef, const, fields read backwards. *)
From PVIdl Require Import Comb Ast Parser Print Proofs.Total Proofs.RoundTok Proofs.RoundPath Proofs.RoundAnn Proofs.RoundTy
  Proofs.RoundKit Proofs.Lex Proofs.RoundNum Proofs.RoundConst Proofs.RoundDecl Proofs.RoundField
  Proofs.InvKit Proofs.InvTok Proofs.InvTy Proofs.InvNum Proofs.InvConst.
From Coq Require Import ZifyN ZifyNat ZifyBool.
From Coq Require String.
Import String.StringSyntax.
Open Scope nat_scope.

Lemma wfb_of_ok bl r (e : bool) : blank_ok bl r -> (e = false -> r <> []) -> (e = true -> r = []) -> wfb e bl = true.
Proof.
  intros H H1 H2. destruct e; cbn [wfb].
  - destruct H as [H|[_ H]]; [now apply wf_blank_eof_of|exact H].
  - apply (blank_ok_nonnil _ _ H). auto.
Qed.

Lemma is_nil_true {A} (l : list A) : is_nil l = true -> l = [].
Proof. destruct l; [reflexivity|discriminate]. Qed.
Lemma is_nil_false {A} (l : list A) : is_nil l = false -> l <> [].
Proof. destruct l; [discriminate|discriminate]. Qed.

Lemma wfb_nil bl r : blank_ok bl r -> wfb (is_nil r) bl = true.
Proof. apply blank_ok_wfb. Qed.

Lemma wf_sep_at_of s r : sep_ok s r -> wf_sep_at (is_nil r) s = true.
Proof. destruct s as [|semi bl]; cbn [sep_ok wf_sep_at]; [reflexivity|]. intros [H _]. now apply blank_ok_wfb. Qed.

Lemma nonnil_app_ident s (k : list byte) : is_ident s = true -> s ++ k <> [].
Proof. destruct s; [discriminate|discriminate]. Qed.

Section Decl.
Variable lf : nat.

Lemma oanns_inv i r o : opt (p_annotations lf) i = POk r o ->
  exists a, i = pr_oanns a r /\ option_map erase_anns a = o /\ wf_oanns a = true /\ (a = None -> r = i).
Proof.
  intros H. apply opt_inv in H. destruct H as [[l [-> H]]|[-> [-> _]]].
  - destruct (anns_inv lf _ _ _ H) as [cs [-> [<- W]]]. exists (Some cs). repeat split; auto. discriminate.
  - exists None. repeat split.
Qed.

(* [blank] [annotations] [separator] *)
Lemma tail_inv i i1 i2 r o1 an o3 :
  opt (p_blank lf) i = POk i1 o1 -> opt (p_annotations lf) i1 = POk i2 an -> opt (p_list_separator lf) i2 = POk r o3 ->
  exists t, i = pr_tail t r /\ unwrap_or_default an = erase_oanns (t_anns t) /\ wf_tail (is_nil r) t = true /\
            (tail_open t = true -> noblank r) /\ (t_sep t = SepNone -> nosep r = true) /\ (tail_bare t = true -> r = i).
Proof.
  intros E1 E2 E3.
  destruct (oblank_inv _ _ _ _ E1) as [b [-> [Kb [Nb _]]]]. destruct (oanns_inv _ _ _ E2) as [a [-> [<- [Wa Ha]]]].
  destruct (osep_inv _ _ _ _ E3) as [s [-> Hs]].
  exists (mkTail b a s). unfold pr_tail, wf_tail, tail_open, tail_bare. cbn [t_b t_anns t_sep]. repeat split; auto.
  - destruct a; reflexivity.
  - rewrite Wa, (wf_sep_at_of s r Hs). rewrite !andb_true_r.
    destruct a as [l|]; [|destruct s as [|semi bl]]; cbn [is_none sep_none andb pr_oanns pr_sep] in *; rewrite ?andb_false_r, ?andb_true_r.
    + apply (blank_ok_nonnil _ _ Kb). unfold pr_anns. discriminate.
    + now apply blank_ok_wfb.
    + apply (blank_ok_nonnil _ _ Kb). discriminate.
  - destruct s as [|semi bl]; cbn [sep_ok] in Hs; [|tauto]. intros Ea. destruct a; [discriminate|]. exact Nb.
  - intros ->. exact Hs.
  - intros Hb. bsplit Hb. apply is_nil_true in Hb. subst b. destruct a; [discriminate|]. destruct s; [reflexivity|discriminate].
Qed.

(* [annotations [blank]] [separator], after a blank slot *)
Lemma tail2_inv i i1 i2 r an o2 o3 :
  opt (p_annotations lf) i = POk i1 an -> opt (p_blank lf) i1 = POk i2 o2 -> opt (p_list_separator lf) i2 = POk r o3 ->
  noblank i ->
  exists a s, i = pr_tail2 a s r /\ an = erase_anns2 a /\ wf_tail2 (is_nil r) a s = true /\ noblank r /\
              (s = SepNone -> nosep r = true) /\ (a = None -> s = SepNone -> r = i).
Proof.
  intros E1 E2 E3 Hn.
  destruct (oanns_inv _ _ _ E1) as [a [-> [<- [Wa Ha]]]]. destruct (osep_inv _ _ _ _ E3) as [s [-> Hs]].
  destruct a as [l|]; cbn [pr_oanns] in *.
  - destruct (oblank_inv _ _ _ _ E2) as [b [-> [Kb [Nb _]]]].
    exists (Some (l, b)), s. unfold wf_tail2, erase_anns2. cbn [pr_tail2 option_map fst]. repeat split; auto.
    + cbn [wf_oanns] in Wa. rewrite Wa, (wf_sep_at_of s r Hs). rewrite andb_true_r. cbn [andb].
      destruct s as [|semi bl]; cbn [sep_none pr_sep] in *; rewrite ?andb_false_r, ?andb_true_r.
      * now apply blank_ok_wfb.
      * apply (blank_ok_nonnil _ _ Kb). discriminate.
    + apply (sep_ok_noblank s r Hs). intros ->. exact Nb.
    + intros ->. exact Hs.
    + discriminate.
  - clear Ha. destruct (noblank_oblank _ _ _ _ Hn E2) as [Ei _]. subst i1.
    exists None, s. unfold wf_tail2, erase_anns2. cbn [pr_tail2 option_map]. repeat split; auto.
    + now rewrite (wf_sep_at_of s r Hs).
    + apply (sep_ok_noblank s r Hs). intros ->. exact Hn.
    + intros ->. exact Hs.
    + intros _ ->. reflexivity.
Qed.

Variable df : nat.

(* the text of a tail begins with an ASCII byte if what follows it does *)
Lemma tail_ascii eof t r : wf_tail eof t = true -> hd_ascii r = true -> hd_ascii (pr_tail t r) = true.
Proof.
  intros Hw Hr. destruct t as [b a sp]. unfold wf_tail, pr_tail in *. cbn [t_b t_anns t_sep] in *. bsplit Hw.
  unfold hd_ascii. eapply blank_then_e; [eassumption|exact bs_ascii|]. intros _.
  destruct a as [l|]; cbn [pr_oanns pr_anns]; [reflexivity|]. destruct sp as [|[|] bl]; cbn [pr_sep sep_byte]; auto.
Qed.
Lemma tail2_ascii a sp r : hd_ascii r = true -> hd_ascii (pr_tail2 a sp r) = true.
Proof.
  intros Hr. destruct a as [[l bl]|]; cbn [pr_tail2 pr_anns]; [reflexivity|]. destruct sp as [|[|] bl]; cbn [pr_sep sep_byte]; auto.
Qed.

(* typedef *)
Theorem typedef_inv i r a : p_typedef lf df i = POk r a ->
  exists c, i = pr_typedef c r /\ erase_typedef c = a /\
            wf_typedef (is_nil r) c = true /\
            (tail_open (ctd_tail c) = true -> noblank r) /\ (typedef_ends_word c = true -> nid r = true).
Proof.
  unfold p_typedef. intros H. binv H. inversion H; subst.
  apply tag_inv in E. destruct E as [-> _]. destruct (blank_inv _ _ _ _ E0) as [b1 [-> [N1 [K1 _]]]].
  destruct (type_inv _ _ _ _ _ E1) as [t [-> [<- [Wt [_ Ht]]]]]. destruct (blank_inv _ _ _ _ E2) as [b2 [-> [N2 [K2 _]]]].
  destruct (ident_inv _ _ _ E3) as [-> [Hal Hnid]].
  destruct (tail_inv _ _ _ _ _ _ _ E4 E5 E6) as [tl [-> [Ean [Wtl [Hop [_ Hbare]]]]]].
  eexists (mkCTypedef b1 t b2 _ tl). unfold pr_typedef, erase_typedef, wf_typedef, typedef_ends_word.
  cbn [ctd_b1 ctd_type ctd_b2 ctd_alias ctd_tail]. change kw_typedef with (txt "typedef"). rewrite Ean.
  split; [reflexivity|]. repeat split; auto.
  - rewrite (blank_ok_nonnil _ _ K1 (whead_nonnil _ Ht)), (Wt (blank_ne_ascii _ _ K2 N2)), Hal, Wtl.
    rewrite (blank_ok_nonnil _ _ K2) by (apply nonnil_app_ident; exact Hal).
    destruct b1; [contradiction|]. destruct b2; [contradiction|]. reflexivity.
  - intros Hb. rewrite (Hbare Hb). exact Hnid.
Qed.

(* const *)
Theorem constant_inv i r a : p_constant lf df i = POk r a ->
  exists c, i = pr_constant c r /\ erase_constant c = a /\
            (hd_ascii r = true -> wf_constant (is_nil r) c = true) /\
            (tail_open (ck_tail c) = true -> noblank r) /\ cont_ok (ck_val c) (pr_tail (ck_tail c) r) = true.
Proof.
  unfold p_constant. intros H. binv H. inversion H; subst. cbn beta in *.
  apply tag_inv in E. destruct E as [-> _].
  apply pbind_ok in E0. destruct E0 as [j1 [u1 [B1 T1]]]. apply pbind_ok in E1. destruct E1 as [j2 [u2 [B2 T2]]].
  apply pbind_ok in E2. destruct E2 as [j3 [u3 [B3 T3]]]. apply pbind_ok in E3. destruct E3 as [j4 [u4 [B4 T4]]].
  destruct (blank_inv _ _ _ _ B1) as [b1 [-> [N1 [K1 _]]]]. destruct (type_inv _ _ _ _ _ T1) as [t [-> [<- [Wt [_ Ht]]]]].
  destruct (blank_inv _ _ _ _ B2) as [b2 [-> [N2 [K2 _]]]]. destruct (ident_inv _ _ _ T2) as [-> [Hname _]].
  destruct (oblank_inv _ _ _ _ B3) as [b3 [-> [K3 _]]]. apply tag_inv in T3. destruct T3 as [-> _].
  destruct (oblank_inv _ _ _ _ B4) as [b4 [-> [K4 _]]]. destruct (const_inv _ _ _ _ _ T4) as [v [-> [<- [[[Wv Hv] Cv] _]]]].
  destruct (tail_inv _ _ _ _ _ _ _ E4 E5 E6) as [tl [-> [Ean [Wtl [Hop [_ Hbare]]]]]].
  eexists (mkCConstant b1 t b2 _ b3 b4 v tl). unfold pr_constant, erase_constant, wf_constant.
  cbn [ck_b1 ck_type ck_b2 ck_name ck_b3 ck_b4 ck_val ck_tail]. change kw_const with (txt "const"). change sym_const_eq with (txt "=").
  rewrite Ean. split; [reflexivity|]. repeat split; auto.
  - intros Ha. rewrite (blank_ok_nonnil _ _ K1 (whead_nonnil _ Ht)), (Wt (blank_ne_ascii _ _ K2 N2)), Hname, Wtl.
    rewrite (Wv (tail_ascii _ _ _ Wtl Ha)).
    rewrite (blank_ok_nonnil _ _ K2) by (apply nonnil_app_ident; exact Hname).
    rewrite (blank_ok_nonnil _ _ K3) by discriminate. rewrite (blank_ok_nonnil _ _ K4 Hv).
    destruct b1; [contradiction|]. destruct b2; [contradiction|]. reflexivity.
Qed.

(* ---------- fields ---------- *)
Lemma kwend_whead r : kwend r -> whead r -> False.
Proof. intros Hk [b0 [rest [-> Hb]]]. unfold kwend in Hk. destruct (aoru_ok b0 rest Hb) as [cp E]. rewrite E in Hk. exact Hk. Qed.

Lemma attr_group_inv i i1 i2 o o2 : opt p_attribute i = POk i1 o -> opt (p_blank lf) i1 = POk i2 o2 -> noblank i -> whead i2 ->
  exists a : option (bool * blank), i = pr_attr a i2 /\ attr_or_default o = erase_attr a /\
    match a with Some (_, b) => wf_blank b = true /\ b <> [] | None => is_perr (p_attribute i2) end.
Proof.
  intros E1 E2 Hn Hw. apply opt_inv in E1. destruct E1 as [[at_ [-> E1]]|[-> [-> Herr]]].
  - rewrite p_attribute_eq in E1. destruct (oblank_inv _ _ _ _ E2) as [b [-> [Kb _]]].
    assert (G : forall (req : bool) (kw : list byte), (if req then txt "required" else txt "optional") = kw -> i = kw ++ pr_blank b i2 -> kwend (pr_blank b i2) ->
                 at_ = (if req then ARequired else AOptional) ->
                 exists a : option (bool * blank), i = pr_attr a i2 /\ attr_or_default (Some at_) = erase_attr a /\
                   match a with Some (_, b) => wf_blank b = true /\ b <> [] | None => is_perr (p_attribute i2) end).
    { intros req kw Ekw Ei Hk Ea. exists (Some (req, b)). cbn [pr_attr erase_attr attr_or_default]. rewrite Ekw. split; [exact Ei|].
      split; [subst at_; destruct req; reflexivity|]. split; [apply (blank_ok_nonnil _ _ Kb), whead_nonnil, Hw|].
      intros ->. cbn [pr_blank] in Hk. exact (kwend_whead _ Hk Hw). }
    apply alt_cons_inv in E1. destruct E1 as [E1|[_ E1]].
    + unfold attr_req in E1. binv E1. inversion E1; subst. destruct (keyword_inv _ _ _ _ E) as [Ei Hk]. exact (G true _ eq_refl Ei Hk eq_refl).
    + apply alt_one_inv in E1. unfold attr_optl in E1. binv E1. inversion E1; subst. destruct (keyword_inv _ _ _ _ E) as [Ei Hk].
      exact (G false _ eq_refl Ei Hk eq_refl).
  - destruct (noblank_oblank _ _ _ _ Hn E2) as [-> _]. exists None. repeat split. exact Herr.
Qed.

(* no requiredness was read although the type begins with the word required / optional: impossible before ASCII *)
Lemma attr_err_head t R : wf_type t = true -> (type_ends_word t = true -> nid R = true) -> hd_ascii R = true ->
  is_perr (p_attribute (pr_type t R)) -> head_not_in t [txt "required"; txt "optional"] = true.
Proof.
  intros Wt Hn Ha H. unfold head_not_in. destruct t as [[b| | | |[h tl]] an]; cbn [type_path_head]; try reflexivity.
  cbn [cp_head]. apply negb_true_iff. destruct (bytes_in h [txt "required"; txt "optional"]) eqn:Eb; [|reflexivity]. exfalso.
  assert (Wp : wf_path (mkCPath h tl) = true) by (destruct an as [[bl a]|]; cbn [wf_type wf_ty] in Wt; bsplit Wt; assumption).
  unfold wf_path in Wp. cbn [cp_head cp_tail] in Wp. apply andb_prop in Wp. destruct Wp as [_ Wtl].
  set (Z := match an with Some (bl, a) => pr_blank bl (pr_anns a R) | None => R end).
  assert (E : pr_type (CType (CTPath (mkCPath h tl)) an) R = h ++ pr_path_tail tl Z) by (destruct an as [[bl a]|]; reflexivity).
  assert (HZ : wordend Z = true).
  { unfold Z. destruct an as [[bl a]|].
    - cbn [wf_type] in Wt. bsplit Wt. apply blank_then; auto with bsdb.
    - apply wordend_of; [exact Ha|]. apply Hn. reflexivity. }
  rewrite E, p_attribute_eq in H.
  assert (H1 : is_perr (attr_req (h ++ pr_path_tail tl Z)) /\ is_perr (attr_optl (h ++ pr_path_tail tl Z))).
  { cbn [alt] in H. destruct (attr_req (h ++ pr_path_tail tl Z)); cbn in H |- *; auto; contradiction. }
  destruct H1 as [Hr Ho]. cbn [bytes_in] in Eb. apply orb_prop in Eb. destruct Eb as [Eb|Eb].
  - apply bytes_eq_eq in Eb. subst h. apply (keyword_path_end kw_required tl Z Wtl HZ). unfold attr_req in Hr.
    apply pbind_ret_err in Hr. exact Hr.
  - apply orb_prop in Eb. destruct Eb as [Eb|Eb]; [|discriminate]. apply bytes_eq_eq in Eb. subst h.
    apply (keyword_path_end kw_optional tl Z Wtl HZ). unfold attr_optl in Ho.
    apply pbind_ret_err in Ho. exact Ho.
Qed.

Lemma default_group_inv i i1 i2 o o2 :
  opt (fun i => do i, _ <- tag sym_field_eq i ;; do i, _ <- opt (p_blank lf) i ;; p_const_value lf df i) i = POk i1 o ->
  opt (p_blank lf) i1 = POk i2 o2 -> noblank i ->
  exists d, i = pr_default d i2 /\ o = erase_default d /\ (i2 <> [] -> hd_ascii i2 = true -> wf_default d = true) /\ noblank i2 /\
            (d = None -> i2 = i) /\ (match d with Some (_, _, b2) => blank_ok b2 i2 | None => True end) /\
            (match d with Some (_, v, b2) => cont_ok v (pr_blank b2 i2) = true | None => True end).
Proof.
  intros E1 E2 Hn. apply opt_inv in E1. destruct E1 as [[v [-> E1]]|[-> [-> _]]].
  - binv E1. apply tag_inv in E. destruct E as [-> _]. destruct (oblank_inv _ _ _ _ E0) as [b5 [-> [K5 _]]].
    destruct (const_inv _ _ _ _ _ E1) as [c [-> [<- [[[Wc Hc] Cc] _]]]]. destruct (oblank_inv _ _ _ _ E2) as [b6 [-> [K6 [N6 _]]]].
    exists (Some (b5, c, b6)). cbn [pr_default erase_default wf_default]. change sym_field_eq with (txt "="). repeat split; auto; try discriminate.
    intros Hr Ha. now rewrite (blank_ok_nonnil _ _ K5 Hc), (Wc (blank_ok_ascii _ _ K6 Ha)), (blank_ok_nonnil _ _ K6 Hr).
  - destruct (noblank_oblank _ _ _ _ Hn E2) as [-> _]. exists None. repeat split; auto.
Qed.

Definition dhead (x : list byte) : Prop := exists b0 rest, x = b0 :: rest /\ is_digit b0 = true.

Theorem field_inv i r f : p_field lf df i = POk r f ->
  exists c, i = pr_field c r /\ erase_field c = f /\ (r <> [] -> hd_ascii r = true -> wf_field c = true) /\ noblank r /\
            (cf_sep c = SepNone -> nosep r = true) /\ dhead (pr_field c r) /\
            (field_ends_word c = true -> hd_is is_digit r = false).
Proof.
  unfold p_field. intros H. binv H. inversion H; subst.
  unfold p_field_id in E. apply map_res_inv in E. destruct E as [id [E Pid]]. binv E. inversion E; subst.
  destruct (digit1_inv _ _ _ E12) as [-> [Nid [Did _]]]. destruct (oblank_inv _ _ _ _ E13) as [b1 [-> [K1 _]]].
  apply tag_inv in E14. destruct E14 as [-> _].
  destruct (parse_unsigned_inv 10 i32_max _ _ ltac:(lia) ltac:(unfold i32_max; lia) Pid) as [-> Rid].
  destruct (oblank_inv _ _ _ _ E0) as [b2 [-> [K2 [N2 _]]]].
  destruct (type_inv _ _ _ _ _ E3) as [t [Et [<- [Wt [Hew Ht]]]]].
  destruct (attr_group_inv _ _ _ _ _ E1 E2 N2 ltac:(rewrite Et; exact Ht)) as [at_ [-> [Eat Wat]]]. subst i3.
  destruct (oblank_inv _ _ _ _ E4) as [b3 [-> [K3 _]]]. destruct (ident_inv _ _ _ E5) as [-> [Hname Hnid]].
  destruct (oblank_inv _ _ _ _ E6) as [b4 [-> [K4 [N4 _]]]].
  destruct (default_group_inv _ _ _ _ _ E7 E8 N4) as [d [-> [-> [Wd [Nd [Hdn [Kd Cd]]]]]]].
  destruct (tail2_inv _ _ _ _ _ _ _ E9 E10 E11 Nd) as [an [sp [-> [-> [Wt2 [Nr [Hsn Ht2n]]]]]]].
  eexists (mkCField _ b1 b2 at_ t b3 _ b4 d an sp). unfold pr_field, erase_field, wf_field, field_ends_word.
  cbn [cf_id cf_b1 cf_b2 cf_attr cf_type cf_b3 cf_name cf_b4 cf_default cf_anns cf_sep]. change sym_field_colon with (txt ":").
  split; [reflexivity|]. split; [rewrite Eat; f_equal; destruct an as [[? ?]|]; reflexivity|]. split; [|split; [exact Nr|split; [exact Hsn|split]]].
  - intros Hr Ha.
    assert (AT : hd_ascii (pr_blank b3 (a5 ++ pr_blank b4 (pr_default d (pr_tail2 an sp r)))) = true).
    { apply (blank_ok_ascii _ _ K3). now apply ident_ascii. }
    assert (WT : wf_type t = true) by (apply Wt; exact AT).
    assert (T2n : pr_tail2 an sp r <> []).
    { destruct an as [[l bl]|]; cbn [pr_tail2]; [unfold pr_anns; discriminate|now apply pr_sep_nonnil]. }
    assert (Dn : pr_default d (pr_tail2 an sp r) <> []) by (destruct d as [[[? ?] ?]|]; cbn [pr_default]; [discriminate|exact T2n]).
    rewrite Did, (blank_ok_nonnil _ _ K1) by discriminate.
    assert (An : pr_attr at_ (pr_type t (pr_blank b3 (a5 ++ pr_blank b4 (pr_default d (pr_tail2 an sp r))))) <> []).
    { destruct at_ as [[[|] ?]|]; cbn [pr_attr]; try discriminate. apply whead_nonnil, Ht. }
    rewrite (blank_ok_nonnil _ _ K2 An). rewrite WT, Hname.
    rewrite (blank_ok_nonnil _ _ K3) by (now apply nonnil_app_ident). rewrite (blank_ok_nonnil _ _ K4 Dn).
    rewrite (Wd T2n (tail2_ascii an sp r Ha)).
    assert (Wa : wf_attr at_ t = true).
    { destruct at_ as [[req ba]|]; cbn [wf_attr]; [destruct Wat as [-> Hne]; destruct ba; [contradiction|reflexivity]|].
      cbn [pr_attr] in Wat. exact (attr_err_head t _ WT Hew AT Wat). }
    rewrite Wa.
    assert (W2 : wf_tail2 false an sp = true).
    { replace false with (is_nil r) by (destruct r; [contradiction|reflexivity]). exact Wt2. }
    rewrite W2.
    assert (Wb3 : negb (type_ends_word t) || negb (is_nil b3) = true).
    { destruct (type_ends_word t) eqn:Ew; [|reflexivity]. destruct b3 as [|x b3]; [|reflexivity]. exfalso.
      specialize (Hew eq_refl). cbn [pr_blank] in Hew. destruct a5 as [|h tl]; [discriminate|]. cbn [is_ident] in Hname.
      apply andb_prop in Hname. destruct Hname as [Hh _]. unfold nid in Hew. cbn [app hd_sat] in Hew. rewrite (identch_head _ Hh) in Hew. discriminate. }
    rewrite Wb3. destruct id; [contradiction|]. cbn [is_nil negb andb]. rewrite !andb_true_r. apply Z.leb_le. unfold i32_max in Rid. exact Rid.
  - destruct id as [|d0 id]; [contradiction|]. cbn [is_digits forallb] in Did. apply andb_prop in Did. destruct Did as [Dd _].
    exists d0, (id ++ pr_blank b1 (txt ":" ++ pr_blank b2 (pr_attr at_ (pr_type t (pr_blank b3 (a5 ++ pr_blank b4 (pr_default d (pr_tail2 an sp r)))))))). auto.
  - intros Hfe. destruct sp; [|discriminate]. destruct an; [discriminate|]. cbn [sep_none is_none andb pr_tail2 pr_sep] in *.
    destruct d as [[[d1 v] d2]|].
    + apply andb_prop in Hfe. destruct Hfe as [Hv Hd2]. apply is_nil_true in Hd2. subst d2. cbn [pr_blank] in Cd.
      now apply (cont_ok_nodigit v r).
    + apply is_nil_true in Hfe. subst b4. cbn [pr_blank pr_default] in Hnid.
      apply (hd_is_imp is_digit wordch); [exact digit_identch|]. apply hd_sat_is. exact Hnid.
Qed.

End Decl.
