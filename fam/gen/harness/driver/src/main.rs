//! pv-harness-gen: drives the Rust code that pilota-build EMITS (included below, one file per builder
//! configuration) through bytes and `{:?}` only.  One case per stdin line, one result per stdout line
//! (formats: /verif/fam/gen/FORMAT.md).
#![allow(clippy::all)]
mod asyncrd;

use std::fmt::Debug;
use std::io::{BufRead, Write};
use std::panic::{catch_unwind, AssertUnwindSafe};
use std::sync::atomic::{AtomicUsize, Ordering::Relaxed};

use bytes::{Bytes, BytesMut};
use pilota::thrift::{
    binary::{TAsyncBinaryProtocol, TBinaryProtocol},
    binary_le::{TAsyncBinaryProtocol as TAsyncBinaryLeProtocol, TBinaryProtocol as TBinaryLeProtocol},
    binary_unsafe::{TBinaryUnsafeInputProtocol, TBinaryUnsafeOutputProtocol},
    compact::{TAsyncCompactProtocol, TCompactInputProtocol, TCompactOutputProtocol},
    ApplicationException, Message, TAsyncInputProtocol, TInputProtocol, TMessageIdentifier, ThriftException,
};

// ---- the emitted code (written by pv-gen-build under $PV_GEN_OUT at check time)
include!(concat!(env!("PV_GEN_OUT"), "/includes.rs"));
// ---- generated dispatch table: (cfg, type name) -> run::<path::Type>
include!(concat!(env!("PV_GEN_OUT"), "/dispatch.rs"));

/// counting global allocator: live bytes and peak live bytes; requests above 4 GiB are refused
pub struct Counting;
pub static LIVE: AtomicUsize = AtomicUsize::new(0);
pub static PEAK: AtomicUsize = AtomicUsize::new(0);
unsafe impl std::alloc::GlobalAlloc for Counting {
    unsafe fn alloc(&self, l: std::alloc::Layout) -> *mut u8 {
        if l.size() > (4usize << 30) {
            return std::ptr::null_mut();
        }
        let p = std::alloc::System.alloc(l);
        if !p.is_null() {
            let live = LIVE.fetch_add(l.size(), Relaxed) + l.size();
            PEAK.fetch_max(live, Relaxed);
        }
        p
    }
    unsafe fn dealloc(&self, p: *mut u8, l: std::alloc::Layout) {
        LIVE.fetch_sub(l.size(), Relaxed);
        std::alloc::System.dealloc(p, l)
    }
    unsafe fn realloc(&self, p: *mut u8, l: std::alloc::Layout, new_size: usize) -> *mut u8 {
        if new_size > (4usize << 30) {
            return std::ptr::null_mut();
        }
        let q = std::alloc::System.realloc(p, l, new_size);
        if !q.is_null() {
            if new_size >= l.size() {
                let live = LIVE.fetch_add(new_size - l.size(), Relaxed) + (new_size - l.size());
                PEAK.fetch_max(live, Relaxed);
            } else {
                LIVE.fetch_sub(l.size() - new_size, Relaxed);
            }
        }
        q
    }
}
#[global_allocator]
static GLOBAL: Counting = Counting;

pub fn hex(b: &[u8]) -> String {
    if b.is_empty() {
        return "-".to_string();
    }
    let mut s = String::with_capacity(b.len() * 2);
    for x in b {
        s.push_str(&format!("{:02x}", x));
    }
    s
}

pub fn unhex(s: &str) -> Result<Vec<u8>, String> {
    if s == "-" {
        return Ok(vec![]);
    }
    if s.len() % 2 != 0 {
        return Err("odd hex".into());
    }
    (0..s.len() / 2)
        .map(|i| u8::from_str_radix(&s[2 * i..2 * i + 2], 16).map_err(|e| e.to_string()))
        .collect()
}

pub fn err_class(e: &ThriftException) -> String {
    let (c, m) = match e {
        ThriftException::Protocol(p) => (
            match format!("{:?}", p.kind()).as_str() {
                "InvalidData" => "invalid_data",
                "NegativeSize" => "negative_size",
                "SizeLimit" => "size_limit",
                "DepthLimit" => "depth_limit",
                "BadVersion" => "bad_version",
                _ => "other",
            },
            format!("{}", e),
        ),
        ThriftException::Transport(_) => ("transport", format!("{}", e)),
        ThriftException::Application(_) => ("other", format!("{}", e)),
    };
    let m: String = m.chars().map(|c| if c == '\n' || c == '\r' { ' ' } else { c }).take(160).collect();
    format!("{c} {m}")
}

#[derive(Clone, Copy, PartialEq, Debug)]
pub enum Pk {
    Binary,
    BinaryLe,
    Compact,
    Unchecked,
}

#[derive(Clone, Copy, PartialEq, Debug)]
pub enum Mode {
    Sync,
    Async { chunk: usize, pend: bool },
}

pub struct Case<'a> {
    pub op: &'a str,
    pub pk: Pk,
    pub mode: Mode,
    pub data: Vec<u8>,
    /// `msg`: offset and length of the method name inside `data`
    pub extra: Vec<usize>,
}

fn parse_pk(s: &str) -> Result<Pk, String> {
    Ok(match s {
        "binary" => Pk::Binary,
        "binary_le" => Pk::BinaryLe,
        "compact" => Pk::Compact,
        "unchecked" => Pk::Unchecked,
        _ => return Err(format!("unknown protocol {s}")),
    })
}

fn parse_mode(s: &str) -> Result<Mode, String> {
    if s == "sync" {
        return Ok(Mode::Sync);
    }
    let sch = s.strip_prefix("async:").ok_or_else(|| format!("unknown mode {s}"))?;
    Ok(match sch {
        "all" => Mode::Async { chunk: 0, pend: false },
        "1" => Mode::Async { chunk: 1, pend: false },
        _ if sch.starts_with('c') => Mode::Async { chunk: sch[1..].parse().map_err(|_| "bad schedule")?, pend: false },
        _ if sch.starts_with('p') => Mode::Async { chunk: sch[1..].parse().map_err(|_| "bad schedule")?, pend: true },
        _ => return Err(format!("unknown schedule {sch}")),
    })
}

/// decode one T; returns (result, remaining bytes)
fn decode_sync<T: Message>(pk: Pk, b: &mut Bytes) -> (Result<T, ThriftException>, usize) {
    match pk {
        Pk::Binary => {
            let r = T::decode(&mut TBinaryProtocol::new(&mut *b, true));
            (r, b.len())
        }
        Pk::BinaryLe => {
            let r = T::decode(&mut TBinaryLeProtocol::new(&mut *b, true));
            (r, b.len())
        }
        Pk::Compact => {
            let r = T::decode(&mut TCompactInputProtocol::new(&mut *b));
            (r, b.len())
        }
        Pk::Unchecked => {
            let (r, idx) = {
                let mut p = unsafe { TBinaryUnsafeInputProtocol::new(&mut *b) };
                let r = T::decode(&mut p);
                (r, p.index())
            };
            (r, b.len().saturating_sub(idx))
        }
    }
}

/// Some((result, remaining)) or None when the future does not complete (hang)
fn decode_async<T: Message>(pk: Pk, data: Vec<u8>, chunk: usize, pend: bool) -> Option<(Result<T, ThriftException>, usize)> {
    let n = data.len();
    let budget = 64 * (n + 64) * 4;
    let mut rd = asyncrd::Scripted::new(data, chunk, pend);
    let r = match pk {
        Pk::Binary | Pk::Unchecked => {
            let mut p = TAsyncBinaryProtocol::new(&mut rd);
            asyncrd::block_on(T::decode_async(&mut p), budget)
        }
        Pk::BinaryLe => {
            let mut p = TAsyncBinaryLeProtocol::new(&mut rd);
            asyncrd::block_on(T::decode_async(&mut p), budget)
        }
        Pk::Compact => {
            let mut p = TAsyncCompactProtocol::new(&mut rd);
            asyncrd::block_on(T::decode_async(&mut p), budget)
        }
    };
    r.map(|r| (r, n - rd.handed_out()))
}

fn decode_any<T: Message>(c: &Case) -> Option<(Result<T, ThriftException>, usize)> {
    match c.mode {
        Mode::Sync => {
            let mut b = Bytes::from(c.data.clone());
            Some(decode_sync::<T>(c.pk, &mut b))
        }
        Mode::Async { chunk, pend } => decode_async::<T>(c.pk, c.data.clone(), chunk, pend),
    }
}

/// size() on the output protocol object, then encode on the same object. Returns (size, bytes, note)
fn size_and_encode<T: Message>(pk: Pk, v: &T) -> Result<(usize, Vec<u8>, String), ThriftException> {
    match pk {
        Pk::Binary => {
            let mut buf = BytesMut::new();
            let mut p = TBinaryProtocol::new(&mut buf, true);
            let n = v.size(&mut p);
            v.encode(&mut p)?;
            Ok((n, buf.to_vec(), String::new()))
        }
        Pk::BinaryLe => {
            let mut buf = BytesMut::new();
            let mut p = TBinaryLeProtocol::new(&mut buf, true);
            let n = v.size(&mut p);
            v.encode(&mut p)?;
            Ok((n, buf.to_vec(), String::new()))
        }
        Pk::Compact => {
            let mut buf = BytesMut::new();
            let mut p = TCompactOutputProtocol::new(&mut buf, true);
            let n = v.size(&mut p);
            v.encode(&mut p)?;
            Ok((n, buf.to_vec(), String::new()))
        }
        Pk::Unchecked => {
            // the contract of the unchecked writer: the buffer is at least size() bytes.  Give it exactly
            // that, inside a larger allocation filled with guard bytes, and check the guards afterwards.
            const GUARD: usize = 64;
            let n = {
                let mut tmp = BytesMut::new();
                let mut p = TBinaryProtocol::new(&mut tmp, true);
                v.size(&mut p)
            };
            let mut buf = BytesMut::with_capacity(n + GUARD);
            unsafe {
                std::ptr::write_bytes(buf.as_mut_ptr(), 0xA5, n + GUARD);
                // the BytesMut flavour of the unchecked writer indexes `trans` as a slice: its LENGTH
                // (not only its capacity) has to cover the message (this is how the benches call it)
                buf.set_len(n);
            }
            let (idx, n2) = unsafe {
                let s = std::slice::from_raw_parts_mut(buf.as_mut_ptr(), n);
                let mut p = TBinaryUnsafeOutputProtocol::new(&mut buf, s, true);
                let n2 = v.size(&mut p);
                v.encode(&mut p)?;
                (p.index(), n2)
            };
            let mut note = String::new();
            if n2 != n {
                note.push_str(&format!(" NOTE unchecked-size-differs {n2} vs {n}"));
            }
            if idx > n {
                note.push_str(&format!(" NOTE wrote-past-size {idx} > {n}"));
            }
            let all = unsafe { std::slice::from_raw_parts(buf.as_ptr(), n + GUARD) };
            if idx <= n && all[n..].iter().any(|b| *b != 0xA5) {
                note.push_str(" NOTE guard-bytes-overwritten");
            }
            let out = all[..std::cmp::min(idx, n + GUARD)].to_vec();
            Ok((n, out, note))
        }
    }
}

fn linked_concat(lb: &mut linkedbytes::LinkedBytes) -> Vec<u8> {
    let mut out: Vec<u8> = Vec::new();
    lb.sync_write_all_vectored(&mut out).expect("write to Vec");
    out
}

/// the same value through the LinkedBytes flavour of the writer, zero-copy off and on (payloads of 4096 bytes and more
/// are then attached as nodes of their own): the concatenation must be the bytes the BytesMut flavour wrote
fn linked_flavours<T: Message>(pk: Pk, v: &T, n: usize, want: &[u8]) -> String {
    let mut note = String::new();
    for zc in [false, true] {
        let got: Result<Vec<u8>, ThriftException> = (|| match pk {
            Pk::Binary => {
                let mut lb = linkedbytes::LinkedBytes::new();
                let mut p = TBinaryProtocol::new(&mut lb, zc);
                v.encode(&mut p)?;
                drop(p);
                Ok(linked_concat(&mut lb))
            }
            Pk::BinaryLe => {
                let mut lb = linkedbytes::LinkedBytes::new();
                let mut p = TBinaryLeProtocol::new(&mut lb, zc);
                v.encode(&mut p)?;
                drop(p);
                Ok(linked_concat(&mut lb))
            }
            Pk::Compact => {
                let mut lb = linkedbytes::LinkedBytes::new();
                let mut p = TCompactOutputProtocol::new(&mut lb, zc);
                v.encode(&mut p)?;
                drop(p);
                Ok(linked_concat(&mut lb))
            }
            Pk::Unchecked => {
                let mut lb = linkedbytes::LinkedBytes::with_capacity(n + 64);
                let window: &'static mut [u8] = unsafe {
                    let l = lb.bytes_mut().len();
                    std::slice::from_raw_parts_mut(lb.bytes_mut().as_mut_ptr().add(l), lb.bytes_mut().capacity() - l)
                };
                let mut p = unsafe { TBinaryUnsafeOutputProtocol::new(&mut lb, window, zc) };
                v.encode(&mut p)?;
                let idx = p.index();
                drop(p);
                unsafe { bytes::BufMut::advance_mut(lb.bytes_mut(), idx) };
                Ok(linked_concat(&mut lb))
            }
        })();
        match got {
            Ok(b) if b == want => {}
            Ok(b) => note.push_str(&format!(" NOTE linked-zc{}-differs {} vs {} bytes", zc as u8, b.len(), want.len())),
            Err(_) => note.push_str(&format!(" NOTE linked-zc{}-encode-error", zc as u8)),
        }
    }
    note
}

pub fn run<T: Message + Debug + Default>(c: &Case) -> String {
    match c.op {
        "dec" => match decode_any::<T>(c) {
            None => "hang".to_string(),
            Some((Ok(v), rem)) => format!("ok {:?} REM {}", v, rem),
            Some((Err(e), _)) => format!("err {}", err_class(&e)),
        },
        "renc" => match decode_any::<T>(c) {
            None => "hang".to_string(),
            Some((Err(e), _)) => format!("err {}", err_class(&e)),
            Some((Ok(v), rem)) => match size_and_encode(c.pk, &v) {
                Ok((n, bytes, mut note)) => {
                    note.push_str(&linked_flavours(c.pk, &v, n, &bytes));
                    format!("ok {:?} REM {} SIZE {} ENC {}{}", v, rem, n, hex(&bytes), note)
                }
                Err(e) => format!("encerr {}", err_class(&e)),
            },
        },
        "dflt" => {
            let d = T::default();
            let enc = match size_and_encode(c.pk, &d) {
                Ok((n, bytes, note)) => format!("SIZE {} ENC {}{}", n, hex(&bytes), note),
                Err(e) => format!("ENCERR {}", err_class(&e)),
            };
            let c0 = Case { op: "dec", pk: c.pk, mode: Mode::Sync, data: vec![0u8], extra: vec![] };
            let empty = match catch_unwind(AssertUnwindSafe(|| decode_any::<T>(&c0))) {
                Err(_) => "panic".to_string(),
                Ok(None) => "hang".to_string(),
                Ok(Some((Ok(v), rem))) => format!("ok {:?} REM {}", v, rem),
                Ok(Some((Err(e), _))) => format!("err {}", err_class(&e)),
            };
            format!("DEF {:?} {} EMPTY {}", d, enc, empty)
        }
        "mem" => {
            // twice: the first run may initialise process-wide lazies (hash seeds, ...); report the second
            let mut last = String::new();
            for _ in 0..2 {
                last = mem_once::<T>(c);
            }
            last
        }
        "msg" => msg_twice::<T>(c),
        _ => format!("BADCASE unknown op {}", c.op),
    }
}

fn mem_once<T: Message>(c: &Case) -> String {
    let mut data = c.data.clone();
    data.shrink_to_fit();
    let cap = data.capacity();
    let live0 = LIVE.load(Relaxed);
    PEAK.store(live0, Relaxed);
    let (outcome, unique) = match c.mode {
        Mode::Sync => {
            let mut input = Bytes::from(data);
            let keep = input.clone(); // our own second handle: the decoder works on `input`
            let r = catch_unwind(AssertUnwindSafe(|| decode_sync::<T>(c.pk, &mut input)));
            let o = match r {
                Err(_) => "panic",
                Ok((Ok(v), _)) => {
                    drop(v);
                    "ok"
                }
                Ok((Err(e), _)) => {
                    drop(e);
                    "err"
                }
            };
            drop(input);
            let u = keep.is_unique();
            drop(keep);
            (o, u)
        }
        Mode::Async { chunk, pend } => {
            let r = catch_unwind(AssertUnwindSafe(|| decode_async::<T>(c.pk, data, chunk, pend)));
            let o = match r {
                Err(_) => "panic",
                Ok(None) => "hang",
                Ok(Some((Ok(v), _))) => {
                    drop(v);
                    "ok"
                }
                Ok(Some((Err(e), _))) => {
                    drop(e);
                    "err"
                }
            };
            (o, true)
        }
    };
    let peak = PEAK.load(Relaxed).saturating_sub(live0);
    let live1 = LIVE.load(Relaxed);
    let residual = live1 as isize + cap as isize - live0 as isize;
    format!("{} LIVE {} PEAK {} REFS {}", outcome, residual, peak, if unique { 0 } else { 1 })
}

// ---------------------------------------------------------------- C19, message level
/// what a server does with one request on ONE protocol object: read_message_begin, the body decoder, read_message_end
/// (when the body was accepted).  Returns (identifier, body result if the envelope was accepted, bytes left)
type MsgParts<T> = (Result<TMessageIdentifier, ThriftException>, Option<Result<T, ThriftException>>);

fn msg_sync<T: Message>(pk: Pk, b: &mut Bytes) -> MsgParts<T> {
    fn go<T: Message, P: TInputProtocol>(p: &mut P) -> MsgParts<T> {
        let id = p.read_message_begin();
        if id.is_err() {
            return (id, None);
        }
        let body = T::decode(p);
        let body = match body {
            Ok(v) => p.read_message_end().map(|_| v),
            Err(e) => Err(e),
        };
        (id, Some(body))
    }
    match pk {
        Pk::Binary => go::<T, _>(&mut TBinaryProtocol::new(&mut *b, true)),
        Pk::BinaryLe => go::<T, _>(&mut TBinaryLeProtocol::new(&mut *b, true)),
        Pk::Compact => go::<T, _>(&mut TCompactInputProtocol::new(&mut *b)),
        Pk::Unchecked => go::<T, _>(&mut unsafe { TBinaryUnsafeInputProtocol::new(&mut *b) }),
    }
}

fn msg_async<T: Message>(pk: Pk, data: Vec<u8>, chunk: usize, pend: bool) -> Option<MsgParts<T>> {
    async fn go<T: Message, P: TAsyncInputProtocol>(p: &mut P) -> MsgParts<T> {
        let id = p.read_message_begin().await;
        if id.is_err() {
            return (id, None);
        }
        let body = T::decode_async(p).await;
        let body = match body {
            Ok(v) => p.read_message_end().await.map(|_| v),
            Err(e) => Err(e),
        };
        (id, Some(body))
    }
    let n = data.len();
    let budget = 64 * (n + 64) * 4;
    let mut rd = asyncrd::Scripted::new(data, chunk, pend);
    match pk {
        Pk::Binary | Pk::Unchecked => {
            let mut p = TAsyncBinaryProtocol::new(&mut rd);
            asyncrd::block_on(go::<T, _>(&mut p), budget)
        }
        Pk::BinaryLe => {
            let mut p = TAsyncBinaryLeProtocol::new(&mut rd);
            asyncrd::block_on(go::<T, _>(&mut p), budget)
        }
        Pk::Compact => {
            let mut p = TAsyncCompactProtocol::new(&mut rd);
            asyncrd::block_on(go::<T, _>(&mut p), budget)
        }
    }
}

static NAME_COUNTER: AtomicUsize = AtomicUsize::new(0);

/// every run gets a method name nobody has seen before (same length, ASCII): a process-wide table keyed by the name
/// cannot have it yet
fn fresh_name(data: &mut [u8], off: usize, len: usize) {
    let mut n = NAME_COUNTER.fetch_add(1, Relaxed);
    for i in 0..len {
        if off + i >= data.len() {
            break;
        }
        data[off + i] = if i < 12 { b'a' + (n % 16) as u8 } else { b'z' };
        n /= 16;
    }
}

/// twice (the first run may initialise process-wide lazies such as hash seeds), each with a fresh name; the second is reported
fn msg_twice<T: Message>(c: &Case) -> String {
    let mut last = String::new();
    for _ in 0..2 {
        last = msg_once::<T>(c);
    }
    last
}

/// `<ok|err|panic|hang> STAGE <0 envelope rejected|1 body rejected|2 complete> LIVE <residual after EVERYTHING was dropped>
///  PEAK <..> REFS <input still shared at the end> MID <input still shared while only the returned value is alive>`
fn msg_once<T: Message>(c: &Case) -> String {
    let mut data = c.data.clone();
    data.shrink_to_fit();
    if c.extra.len() >= 2 {
        fresh_name(&mut data, c.extra[0], c.extra[1]);
    }
    let cap = data.capacity();
    let live0 = LIVE.load(Relaxed);
    PEAK.store(live0, Relaxed);
    let mut stage = 0;
    let mut mid = false;
    let (outcome, unique) = match c.mode {
        Mode::Sync => {
            let mut input = Bytes::from(data);
            let keep = input.clone(); // our own second handle
            let r = catch_unwind(AssertUnwindSafe(|| msg_sync::<T>(c.pk, &mut input)));
            drop(input);
            let o = match r {
                Err(_) => "panic",
                Ok((id, body)) => {
                    let o = match (&id, &body) {
                        (Err(_), _) => "err",
                        (Ok(_), Some(Ok(_))) => {
                            stage = 2;
                            "ok"
                        }
                        (Ok(_), _) => {
                            stage = 1;
                            "err"
                        }
                    };
                    // the identifier goes first: what is retained now is what the returned value reaches
                    drop(id);
                    if stage == 2 {
                        mid = !keep.is_unique();
                    }
                    drop(body);
                    o
                }
            };
            let u = keep.is_unique();
            drop(keep);
            (o, u)
        }
        Mode::Async { chunk, pend } => {
            let r = catch_unwind(AssertUnwindSafe(|| msg_async::<T>(c.pk, data, chunk, pend)));
            let o = match r {
                Err(_) => "panic",
                Ok(None) => "hang",
                Ok(Some((id, body))) => {
                    let o = match (&id, &body) {
                        (Err(_), _) => "err",
                        (Ok(_), Some(Ok(_))) => {
                            stage = 2;
                            "ok"
                        }
                        (Ok(_), _) => {
                            stage = 1;
                            "err"
                        }
                    };
                    drop(id);
                    drop(body);
                    o
                }
            };
            (o, true)
        }
    };
    let peak = PEAK.load(Relaxed).saturating_sub(live0);
    let live1 = LIVE.load(Relaxed);
    let residual = live1 as isize + cap as isize - live0 as isize;
    format!("{} STAGE {} LIVE {} PEAK {} REFS {} MID {}", outcome, stage, residual, peak, if unique { 0 } else { 1 }, if mid { 1 } else { 0 })
}

fn run_line(line: &str) -> Result<String, String> {
    let t: Vec<&str> = line.split(' ').collect();
    if t.len() < 4 {
        return Err("short case line".into());
    }
    let op = t[0];
    let (cfg, ty) = (t[1], t[2]);
    let pk = parse_pk(t[3])?;
    let (mode, data) = if op == "dflt" {
        (Mode::Sync, vec![])
    } else {
        if t.len() < 6 {
            return Err("short case line".into());
        }
        (parse_mode(t[4])?, unhex(t[5])?)
    };
    let extra: Vec<usize> = t.iter().skip(6).filter_map(|x| x.parse().ok()).collect();
    let c = Case { op, pk, mode, data, extra };
    if op == "msg" && ty == "@appex" {
        // the runtime's own Message impl (pilota/src/thrift/error/application.rs) as the body
        return Ok(msg_twice::<ApplicationException>(&c));
    }
    dispatch(cfg, ty, &c).ok_or_else(|| format!("unknown type {cfg} {ty}"))
}

fn main() {
    if std::env::var("PV_VERBOSE").is_err() {
        std::panic::set_hook(Box::new(|_| {}));
    }
    let stdin = std::io::stdin();
    let stdout = std::io::stdout();
    let mut out = std::io::BufWriter::new(stdout.lock());
    for line in stdin.lock().lines() {
        let line = line.unwrap();
        let line = line.trim();
        if line.is_empty() {
            writeln!(out).unwrap();
            continue;
        }
        let r = catch_unwind(AssertUnwindSafe(|| run_line(line)));
        match r {
            Ok(Ok(s)) => writeln!(out, "{s}").unwrap(),
            Ok(Err(e)) => writeln!(out, "BADCASE {e}").unwrap(),
            Err(_) => writeln!(out, "panic").unwrap(),
        }
        out.flush().unwrap();
    }
    out.flush().unwrap();
}
