"""C19 -- a failed decode releases everything it allocated (Thrift half: the emitted decoders).

Implementation oracle: the driver's `mem` operation runs the emitted decoder on a truncated / corrupted
encoding under a counting global allocator: live heap bytes before the call (without the input buffer) must
equal live bytes after the result (value or error) and the input have been dropped, and no handle to the input
`Bytes` may survive (`Bytes::is_unique` of a second handle; a surviving slice also shows as the input
allocation staying live).  Inputs: for every emitted type, reference encodings of generated values, cut at
every (quick: sampled) truncation point, and single-byte corruptions that make decoding fail; binary and
compact; sync and async.

Model correspondence (proof level): the ownership-instrumented Coq model of the decode templates
(fam/gen/coq/Own.v, theorems in Properties/C19.v) is run, through extraction (runner op `own`), on every case
(own_decode for the plain templates: every async case and the sync cases of builds without unknown-field retention;
own_decode_keep for the sync templates with retention) and predicts the outcome and the list of values that are
never dropped.  The prediction
is compared with the measurement in BOTH directions:
  measured leak, model predicts none       -> a real leak outside the modelled site: VIOLATION with the input
  measured leak, model predicts one        -> finding F-19a (class list-decode-leak): KNOWN-FINDING
  no leak measured, model predicts values holding heap / input references -> correspondence broken
  outcome (ok / err / panic) differs       -> correspondence broken

Message level (driver op `msg`, model Own.own_message through runner op `ownmsg`): what a server does with a request on ONE
protocol object -- read_message_begin, then the emitted decoder (or the runtime's ApplicationException::decode) of a body
that is complete / cut at a truncation point (anywhere in envelope or body) / corrupted in the body, then read_message_end
where reached; binary and compact, sync and async (unchecked codec: complete messages only, malformed input is outside its
contract).  Method names on both sides of FastStr's inline capacity (0, 5, 24, 25, 40 bytes), made FRESH by the driver for
every run (a process-wide table keyed by the name cannot know them).  Measured after identifier, value / error, protocol
object and input buffer have been dropped: live heap bytes and surviving references to the input; on the success path also
whether the input is still referenced while only the returned value is alive although the value holds no byte string.
The model predicts outcome, stage, what the body leaks (F-19a) and -- from the regenerated inventory of process-wide
retention sites (C19_retention_inventory) -- that nothing the identifier held is retained."""
import os, re
from .. import core, gengen, genref, genrun, gencheck
from ..gencheck import have_property_file, run_check

PROP = 'C19'
LEVEL = 'proof' if have_property_file(PROP) else 'exploration'
MEM_RE = re.compile(r'^(ok|err|panic|hang) LIVE (-?\d+) PEAK (\d+) REFS (\d+)$')
OWN_RE = re.compile(r'^(ok|err|panic)(?: \w+)? LEAK (\d+) HEAP (\d+)$')
MSG_RE = re.compile(r'^(ok|err|panic|hang) STAGE (\d) LIVE (-?\d+) PEAK (\d+) REFS (\d+) MID (\d+)$')
OWNMSG_RE = re.compile(r'^(ok|err|panic)(?: \w+)? STAGE (\d) LEAK (\d+) HEAP (\d+) IDENT (\d+)/(\d+) RETAIN (\d+) VREF (\d+)$')
NAME_LENS = (0, 5, 24, 25, 40)


def owns_heap(sch, ty, seen=None):
    """does a value of this type own heap memory or a reference into the input buffer?"""
    seen = seen if seen is not None else set()
    t = sch.resolve(ty)
    if t[0] in ('string', 'binary', 'list', 'set', 'map'):
        return True
    if t[0] != 'ref' or t[1] in seen:
        return False
    seen.add(t[1])
    d = sch.types[t[1]]
    if d['kind'] == 'struct':
        return any(owns_heap(sch, f['ty'], seen) for f in d['fields']) or True   # keep builds add LinkedBytes; Box for recursion
    if d['kind'] == 'union':
        return any(owns_heap(sch, x['ty'], seen) for x in d['variants'])
    return False


def has_heap_list(sch, tname):
    """F-19a class: the type (transitively) contains a list whose elements own heap memory / input references:
    the sync list template writes elements through a raw pointer into a Vec of length 0"""
    found = [False]
    seen = set()

    def go(ty):
        t = ty
        if t[0] == 'list':
            if owns_heap(sch, t[1]):
                found[0] = True
            go(t[1])
        elif t[0] == 'set':
            go(t[1])
        elif t[0] == 'map':
            go(t[1]); go(t[2])
        elif t[0] == 'ref' and t[1] not in seen:
            seen.add(t[1])
            d = sch.types[t[1]]
            if d['kind'] == 'typedef':
                go(d['ty'])
            elif d['kind'] == 'struct':
                for f in d['fields']:
                    go(f['ty'])
            elif d['kind'] == 'union':
                for x in d['variants']:
                    go(x['ty'])
    go(('ref', tname))
    return found[0]


def cuts(n, tier, rng):
    if n <= 1:
        return []
    if tier != 'quick' or n <= 24:
        return list(range(1, n))
    pts = set(rng.sample(range(1, n), 18)) | {1, 2, 3, n - 1, n - 2, n // 2}
    return sorted(p for p in pts if 0 < p < n)


def gen_cases(gb, rng, tier):
    sch = gb.schema
    cases = []
    k = 0
    for cfg in gb.configs:
        for tname in sch.names_in(cfg):
            d = sch.types[tname]
            if d['kind'] not in ('struct', 'union') and not (d['kind'] == 'typedef' and sch.resolve(('ref', tname))[0] in ('list', 'set', 'map')):
                continue
            ty = ('ref', tname)
            nvals = 2 if tier == 'quick' else 8
            for i in range(nvals):
                v = gengen.gen_value(rng, sch, ty, 2 if i % 2 == 0 else 3)
                for proto in ('binary', 'compact'):
                    enc = genref.encode(sch, ty, v, proto)
                    if len(enc) > (400 if tier == 'quick' else 3000):
                        continue
                    inputs = [('trunc@%d' % c, enc[:c]) for c in cuts(len(enc), tier, rng)]
                    for _ in range(4 if tier == 'quick' else 16):
                        if len(enc) < 2:
                            break
                        pos = rng.randrange(len(enc))
                        b = bytearray(enc)
                        b[pos] = rng.choice([0xff, 0x7f, 0x80, 0x00, 0x0c, 0x0f, b[pos] ^ 0x40, b[pos] ^ 0x01])
                        inputs.append(('corrupt@%d' % pos, bytes(b)))
                    for what, data in inputs:
                        k += 1
                        mode = 'sync' if k % 3 else 'async:' + genrun.SCHEDULES[k % len(genrun.SCHEDULES)]
                        cases.append(dict(line=genrun.case_line('mem', cfg, tname, proto, mode, data), cfg=cfg, type=tname, proto=proto,
                                          mode=mode, fault=what, nontrivial=True, model=False))
    return cases


def _varint(n):
    out = bytearray()
    while n >= 0x80:
        out.append((n & 0x7f) | 0x80)
        n >>= 7
    out.append(n)
    return bytes(out)


def envelope(proto, name, mtype, seq):
    """-> (bytes, offset of the name): the message header the readers of `proto` expect (hand-encoded: building it with
    write_message_begin would pass the name through TMessageIdentifier::new on the writing side)"""
    import struct
    if proto == 'compact':
        head = bytes([0x82, 0x01 | (mtype << 5)]) + _varint(seq) + _varint(len(name))
        return head + name, len(head)
    head = struct.pack('>I', 0x80010000 | mtype) + struct.pack('>i', len(name))
    return head + name + struct.pack('>i', seq), len(head)


def appex_body(proto, msg, kind):
    """ApplicationException { 1: string message, 2: i32 type }"""
    import struct
    if proto == 'compact':
        zz = (kind << 1) ^ (kind >> 31)
        return b'\x18' + _varint(len(msg)) + msg + b'\x15' + _varint(zz & 0xffffffff) + b'\x00'
    return b'\x0b\x00\x01' + struct.pack('>i', len(msg)) + msg + b'\x08\x00\x02' + struct.pack('>i', kind) + b'\x00'


def gen_msg_cases(gb, rng, tier):
    sch = gb.schema
    cases = []
    k = 0
    ncuts, ncorr = (9, 2) if tier == 'quick' else (40, 8)
    for cfg in gb.configs:
        names = [t for t in sch.names_in(cfg) if sch.types[t]['kind'] in ('struct', 'union')]
        pick = sorted(rng.sample(names, min(len(names), 7 if tier == 'quick' else 40)))
        for must in ('evo.Evo', 'inc.Pt'):
            if must in names and must not in pick:
                pick.append(must)
        bodies = [(t, None) for t in pick] + ([('@appex', None)] if cfg == gb.configs[0] else [])
        for tname, _ in bodies:
            for proto in ('binary', 'compact'):
                if tname == '@appex':
                    body = appex_body(proto, bytes(rng.choice(b'abcdefgh') for _ in range(rng.choice([0, 3, 30, 70]))), rng.choice([0, 1, 6, -1]))
                    mtype = 3
                else:
                    ty = ('ref', tname)
                    body = genref.encode(sch, ty, gengen.gen_value(rng, sch, ty, 2), proto)
                    mtype = rng.choice([1, 2, 4])
                    if len(body) > (300 if tier == 'quick' else 2000):
                        continue
                for nlen in NAME_LENS:
                    env, off = envelope(proto, b'n' * nlen, mtype, rng.choice([0, 7, 1 << 20]))
                    full = env + body
                    inputs = [('full', full, m) for m in ('sync', 'async')]
                    if proto == 'binary':
                        inputs.append(('full', full, 'unchecked'))
                    pts = sorted(set(rng.sample(range(1, len(full)), min(len(full) - 1, ncuts)) + [len(env), len(full) - 1]))
                    for c in pts:
                        inputs.append(('trunc@%d' % c, full[:c], None))
                    for _ in range(ncorr):
                        if len(body) < 2:
                            break
                        pos = len(env) + rng.randrange(len(body))
                        b = bytearray(full)
                        b[pos] = rng.choice([0xff, 0x7f, 0x80, 0x00, 0x0c, 0x0f, b[pos] ^ 0x40, b[pos] ^ 0x01])
                        inputs.append(('corrupt@%d' % pos, bytes(b), None))
                    for what, data, m in inputs:
                        k += 1
                        pr = proto
                        if m == 'unchecked':
                            pr, mode = 'unchecked', 'sync'
                        elif m == 'sync' or (m is None and k % 2):
                            mode = 'sync'
                        else:
                            mode = 'async:' + genrun.SCHEDULES[k % len(genrun.SCHEDULES)]
                        line = 'msg %s %s %s %s %s %d %d' % (cfg, tname, pr, mode, data.hex() or '-', off, nlen)
                        cases.append(dict(line=line, level='msg', cfg=cfg, type=tname, proto=pr, mode=mode, fault=what, name_len=nlen,
                                          nontrivial=True, model=False))
    return cases


def gen_all_cases(gb, rng, tier):
    return gen_cases(gb, rng, tier) + gen_msg_cases(gb, rng, tier)


def judge_msg(gb, case, out, pred):
    """message level: -> (failing [(reason, cls)], correspondence problem or None, tag)"""
    m = MSG_RE.match(out or '')
    if not m:
        return [], None, 'msg-no-measurement'
    kind, stage, live, refs, mid = m.group(1), int(m.group(2)), int(m.group(3)), int(m.group(5)), int(m.group(6))
    dirty = (live != 0 or refs != 0)
    what = ('read_message_begin (%d-byte method name) + body decode (%s, stage %d): after identifier, %s, protocol object and input were dropped '
            % (case['name_len'], kind, stage, 'value' if kind == 'ok' else 'error')
            + ('%d bytes stay allocated' % live if live != 0 else 'a reference to the input buffer survives')
            + (' and the input buffer is still referenced' if live != 0 and refs != 0 else ''))
    pm = OWNMSG_RE.match(pred) if pred is not None else None
    if pred is not None and not pm:
        return [], 'model runner: %s' % pred[:100], 'msg-model-bad'
    if pm is None:
        return ([(what, None)] if dirty else []), None, 'msg-no-model'
    mkind, mstage, mleak, mheap, mret, vref = pm.group(1), int(pm.group(2)), int(pm.group(3)), int(pm.group(4)), int(pm.group(7)), int(pm.group(8))
    if kind in ('panic', 'hang'):
        if kind == 'panic' and case['mode'] == 'sync':
            if mkind != 'panic':
                return [], 'outcome: implementation panics, model %s' % pred[:40], 'msg-outcome-mismatch'
            return [], None, 'msg-panic-predicted'
        return [], None, 'msg-not-compared'
    if kind != mkind or stage != mstage:
        return [], 'outcome: implementation %s stage %d, model %s' % (kind, stage, pred[:40]), 'msg-outcome-mismatch'
    bad = []
    if kind == 'ok' and mid and not vref:
        bad.append(('read_message_begin (%d-byte method name) + body decode succeeded: with the identifier dropped the input buffer is still '
                    'referenced, but the returned value holds no byte string' % case['name_len'], None))
    if dirty and mleak == 0:
        note = ('; the ownership model predicts none (no retention site accounted for)' if mret == 0
                else '; the regenerated inventory has a process-wide site that can retain what the identifier holds')
        return bad + [(what + note, None)], None, 'msg-leak-unpredicted'
    if dirty:
        return bad + [(what + ' (predicted: %d element(s) of a sync list decode never dropped)' % mleak, 'list-decode-leak')], None, 'msg-leak-predicted'
    if mheap:
        return bad, ('no leak measured, the model predicts %d undropped value(s) holding heap memory / input references (%s)'
                     % (mheap, pred)), 'msg-leak-not-measured'
    return bad, None, ('msg-ok' if kind == 'ok' else 'msg-clean')


def inline_cap_check():
    """FastStr's inline capacity is a constant of an external crate that the value-level predicate `heap_val` of Own.v
    uses: re-read it from the source of the faststr version pinned in /repo/Cargo.lock.  -> (ok, text)"""
    try:
        own = open(os.path.join(gencheck.FAM.coq, 'Own.v'), encoding='utf-8').read()
        mine = int(re.search(r'Definition faststr_inline_cap : nat := (\d+)\.', own).group(1))
        lock = open(os.path.join(core.REPO, 'Cargo.lock'), encoding='utf-8').read()
        ver = re.search(r'name = "faststr"\nversion = "([^"]+)"', lock).group(1)
    except (OSError, AttributeError) as e:
        return False, 'cannot determine faststr version / model constant: %r' % (e,)
    import glob
    srcs = glob.glob(os.path.expanduser('~/.cargo/registry/src/*/faststr-%s/src/lib.rs' % ver))
    if not srcs:
        return True, 'faststr %s source not in the cargo registry: INLINE_CAP not re-read (model: %d)' % (ver, mine)
    m = re.search(r'const INLINE_CAP: usize = (\d+);', open(srcs[0], encoding='utf-8').read())
    if not m:
        return False, 'faststr %s: `const INLINE_CAP` not found' % ver
    if int(m.group(1)) != mine:
        return False, 'faststr %s INLINE_CAP = %s, Own.v faststr_inline_cap = %d' % (ver, m.group(1), mine)
    return True, 'faststr %s INLINE_CAP = %d (= Own.v)' % (ver, mine)


def plain_template(case):
    """is the decoder of this case modelled by Own.v?  (own_decode: the plain templates, sync and async;
    own_decode_keep: the sync templates with retention of keep builds -- the runner picks by cfg and mode)"""
    return True


def evaluate(gb, case, out):
    """outcomes that are not a returned error (the leak judgement itself is in `judge`, which needs the model)"""
    sch = gb.schema
    cls = None
    if case.get('level') == 'msg':
        m = MSG_RE.match(out or '')
        swallow = case['type'] != '@appex' and genrun.is_arg_swallow(sch, case['cfg'], case['type'], case['mode'])
        if not m and case['mode'] != 'sync' and (out or '').startswith('CRASH'):
            return []       # async preallocation abort: F-09e (C09)
        if not m:
            return [('message decode does not return: %s' % (out or '')[:100], 'keep-is-arg-swallow' if swallow else None)]
        if m.group(1) in ('panic', 'hang'):
            if case['mode'] != 'sync' and m.group(1) == 'panic':
                return []
            return [('message decode %ss' % m.group(1), 'keep-is-arg-swallow' if swallow else None)]
        return []
    m = MEM_RE.match(out or '')
    if not m and case['mode'] != 'sync' and (out or '').startswith('CRASH'):
        # the emitted ASYNC container decoders preallocate from the wire count (Vec::with_capacity(size)); a corrupted
        # count makes the allocator give up and the process abort: finding F-09e of property C09 (not a failed decode
        # that returns, so there is nothing to measure for C19); counted in the distribution as `aborted`
        return []
    if not m:
        if genrun.is_arg_swallow(sch, case['cfg'], case['type'], case['mode']):
            cls = 'keep-is-arg-swallow'
        return [('decoder does not return on malformed input: %s' % (out or '')[:100], cls)]
    kind = m.group(1)
    if kind in ('panic', 'hang'):
        if case['mode'] != 'sync' and kind == 'panic':
            return []       # capacity-overflow panic of the async preallocation: F-09e (C09), no returned error to measure
        if genrun.is_arg_swallow(sch, case['cfg'], case['type'], case['mode']):
            cls = 'keep-is-arg-swallow'
        return [('decoder %ss on malformed input' % kind, cls)]
    return []


def judge(gb, case, out, pred):
    """-> (failing [(reason, cls)], correspondence problem or None, tag for the distribution).
    pred: the model's result line for the case (None when the case is not an instance of the plain templates)"""
    m = MEM_RE.match(out or '')
    if not m:
        return [], None, 'no-measurement'
    kind, live, refs = m.group(1), int(m.group(2)), int(m.group(4))
    dirty = (live != 0 or refs != 0)
    what = ('after a failed decode %d bytes stay allocated (error and input dropped)' % live if live != 0
            else 'after a failed decode a reference to the input buffer survives')
    pm = OWN_RE.match(pred) if pred is not None else None
    if pred is not None and not pm:
        return [], 'model runner: %s' % pred[:100], 'model-bad'
    if pm is None:
        # sync decoder of a keep build: type-level class only
        if kind != 'err' or not dirty:
            return [], None, 'class-only'
        cls = 'list-decode-leak' if has_heap_list(gb.schema, case['type']) else None
        return [(what, cls)], None, 'class-only'
    mkind, mleak, mheap = pm.group(1), int(pm.group(2)), int(pm.group(3))
    if kind in ('panic', 'hang'):
        # sync panics were reported by `evaluate` (F-13a class or VIOLATION); the model must predict them too.
        # async capacity-overflow panics (F-09e) are an allocation effect the model's outcome type does not carry
        if kind == 'panic' and case['mode'] == 'sync':
            if mkind != 'panic':
                return [], 'outcome: implementation panics, model %s' % pred[:40], 'outcome-mismatch'
            return [], None, 'panic-predicted'
        return [], None, 'not-compared'
    if kind != mkind:
        return [], 'outcome: implementation %s, model %s' % (kind, pred[:40]), 'outcome-mismatch'
    if kind == 'ok':
        if mleak:
            return [], 'model predicts a leak on a successful decode (%s)' % pred, 'model-bad'
        return [], None, 'ok'
    if dirty and mleak == 0:
        # the model accounts for every unsafe site of the inventory and predicts no leak: a real leak elsewhere
        return [(what + '; the ownership model (fam/gen/coq/Own.v) predicts none for this input', None)], None, 'leak-unpredicted'
    if dirty:
        return [(what + ' (predicted: %d element(s) of a sync list decode never dropped)' % mleak, 'list-decode-leak')], None, 'leak-predicted'
    if mheap:
        return [], ('no leak measured, the model predicts %d undropped value(s) holding heap memory / input references (%s)'
                    % (mheap, pred)), 'leak-not-measured'
    return [], None, ('clean-undropped-plain-data' if mleak else 'clean')


def extra(cases, outs):
    k = {'ok': 0, 'err': 0, 'panic': 0}
    peak = 0
    msgs = {}
    for c, o in zip(cases, outs):
        m = MEM_RE.match(o or '')
        if m:
            k[m.group(1)] = k.get(m.group(1), 0) + 1
            peak = max(peak, int(m.group(3)))
        mm = MSG_RE.match(o or '')
        if mm:
            key = '%s stage %s, %s, name %s' % (mm.group(1), mm.group(2), 'sync' if c['mode'] == 'sync' else 'async',
                                               'inline' if c.get('name_len', 0) <= 24 else 'beyond inline capacity')
            msgs[key] = msgs.get(key, 0) + 1
    k['aborted'] = sum(1 for o in outs if (o or '').startswith('CRASH'))
    return dict(decode_outcomes=k, truncations=sum(1 for c in cases if c['fault'].startswith('trunc')),
                corruptions=sum(1 for c in cases if c['fault'].startswith('corrupt')), max_peak_bytes=peak,
                message_level=msgs)


def run_thrift(chk, replay=None):
    tags = {}
    stats = dict(compared=0, mismatches=0)

    def post(gb, cases, outs):
        # ---- the model's predictions (extracted Own.own_decode_top through the runner, op `own`)
        runner = gencheck.FAM.runner if os.path.exists(gencheck.FAM.runner) and have_property_file(PROP) else None
        sel = [i for i, c in enumerate(cases) if plain_template(c)] if runner else []
        preds = {}
        if sel:
            lines = [('ownmsg ' + ' '.join(cases[i]['line'].split(' ')[1:6])) if cases[i].get('level') == 'msg'
                     else 'own ' + cases[i]['line'].split(' ', 1)[1] for i in sel]
            mouts = core.run_lines(runner, lines, args=[os.path.join(gb.out_dir, 'schema.txt')])
            preds = {i: (o or 'CRASH') for i, o in zip(sel, mouts)}
        failing, corr = [], []
        okc, txt = inline_cap_check()
        stats['inline_cap'] = txt
        if not okc:
            chk.violation('translator: ' + txt, dict(kind='translator', output=txt), no_input=True)
        # async CRASH / panic lines are left to C09 (F-09e) by `evaluate` -- but only where THIS input shows the oversized container
        # count (gencheck.f09e_decide: sync model stops with size_limit / negative_size at a container header, async allocation
        # model requests the buffer); any other async crash / panic is reported here with the case
        for c, o in zip(cases, outs):
            if c['mode'] != 'sync' and c['type'] != '@appex' and ((o or '').startswith('CRASH') or (o or '').startswith('panic')):
                if not gencheck.f09e_decide(chk, gb, [c])[0]:
                    failing.append((c, 'async decoder does not return an error (%s) and the input announces no container count beyond the '
                                       'remaining bytes (not F-09e)' % (o or '')[:60], None, o))
        for i, (c, o) in enumerate(zip(cases, outs)):
            bad, why, tag = (judge_msg if c.get('level') == 'msg' else judge)(gb, c, o, preds.get(i))
            tags[tag] = tags.get(tag, 0) + 1
            if i in preds and tag not in ('not-compared', 'msg-not-compared'):
                stats['compared'] += 1
            for reason, cls in bad:
                failing.append((c, reason, cls, o))
            if why:
                corr.append((c, o, preds.get(i), why))
        stats['mismatches'] = len(corr)
        if corr and not any(cls is None for _, _, cls, _ in failing):
            c, o, m, why = corr[0]
            chk.violation('correspondence gen-ownership broken: the ownership model and the emitted code disagree (%d cases: %s) '
                          'but the property oracle found no failing input' % (len(corr), why),
                          dict(kind='correspondence', correspondence='ownership model (fam/gen/coq/Own.v, runner op `own`) vs '
                               'allocator measurement of the code emitted by pilota-build',
                               case=c, impl_output=(o or '')[:2000], model_output=(m or '')[:2000]), no_input=True)
        return failing

    def extra_all(cases, outs):
        d = extra(cases, outs)
        d['ownership_model'] = dict(tags)
        d['faststr_inline_cap'] = stats.get('inline_cap')
        chk.cov['disagreements_checked'] = stats['compared']
        chk.cov['model_impl_mismatches'] = stats['mismatches']
        return d

    return run_check(chk, replay, PROP, gen_all_cases, evaluate, post=post,
                     rule="every emitted struct / union / container typedef of the corpus x 2 (thorough: 8) generated values x reference "
                          "encodings in {binary, compact} (<= 400 bytes quick) x truncation at every offset (quick: 24 sampled offsets for long "
                          "messages) + 4 (16) single-byte corruptions x {sync, async schedules} x builder configs; observation: counting global "
                          "allocator (live bytes before == after dropping result and input) and Bytes::is_unique of a second input handle, "
                          "compared per case with the prediction of the extracted ownership model (outcome; leak / no leak); "
                          "message level: 7 (thorough: 40) emitted types per config + ApplicationException as bodies behind a hand-encoded envelope, "
                          "method names of 0 / 5 / 24 / 25 / 40 bytes made fresh per run, complete / truncated anywhere (11 (42) points) / corrupted in "
                          "the body (2 (8)), binary + compact x sync + async, unchecked codec on complete messages; "
                          "distinct by SHA-1 of the case line",
                     extra_dist=extra_all, model_ops=())


def run(chk, replay=None):
    """Thrift half (code emitted by pilota-build, ownership model of fam/gen) + protobuf half (prost runtime and emitted messages,
    unsafe-site inventory + drop-guard model of fam/pb); a replay file belongs to exactly one of them"""
    from . import c19pb
    is_pb = replay is not None and replay.get('part') == 'pb'
    parts = []
    if replay is None or not is_pb:
        parts.append(('thrift', lambda c: run_thrift(c, replay)))
    if replay is None or is_pb:
        parts.append(('pb', lambda c: c19pb.run(c, replay)))
    return chk.run_parts(parts)
