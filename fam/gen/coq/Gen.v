(* L3: schema-directed model of the Rust code pilota-build EMITS for Thrift IDL
   (pilota-build/src/codegen/thrift/{mod.rs, ty.rs, decode_helper.rs}), written ON TOP of the primitive
   protocol operations of PV.Thrift.Proto / Len (binary, binary-LE, compact), clause for clause after the
   templates:

     codegen_encode_ty / codegen_encode_field      -> enc_ty / enc_field
     codegen_ty_size / codegen_field_size          -> size_ty / size_field   (struct_field_len announces TStruct)
     codegen_decode_ty                             -> gen_decode (containers, Path -> Message::decode)
     codegen_struct_impl + codegen_decode{,_fields} -> enc_struct / size_struct / dec_struct
     codegen_enum_impl (repr None = union)         -> enc_union / size_union / dec_union  (match on the id ONLY)
     codegen_enum_impl (repr I32)                  -> i32 newtype
     codegen_newtype_impl                          -> transparent (the value of the target type)
     Box / Arc (BoxedPlugin, rust_wrapper_arc)     -> identity on values

   No proofs in this file.  The unknown-field retention variants of the templates are in GenKeep.v. *)
From PV Require Export Thrift.Len.
From PVGen Require Export Kinds Generated.GenTable.
Open Scope Z_scope.

(* ---------- schema ---------- *)
Inductive ty :=
| TyBool | TyI8 | TyI16 | TyI32 | TyI64 | TyDouble
| TyString            (* FastStr / String: same wire behaviour *)
| TyBinary            (* Bytes / Vec<u8> *)
| TyUuid | TyVoid
| TyList (t : ty) | TySet (t : ty) | TyMap (k v : ty)   (* Vec; AHashSet / BTreeSet; AHashMap / BTreeMap *)
| TyRef (n : nat).    (* index into the schema *)

(* typed values: what the emitted types hold (typedef newtypes, Box and Arc are transparent) *)
Inductive gval :=
| GBool (b : bool)
| GI8 (z : Z) | GI16 (z : Z) | GI32 (z : Z) | GI64 (z : Z)
| GDouble (bits : Z)
| GBytes (l : list byte)          (* string and binary *)
| GUuid (l : list byte)
| GVoid
| GEnum (z : Z)                   (* i32 newtype: open enum *)
| GList (l : list gval)
| GSet (l : list gval)
| GMap (l : list (gval * gval))
| GStruct (fs : list (Z * gval)) (unk : list (list byte))  (* present fields (id, value) in declaration order; retained chunks *)
| GUnion (id : Z) (v : gval)
| GUnionUnknown (unk : list byte).   (* `_UnknownFields` variant of a keep build *)

Inductive req := Required | Optional.

Record field := mkField {
  f_id : Z;
  f_req : req;
  f_ty : ty;
  f_dflt : option (bool * gval)     (* (is_const, value): const defaults initialise the variable, the
                                       others are applied after the loop (unwrap_or_else / if is_none) *)
}.

Inductive decl :=
| DStruct (fs : list field) (keep : bool) (is_arg : bool)
| DUnion (vs : list (Z * ty)) (void_ok : bool) (keep : bool)   (* void_ok: first variant is `Ok` of type void *)
| DEnum (ms : list Z)
| DTypedef (t : ty).

Definition schema := list decl.

Definition lookup (S : schema) (n : nat) : option decl := nth_error S n.

(* strip typedefs (newtypes are transparent); fuel = length of the schema suffices for an acyclic typedef graph *)
Fixpoint resolve_n (S : schema) (fuel : nat) (t : ty) : ty :=
  match fuel with
  | O => t
  | Datatypes.S f =>
      match t with
      | TyRef n => match lookup S n with
                   | Some (DTypedef t') => resolve_n S f t'
                   | _ => t
                   end
      | _ => t
      end
  end.
Definition resolve (S : schema) (t : ty) : ty := resolve_n S (Datatypes.S (length S)) t.

(* ThriftBackend::ttype: by the REGENERATED kind table *)
Definition ttype_of_ty (S : schema) (t : ty) : ttype :=
  match resolve S t with
  | TyBool => kind_ttype KBool
  | TyI8 => kind_ttype KI8
  | TyI16 => kind_ttype KI16
  | TyI32 => kind_ttype KI32
  | TyI64 => kind_ttype KI64
  | TyDouble => kind_ttype KF64
  | TyString => kind_ttype KFastStr
  | TyBinary => kind_ttype KBytes
  | TyUuid => kind_ttype KUuid
  | TyVoid => kind_ttype KVoid
  | TyList _ => kind_ttype KVec
  | TySet _ => kind_ttype KSet
  | TyMap _ _ => kind_ttype KMap
  | TyRef n => match lookup S n with
               | Some (DEnum _) => kind_ttype KEnumRepr
               | Some (DUnion _ _ _) => kind_ttype KEnumNoRepr
               | _ => kind_ttype KMessage
               end
  end.

Fixpoint find_field (fs : list field) (id : Z) : option field :=
  match fs with
  | [] => None
  | f :: t => if f_id f =? id then Some f else find_field t id
  end.
Fixpoint find_variant (vs : list (Z * ty)) (id : Z) : option ty :=
  match vs with
  | [] => None
  | (i, t) :: r => if i =? id then Some t else find_variant r id
  end.

Definition is_void (t : ty) : bool := match t with TyVoid => true | _ => false end.

(* is the declared type a Path that is not an i32 enum (struct, union, typedef)?  codegen_field_size sends
   these through struct_field_len *)
Definition is_nonenum_path (S : schema) (t : ty) : bool :=
  match t with
  | TyRef n => match lookup S n with Some (DEnum _) => false | _ => true end
  | _ => false
  end.

(* ---------- encode ---------- *)
Section Encode.
  Variable S : schema.
  Variable p : pk.
  Variable k : bk.

  Definition wfail : wm := fun _ => Err EOther.     (* ill-typed value: excluded by has_type *)

  Definition w_unknown (chunks : list (list byte)) : wm :=
    fold_right (fun c acc => w_bytes_without_len k c ;; acc) wnop chunks.

  (* codegen_encode_ty at declared type t.  Recursion on the value. *)
  Fixpoint enc_ty (t : ty) (v : gval) {struct v} : wm :=
    match v with
    | GBool b => match resolve S t with TyBool => w_bool p b | _ => wfail end
    | GI8 z => match resolve S t with TyI8 => w_i8 z | _ => wfail end
    | GI16 z => match resolve S t with TyI16 => w_i16 p z | _ => wfail end
    | GI32 z => match resolve S t with TyI32 => w_i32 p z | _ => wfail end
    | GI64 z => match resolve S t with TyI64 => w_i64 p z | _ => wfail end
    | GDouble b => match resolve S t with TyDouble => w_double p b | _ => wfail end
    | GBytes l => match resolve S t with TyString | TyBinary => w_bytes p k l | _ => wfail end
    | GUuid l => match resolve S t with TyUuid => w_uuid l | _ => wfail end
    | GVoid => match resolve S t with TyVoid => w_struct_begin p ;; w_struct_end p | _ => wfail end
    | GEnum z =>
        match resolve S t with
        | TyRef n => match lookup S n with Some (DEnum _) => w_i32 p z | _ => wfail end
        | _ => wfail
        end
    | GList l =>
        match resolve S t with
        | TyList et =>
            w_coll_begin p (ttype_of_ty S et) (Z.of_nat (length l)) ;;
            (fix go (l : list gval) : wm := match l with [] => wnop | x :: r => enc_ty et x ;; go r end) l
        | _ => wfail
        end
    | GSet l =>
        match resolve S t with
        | TySet et =>
            w_coll_begin p (ttype_of_ty S et) (Z.of_nat (length l)) ;;
            (fix go (l : list gval) : wm := match l with [] => wnop | x :: r => enc_ty et x ;; go r end) l
        | _ => wfail
        end
    | GMap l =>
        match resolve S t with
        | TyMap kt vt =>
            w_map_begin p (ttype_of_ty S kt) (ttype_of_ty S vt) (Z.of_nat (length l)) ;;
            (fix go (l : list (gval * gval)) : wm :=
               match l with [] => wnop | (a, b) :: r => enc_ty kt a ;; enc_ty vt b ;; go r end) l
        | _ => wfail
        end
    | GStruct fs unk =>
        match resolve S t with
        | TyRef n =>
            match lookup S n with
            | Some (DStruct dfs _ _) =>
                w_struct_begin p ;;
                (fix go (fs : list (Z * gval)) : wm :=
                   match fs with
                   | [] => wnop
                   | (id, x) :: r =>
                       match find_field dfs id with
                       | Some f =>
                           (* codegen_encode_field: Void writes nothing; everything else is
                              write_field_begin(ttype, id); value; write_field_end *)
                           (if is_void (resolve S (f_ty f)) then wnop
                            else w_field_begin p (ttype_of_ty S (f_ty f)) id ;; enc_ty (f_ty f) x ;; w_field_end p) ;; go r
                       | None => wfail
                       end
                   end) fs ;;
                w_unknown unk ;;
                w_field_stop p ;; w_struct_end p
            | _ => wfail
            end
        | _ => wfail
        end
    | GUnion id x =>
        match resolve S t with
        | TyRef n =>
            match lookup S n with
            | Some (DUnion vs _ _) =>
                match find_variant vs id with
                | Some vt =>
                    w_struct_begin p ;;
                    (if is_void (resolve S vt) then wnop
                     else w_field_begin p (ttype_of_ty S vt) id ;; enc_ty vt x ;; w_field_end p) ;;
                    w_field_stop p ;; w_struct_end p
                | None => wfail
                end
            | _ => wfail
            end
        | _ => wfail
        end
    | GUnionUnknown u =>
        match resolve S t with
        | TyRef n =>
            match lookup S n with
            | Some (DUnion _ _ true) =>
                w_struct_begin p ;; w_bytes_without_len k u ;; w_field_stop p ;; w_struct_end p
            | _ => wfail
            end
        | _ => wfail
        end
    end.
End Encode.

Definition gen_encode (S : schema) (p : pk) (k : bk) (t : ty) (v : gval) : res (list byte) :=
  let* (ss, _) := enc_ty S p k t v w0 in Ok (flat ss).

(* ---------- size ---------- *)
Section Size.
  Variable S : schema.
  Variable p : pk.

  Definition lfail : lm := fun _ => Err EOther.

  Definition l_unknown (chunks : list (list byte)) : lm :=
    lret (fold_right (fun c a => Z.of_nat (length c) + a) 0 chunks).

  (* codegen_field_size: the TType announced to field_begin_len *)
  Definition size_field_ttype (t : ty) : ttype :=
    if is_nonenum_path S t then path_field_len_ttype else ttype_of_ty S t.

  (* codegen_ty_size at declared type t *)
  Fixpoint size_ty (t : ty) (v : gval) {struct v} : lm :=
    match v with
    | GBool _ => match resolve S t with TyBool => l_bool p | _ => lfail end
    | GI8 _ => match resolve S t with TyI8 => l_i8 | _ => lfail end
    | GI16 z => match resolve S t with TyI16 => l_i16 p z | _ => lfail end
    | GI32 z => match resolve S t with TyI32 => l_i32 p z | _ => lfail end
    | GI64 z => match resolve S t with TyI64 => l_i64 p z | _ => lfail end
    | GDouble _ => match resolve S t with TyDouble => l_double | _ => lfail end
    | GBytes l => match resolve S t with TyString | TyBinary => l_bytes p (Z.of_nat (length l)) | _ => lfail end
    | GUuid _ => match resolve S t with TyUuid => l_uuid | _ => lfail end
    | GVoid => match resolve S t with TyVoid => l_struct_begin p +++ l_struct_end p | _ => lfail end
    | GEnum z =>
        match resolve S t with
        | TyRef n => match lookup S n with Some (DEnum _) => l_i32 p z | _ => lfail end
        | _ => lfail
        end
    | GList l =>
        match resolve S t with
        | TyList et =>
            l_coll_begin p (ttype_of_ty S et) (Z.of_nat (length l)) +++
            (fix go (l : list gval) : lm := match l with [] => lret 0 | x :: r => size_ty et x +++ go r end) l
        | _ => lfail
        end
    | GSet l =>
        match resolve S t with
        | TySet et =>
            l_coll_begin p (ttype_of_ty S et) (Z.of_nat (length l)) +++
            (fix go (l : list gval) : lm := match l with [] => lret 0 | x :: r => size_ty et x +++ go r end) l
        | _ => lfail
        end
    | GMap l =>
        match resolve S t with
        | TyMap kt vt =>
            l_map_begin p (ttype_of_ty S kt) (ttype_of_ty S vt) (Z.of_nat (length l)) +++
            (fix go (l : list (gval * gval)) : lm :=
               match l with [] => lret 0 | (a, b) :: r => size_ty kt a +++ size_ty vt b +++ go r end) l
        | _ => lfail
        end
    | GStruct fs unk =>
        match resolve S t with
        | TyRef n =>
            match lookup S n with
            | Some (DStruct dfs _ _) =>
                l_struct_begin p +++
                (fix go (fs : list (Z * gval)) : lm :=
                   match fs with
                   | [] => lret 0
                   | (id, x) :: r =>
                       match find_field dfs id with
                       | Some f =>
                           (if is_void (resolve S (f_ty f)) then lret 0
                            else l_field_begin p (size_field_ttype (f_ty f)) id +++ size_ty (f_ty f) x +++ l_field_end p) +++ go r
                       | None => lfail
                       end
                   end) fs +++
                l_unknown unk +++
                l_field_stop p +++ l_struct_end p
            | _ => lfail
            end
        | _ => lfail
        end
    | GUnion id x =>
        match resolve S t with
        | TyRef n =>
            match lookup S n with
            | Some (DUnion vs _ _) =>
                match find_variant vs id with
                | Some vt =>
                    l_struct_begin p +++
                    (if is_void (resolve S vt) then lret 0
                     else l_field_begin p (size_field_ttype vt) id +++ size_ty vt x +++ l_field_end p) +++
                    l_field_stop p +++ l_struct_end p
                | None => lfail
                end
            | _ => lfail
            end
        | _ => lfail
        end
    | GUnionUnknown u =>
        match resolve S t with
        | TyRef n =>
            match lookup S n with
            | Some (DUnion _ _ true) =>
                l_struct_begin p +++ lret (Z.of_nat (length u)) +++ l_field_stop p +++ l_struct_end p
            | _ => lfail
            end
        | _ => lfail
        end
    end.
End Size.

Definition gen_size (S : schema) (p : pk) (t : ty) (v : gval) : res Z :=
  let* (n, _) := size_ty S p t v w0 in Ok n.

(* ---------- decode (sync templates, no retention) ---------- *)

(* the TLengthProtocol methods the sync templates call on the READER object.  Binary: pure numbers.
   Compact (compact.rs 1356-1393): field_begin_len(Bool) arms pending_read_bool_field_identifier (panics when
   one is already armed), field_end_len / field_stop_len assert that none is pending; read_bool disarms. *)
Definition r_field_begin_len (p : pk) (ft : ttype) (id : option Z) : rm Z := fun s =>
  match p with
  | PCompact =>
      let c := rc s in
      match ft with
      | TBool => if r_pfield c then Panic SPendingBoolTwice
                 else Ok (0, set_rc s (mkR (r_last c) (r_stack c) (r_pbool c) true))
      | _ => match ctype_of_ttype ft, id with
             | Some _, Some i =>
                 (* read_field_header_len!: read_field_begin has just set last_read_field_id := id, so the
                    delta is 0 and the long form is always counted; last_read_field_id := id is a no-op *)
                 Ok (1 + required_space_s i, s)
             | _, _ => Panic SUnwrap
             end
      end
  | _ => Ok (3, s)
  end.
Definition r_assert_no_pending (p : pk) (n : Z) : rm Z := fun s =>
  match p with
  | PCompact => if r_pfield (rc s) then Panic SPendingBoolRead else Ok (n, s)
  | _ => Ok (n, s)
  end.
Definition r_field_end_len (p : pk) : rm Z := r_assert_no_pending p 0.
Definition r_field_stop_len (p : pk) : rm Z := r_assert_no_pending p 1.

Definition maximum_skip_depth_nat : nat := Z.to_nat maximum_skip_depth.

(* TInputProtocol::skip: the default skipper (mod.rs, binary widths) and the compact skipper (compact.rs)
   both walk the value with the protocol's own readers up to MAXIMUM_SKIP_DEPTH levels and return the number
   of bytes consumed; modelled as read-and-discard by the value interpreter (Interp.read_val) followed by the
   depth test.  (Where the real skipper stops early with DepthLimit the model may report another error class
   for the same input; comparisons use the coarse outcome.) *)
Definition skip (p : pk) (fuel : nat) (ft : ttype) : rm Z := fun s =>
  let* (v, s') := read_val p fuel ft s in
  if Nat.leb (vdepth v) maximum_skip_depth_nat
  then Ok (Z.of_nat (length (rbuf s)) - Z.of_nat (length (rbuf s')), s')
  else Err EDepthLimit.

Fixpoint set_nth {A} (n : nat) (x : A) (l : list A) : list A :=
  match l, n with
  | [], _ => []
  | _ :: t, O => x :: t
  | h :: t, Datatypes.S n' => h :: set_nth n' x t
  end.

(* index and declaration of the field a wire field (id, type) is decoded into: the arm
   `Some(id) if field_ident.field_type == ttype` *)
Fixpoint match_field (S : schema) (fs : list field) (i : nat) (id : option Z) (ft : ttype) : option (nat * field) :=
  match fs with
  | [] => None
  | f :: t =>
      match id with
      | Some z => if (f_id f =? z) && ttype_eqb (ttype_of_ty S (f_ty f)) ft then Some (i, f)
                  else match_field S t (Datatypes.S i) id ft
      | None => None
      end
  end.

Section DecLoops.
  Variable S : schema.
  Variable p : pk.
  Variable fuel_skip : nat.
  Variable rec : ty -> rst -> res (gval * rst).

  Fixpoint dec_elems (m : nat) (et : ty) (n : Z) (s : rst) (acc : list gval) {struct m} : res (list gval * rst) :=
    if n <=? 0 then Ok (rev acc, s) else
    match m with
    | O => Err EOutOfFuel
    | Datatypes.S m' => let* (x, s) := rec et s in dec_elems m' et (n - 1) s (x :: acc)
    end.

  Fixpoint dec_pairs (m : nat) (kt vt : ty) (n : Z) (s : rst) (acc : list (gval * gval)) {struct m}
    : res (list (gval * gval) * rst) :=
    if n <=? 0 then Ok (rev acc, s) else
    match m with
    | O => Err EOutOfFuel
    | Datatypes.S m' =>
        let* (a, s) := rec kt s in
        let* (b, s) := rec vt s in
        dec_pairs m' kt vt (n - 1) s ((a, b) :: acc)
    end.

  (* codegen_decode_fields: the struct loop *)
  Fixpoint dec_fields (m : nat) (fs : list field) (vars : list (option gval)) (s : rst) {struct m}
    : res (list (option gval) * rst) :=
    match m with
    | O => Err EOutOfFuel
    | Datatypes.S m' =>
        let* (h, s) := r_field_begin p s in
        if ttype_eqb (fst h) TStop then
          let* (_, s) := r_field_stop_len p s in Ok (vars, s)
        else
          let* (_, s) := r_field_begin_len p (fst h) (snd h) s in
          let* (vars, s) :=
            match match_field S fs O (snd h) (fst h) with
            | Some (i, f) => let* (x, s) := rec (f_ty f) s in Ok (set_nth i (Some x) vars, s)
            | None => let* (_, s) := skip p fuel_skip (fst h) s in Ok (vars, s)
            end in
          (* read_field_end is a no-op in every protocol *)
          let* (_, s) := r_field_end_len p s in
          dec_fields m' fs vars s
    end.

  (* the union loop: match on the id ONLY; no field_end_len inside the loop *)
  Fixpoint dec_variants (m : nat) (vs : list (Z * ty)) (ret : option (Z * gval)) (s : rst) {struct m}
    : res (option (Z * gval) * rst) :=
    match m with
    | O => Err EOutOfFuel
    | Datatypes.S m' =>
        let* (h, s) := r_field_begin p s in
        if ttype_eqb (fst h) TStop then
          let* (_, s) := r_field_stop_len p s in Ok (ret, s)
        else
          let* (_, s) := r_field_begin_len p (fst h) (snd h) s in
          let known := match snd h with
                       | Some id => match find_variant vs id with
                                    | Some vt => if is_void (resolve S vt) then None else Some (id, vt)
                                    | None => None
                                    end
                       | None => None
                       end in
          match known with
          | Some (id, vt) =>
              match ret with
              | None =>
                  let* (x, s) := rec vt s in
                  (* `codegen_ty_size(.., &field_ident)` on the reader object: pure in binary, balanced
                     push/pop of the field-id context in compact *)
                  dec_variants m' vs (Some (id, x)) s
              | Some _ => Err EInvalidData      (* received multiple fields for union *)
              end
          | None =>
              let* (_, s) := skip p fuel_skip (fst h) s in
              dec_variants m' vs ret s
          end
    end.
End DecLoops.

(* initial values of the field variables: const defaults initialise the variable *)
Definition init_var (f : field) : option gval :=
  match f_dflt f with
  | Some (true, d) => Some d
  | _ => None
  end.

(* after the loop: required fields without default must be present; non-const defaults are filled in *)
Fixpoint finish_fields (fs : list field) (vars : list (option gval)) : res (list (Z * gval)) :=
  match fs, vars with
  | [], _ => Ok []
  | f :: ft, v :: vt =>
      let* rest := finish_fields ft vt in
      match v with
      | Some x => Ok ((f_id f, x) :: rest)
      | None =>
          match f_dflt f with
          | Some (_, d) => Ok ((f_id f, d) :: rest)      (* unwrap_or_else(|| default) / if is_none { Some(default) } *)
          | None => match f_req f with
                    | Required => Err EInvalidData        (* "field .. is required" *)
                    | Optional => Ok rest
                    end
          end
      end
  | _ :: _, [] => Err EOther
  end.

(* the required check happens before the default filling and for all fields first; both fail with the same
   class, so the combined pass above is observationally the same *)

Fixpoint gen_decode (S : schema) (p : pk) (fuel : nat) (t : ty) (s : rst) {struct fuel} : res (gval * rst) :=
  match fuel with
  | O => Err EOutOfFuel
  | Datatypes.S f =>
      match resolve S t with
      | TyBool => let* (b, s) := r_bool p s in Ok (GBool b, s)
      | TyI8 => let* (z, s) := r_i8 s in Ok (GI8 z, s)
      | TyI16 => let* (z, s) := r_i16 p s in Ok (GI16 z, s)
      | TyI32 => let* (z, s) := r_i32 p s in Ok (GI32 z, s)
      | TyI64 => let* (z, s) := r_i64 p s in Ok (GI64 z, s)
      | TyDouble => let* (z, s) := r_double p s in Ok (GDouble z, s)
      | TyString | TyBinary => let* (l, s) := r_bytes p s in Ok (GBytes l, s)
      | TyUuid => let* (l, s) := r_uuid s in Ok (GUuid l, s)
      | TyVoid =>
          let* (_, s) := r_struct_begin p s in
          let* (_, s) := r_struct_end p s in Ok (GVoid, s)
      | TyList et =>
          (* the element type announced by the header is ignored: elements are read at the declared type *)
          let* (h, s) := r_coll_begin p s in
          let* (l, s) := dec_elems (gen_decode S p f) (Datatypes.S f) et (snd h) s [] in
          Ok (GList l, s)
      | TySet et =>
          let* (h, s) := r_coll_begin p s in
          let* (l, s) := dec_elems (gen_decode S p f) (Datatypes.S f) et (snd h) s [] in
          Ok (GSet l, s)
      | TyMap kt vt =>
          let* (h, s) := r_map_begin p s in
          let* (l, s) := dec_pairs (gen_decode S p f) (Datatypes.S f) kt vt (snd h) s [] in
          Ok (GMap l, s)
      | TyRef n =>
          match lookup S n with
          | Some (DEnum _) => let* (z, s) := r_i32 p s in Ok (GEnum z, s)     (* TryFrom<i32> never fails *)
          | Some (DStruct fs _ _) =>
              let* (_, s) := r_struct_begin p s in
              let* (vars, s) := dec_fields S p f (gen_decode S p f) (Datatypes.S f) fs (map init_var fs) s in
              let* (_, s) := r_struct_end p s in
              let* out := finish_fields fs vars in
              Ok (GStruct out [], s)
          | Some (DUnion vs void_ok _) =>
              let* (_, s) := r_struct_begin p s in
              let* (ret, s) := dec_variants S p f (gen_decode S p f) (Datatypes.S f) vs None s in
              (* read_field_end (no-op) *)
              let* (_, s) := r_struct_end p s in
              match ret with
              | Some (id, x) => Ok (GUnion id x, s)
              | None =>
                  if void_ok then
                    match vs with
                    | (id0, _) :: _ => Ok (GUnion id0 GVoid, s)
                    | [] => Err EInvalidData
                    end
                  else Err EInvalidData         (* received empty union *)
              end
          | Some (DTypedef _) => Err EOther     (* unreachable: resolve strips typedefs of a well-formed schema *)
          | None => Err EOther
          end
      end
  end.

(* top-level entry: T::decode on a fresh protocol object over the bytes *)
Definition gen_decode_top (S : schema) (p : pk) (t : ty) (l : list byte) : res (gval * list byte) :=
  let* (v, s) := gen_decode S p (length l + 80) t (mkS l r0) in Ok (v, rbuf s).
