//! pv-gen-build <config> <out.rs> <file.thrift>...
//! Runs the real pilota-build Builder (from /repo's working tree) on the given entry IDL files.
//! config: plain | keep | split | keepsplit | nocase (change_case(false))
use std::path::PathBuf;

fn main() {
    let args: Vec<String> = std::env::args().collect();
    if args.len() < 4 {
        eprintln!("usage: pv-gen-build <plain|keep|split|keepsplit> <out.rs> <idl>...");
        std::process::exit(2);
    }
    let cfg = args[1].as_str();
    let out = PathBuf::from(&args[2]);
    let idls: Vec<PathBuf> = args[3..].iter().map(PathBuf::from).collect();
    let mut b = pilota_build::Builder::thrift().ignore_unused(false);
    if cfg == "keep" || cfg == "keepsplit" {
        b = b.keep_unknown_fields(idls.clone());
    }
    if cfg == "nocase" {
        b = b.change_case(false);
    }
    if cfg == "split" || cfg == "keepsplit" {
        b = b.split_generated_files(true);
    }
    let services = idls.into_iter().map(pilota_build::IdlService::from_path).collect();
    b.compile_with_config(services, pilota_build::Output::File(out));
}
