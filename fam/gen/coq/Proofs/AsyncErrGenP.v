(* C12 at the generated-code level, the error direction: whenever the emitted in-memory decoder reports an error on a
   byte string, the emitted asynchronous decoder reports an error on that byte string -- for ANY input, not only for
   truncations of valid encodings.

   The two decoders do not fail at the same place: the in-memory readers reject a container count / byte-string length
   that exceeds what remains, the asynchronous readers cannot know what remains and start reading.  They then starve,
   because every value costs at least one byte -- EXCEPT a bool whose value rode in a compact field header
   (pending_read_bool_value).  At the primitive level (PV.Proofs.AsyncErrP) a pending value is always consumed by the
   read that follows the header (invariant [npb]).  The emitted UNION template matches a variant on the field id only
   (finding F-08a), so a compact bool header may be followed by the reader of another type; the value then stays
   pending ("stale") and is handed to the next bool read anywhere later -- that read is free.

   The invariant that survives this is a potential:   phi s = bytes left + (1 if a bool value is pending).
   Every successful asynchronous read of a non-void value lowers phi by at least 1; a field header never raises it (a
   bool header pays for the value it carries with its own byte).  Hence: when the in-memory decoder fails, the
   asynchronous one fails or ends STARVED (phi = 0: no byte left, nothing pending) -- and a starved decoder cannot read
   the Stop header every struct / union still owes.  So for message types (structs, unions: the types that have a
   decode_async entry point) the asynchronous decoder fails; for a bare container the statement is false
   ([gen_async_error_container_refuted]: map<U, list<bool>>, U = union {1: i32}). *)
From PV Require Import Thrift.Skip Proofs.VarintP Proofs.TablesP Proofs.PrimP Proofs.HeaderP Proofs.RoundtripP Proofs.TotalP
  Proofs.AsyncP Proofs.AsyncErrP Proofs.SkipP.
From PVGen Require Import Gen GenSpec GenAsync ErrSpec Proofs.GenBase Proofs.EncP Proofs.RoundP Proofs.EvoBase Proofs.OwnP Proofs.TotalGenP Proofs.AsyncGenP.
From Coq Require Import ZifyN ZifyNat ZifyBool.
Open Scope Z_scope.

(* ================= the potential ================= *)
Definition pend (s : rst) : nat := match r_pbool (rc s) with Some _ => 1%nat | None => 0%nat end.
Definition phi (s : rst) : nat := (blen s + pend s)%nat.

(* a successful run lowers the potential by at least k *)
Definition PG {A} (k : nat) (a : rm A) : Prop := forall s x s', a s = Ok (x, s') -> (phi s' + k <= phi s)%nat.

Lemma PG_weaken {A} k k' (a : rm A) : (k' <= k)%nat -> PG k a -> PG k' a.
Proof. intros Hk H s x s' E. specialize (H _ _ _ E). lia. Qed.
Lemma PG_bind {A B} k1 k2 (a : rm A) (f : A -> rm B) :
  PG k1 a -> (forall x, PG k2 (f x)) -> PG (k1 + k2) (fun s => let* (x, s1) := a s in f x s1).
Proof. intros Ha Hf s y s' H. binv H. specialize (Ha _ _ _ E). specialize (Hf _ _ _ _ H). lia. Qed.
Lemma PG_ret {A} (x : A) : PG 0 (fun s => Ok (x, s)).
Proof. intros s y s' H. injection H as <- <-. lia. Qed.
Lemma PG_map {A B} k (a : rm A) (g : A -> B) : PG k a -> PG k (fun s => let* (x, s1) := a s in Ok (g x, s1)).
Proof. intros H s y s' E. binv E. injection E as <- <-. eapply H; eauto. Qed.
Lemma PG_fail {A} k e : PG k (fun _ : rst => @Err (A * rst) e).
Proof. intros s x s' H. discriminate. Qed.

Lemma PG_take n : PG n (a_take n).
Proof.
  intros s a s' H. unfold a_take in H. destruct (take n (rbuf s)) as [[a' r]|] eqn:E; [|discriminate].
  injection H as <- <-. apply take_some in E as [E1 E2]. unfold phi, pend, blen, set_buf. cbn [rbuf rc].
  rewrite E1, app_length. lia.
Qed.
Lemma PG_varint m : PG 1 (a_varint m).
Proof.
  intros s n s' H. unfold a_varint, read_var_u64 in H. pose proof (rd_var_good m 0 0 (rbuf s)) as G.
  destruct (rd_var m 0 0 (rbuf s)) as [[n' r]| |]; try discriminate. injection H as <- <-.
  unfold phi, pend, blen, set_buf. cbn [rbuf rc]. lia.
Qed.
Lemma PG_byte : PG 1 a_byte.
Proof. apply (PG_map _ _ of_le), PG_take. Qed.
Lemma PG_i8 : PG 1 a_i8.
Proof. apply (PG_map _ _ (fun a => wrap_s 8 (of_le a))), PG_take. Qed.
Lemma PG_fixed p n b : PG n (a_fixed p n b).
Proof. apply (PG_map _ _ (fun a => wrap_s b (unfx p a))), PG_take. Qed.
Lemma PG_i16 p : PG 1 (a_i16 p).
Proof.
  destruct p; cbn [a_i16]; try (apply (PG_weaken 2); [lia|apply PG_fixed]).
  apply (PG_map _ _ (fun n => wrap_s 16 (unzigzag n))), PG_varint.
Qed.
Lemma PG_i32 p : PG 1 (a_i32 p).
Proof.
  destruct p; cbn [a_i32]; try (apply (PG_weaken 4); [lia|apply PG_fixed]).
  apply (PG_map _ _ (fun n => wrap_s 32 (unzigzag n))), PG_varint.
Qed.
Lemma PG_i64 p : PG 1 (a_i64 p).
Proof.
  destruct p; cbn [a_i64]; try (apply (PG_weaken 8); [lia|apply PG_fixed]).
  apply (PG_map _ _ (fun n => wrap_s 64 (unzigzag n))), PG_varint.
Qed.
Lemma PG_double p : PG 1 (a_double p).
Proof. apply (PG_weaken 8); [lia|]. apply (PG_map _ _ (fun a => match p with PBinary => of_be a | _ => of_le a end)), PG_take. Qed.
Lemma PG_uuid : PG 1 a_uuid.
Proof. apply (PG_weaken 16); [lia|apply PG_take]. Qed.
Lemma PG_split (n : Z) : PG 0 (fun s => if n <=? Z.of_nat (length (rbuf s)) then a_take (Z.to_nat n) s else Err ETransport).
Proof.
  intros s x s' H. destruct (n <=? Z.of_nat (length (rbuf s))); [|discriminate].
  pose proof (PG_take _ _ _ _ H). lia.
Qed.
Lemma PG_bytes p : PG 1 (a_bytes p).
Proof.
  destruct p; cbn [a_bytes].
  1,2: match goal with |- PG 1 (fun s => let* (n, s0) := ?m s in @?f n s0) => apply (PG_bind 1 0 m f) end;
       [first [apply (PG_i32 PBinary)|apply (PG_i32 PBinaryLE)]|];
       intros n; destruct (n <? 0); [apply PG_fail|apply PG_split].
  apply (PG_bind 1 0 (a_varint maxsize_32)
           (fun n s => if wrap_u 32 n <=? Z.of_nat (length (rbuf s)) then a_take (Z.to_nat (wrap_u 32 n)) s else Err ETransport)).
  - apply PG_varint.
  - intros n. apply PG_split.
Qed.
Lemma PG_ttype : PG 1 a_ttype.
Proof.
  unfold a_ttype. apply (PG_bind 1 0); [apply PG_byte|]. intros b. destruct (ttype_of_byte b); [apply PG_ret|apply PG_fail].
Qed.

(* a bool costs one unit: a byte, or the pending value *)
Lemma PG_bool p : PG 1 (a_bool p).
Proof.
  destruct p; cbn [a_bool].
  1,2: apply (PG_map _ _ (fun b => negb (b =? 0))), PG_i8.
  intros s b s' H. destruct (r_pbool (rc s)) eqn:Ep.
  - injection H as <- <-. unfold phi, pend, blen. cbn [set_rc rbuf rc r_pbool]. rewrite Ep. lia.
  - binv H. pose proof (PG_byte _ _ _ E) as G.
    destruct (ctype_of_code x) as [[]|]; try discriminate; injection H as <- <-; exact G.
Qed.

Lemma PG_struct_begin p : PG 0 (a_struct_begin p).
Proof. intros s x s' H. unfold a_struct_begin in H. destruct p; cbn [r_struct_begin] in H; injection H as <- <-; unfold phi, pend, blen; cbn; lia. Qed.
Lemma PG_struct_end p : PG 0 (a_struct_end p).
Proof.
  intros s x s' H. unfold a_struct_end in H. destruct p; cbn [r_struct_end] in H; try (injection H as <- <-; lia).
  destruct (r_stack (rc s)); [discriminate|]. injection H as <- <-. unfold phi, pend, blen; cbn; lia.
Qed.

(* a field header: at least one byte; a bool header sets the pending value (replacing a stale one), which its own byte
   pays for; Stop sets nothing *)
Lemma PG_field_begin p s h s' : a_field_begin p s = Ok (h, s') ->
  (phi s' <= phi s)%nat /\ (blen s' + 1 <= blen s)%nat /\ (fst h = TStop -> (phi s' + 1 <= phi s)%nat).
Proof.
  destruct p; cbn [a_field_begin].
  1,2: intros H; binv H; pose proof (PG_ttype _ _ _ E) as G1;
       assert (Hr : rc s0 = rc s) by
         (unfold a_ttype, a_byte, a_take in E; destruct (take 1 (rbuf s)) as [[a r]|]; cbn [bind] in E; try discriminate;
          destruct (ttype_of_byte (of_le a)); try discriminate; injection E as _ <-; reflexivity);
       assert (Hb : (blen s0 + 1 <= blen s)%nat) by (unfold phi, pend in G1; rewrite Hr in G1; lia);
       destruct x; try (binv H; injection H as <- <-;
         match goal with E0 : a_i16 _ _ = _ |- _ => pose proof (PG_i16 _ _ _ _ E0) as G2 end;
         assert (Hr2 : rc s1 = rc s0) by
           (unfold a_i16, a_fixed, a_take in E0; destruct (take 2 (rbuf s0)) as [[a r]|]; cbn [bind] in E0; try discriminate;
            injection E0 as _ <-; reflexivity);
         cbn [fst]; unfold phi, pend in *; rewrite Hr2, Hr in *; split; [lia|]; split; [lia|discriminate]);
       injection H as <- <-; cbn [fst]; split; [lia|]; split; [lia|intros _; lia].
  intros H. binv H. rename x into b. rename s0 into s1.
  assert (Hb1 : (blen s1 + 1 <= blen s)%nat /\ rc s1 = rc s).
  { unfold a_byte, a_take in E. destruct (take 1 (rbuf s)) as [[a r]|] eqn:Et; cbn [bind] in E; try discriminate.
    injection E as _ <-. apply take_some in Et as [E1 E2]. unfold blen, set_buf. cbn [rbuf rc]. rewrite E1, app_length. split; [lia|reflexivity]. }
  destruct Hb1 as [Hb1 Hr1].
  binv H. rename x into ty. rename s0 into s2.
  assert (H2 : blen s2 = blen s1 /\ (pend s2 <= 1)%nat /\ (ty = TStop -> pend s2 = pend s1)).
  { destruct (b mod 16 =? ctype_code CBooleanTrue); [injection E0 as <- <-; cbn; repeat split; auto; discriminate|].
    destruct (b mod 16 =? ctype_code CBooleanFalse); [injection E0 as <- <-; cbn; repeat split; auto; discriminate|].
    destruct (ctype_of_code (b mod 16)) as [ct|]; [|discriminate].
    destruct (ttype_of_ctype ct); [|discriminate]. injection E0 as <- <-.
    repeat split; auto. unfold pend. destruct (r_pbool (rc s1)); lia. }
  destruct H2 as (Hb2 & Hp2 & Hs2).
  assert (Hps : pend s1 = pend s) by (unfold pend; rewrite Hr1; reflexivity).
  assert (GY : forall h s', (if negb (b / 16 =? 0)
            then Ok (ty, Some (wrap_s 16 (r_last (rc s2) + b / 16)),
                     set_rc s2 (mkR (wrap_s 16 (r_last (rc s2) + b / 16)) (r_stack (rc s2)) (r_pbool (rc s2)) (r_pfield (rc s2))))
            else let* (id, s) := a_i16 PCompact s2 in
                 Ok (ty, Some id, set_rc s (mkR id (r_stack (rc s)) (r_pbool (rc s)) (r_pfield (rc s))))) = Ok (h, s') ->
            (blen s' <= blen s2)%nat /\ pend s' = pend s2 /\ fst h = ty).
  { intros h0 s0 H0. destruct (negb (b / 16 =? 0)).
    - injection H0 as <- <-. cbn. auto.
    - binv H0. injection H0 as <- <-. cbn [a_i16] in E1. binv E1. injection E1 as _ <-.
      unfold a_varint, read_var_u64 in E2. pose proof (rd_var_good maxsize_16 0 0 (rbuf s2)) as G.
      destruct (rd_var maxsize_16 0 0 (rbuf s2)) as [[n r]| |]; try discriminate. injection E2 as _ <-.
      unfold blen, pend, set_buf. cbn [rbuf rc set_rc r_pbool fst]. split; [lia|auto]. }
  destruct ty; try (destruct (GY _ _ H) as (G1 & G2 & G3); unfold phi; split; [lia|]; split; [lia|intros Hst; congruence]).
  injection H as <- <-. cbn [fst]. specialize (Hs2 eq_refl). unfold phi. split; [lia|]. split; [lia|intros _; lia].
Qed.

Lemma PG_coll_begin p : PG 1 (a_coll_begin p).
Proof.
  destruct p; cbn [a_coll_begin].
  1,2: apply (PG_bind 1 0); [apply PG_ttype|]; intros et;
       apply (PG_map 0 _ (fun n => (et, wrap_u 64 n))); apply (PG_weaken 1); [lia|];
       first [apply (PG_i32 PBinary)|apply (PG_i32 PBinaryLE)].
  apply (PG_bind 1 0); [apply PG_byte|]. intros h s x s' H.
  destruct (ttype_of_nibble (h mod 16)) as [et| |]; cbn [bind] in H; try discriminate.
  destruct (negb (h / 16 =? 15)); [injection H as <- <-; lia|].
  binv H. injection H as <- <-. pose proof (PG_varint _ _ _ _ E). lia.
Qed.

Lemma PG_map_begin p : PG 1 (a_map_begin p).
Proof.
  destruct p; cbn [a_map_begin].
  1,2: apply (PG_bind 1 0); [apply PG_ttype|]; intros kt; apply (PG_bind 0 0); [apply (PG_weaken 1); [lia|apply PG_ttype]|]; intros vt;
       apply (PG_map 0 _ (fun n => (kt, vt, wrap_u 64 n))); apply (PG_weaken 1); [lia|];
       first [apply (PG_i32 PBinary)|apply (PG_i32 PBinaryLE)].
  apply (PG_bind 1 0); [apply PG_varint|]. intros n s x s' H.
  destruct (wrap_s 32 n =? 0); [injection H as <- <-; lia|].
  binv H. pose proof (PG_byte _ _ _ E).
  destruct (ttype_of_nibble (x0 / 16)) as [kt| |]; cbn [bind] in H; try discriminate.
  destruct (ttype_of_nibble (x0 mod 16)) as [vt| |]; cbn [bind] in H; try discriminate.
  injection H as <- <-. lia.
Qed.

(* ----- the asynchronous skipper ----- *)
Lemma PG_drop {A} k (m : rm A) : PG k m -> PG k (drop m).
Proof. intros H s x s' E. unfold drop in E. binv E. injection E as _ <-. eapply H; eauto. Qed.

Section PGSkipLoops.
  Variable p : pk.
  Variable rec : ttype -> rm unit.
  Hypothesis Hrec : forall ty, PG 0 (rec ty).

  Lemma PG_askip_fields : forall n, PG 1 (askip_fields p rec n).
  Proof.
    induction n as [|n IH]; intros s x s' H; [discriminate|]. cbn [askip_fields] in H. binv H.
    destruct (PG_field_begin _ _ _ _ E) as (G1 & G2 & G3).
    destruct (ttype_eqb_spec (fst x0) TStop) as [Es|Es].
    - injection H as _ <-. apply G3. exact Es.
    - binv H. pose proof (Hrec _ _ _ _ E0). pose proof (IH _ _ _ H). lia.
  Qed.
  Lemma PG_askip_elems : forall m et n, PG 0 (askip_elems rec m et n).
  Proof.
    induction m as [|m IH]; intros et n s x s' H; cbn [askip_elems] in H.
    - destruct (n <=? 0); [injection H as _ <-; lia|discriminate].
    - destruct (n <=? 0); [injection H as _ <-; lia|]. binv H. pose proof (Hrec _ _ _ _ E). pose proof (IH _ _ _ _ _ H). lia.
  Qed.
  Lemma PG_askip_pairs : forall m kt vt n, PG 0 (askip_pairs rec m kt vt n).
  Proof.
    induction m as [|m IH]; intros kt vt n s x s' H; cbn [askip_pairs] in H.
    - destruct (n <=? 0); [injection H as _ <-; lia|discriminate].
    - destruct (n <=? 0); [injection H as _ <-; lia|]. binv H. binv H.
      pose proof (Hrec _ _ _ _ E). pose proof (Hrec _ _ _ _ E0). pose proof (IH _ _ _ _ _ _ H). lia.
  Qed.
End PGSkipLoops.

Theorem PG_askip_val p : forall f d ty, PG 1 (askip_val p f d ty).
Proof.
  induction f as [|f IH]; intros d ty; [apply PG_fail|]. cbn [askip_val].
  destruct d as [|d]; [apply PG_fail|].
  assert (IH0 : forall ty0, PG 0 (askip_val p f d ty0)) by (intros ty0; apply (PG_weaken 1); [lia|apply IH]).
  destruct ty; try apply PG_fail.
  - apply PG_drop, PG_bool.
  - apply PG_drop, PG_i8.
  - apply PG_drop, PG_double.
  - apply PG_drop, PG_i16.
  - apply PG_drop, PG_i32.
  - apply PG_drop, PG_i64.
  - apply PG_drop, PG_bytes.
  - apply (PG_bind 0 1); [apply PG_struct_begin|]. intros u.
    apply (PG_bind 1 0); [apply PG_askip_fields; exact IH0|]. intros u2. apply PG_struct_end.
  - apply (PG_bind 1 0); [apply PG_map_begin|]. intros h. apply PG_askip_pairs. exact IH0.
  - apply (PG_bind 1 0); [apply PG_coll_begin|]. intros h. apply PG_askip_elems. exact IH0.
  - apply (PG_bind 1 0); [apply PG_coll_begin|]. intros h. apply PG_askip_elems. exact IH0.
  - apply PG_drop, PG_uuid.
Qed.

(* ----- the emitted asynchronous decoder ----- *)
Section PGDecLoops.
  Variable S : schema.
  Variable p : pk.
  Variable fk : nat.
  Variable rec : ty -> rm gval.
  Hypothesis Hrec : forall t, PG 0 (rec t).

  Lemma PG_dec_elems : forall m et n acc, PG 0 (fun s => dec_elems rec m et n s acc).
  Proof.
    induction m as [|m IH]; intros et n acc s x s' H; cbn [dec_elems] in H.
    - destruct (n <=? 0); [injection H as _ <-; lia|discriminate].
    - destruct (n <=? 0); [injection H as _ <-; lia|]. binv H. pose proof (Hrec _ _ _ _ E). pose proof (IH _ _ _ _ _ _ H). lia.
  Qed.
  Lemma PG_dec_pairs : forall m kt vt n acc, PG 0 (fun s => dec_pairs rec m kt vt n s acc).
  Proof.
    induction m as [|m IH]; intros kt vt n acc s x s' H; cbn [dec_pairs] in H.
    - destruct (n <=? 0); [injection H as _ <-; lia|discriminate].
    - destruct (n <=? 0); [injection H as _ <-; lia|]. binv H. binv H.
      pose proof (Hrec _ _ _ _ E). pose proof (Hrec _ _ _ _ E0). pose proof (IH _ _ _ _ _ _ _ H). lia.
  Qed.
  Lemma PG_adec_fields : forall m fs vars, PG 1 (fun s => adec_fields S p fk rec m fs vars s).
  Proof.
    induction m as [|m IH]; intros fs vars s x s' H; [discriminate|]. cbn [adec_fields] in H. binv H.
    destruct (PG_field_begin _ _ _ _ E) as (G1 & G2 & G3).
    destruct (ttype_eqb_spec (fst x0) TStop) as [Es|Es].
    - injection H as _ <-. apply G3. exact Es.
    - binv H. pose proof (IH _ _ _ _ _ H) as G4.
      destruct (match_field S fs 0 (snd x0) (fst x0)) as [[i f]|].
      + binv E0. injection E0 as _ <-. pose proof (Hrec _ _ _ _ E1). lia.
      + binv E0. injection E0 as _ <-. pose proof (PG_askip_val p fk skip_depth _ _ _ _ E1). lia.
  Qed.
  Lemma PG_adec_variants : forall m vs ret, PG 1 (fun s => adec_variants S p fk rec m vs ret s).
  Proof.
    induction m as [|m IH]; intros vs ret s x s' H; [discriminate|]. cbn [adec_variants] in H. binv H.
    destruct (PG_field_begin _ _ _ _ E) as (G1 & G2 & G3).
    destruct (ttype_eqb_spec (fst x0) TStop) as [Es|Es].
    - injection H as _ <-. apply G3. exact Es.
    - match type of H with (match ?k with Some _ => _ | None => _ end) = _ => destruct k as [[id vt]|] end.
      + destruct ret; [discriminate|]. binv H. pose proof (Hrec _ _ _ _ E0). pose proof (IH _ _ _ _ _ H). lia.
      + binv H. pose proof (PG_askip_val p fk skip_depth _ _ _ _ E0). pose proof (IH _ _ _ _ _ H). lia.
  Qed.
End PGDecLoops.

Definition cost (S : schema) (t : ty) : nat := if is_void (resolve S t) then 0%nat else 1%nat.

Theorem PG_gen_async S p : forall f t, PG (cost S t) (gen_decode_async S p f t).
Proof.
  induction f as [|f IH]; intros t; [apply PG_fail|].
  assert (IH0 : forall t0, PG 0 (gen_decode_async S p f t0)) by (intros t0; apply (PG_weaken (cost S t0)); [lia|apply IH]).
  intros s x s'. rewrite gen_decode_async_S. unfold cost.
  destruct (resolve S t) as [| | | | | | | | | |et|et|kt vt|n]; cbn [is_void].
  - apply (PG_map _ _ GBool), PG_bool.
  - apply (PG_map _ _ GI8), PG_i8.
  - apply (PG_map _ _ GI16), PG_i16.
  - apply (PG_map _ _ GI32), PG_i32.
  - apply (PG_map _ _ GI64), PG_i64.
  - apply (PG_map _ _ GDouble), PG_double.
  - apply (PG_map _ _ GBytes), PG_bytes.
  - apply (PG_map _ _ GBytes), PG_bytes.
  - apply (PG_map _ _ GUuid), PG_uuid.
  - apply (PG_bind 0 0); [apply PG_struct_begin|]. intros u. apply (PG_map _ _ (fun _ => GVoid)), PG_struct_end.
  - apply (PG_bind 1 0); [apply PG_coll_begin|]. intros h. apply (PG_map _ _ GList), PG_dec_elems, IH0.
  - apply (PG_bind 1 0); [apply PG_coll_begin|]. intros h. apply (PG_map _ _ GSet), PG_dec_elems, IH0.
  - apply (PG_bind 1 0); [apply PG_map_begin|]. intros h. apply (PG_map _ _ GMap), PG_dec_pairs, IH0.
  - destruct (lookup S n) as [[fs kp ia|vs vo kp|ms|tt]|]; try (intros H; discriminate).
    + apply (PG_bind 0 1); [apply PG_struct_begin|]. intros u.
      apply (PG_bind 1 0); [apply PG_adec_fields, IH0|]. intros vars.
      apply (PG_bind 0 0); [apply PG_struct_end|]. intros u2 s0 y s0' H0.
      destruct (finish_fields fs vars); cbn [bind] in H0; try discriminate. injection H0 as _ <-. lia.
    + apply (PG_bind 0 1); [apply PG_struct_begin|]. intros u.
      apply (PG_bind 1 0); [apply PG_adec_variants, IH0|]. intros ret.
      apply (PG_bind 0 0); [apply PG_struct_end|]. intros u2 s0 y s0' H0.
      destruct ret as [[id z]|]; [injection H0 as _ <-; lia|].
      destruct vo; [|discriminate]. destruct vs as [|[id0 t0] r]; [discriminate|]. injection H0 as _ <-. lia.
    + apply (PG_map _ _ GEnum), PG_i32.
Qed.

(* ================= errors of the sync primitives do not depend on the length-pass flag ================= *)
Definition ERE {A} (m : rm A) : Prop := forall s e, m s = Err e -> exists e', m (erase s) = Err e'.

Lemma bind_err_inv {A B} (o : res A) (f : A -> res B) e :
  bind o f = Err e -> o = Err e \/ exists x, o = Ok x /\ f x = Err e.
Proof. destruct o; cbn [bind]; intros H; try discriminate; [right; eauto|left; injection H as ->; reflexivity]. Qed.

Lemma ERE_bind {A B} (m : rm A) (f : A -> rm B) :
  ERA m -> ERE m -> (forall x, ERE (f x)) -> ERE (fun s => let* (x, s1) := m s in f x s1).
Proof.
  intros Ha He Hf s e H. apply bind_err_inv in H as [H|([x s1] & H1 & H2)].
  - destruct (He _ _ H) as [e' E]. rewrite E. cbn [bind]. eauto.
  - rewrite (Ha _ _ _ H1). cbn [bind]. eapply Hf; eauto.
Qed.
Lemma ERE_ret {A} (r : res (A * rst)) : (forall e, r <> Err e) -> ERE (fun _ => r).
Proof. intros Hr s e H. exfalso. eapply Hr; eauto. Qed.
Lemma ERE_const {A} (r : res (A * rst)) : ERE (fun _ => r).
Proof. intros s e H. eauto. Qed.
Lemma ERE_map {A B} (m : rm A) (g : A -> B) : ERA m -> ERE m -> ERE (fun s => let* (x, s1) := m s in Ok (g x, s1)).
Proof. intros Ha He. apply (ERE_bind m (fun x s1 => Ok (g x, s1))); auto. intros x s e H. discriminate. Qed.

Lemma ERE_take n : ERE (r_take n).
Proof. intros s e H. unfold r_take in *. cbn [erase set_rc rbuf]. destruct (take n (rbuf s)) as [[a r]|]; [discriminate|eauto]. Qed.
Lemma ERE_varint m : ERE (r_varint m).
Proof.
  intros s e H. unfold r_varint in *. cbn [erase set_rc rbuf].
  destruct (read_var_u64 m (rbuf s)) as [[n r]| |]; cbn [bind] in *; try discriminate; eauto.
Qed.
Lemma ERE_byte : ERE r_byte.
Proof. apply (ERE_map _ of_le); [apply ERA_take|apply ERE_take]. Qed.
Lemma ERE_i8 : ERE r_i8.
Proof. apply (ERE_map _ (fun a => wrap_s 8 (of_le a))); [apply ERA_take|apply ERE_take]. Qed.
Lemma ERE_fixed p n b : ERE (r_fixed p n b).
Proof. apply (ERE_map _ (fun a => wrap_s b (unfx p a))); [apply ERA_take|apply ERE_take]. Qed.
Lemma ERE_i16 p : ERE (r_i16 p).
Proof. destruct p; cbn [r_i16]; try apply ERE_fixed. apply (ERE_map _ (fun n => wrap_s 16 (unzigzag n))); [apply ERA_varint|apply ERE_varint]. Qed.
Lemma ERE_i32 p : ERE (r_i32 p).
Proof. destruct p; cbn [r_i32]; try apply ERE_fixed. apply (ERE_map _ (fun n => wrap_s 32 (unzigzag n))); [apply ERA_varint|apply ERE_varint]. Qed.
Lemma ERE_i64 p : ERE (r_i64 p).
Proof. destruct p; cbn [r_i64]; try apply ERE_fixed. apply (ERE_map _ (fun n => wrap_s 64 (unzigzag n))); [apply ERA_varint|apply ERE_varint]. Qed.
Lemma ERE_double p : ERE (r_double p).
Proof. apply (ERE_map _ (fun a => match p with PBinary => of_be a | _ => of_le a end)); [apply ERA_take|apply ERE_take]. Qed.
Lemma ERE_uuid : ERE r_uuid.
Proof. apply ERE_take. Qed.
Lemma ERE_len p : ERE (r_len p).
Proof.
  destruct p; cbn [r_len].
  1,2: apply (ERE_map _ (wrap_u 64)); [apply ERA_i32|apply ERE_i32].
  apply (ERE_map _ (wrap_u 32)); [apply ERA_varint|apply ERE_varint].
Qed.
Lemma ERE_split n : ERE (r_split n).
Proof.
  intros s e H. unfold r_split in *. cbn [erase set_rc rbuf].
  destruct (n <=? Z.of_nat (length (rbuf s))); [apply (ERE_take _ _ _ H)|eauto].
Qed.
Lemma ERE_bytes p : ERE (r_bytes p).
Proof. unfold r_bytes. apply ERE_bind; [apply ERA_len|apply ERE_len|]. intros n. apply ERE_split. Qed.
Lemma ERE_ttype : ERE r_ttype.
Proof.
  unfold r_ttype. apply ERE_bind; [apply ERA_byte|apply ERE_byte|]. intros b.
  destruct (ttype_of_byte b); [intros s e H; discriminate|apply ERE_const].
Qed.
Lemma ERE_bool p : ERE (r_bool p).
Proof.
  destruct p.
  1,2: cbn [r_bool]; apply (ERE_map _ (fun b => negb (b =? 0))); [apply ERA_i8|apply ERE_i8].
  intros s e H. exists e. rewrite <- H. destruct s as [bf [l st pb pf]]. reflexivity.
Qed.
Lemma ERE_struct_begin p : ERE (r_struct_begin p).
Proof. intros s e H. destruct p; cbn [r_struct_begin] in H; discriminate. Qed.
Lemma ERE_struct_end p : ERE (r_struct_end p).
Proof.
  intros s e H. destruct p; cbn [r_struct_end erase set_rc rc r_stack] in *; try discriminate.
  destruct (r_stack (rc s)); [eauto|discriminate].
Qed.
Lemma ERE_field_begin p : ERE (r_field_begin p).
Proof.
  destruct p.
  1,2: cbn [r_field_begin]; apply ERE_bind; [apply ERA_ttype|apply ERE_ttype|]; intros ty; destruct ty;
       try (intros s e H; discriminate);
       apply (ERE_map _ (fun id => (_, Some id))); first [apply (ERA_i16 PBinary) | apply (ERA_i16 PBinaryLE) | apply (ERE_i16 PBinary) | apply (ERE_i16 PBinaryLE)].
  intros s e H. exists e. rewrite <- H. destruct s as [bf [l st pb pf]]. reflexivity.
Qed.

Lemma ERE_check {H} (mk : Z -> H) n : ERE (fun s => let* m := check_size n s in Ok (mk m, s)).
Proof.
  intros s e H0. rewrite check_size_erase. destruct (check_size n s) as [m| |]; cbn [bind] in *; try discriminate. eauto.
Qed.

Lemma ERE_coll_begin p : ERE (r_coll_begin p).
Proof.
  destruct p; cbn [r_coll_begin].
  1,2: apply ERE_bind; [apply ERA_ttype|apply ERE_ttype|]; intros et;
       apply ERE_bind; [first [apply (ERA_i32 PBinary)|apply (ERA_i32 PBinaryLE)]|first [apply (ERE_i32 PBinary)|apply (ERE_i32 PBinaryLE)]|];
       intros n; apply (ERE_check (fun m => (et, m))).
  apply ERE_bind; [apply ERA_byte|apply ERE_byte|]. intros h.
  destruct (ttype_of_nibble (h mod 16)) as [et| |]; cbn [bind]; try apply ERE_const.
  destruct (negb (h / 16 =? 15)).
  - apply (ERE_check (fun m => (et, m))).
  - apply ERE_bind; [apply ERA_varint|apply ERE_varint|]. intros n. apply (ERE_check (fun m => (et, m))).
Qed.

Lemma ERE_map_begin p : ERE (r_map_begin p).
Proof.
  destruct p; cbn [r_map_begin].
  1,2: apply ERE_bind; [apply ERA_ttype|apply ERE_ttype|]; intros kt;
       apply ERE_bind; [apply ERA_ttype|apply ERE_ttype|]; intros vt;
       apply ERE_bind; [first [apply (ERA_i32 PBinary)|apply (ERA_i32 PBinaryLE)]|first [apply (ERE_i32 PBinary)|apply (ERE_i32 PBinaryLE)]|];
       intros n; apply (ERE_check (fun m => (kt, vt, m))).
  apply ERE_bind; [apply ERA_varint|apply ERE_varint|]. intros n.
  destruct (wrap_s 32 n =? 0); [intros s e H; discriminate|].
  apply ERE_bind; [apply ERA_byte|apply ERE_byte|]. intros h.
  destruct (ttype_of_nibble (h / 16)) as [kt| |]; cbn [bind]; try apply ERE_const.
  destruct (ttype_of_nibble (h mod 16)) as [vt| |]; cbn [bind]; try apply ERE_const.
  apply (ERE_check (fun m => (kt, vt, m))).
Qed.

(* ================= primitive against primitive: an error is an error ================= *)
Definition EP {A B} (r : rm A) (a : rm B) : Prop := forall s e, small s -> r s = Err e -> exists e', a (erase s) = Err e'.

Lemma EP_prim {A} (r a : rm A) : ERE r -> (forall s, inv s -> esim s (r s) (a s)) -> EP r a.
Proof.
  intros He Hs s e Hsm H. destruct (He _ _ H) as [e1 E1]. specialize (Hs (erase s) (inv_erase s Hsm)).
  rewrite E1 in Hs. exact Hs.
Qed.

Lemma EP_bool p : EP (r_bool p) (a_bool p).        Proof. apply EP_prim; [apply ERE_bool|apply bool_esim]. Qed.
Lemma EP_i8 : EP r_i8 a_i8.                        Proof. apply EP_prim; [apply ERE_i8|apply i8_esim]. Qed.
Lemma EP_i16 p : EP (r_i16 p) (a_i16 p).           Proof. apply EP_prim; [apply ERE_i16|apply i16_esim]. Qed.
Lemma EP_i32 p : EP (r_i32 p) (a_i32 p).           Proof. apply EP_prim; [apply ERE_i32|apply i32_esim]. Qed.
Lemma EP_i64 p : EP (r_i64 p) (a_i64 p).           Proof. apply EP_prim; [apply ERE_i64|apply i64_esim]. Qed.
Lemma EP_double p : EP (r_double p) (a_double p).  Proof. apply EP_prim; [apply ERE_double|apply double_esim]. Qed.
Lemma EP_bytes p : EP (r_bytes p) (a_bytes p).     Proof. apply EP_prim; [apply ERE_bytes|apply bytes_esim]. Qed.
Lemma EP_uuid : EP r_uuid a_uuid.                  Proof. apply EP_prim; [apply ERE_uuid|apply uuid_esim]. Qed.
Lemma EP_struct_begin p : EP (r_struct_begin p) (a_struct_begin p).
Proof. apply EP_prim; [apply ERE_struct_begin|apply struct_begin_esim]. Qed.
Lemma EP_struct_end p : EP (r_struct_end p) (a_struct_end p).
Proof. apply EP_prim; [apply ERE_struct_end|apply struct_end_esim]. Qed.
Lemma EP_field_begin p : EP (r_field_begin p) (a_field_begin p).
Proof. apply EP_prim; [apply ERE_field_begin|apply field_begin_esim]. Qed.

(* container headers: the asynchronous reader fails too, or accepts a count that exceeds the bytes that remain *)
Lemma HP_coll_begin p s e : small s -> r_coll_begin p s = Err e ->
  (exists e', a_coll_begin p (erase s) = Err e') \/
  (exists h s', a_coll_begin p (erase s) = Ok (h, s') /\ Z.of_nat (blen s') < snd h).
Proof.
  intros Hsm H. destruct (ERE_coll_begin p _ _ H) as [e1 E1].
  pose proof (coll_begin_hsim p (erase s) (inv_erase s Hsm)) as Hh. rewrite E1 in Hh. exact Hh.
Qed.
Lemma HP_map_begin p s e : small s -> r_map_begin p s = Err e ->
  (exists e', a_map_begin p (erase s) = Err e') \/
  (exists h s', a_map_begin p (erase s) = Ok (h, s') /\ Z.of_nat (blen s') < snd h).
Proof.
  intros Hsm H. destruct (ERE_map_begin p _ _ H) as [e1 E1].
  pose proof (map_begin_hsim p (erase s) (inv_erase s Hsm)) as Hh. rewrite E1 in Hh. exact Hh.
Qed.

(* ================= starving ================= *)
(* an outcome that is an error, or a value reached with nothing left to read and nothing pending *)
Definition starved {A} (o : res (A * rst)) : Prop :=
  (exists e, o = Err e) \/ (exists x s2, o = Ok (x, s2) /\ phi s2 = 0%nat).
Definition STV {A} (a : rm A) : Prop := forall s, phi s = 0%nat -> starved (a s).
Definition DEAD {A} (a : rm A) : Prop := forall s, phi s = 0%nat -> exists e, a s = Err e.

Lemma STV_of {A} (a : rm A) : PG 0 a -> NP a -> STV a.
Proof.
  intros Hp Hn s H0. destruct (a s) as [[x s2]|e|q] eqn:E.
  - right. exists x, s2. split; [reflexivity|]. specialize (Hp _ _ _ E). lia.
  - left. eauto.
  - exfalso. eapply Hn; eauto.
Qed.
Lemma DEAD_of {A} (a : rm A) : PG 1 a -> NP a -> DEAD a.
Proof.
  intros Hp Hn s H0. destruct (a s) as [[x s2]|e|q] eqn:E.
  - specialize (Hp _ _ _ E). lia.
  - eauto.
  - exfalso. eapply Hn; eauto.
Qed.
Lemma starved_err {A} e : starved (@Err (A * rst) e).
Proof. left. eauto. Qed.
Lemma starved_bind {A B} (o : res (A * rst)) (g : A -> rm B) :
  starved o -> (forall x, STV (g x)) -> starved (let* (x, s) := o in g x s).
Proof.
  intros [[e ->]|(x & s2 & -> & H0)] Hg; cbn [bind]; [apply starved_err|]. apply Hg, H0.
Qed.
Lemma starved_map {A B} (o : res (A * rst)) (g : A -> B) : starved o -> starved (let* (x, s) := o in Ok (g x, s)).
Proof. intros [[e ->]|(x & s2 & -> & H0)]; cbn [bind]; [apply starved_err|]. right. eauto. Qed.

Lemma DEAD_field_begin p : DEAD (a_field_begin p).
Proof.
  intros s H0. destruct (a_field_begin p s) as [[h s2]|e|q] eqn:E.
  - destruct (PG_field_begin _ _ _ _ E) as (_ & G & _). unfold phi in H0. lia.
  - eauto.
  - exfalso. eapply ANP_field_begin; eauto.
Qed.

(* a loop that must still read n values, each of which costs, with a potential of at most n *)
Section StarveDec.
  Variable arec : ty -> rm gval.
  Hypothesis Hnp : forall t, NP (arec t).

  Lemma starve_elems et : PG 1 (arec et) ->
    forall m n s acc, Z.of_nat (phi s) <= n -> starved (dec_elems arec m et n s acc).
  Proof.
    intros Hp. induction m as [|m IH]; intros n s acc Hle; cbn [dec_elems].
    - destruct (Z.leb_spec n 0); [right; eexists _, _; split; [reflexivity|lia]|apply starved_err].
    - destruct (Z.leb_spec n 0); [right; eexists _, _; split; [reflexivity|lia]|].
      destruct (arec et s) as [[x s1]|e|q] eqn:E; cbn [bind]; [|apply starved_err|exfalso; eapply Hnp; eauto].
      apply IH. specialize (Hp _ _ _ E). lia.
  Qed.
  Lemma stv_elems et : PG 1 (arec et) -> forall m n acc, STV (fun s => dec_elems arec m et n s acc).
  Proof.
    intros Hp m n acc s H0. destruct (Z.leb_spec n 0).
    - destruct m; cbn [dec_elems]; replace (n <=? 0) with true by lia; right; eexists _, _; split; eauto.
    - apply starve_elems; [exact Hp|lia].
  Qed.

  Lemma starve_pairs kt vt : PG 1 (arec kt) -> PG 0 (arec vt) ->
    forall m n s acc, Z.of_nat (phi s) <= n -> starved (dec_pairs arec m kt vt n s acc).
  Proof.
    intros Hk Hv. induction m as [|m IH]; intros n s acc Hle; cbn [dec_pairs].
    - destruct (Z.leb_spec n 0); [right; eexists _, _; split; [reflexivity|lia]|apply starved_err].
    - destruct (Z.leb_spec n 0); [right; eexists _, _; split; [reflexivity|lia]|].
      destruct (arec kt s) as [[a s1]|e|q] eqn:E; cbn [bind]; [|apply starved_err|exfalso; eapply Hnp; eauto].
      destruct (arec vt s1) as [[b s2]|e|q] eqn:E2; cbn [bind]; [|apply starved_err|exfalso; eapply Hnp; eauto].
      apply IH. specialize (Hk _ _ _ E). specialize (Hv _ _ _ E2). lia.
  Qed.
  Lemma stv_pairs kt vt : PG 1 (arec kt) -> PG 0 (arec vt) -> forall m n acc, STV (fun s => dec_pairs arec m kt vt n s acc).
  Proof.
    intros Hk Hv m n acc s H0. destruct (Z.leb_spec n 0).
    - destruct m; cbn [dec_pairs]; replace (n <=? 0) with true by lia; right; eexists _, _; split; eauto.
    - apply starve_pairs; [exact Hk|exact Hv|lia].
  Qed.
End StarveDec.

Section StarveSkip.
  Variable srec : ttype -> rm unit.
  Hypothesis Hnp : forall t, NP (srec t).
  Hypothesis Hpg : forall t, PG 1 (srec t).

  Lemma starve_askip_elems : forall m et n s, Z.of_nat (phi s) <= n -> starved (askip_elems srec m et n s).
  Proof.
    induction m as [|m IH]; intros et n s Hle; cbn [askip_elems].
    - destruct (Z.leb_spec n 0); [right; eexists _, _; split; [reflexivity|lia]|apply starved_err].
    - destruct (Z.leb_spec n 0); [right; eexists _, _; split; [reflexivity|lia]|].
      destruct (srec et s) as [[x s1]|e|q] eqn:E; cbn [bind]; [|apply starved_err|exfalso; eapply Hnp; eauto].
      apply IH. pose proof (Hpg _ _ _ _ E). lia.
  Qed.
  Lemma stv_askip_elems m et n : STV (askip_elems srec m et n).
  Proof.
    intros s H0. destruct (Z.leb_spec n 0).
    - destruct m; cbn [askip_elems]; replace (n <=? 0) with true by lia; right; eexists _, _; split; eauto.
    - apply starve_askip_elems. lia.
  Qed.
  Lemma starve_askip_pairs : forall m kt vt n s, Z.of_nat (phi s) <= n -> starved (askip_pairs srec m kt vt n s).
  Proof.
    induction m as [|m IH]; intros kt vt n s Hle; cbn [askip_pairs].
    - destruct (Z.leb_spec n 0); [right; eexists _, _; split; [reflexivity|lia]|apply starved_err].
    - destruct (Z.leb_spec n 0); [right; eexists _, _; split; [reflexivity|lia]|].
      destruct (srec kt s) as [[a s1]|e|q] eqn:E; cbn [bind]; [|apply starved_err|exfalso; eapply Hnp; eauto].
      destruct (srec vt s1) as [[b s2]|e|q] eqn:E2; cbn [bind]; [|apply starved_err|exfalso; eapply Hnp; eauto].
      apply IH. pose proof (Hpg _ _ _ _ E). pose proof (Hpg _ _ _ _ E2). lia.
  Qed.
  Lemma stv_askip_pairs m kt vt n : STV (askip_pairs srec m kt vt n).
  Proof.
    intros s H0. destruct (Z.leb_spec n 0).
    - destruct m; cbn [askip_pairs]; replace (n <=? 0) with true by lia; right; eexists _, _; split; eauto.
    - apply starve_askip_pairs. lia.
  Qed.
  Lemma dead_askip_fields p : forall n, DEAD (askip_fields p srec n).
  Proof.
    intros [|n] s H0; [eexists; reflexivity|]. cbn [askip_fields].
    destruct (DEAD_field_begin p s H0) as [e ->]. cbn [bind]. eauto.
  Qed.
End StarveSkip.

(* ================= the skippers ================= *)
(* value direction (from the proved simulations): where the in-memory reader returns a value the asynchronous skipper
   consumes exactly it, or stops at its depth budget *)
Lemma VS_read p f d ty s v s' : small s -> read_val p f ty s = Ok (v, s') ->
  ((vdepth v <= d)%nat -> askip_val p f d ty (erase s) = Ok (tt, erase s')) /\
  ((d < vdepth v)%nat -> askip_val p f d ty (erase s) = Err EDepthLimit) /\ (blen s' <= blen s)%nat.
Proof.
  intros Hsm E. pose proof (ERA_read_val p f ty _ _ _ E) as E1.
  pose proof (aread_val_sim p f ty (erase s) (inv_erase s Hsm)) as Sm. rewrite E1 in Sm. cbn [sim] in Sm.
  destruct Sm as (Ea & _ & Hl). destruct (askip_sim p f ty (erase s) v (erase s') Ea d) as [Hok Hdeep].
  split; [exact Hok|]. split; [exact Hdeep|]. rewrite !erase_blen in Hl. exact Hl.
Qed.

Definition ok_or_err {A} (o : res (A * rst)) (x : A) (s : rst) : Prop := o = Ok (x, s) \/ exists e, o = Err e.

Lemma small_le s s' : small s -> (blen s' <= blen s)%nat -> small s'.
Proof. unfold small. lia. Qed.

Section WSLoops.
  Variable p : pk.
  Variable rec : ttype -> rm tval.
  Variable srec : ttype -> rm unit.
  Hypothesis Hv : forall ty s v s', small s -> rec ty s = Ok (v, s') ->
    ok_or_err (srec ty (erase s)) tt (erase s') /\ (blen s' <= blen s)%nat.
  Hypothesis He : forall ty s e, small s -> rec ty s = Err e -> starved (srec ty (erase s)).
  Hypothesis Hpg : forall ty, PG 1 (srec ty).
  Hypothesis Hnp : forall ty, NP (srec ty).

  (* value direction of the loops *)
  Lemma VS_fields : forall n s acc fs s', small s -> fields_loop p rec n s acc = Ok (fs, s') ->
    ok_or_err (askip_fields p srec n (erase s)) tt (erase s') /\ (blen s' <= blen s)%nat.
  Proof.
    induction n as [|n IH]; intros s acc fs s' Hsm H; [discriminate|]. cbn [fields_loop askip_fields] in *. binv H.
    destruct (ASIM_field_begin p _ _ _ Hsm E) as [Ea Hl]. rewrite Ea. cbn [bind].
    pose proof (small_le _ _ Hsm Hl) as Hsm0.
    destruct (ttype_eqb (fst x) TStop); [injection H as <- <-; split; [left; reflexivity|exact Hl]|].
    binv H. destruct (Hv _ _ _ _ Hsm0 E0) as [Hs Hl1]. pose proof (small_le _ _ Hsm0 Hl1) as Hsm1.
    destruct (IH _ _ _ _ Hsm1 H) as [IH1 IH2]. split; [|lia].
    destruct Hs as [Es|[e' Es]]; rewrite Es; cbn [bind]; [exact IH1|right; eauto].
  Qed.
  Lemma VS_elems : forall m et n s acc l s', small s -> elems_loop rec m et n s acc = Ok (l, s') ->
    ok_or_err (askip_elems srec m et n (erase s)) tt (erase s') /\ (blen s' <= blen s)%nat.
  Proof.
    induction m as [|m IH]; intros et n s acc l s' Hsm H; cbn [elems_loop askip_elems] in *.
    - destruct (n <=? 0); [injection H as <- <-; split; [left; reflexivity|lia]|discriminate].
    - destruct (n <=? 0); [injection H as <- <-; split; [left; reflexivity|lia]|]. binv H.
      destruct (Hv _ _ _ _ Hsm E) as [Hs Hl1]. pose proof (small_le _ _ Hsm Hl1) as Hsm1.
      destruct (IH _ _ _ _ _ _ Hsm1 H) as [IH1 IH2]. split; [|lia].
      destruct Hs as [Es|[e' Es]]; rewrite Es; cbn [bind]; [exact IH1|right; eauto].
  Qed.
  Lemma VS_pairs : forall m kt vt n s acc l s', small s -> pairs_loop rec m kt vt n s acc = Ok (l, s') ->
    ok_or_err (askip_pairs srec m kt vt n (erase s)) tt (erase s') /\ (blen s' <= blen s)%nat.
  Proof.
    induction m as [|m IH]; intros kt vt n s acc l s' Hsm H; cbn [pairs_loop askip_pairs] in *.
    - destruct (n <=? 0); [injection H as <- <-; split; [left; reflexivity|lia]|discriminate].
    - destruct (n <=? 0); [injection H as <- <-; split; [left; reflexivity|lia]|]. binv H. binv H.
      destruct (Hv _ _ _ _ Hsm E) as [Hs Hl1]. pose proof (small_le _ _ Hsm Hl1) as Hsm1.
      destruct (Hv _ _ _ _ Hsm1 E0) as [Hs2 Hl2]. pose proof (small_le _ _ Hsm1 Hl2) as Hsm2.
      destruct (IH _ _ _ _ _ _ _ Hsm2 H) as [IH1 IH2]. split; [|lia].
      destruct Hs as [Es|[e' Es]]; rewrite Es; cbn [bind]; [|right; eauto].
      destruct Hs2 as [Es2|[e' Es2]]; rewrite Es2; cbn [bind]; [exact IH1|right; eauto].
  Qed.

  (* error direction.  fields: an error stays an error (the Stop header is still owed) *)
  Lemma WS_fields : forall n s acc e, small s -> fields_loop p rec n s acc = Err e ->
    exists e', askip_fields p srec n (erase s) = Err e'.
  Proof.
    induction n as [|n IH]; intros s acc e Hsm H; [cbn; eauto|]. cbn [fields_loop askip_fields] in *.
    apply bind_err_inv in H as [H|([h s1] & E & H)].
    { destruct (EP_field_begin p s e Hsm H) as [e' ->]. cbn [bind]. eauto. }
    destruct (ASIM_field_begin p _ _ _ Hsm E) as [Ea Hl]. rewrite Ea. cbn [bind].
    pose proof (small_le _ _ Hsm Hl) as Hsm1.
    destruct (ttype_eqb (fst h) TStop); [discriminate|].
    apply bind_err_inv in H as [H|([x s2] & E1 & H)].
    - destruct (He _ _ _ Hsm1 H) as [[e' Es]|(u & s2 & Es & H0)]; rewrite Es; cbn [bind]; [eauto|].
      apply dead_askip_fields; auto.
    - destruct (Hv _ _ _ _ Hsm1 E1) as [[Es|[e' Es]] Hl2]; rewrite Es; cbn [bind]; [|eauto].
      eapply IH; [|exact H]. eapply small_le; eauto.
  Qed.
  Lemma WS_elems : forall m et n s acc e, small s -> elems_loop rec m et n s acc = Err e ->
    starved (askip_elems srec m et n (erase s)).
  Proof.
    induction m as [|m IH]; intros et n s acc e Hsm H; cbn [elems_loop askip_elems] in *.
    - destruct (n <=? 0); [discriminate|apply starved_err].
    - destruct (n <=? 0); [discriminate|].
      apply bind_err_inv in H as [H|([x s1] & E1 & H)].
      + destruct (He _ _ _ Hsm H) as [[e' Es]|(u & s2 & Es & H0)]; rewrite Es; cbn [bind]; [apply starved_err|].
        apply stv_askip_elems; auto.
      + destruct (Hv _ _ _ _ Hsm E1) as [[Es|[e' Es]] Hl2]; rewrite Es; cbn [bind]; [|apply starved_err].
        eapply IH; [|exact H]. eapply small_le; eauto.
  Qed.
  Lemma WS_pairs : forall m kt vt n s acc e, small s -> pairs_loop rec m kt vt n s acc = Err e ->
    starved (askip_pairs srec m kt vt n (erase s)).
  Proof.
    induction m as [|m IH]; intros kt vt n s acc e Hsm H; cbn [pairs_loop askip_pairs] in *.
    - destruct (n <=? 0); [discriminate|apply starved_err].
    - destruct (n <=? 0); [discriminate|].
      assert (Hrest : forall u : unit, STV (fun s1 => let* (_, s2) := srec vt s1 in askip_pairs srec m kt vt (n - 1) s2)).
      { intros _ s1 H0. apply starved_bind; [|intros _; apply stv_askip_pairs; auto].
        apply STV_of; [apply (PG_weaken 1); [lia|apply Hpg]|apply Hnp|exact H0]. }
      apply bind_err_inv in H as [H|([a s1] & E1 & H)].
      + destruct (He _ _ _ Hsm H) as [[e' Es]|(u & s2 & Es & H0)]; rewrite Es; cbn [bind]; [apply starved_err|].
        apply (Hrest u), H0.
      + destruct (Hv _ _ _ _ Hsm E1) as [[Es|[e' Es]] Hl1]; rewrite Es; cbn [bind]; [|apply starved_err].
        pose proof (small_le _ _ Hsm Hl1) as Hsm1.
        apply bind_err_inv in H as [H|([b s2] & E2 & H)].
        * destruct (He _ _ _ Hsm1 H) as [[e' Es2]|(u & s3 & Es2 & H0)]; rewrite Es2; cbn [bind]; [apply starved_err|].
          apply stv_askip_pairs; auto.
        * destruct (Hv _ _ _ _ Hsm1 E2) as [[Es2|[e' Es2]] Hl2]; rewrite Es2; cbn [bind]; [|apply starved_err].
          eapply IH; [|exact H]. eapply small_le; eauto.
  Qed.
End WSLoops.

Lemma EP_drop {A} (r a : rm A) (g : A -> tval) : EP r a ->
  forall s e, small s -> (let* (x, s1) := r s in Ok (g x, s1)) = Err e -> exists e', drop a (erase s) = Err e'.
Proof.
  intros H s e Hsm E. apply bind_err_inv in E as [E|([x s1] & _ & E)]; [|discriminate].
  destruct (H _ _ Hsm E) as [e' E']. unfold drop. rewrite E'. cbn [bind]. eauto.
Qed.

(* the in-memory reader fails: the asynchronous skipper fails or ends starved (any depth budget) *)
Theorem WS_read p : forall f d ty s e, small s -> read_val p f ty s = Err e -> starved (askip_val p f d ty (erase s)).
Proof.
  induction f as [|f IH]; intros d ty s e Hsm H; [apply starved_err|].
  destruct d as [|d]; [apply starved_err|].
  assert (Hv : forall ty s v s', small s -> read_val p f ty s = Ok (v, s') ->
             ok_or_err (askip_val p f d ty (erase s)) tt (erase s') /\ (blen s' <= blen s)%nat).
  { intros ty0 s0 v s0' Hsm0 E. destruct (VS_read p f d ty0 s0 v s0' Hsm0 E) as (H1 & H2 & H3). split; [|exact H3].
    destruct (Nat.le_gt_cases (vdepth v) d); [left; auto|right; eauto]. }
  pose proof (fun ty0 s0 e0 => IH d ty0 s0 e0) as He.
  pose proof (PG_askip_val p f d) as Hpg. pose proof (NP_askip_val p f d) as Hnp.
  rewrite read_val_S in H. cbn [askip_val].
  destruct ty; try apply starved_err.
  - left. eapply (EP_drop _ _ VBool (EP_bool p)); eauto.
  - left. eapply (EP_drop _ _ VI8 EP_i8); eauto.
  - left. eapply (EP_drop _ _ VDouble (EP_double p)); eauto.
  - left. eapply (EP_drop _ _ VI16 (EP_i16 p)); eauto.
  - left. eapply (EP_drop _ _ VI32 (EP_i32 p)); eauto.
  - left. eapply (EP_drop _ _ VI64 (EP_i64 p)); eauto.
  - left. eapply (EP_drop _ _ VBinary (EP_bytes p)); eauto.
  - (* struct *)
    left. apply bind_err_inv in H as [H|([u s1] & E0 & H)].
    { destruct (EP_struct_begin p s e Hsm H) as [e' ->]. cbn [bind]. eauto. }
    destruct (ASIM_struct_begin p _ _ _ Hsm E0) as [Ea Hl]. rewrite Ea. cbn [bind].
    pose proof (small_le _ _ Hsm Hl) as Hsm1.
    apply bind_err_inv in H as [H|([fs s2] & E1 & H)].
    { destruct (WS_fields p _ _ Hv He _ _ _ _ Hsm1 H) as [e' ->]. cbn [bind]. eauto. }
    destruct (VS_fields p _ _ Hv He _ _ _ _ _ Hsm1 E1) as [[Es|[e' Es]] Hl2]; rewrite Es; cbn [bind]; [|eauto].
    apply bind_err_inv in H as [H|([u2 s3] & _ & H)]; [|discriminate].
    exact (EP_struct_end p s2 e (small_le _ _ Hsm1 Hl2) H).
  - (* map *)
    apply bind_err_inv in H as [H|([h s1] & E0 & H)].
    { destruct (HP_map_begin p s e Hsm H) as [[e' ->]|(h & s' & -> & Hlt)]; cbn [bind]; [apply starved_err|].
      apply starve_askip_pairs; auto. unfold phi, pend. destruct (r_pbool (rc s')); lia. }
    destruct (ASIM_map_begin p _ _ _ Hsm E0) as [Ea Hl]. rewrite Ea. cbn [bind].
    apply bind_err_inv in H as [H|([l s2] & _ & H)]; [|discriminate].
    exact (WS_pairs _ _ Hv He Hpg Hnp _ _ _ _ _ _ _ (small_le _ _ Hsm Hl) H).
  - (* set *)
    apply bind_err_inv in H as [H|([h s1] & E0 & H)].
    { destruct (HP_coll_begin p s e Hsm H) as [[e' ->]|(h & s' & -> & Hlt)]; cbn [bind]; [apply starved_err|].
      apply starve_askip_elems; auto. unfold phi, pend. destruct (r_pbool (rc s')); lia. }
    destruct (ASIM_coll_begin p _ _ _ Hsm E0) as [Ea Hl]. rewrite Ea. cbn [bind].
    apply bind_err_inv in H as [H|([l s2] & _ & H)]; [|discriminate].
    exact (WS_elems _ _ Hv He Hpg Hnp _ _ _ _ _ _ (small_le _ _ Hsm Hl) H).
  - (* list *)
    apply bind_err_inv in H as [H|([h s1] & E0 & H)].
    { destruct (HP_coll_begin p s e Hsm H) as [[e' ->]|(h & s' & -> & Hlt)]; cbn [bind]; [apply starved_err|].
      apply starve_askip_elems; auto. unfold phi, pend. destruct (r_pbool (rc s')); lia. }
    destruct (ASIM_coll_begin p _ _ _ Hsm E0) as [Ea Hl]. rewrite Ea. cbn [bind].
    apply bind_err_inv in H as [H|([l s2] & _ & H)]; [|discriminate].
    exact (WS_elems _ _ Hv He Hpg Hnp _ _ _ _ _ _ (small_le _ _ Hsm Hl) H).
  - left. eapply (EP_drop _ _ VUuid EP_uuid); eauto.
Qed.

(* TInputProtocol::skip of the sync templates (read, discard, depth test) against TAsyncInputProtocol::skip *)
Lemma WE_skip p fk ft s e : small s -> Gen.skip p fk ft s = Err e -> starved (askip p fk ft (erase s)).
Proof.
  intros Hsm H. unfold Gen.skip in H. unfold askip.
  destruct (read_val p fk ft s) as [[v s1]|e0|q] eqn:E; cbn [bind] in H; try discriminate.
  - destruct (Nat.leb (vdepth v) maximum_skip_depth_nat) eqn:Ed; [discriminate|]. apply Nat.leb_gt in Ed.
    destruct (VS_read p fk skip_depth ft s v s1 Hsm E) as (_ & Hdeep & _). rewrite Hdeep by (rewrite skip_depth_eq; exact Ed).
    apply starved_err.
  - injection H as <-. eapply WS_read; eauto.
Qed.

(* ================= the emitted decoders ================= *)
Lemma fbl_no_err p ft id s e : r_field_begin_len p ft id s <> Err e.
Proof.
  unfold r_field_begin_len. destruct p; try discriminate.
  destruct ft; try (destruct (ctype_of_ttype _); [destruct id|]; discriminate).
  destruct (r_pfield (rc s)); discriminate.
Qed.
Lemma assert_no_err p n s e : r_assert_no_pending p n s <> Err e.
Proof. unfold r_assert_no_pending. destruct p; try discriminate. destruct (r_pfield (rc s)); discriminate. Qed.

Section WELoops.
  Variable S : schema.
  Variable p : pk.
  Variable fk : nat.
  Variables rec arec : ty -> rm gval.
  Hypothesis Hsim : forall t, ASIM (rec t) (arec t).
  Hypothesis Hpg0 : forall t, PG 0 (arec t).
  Hypothesis Hnp : forall t, NP (arec t).

  Definition WEt (t : ty) : Prop := forall s e, small s -> rec t s = Err e -> starved (arec t (erase s)).

  Lemma WE_elems et : WEt et -> PG 1 (arec et) ->
    forall m n s acc e, small s -> dec_elems rec m et n s acc = Err e -> starved (dec_elems arec m et n (erase s) acc).
  Proof.
    intros Hw Hp1. induction m as [|m IH]; intros n s acc e Hsm H; cbn [dec_elems] in *.
    - destruct (n <=? 0); [discriminate|apply starved_err].
    - destruct (n <=? 0); [discriminate|].
      apply bind_err_inv in H as [H|([x s1] & E1 & H)].
      + destruct (Hw _ _ Hsm H) as [[e' Es]|(u & s2 & Es & H0)]; rewrite Es; cbn [bind]; [apply starved_err|].
        apply (stv_elems arec Hnp et Hp1); exact H0.
      + destruct (Hsim et _ _ _ Hsm E1) as [Ea Hl]. rewrite Ea. cbn [bind].
        eapply IH; [|exact H]. eapply small_le; eauto.
  Qed.

  Lemma WE_pairs kt vt : WEt kt -> WEt vt -> PG 1 (arec kt) -> PG 1 (arec vt) ->
    forall m n s acc e, small s -> dec_pairs rec m kt vt n s acc = Err e -> starved (dec_pairs arec m kt vt n (erase s) acc).
  Proof.
    intros Hwk Hwv Hpk Hpv. induction m as [|m IH]; intros n s acc e Hsm H; cbn [dec_pairs] in *.
    - destruct (n <=? 0); [discriminate|apply starved_err].
    - destruct (n <=? 0); [discriminate|].
      assert (Hpv0 : PG 0 (arec vt)) by (apply (PG_weaken 1); [lia|exact Hpv]).
      apply bind_err_inv in H as [H|([a s1] & E1 & H)].
      + destruct (Hwk _ _ Hsm H) as [[e' Es]|(u & s2 & Es & H0)]; rewrite Es; cbn [bind]; [apply starved_err|].
        apply starved_bind; [apply (STV_of _ Hpv0 (Hnp vt)); exact H0|].
        intros b. apply (stv_pairs arec Hnp kt vt Hpk Hpv0).
      + destruct (Hsim kt _ _ _ Hsm E1) as [Ea Hl]. rewrite Ea. cbn [bind]. pose proof (small_le _ _ Hsm Hl) as Hsm1.
        apply bind_err_inv in H as [H|([b s2] & E2 & H)].
        * destruct (Hwv _ _ Hsm1 H) as [[e' Es]|(u & s3 & Es & H0)]; rewrite Es; cbn [bind]; [apply starved_err|].
          apply (stv_pairs arec Hnp kt vt Hpk Hpv0); exact H0.
        * destruct (Hsim vt _ _ _ Hsm1 E2) as [Eb Hl2]. rewrite Eb. cbn [bind].
          eapply IH; [|exact H]. eapply small_le; eauto.
  Qed.

  Lemma dead_adec_fields : forall m fs vars, DEAD (fun s => adec_fields S p fk arec m fs vars s).
  Proof.
    intros [|m] fs vars s H0; [eexists; reflexivity|]. cbn [adec_fields].
    destruct (DEAD_field_begin p s H0) as [e ->]. cbn [bind]. eauto.
  Qed.
  Lemma dead_adec_variants : forall m vs ret, DEAD (fun s => adec_variants S p fk arec m vs ret s).
  Proof.
    intros [|m] vs ret s H0; [eexists; reflexivity|]. cbn [adec_variants].
    destruct (DEAD_field_begin p s H0) as [e ->]. cbn [bind]. eauto.
  Qed.

  (* the struct loop: an error stays an error, because the Stop header is still owed *)
  Lemma SE_fields fs : (forall f, In f fs -> WEt (f_ty f)) ->
    forall m vars s e, small s -> dec_fields S p fk rec m fs vars s = Err e ->
    exists e', adec_fields S p fk arec m fs vars (erase s) = Err e'.
  Proof.
    intros Hw. induction m as [|m IH]; intros vars s e Hsm H; [cbn; eauto|]. cbn [dec_fields adec_fields] in *.
    apply bind_err_inv in H as [H|([h s0] & E & H)].
    { destruct (EP_field_begin p s e Hsm H) as [e' ->]. cbn [bind]. eauto. }
    destruct (ASIM_field_begin p _ _ _ Hsm E) as [Ea Hl]. rewrite Ea. cbn [bind].
    pose proof (small_le _ _ Hsm Hl) as Hsm0.
    destruct (ttype_eqb (fst h) TStop).
    { apply bind_err_inv in H as [H|([k s1] & _ & H)]; [|discriminate]. exfalso. eapply assert_no_err; eauto. }
    apply bind_err_inv in H as [H|([n1 s1] & E0 & H)]; [exfalso; eapply fbl_no_err; eauto|].
    pose proof (fbl_erase _ _ _ _ _ _ E0) as Ee.
    assert (Hsm1 : small s1) by (unfold small in *; rewrite <- (erase_blen s1), Ee, erase_blen; exact Hsm0).
    rewrite <- Ee.
    apply bind_err_inv in H as [H|([vars2 s2] & E1 & H)].
    - (* the field's value (or the skip) fails *)
      destruct (match_field S fs 0 (snd h) (fst h)) as [[i f]|] eqn:Em.
      + apply bind_err_inv in H as [H|([x s2] & _ & H)]; [|discriminate].
        assert (Hin : In f fs).
        { destruct (snd h) as [id|]; [|destruct fs; discriminate]. destruct (match_field_inv _ _ _ _ _ _ _ Em) as [Hin _]. exact Hin. }
        destruct (Hw f Hin _ _ Hsm1 H) as [[e' Es]|(u & s2 & Es & H0)]; rewrite Es; cbn [bind]; [eauto|].
        apply dead_adec_fields, H0.
      + apply bind_err_inv in H as [H|([x s2] & _ & H)]; [|discriminate].
        destruct (WE_skip p fk (fst h) s1 e Hsm1 H) as [[e' Es]|(u & s2 & Es & H0)]; rewrite Es; cbn [bind]; [eauto|].
        apply dead_adec_fields, H0.
    - (* it succeeds: same state on both sides, the loop goes on *)
      assert (Hstep : (match match_field S fs 0 (snd h) (fst h) with
                       | Some (i, f) => let* (x, s) := arec (f_ty f) (erase s1) in Ok (set_nth i (Some x) vars, s)
                       | None => let* (_, s) := askip p fk (fst h) (erase s1) in Ok (vars, s)
                       end) = Ok (vars2, erase s2) /\ (blen s2 <= blen s1)%nat).
      { destruct (match_field S fs 0 (snd h) (fst h)) as [[i f]|].
        - binv E1. injection E1 as <- <-. destruct (Hsim _ _ _ _ Hsm1 E2) as [Eb Hl2]. rewrite Eb. split; [reflexivity|exact Hl2].
        - binv E1. injection E1 as <- <-.
          destruct (ASIM_skip p fk (fst h) s1 tt s3 Hsm1) as [Eb Hl2]; [rewrite E2; reflexivity|].
          rewrite Eb. split; [reflexivity|exact Hl2]. }
      destruct Hstep as [Est Hl2]. rewrite Est. cbn [bind].
      apply bind_err_inv in H as [H|([k s3] & E2 & H)]; [exfalso; eapply assert_no_err; eauto|].
      apply assert_same in E2. subst s3. eapply IH; [|exact H]. eapply small_le; eauto.
  Qed.

  (* the union loop *)
  Lemma SE_variants vs : (forall id vt, find_variant vs id = Some vt -> WEt vt) ->
    forall m ret s e, small s -> dec_variants S p fk rec m vs ret s = Err e ->
    exists e', adec_variants S p fk arec m vs ret (erase s) = Err e'.
  Proof.
    intros Hw. induction m as [|m IH]; intros ret s e Hsm H; [cbn; eauto|]. cbn [dec_variants adec_variants] in *.
    apply bind_err_inv in H as [H|([h s0] & E & H)].
    { destruct (EP_field_begin p s e Hsm H) as [e' ->]. cbn [bind]. eauto. }
    destruct (ASIM_field_begin p _ _ _ Hsm E) as [Ea Hl]. rewrite Ea. cbn [bind].
    pose proof (small_le _ _ Hsm Hl) as Hsm0.
    destruct (ttype_eqb (fst h) TStop).
    { apply bind_err_inv in H as [H|([k s1] & _ & H)]; [|discriminate]. exfalso. eapply assert_no_err; eauto. }
    apply bind_err_inv in H as [H|([n1 s1] & E0 & H)]; [exfalso; eapply fbl_no_err; eauto|].
    pose proof (fbl_erase _ _ _ _ _ _ E0) as Ee.
    assert (Hsm1 : small s1) by (unfold small in *; rewrite <- (erase_blen s1), Ee, erase_blen; exact Hsm0).
    rewrite <- Ee.
    assert (Hk : forall id vt,
              match snd h with
              | Some id0 => match find_variant vs id0 with
                            | Some vt0 => if is_void (resolve S vt0) then None else Some (id0, vt0)
                            | None => None
                            end
              | None => None
              end = Some (id, vt) -> find_variant vs id = Some vt).
    { intros id vt Hq. destruct (snd h) as [id0|]; [|discriminate]. destruct (find_variant vs id0) as [vt0|] eqn:Ef; [|discriminate].
      destruct (is_void (resolve S vt0)); [discriminate|]. injection Hq as <- <-. exact Ef. }
    match type of H with (match ?k with Some _ => _ | None => _ end) = _ => destruct k as [[id vt]|] eqn:Ek end.
    - destruct ret; [eauto|].
      apply bind_err_inv in H as [H|([x s2] & E1 & H)].
      + destruct (Hw id vt (Hk _ _ eq_refl) _ _ Hsm1 H) as [[e' Es]|(u & s2 & Es & H0)]; rewrite Es; cbn [bind]; [eauto|].
        apply dead_adec_variants, H0.
      + destruct (Hsim _ _ _ _ Hsm1 E1) as [Eb Hl2]. rewrite Eb. cbn [bind].
        eapply IH; [|exact H]. eapply small_le; eauto.
    - apply bind_err_inv in H as [H|([x s2] & E1 & H)].
      + destruct (WE_skip p fk (fst h) s1 e Hsm1 H) as [[e' Es]|(u & s2 & Es & H0)]; rewrite Es; cbn [bind]; [eauto|].
        apply dead_adec_variants, H0.
      + destruct (ASIM_skip p fk (fst h) s1 tt s2 Hsm1) as [Eb Hl2]; [rewrite E1; reflexivity|].
        rewrite Eb. cbn [bind]. eapply IH; [|exact H]. eapply small_le; eauto.
  Qed.
End WELoops.

(* ----- the schema side condition ----- *)
Lemma elems_ok_lookup S n d : elems_ok S = true -> lookup S n = Some d -> decl_elems_ok S d = true.
Proof. unfold elems_ok. intros H Hl. rewrite forallb_forall in H. apply H. eapply nth_error_In; eauto. Qed.

Lemma resolve_n_elems_ok S : elems_ok S = true -> forall fuel t, ty_elems_ok S t = true -> ty_elems_ok S (resolve_n S fuel t) = true.
Proof.
  intros Hel. induction fuel as [|fuel IH]; intros t Ht; [exact Ht|]. cbn [resolve_n]. destruct t; try exact Ht.
  destruct (lookup S n) as [[| | |t']|] eqn:El; try exact Ht.
  apply IH. exact (elems_ok_lookup S n _ Hel El).
Qed.
Lemma resolve_elems_ok S t : elems_ok S = true -> ty_elems_ok S t = true -> ty_elems_ok S (resolve S t) = true.
Proof. intros. apply resolve_n_elems_ok; auto. Qed.

Lemma cost_nonvoid S t : is_void (resolve S t) = false -> cost S t = 1%nat.
Proof. unfold cost. intros ->. reflexivity. Qed.

Lemma starved_of_err {A} (o : res (A * rst)) : (exists e, o = Err e) -> starved o.
Proof. intros H. left. exact H. Qed.

(* the in-memory decoder fails: the asynchronous decoder fails or ends starved; for a message type it fails *)
Theorem gen_async_esim S p : elems_ok S = true ->
  forall f t s e, small s -> ty_elems_ok S t = true -> gen_decode S p f t s = Err e ->
  starved (gen_decode_async S p f t (erase s)) /\
  (is_message S t = true -> exists e', gen_decode_async S p f t (erase s) = Err e').
Proof.
  intros Hel. induction f as [|f IH]; intros t s e Hsm Ht H.
  { split; [apply starved_err|intros _; cbn; eauto]. }
  assert (Hw : forall t0, ty_elems_ok S t0 = true -> WEt (gen_decode S p f) (gen_decode_async S p f) t0).
  { intros t0 Ht0 s0 e0 Hsm0 H0. exact (proj1 (IH t0 s0 e0 Hsm0 Ht0 H0)). }
  pose proof (gen_async_sim S p f) as Hsim. pose proof (NP_gen_decode_async S p f) as Hnp.
  assert (Hpg1 : forall t0, is_void (resolve S t0) = false -> PG 1 (gen_decode_async S p f t0)).
  { intros t0 Hv. rewrite <- (cost_nonvoid S t0 Hv). apply PG_gen_async. }
  assert (Hpg0 : forall t0, PG 0 (gen_decode_async S p f t0)).
  { intros t0. apply (PG_weaken (cost S t0)); [lia|apply PG_gen_async]. }
  pose proof (resolve_elems_ok S t Hel Ht) as Hrt. unfold is_message.
  rewrite gen_decode_S in H. rewrite gen_decode_async_S.
  destruct (resolve S t) as [| | | | | | | | | |et|et|kt vt|n] eqn:Er.
  1-9: (split; [apply starved_of_err|discriminate]);
       apply bind_err_inv in H as [H|([x s1] & _ & H)]; [|discriminate].
  - destruct (EP_bool p s e Hsm H) as [e' ->]. cbn [bind]. eauto.
  - destruct (EP_i8 s e Hsm H) as [e' ->]. cbn [bind]. eauto.
  - destruct (EP_i16 p s e Hsm H) as [e' ->]. cbn [bind]. eauto.
  - destruct (EP_i32 p s e Hsm H) as [e' ->]. cbn [bind]. eauto.
  - destruct (EP_i64 p s e Hsm H) as [e' ->]. cbn [bind]. eauto.
  - destruct (EP_double p s e Hsm H) as [e' ->]. cbn [bind]. eauto.
  - destruct (EP_bytes p s e Hsm H) as [e' ->]. cbn [bind]. eauto.
  - destruct (EP_bytes p s e Hsm H) as [e' ->]. cbn [bind]. eauto.
  - destruct (EP_uuid s e Hsm H) as [e' ->]. cbn [bind]. eauto.
  - (* void *)
    split; [apply starved_of_err|discriminate].
    apply bind_err_inv in H as [H|([u s1] & E0 & H)].
    { destruct (EP_struct_begin p s e Hsm H) as [e' ->]. cbn [bind]. eauto. }
    destruct (ASIM_struct_begin p _ _ _ Hsm E0) as [Ea Hl]. rewrite Ea. cbn [bind].
    apply bind_err_inv in H as [H|([u2 s2] & _ & H)]; [|discriminate].
    destruct (EP_struct_end p s1 e (small_le _ _ Hsm Hl) H) as [e' ->]. cbn [bind]. eauto.
  - (* list *)
    split; [|discriminate]. cbn [ty_elems_ok] in Hrt. apply andb_prop in Hrt as [Hnv Het]. apply negb_true_iff in Hnv.
    apply bind_err_inv in H as [H|([h s1] & E0 & H)].
    { destruct (HP_coll_begin p s e Hsm H) as [[e' ->]|(h & s' & -> & Hlt)]; cbn [bind]; [apply starved_err|].
      apply starved_map. apply (starve_elems _ Hnp et (Hpg1 et Hnv)). unfold phi, pend. destruct (r_pbool (rc s')); lia. }
    destruct (ASIM_coll_begin p _ _ _ Hsm E0) as [Ea Hl]. rewrite Ea. cbn [bind].
    apply bind_err_inv in H as [H|([l s2] & _ & H)]; [|discriminate]. apply starved_map.
    exact (WE_elems _ _ Hsim Hnp et (Hw et Het) (Hpg1 et Hnv) _ _ _ _ _ (small_le _ _ Hsm Hl) H).
  - (* set *)
    split; [|discriminate]. cbn [ty_elems_ok] in Hrt. apply andb_prop in Hrt as [Hnv Het]. apply negb_true_iff in Hnv.
    apply bind_err_inv in H as [H|([h s1] & E0 & H)].
    { destruct (HP_coll_begin p s e Hsm H) as [[e' ->]|(h & s' & -> & Hlt)]; cbn [bind]; [apply starved_err|].
      apply starved_map. apply (starve_elems _ Hnp et (Hpg1 et Hnv)). unfold phi, pend. destruct (r_pbool (rc s')); lia. }
    destruct (ASIM_coll_begin p _ _ _ Hsm E0) as [Ea Hl]. rewrite Ea. cbn [bind].
    apply bind_err_inv in H as [H|([l s2] & _ & H)]; [|discriminate]. apply starved_map.
    exact (WE_elems _ _ Hsim Hnp et (Hw et Het) (Hpg1 et Hnv) _ _ _ _ _ (small_le _ _ Hsm Hl) H).
  - (* map *)
    split; [|discriminate]. cbn [ty_elems_ok] in Hrt. apply andb_prop in Hrt as [Hrt Hvt]. apply andb_prop in Hrt as [Hrt Hkt].
    apply andb_prop in Hrt as [Hnk Hnv]. apply negb_true_iff in Hnk. apply negb_true_iff in Hnv.
    apply bind_err_inv in H as [H|([h s1] & E0 & H)].
    { destruct (HP_map_begin p s e Hsm H) as [[e' ->]|(h & s' & -> & Hlt)]; cbn [bind]; [apply starved_err|].
      apply starved_map. apply (starve_pairs _ Hnp kt vt (Hpg1 kt Hnk)); [apply (PG_weaken 1); [lia|exact (Hpg1 vt Hnv)]|].
      unfold phi, pend. destruct (r_pbool (rc s')); lia. }
    destruct (ASIM_map_begin p _ _ _ Hsm E0) as [Ea Hl]. rewrite Ea. cbn [bind].
    apply bind_err_inv in H as [H|([l s2] & _ & H)]; [|discriminate]. apply starved_map.
    exact (WE_pairs _ _ Hsim Hpg0 Hnp kt vt (Hw kt Hkt) (Hw vt Hvt) (Hpg1 kt Hnk) (Hpg1 vt Hnv) _ _ _ _ _ (small_le _ _ Hsm Hl) H).
  - (* declared types *)
    destruct (lookup S n) as [[fs kp ia|vs vo kp|ms|tt]|] eqn:El.
    + (* struct *)
      assert (G : exists e', (let* (_, s0) := a_struct_begin p (erase s) in
                              let* (vars, s1) := adec_fields S p f (gen_decode_async S p f) (Datatypes.S f) fs (map init_var fs) s0 in
                              let* (_, s2) := a_struct_end p s1 in
                              let* out := finish_fields fs vars in Ok (GStruct out [], s2)) = Err e').
      { pose proof (elems_ok_lookup S n _ Hel El) as Hd. cbn [decl_elems_ok] in Hd. rewrite forallb_forall in Hd.
        apply bind_err_inv in H as [H|([u s1] & E0 & H)].
        { destruct (EP_struct_begin p s e Hsm H) as [e' ->]. cbn [bind]. eauto. }
        destruct (ASIM_struct_begin p _ _ _ Hsm E0) as [Ea Hl]. rewrite Ea. cbn [bind].
        pose proof (small_le _ _ Hsm Hl) as Hsm1.
        apply bind_err_inv in H as [H|([vars s2] & E1 & H)].
        { destruct (SE_fields S p f _ _ Hsim fs (fun g Hg => Hw _ (Hd g Hg)) _ _ _ _ Hsm1 H) as [e' ->]. cbn [bind]. eauto. }
        destruct (ASIM_fields S p f _ _ Hsim (Datatypes.S f) fs (map init_var fs) s1 vars s2 Hsm1 E1) as [Eb Hl2].
        rewrite Eb. cbn [bind]. pose proof (small_le _ _ Hsm1 Hl2) as Hsm2.
        apply bind_err_inv in H as [H|([u2 s3] & E2 & H)].
        { destruct (EP_struct_end p s2 e Hsm2 H) as [e' ->]. cbn [bind]. eauto. }
        destruct (ASIM_struct_end p _ _ _ Hsm2 E2) as [Ec _]. rewrite Ec. cbn [bind].
        destruct (finish_fields fs vars) as [out|e0|q]; cbn [bind] in *; try discriminate. eauto. }
      split; [apply starved_of_err; exact G|intros _; exact G].
    + (* union *)
      assert (G : exists e', (let* (_, s0) := a_struct_begin p (erase s) in
                              let* (ret, s1) := adec_variants S p f (gen_decode_async S p f) (Datatypes.S f) vs None s0 in
                              let* (_, s2) := a_struct_end p s1 in
                              match ret with
                              | Some (id, x) => Ok (GUnion id x, s2)
                              | None => if vo then match vs with (id0, _) :: _ => Ok (GUnion id0 GVoid, s2) | [] => Err EInvalidData end
                                        else Err EInvalidData
                              end) = Err e').
      { pose proof (elems_ok_lookup S n _ Hel El) as Hd. cbn [decl_elems_ok] in Hd. rewrite forallb_forall in Hd.
        apply bind_err_inv in H as [H|([u s1] & E0 & H)].
        { destruct (EP_struct_begin p s e Hsm H) as [e' ->]. cbn [bind]. eauto. }
        destruct (ASIM_struct_begin p _ _ _ Hsm E0) as [Ea Hl]. rewrite Ea. cbn [bind].
        pose proof (small_le _ _ Hsm Hl) as Hsm1.
        apply bind_err_inv in H as [H|([ret s2] & E1 & H)].
        { destruct (SE_variants S p f _ _ Hsim vs
                      (fun id vt Hf => Hw _ (Hd (id, vt) (find_variant_in _ _ _ Hf))) _ _ _ _ Hsm1 H) as [e' ->]. cbn [bind]. eauto. }
        destruct (ASIM_variants S p f _ _ Hsim (Datatypes.S f) vs None s1 ret s2 Hsm1 E1) as [Eb Hl2].
        rewrite Eb. cbn [bind]. pose proof (small_le _ _ Hsm1 Hl2) as Hsm2.
        apply bind_err_inv in H as [H|([u2 s3] & E2 & H)].
        { destruct (EP_struct_end p s2 e Hsm2 H) as [e' ->]. cbn [bind]. eauto. }
        destruct (ASIM_struct_end p _ _ _ Hsm2 E2) as [Ec _]. rewrite Ec. cbn [bind].
        destruct ret as [[id z]|]; [discriminate|]. destruct vo; [|eauto]. destruct vs as [|[id0 t0] r]; [eauto|discriminate]. }
      split; [apply starved_of_err; exact G|intros _; exact G].
    + (* enum *)
      split; [apply starved_of_err|discriminate].
      apply bind_err_inv in H as [H|([x s1] & _ & H)]; [|discriminate].
      destruct (EP_i32 p s e Hsm H) as [e' ->]. cbn [bind]. eauto.
    + split; [apply starved_err|discriminate].
    + split; [apply starved_err|discriminate].
Qed.

(* ================= C12_gen_error ================= *)
Lemma message_elems_ok S t : is_message S t = true -> ty_elems_ok S t = true.
Proof.
  unfold is_message, resolve. destruct t; try reflexivity; cbn [resolve_n]; discriminate.
Qed.

(* a reader started idle on ANY byte string: whenever the emitted in-memory decoder of a struct / union reports an
   error, so does the emitted asynchronous decoder -- it never returns a value *)
Theorem gen_async_error S p f t l rcx e :
  elems_ok S = true -> is_message S t = true ->
  idle rcx -> Z.of_nat (length l) < 2 ^ 63 ->
  gen_decode S p f t (mkS l rcx) = Err e ->
  exists e', gen_decode_async S p f t (mkS l rcx) = Err e'.
Proof.
  intros Hel Hm [Hb Hp] Hl H.
  destruct (gen_async_esim S p Hel f t (mkS l rcx) e Hl (message_elems_ok S t Hm) H) as [_ G].
  rewrite erase_id in G by exact Hp. exact (G Hm).
Qed.

Corollary gen_async_error_top S p t l e :
  elems_ok S = true -> is_message S t = true -> Z.of_nat (length l) < 2 ^ 63 ->
  gen_decode_top S p t l = Err e -> exists e', gen_decode_async_top S p t l = Err e'.
Proof.
  intros Hel Hm Hl H. unfold gen_decode_top in H. unfold gen_decode_async_top.
  destruct (gen_decode S p (length l + 80) t (mkS l r0)) as [[v0 s0]|e0|q] eqn:E; cbn [bind] in H; try discriminate.
  destruct (gen_async_error S p _ t l r0 e0 Hel Hm idle_r0 Hl E) as [e' ->]. cbn [bind]. eauto.
Qed.

(* every declared type (containers, scalars, typedefs of them): the asynchronous decoder fails, or returns having
   exhausted the stream with no bool value pending -- so whatever reads next (the Stop header of the enclosing struct) fails *)
Theorem gen_async_error_any S p f t l rcx e :
  elems_ok S = true -> ty_elems_ok S t = true ->
  idle rcx -> Z.of_nat (length l) < 2 ^ 63 ->
  gen_decode S p f t (mkS l rcx) = Err e ->
  (exists e', gen_decode_async S p f t (mkS l rcx) = Err e') \/
  (exists v s2, gen_decode_async S p f t (mkS l rcx) = Ok (v, s2) /\ rbuf s2 = [] /\ r_pbool (rc s2) = None).
Proof.
  intros Hel Ht [Hb Hp] Hl H.
  destruct (gen_async_esim S p Hel f t (mkS l rcx) e Hl Ht H) as [G _].
  rewrite erase_id in G by exact Hp. destruct G as [G|(v & s2 & G & H0)]; [left; exact G|right].
  exists v, s2. split; [exact G|]. unfold phi, pend, blen in H0.
  destruct (rbuf s2); [|cbn in H0; lia]. destruct (r_pbool (rc s2)); [cbn in H0; lia|auto].
Qed.

(* ... and the second alternative is real for a bare container: U = union { 1: i32 },  t = map<U, list<bool>>, compact.
   The key's variant 1 arrives under a bool field header (0x11: id 1, BooleanTrue), the union template matches on the id
   only and reads an i32; the bool value stays pending.  The list header announces one bool with nothing left: the
   in-memory reader rejects the count, the asynchronous reader hands out the pending value.  (No decode entry point of
   the emitted code takes a bare map; inside a struct the Stop header is owed: [gen_async_error].) *)
Definition Sx : schema :=
  [ DUnion [(1, TyI32)] false false;
    DStruct [mkField 1 Optional (TyMap (TyRef 0) (TyList TyBool)) None] false false ].
Definition Tx : ty := TyMap (TyRef 0) (TyList TyBool).
Definition bx : list byte := [x01; xc9; x11; x00; x00; x11].

Example gen_async_error_container_refuted :
  wf_schema Sx = true /\ elems_ok Sx = true /\ ty_elems_ok Sx Tx = true /\ is_message Sx Tx = false /\
  gen_decode Sx PCompact 40 Tx (mkS bx r0) = Err ESizeLimit /\
  gen_decode_async Sx PCompact 40 Tx (mkS bx r0) = Ok (GMap [(GUnion 1 (GI32 0), GList [GBool true])], mkS [] r0).
Proof. repeat split; vm_compute; reflexivity. Qed.

(* non-vacuity of gen_async_error: (a) the same bytes as field 1 of a struct, Stop header missing: both fail (the
   asynchronous decoder only at the Stop it still owes); (b) with the Stop header both succeed; (c) a list count that
   exceeds the input, binary; all through the theorem *)
Example gen_async_error_nonvacuous :
  is_message Sx (TyRef 1) = true /\
  gen_decode Sx PCompact 40 (TyRef 1) (mkS (x1b :: bx) r0) = Err ESizeLimit /\
  gen_decode_async Sx PCompact 40 (TyRef 1) (mkS (x1b :: bx) r0) = Err ETransport /\
  (exists v, gen_decode Sx PCompact 40 (TyRef 1) (mkS (x1b :: bx ++ [x00]) r0) = Ok (v, mkS [] r0) /\
             gen_decode_async Sx PCompact 40 (TyRef 1) (mkS (x1b :: bx ++ [x00]) r0) = Ok (v, mkS [] r0)) /\
  (forall p l e, Z.of_nat (length l) < 2 ^ 63 -> gen_decode Sx p 40 (TyRef 1) (mkS l r0) = Err e ->
                 exists e', gen_decode_async Sx p 40 (TyRef 1) (mkS l r0) = Err e').
Proof.
  split; [reflexivity|]. split; [vm_compute; reflexivity|]. split; [vm_compute; reflexivity|].
  split; [eexists; split; vm_compute; reflexivity|].
  intros p l e Hl H. exact (gen_async_error Sx p 40 (TyRef 1) l r0 e eq_refl eq_refl idle_r0 Hl H).
Qed.
