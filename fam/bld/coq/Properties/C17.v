(* C17 -- Code generation is deterministic.
   Only statements, each closed by [exact] of a lemma proved in Proofs/, with Print Assumptions beneath.

   The model (Pipeline.v) is the order-sensitive skeleton of pilota-build's emission.  Every iteration of a
   hash container with a per-process seed and every rayon parallel loop is a PARAMETER of the model: an
   arbitrary function returning a permutation of its argument ([perm_fun]).  Rendering of one item
   ([render]), the module path of an item ([mod_path]) and the split-mode file-name pieces are arbitrary
   functions.  The theorems say the output is the same for ALL values of the permutation parameters.
   Inventory.v (regenerated from the Rust sources on every run) ties the parameters to the code: the list
   of unordered-iteration sites must be exactly the list the model accounts for.

   SCOPE (audit of 2026-10-02).  [render], [mod_path], [kind_prefix], [item_name], [crate_name], [repubs], [dep_names] are universally
   quantified FUNCTIONS of the item: what C17_single / _split / _workspace prove is that the ARRANGEMENT of the per-item texts (order,
   grouping, file names, module nesting, crate membership) does not depend on hash seeds and on the order in which the work items are
   taken up -- NOT that the text of one item is byte-identical from run to run.  That the rendering of ONE item depends on nothing
   but the item and the document is an ASSUMPTION of these theorems; it is backed by C17_render_inventory (every seeded container and
   every piece of shared / memoised / thread-local state in the rendering code is regenerated and classified: none is order-bearing
   inside one item) and observed by hashing every emitted file across processes, thread counts and repeated builds in one process.
   A schedule is modelled as a permutation of the work list followed by a sequential fold: true interleavings of the bodies are not
   representable; that bodies touch disjoint state (their own DashMap entry / directory) is the reason recorded per site, not a theorem
   about rayon. *)
From Coq Require Import String List Permutation.
From PVBld Require Import Generated.Inventory Generated.CollectSites Pipeline Collect Dedup
                          Proofs.PipelineP Proofs.InventoryP Proofs.CollectP Proofs.DedupP Proofs.SplitNamesP Proofs.RenderStateP.
From PVBld Require Import Generated.RenderState.
Import ListNotations.

(* single-file mode: the text written to the output file (and the -- empty -- set of side files) *)
Theorem C17_single :
  forall (item : Type) (mod_path : item -> path) (render kind_prefix item_name : item -> string)
         pi_mods pi_work pi_keys pi_tree pi_mods' pi_work' pi_keys' pi_tree',
    perm_fun pi_mods -> perm_fun pi_work -> perm_fun pi_keys -> perm_fun pi_tree ->
    perm_fun pi_mods' -> perm_fun pi_work' -> perm_fun pi_keys' -> perm_fun pi_tree' ->
    forall items,
      write_items item mod_path render kind_prefix item_name pi_mods pi_work pi_keys pi_tree false items =
      write_items item mod_path render kind_prefix item_name pi_mods' pi_work' pi_keys' pi_tree' false items.
Proof. exact single_inv. Qed.
Print Assumptions C17_single.

(* split mode: the text of the main file, the write log of every directory (file names in the order
   generate_unique_name assigned them, contents), hence the set of (directory, file name, content) *)
Theorem C17_split :
  forall (item : Type) (mod_path : item -> path) (render kind_prefix item_name : item -> string)
         pi_mods pi_work pi_keys pi_tree pi_mods' pi_work' pi_keys' pi_tree',
    perm_fun pi_mods -> perm_fun pi_work -> perm_fun pi_keys -> perm_fun pi_tree ->
    perm_fun pi_mods' -> perm_fun pi_work' -> perm_fun pi_keys' -> perm_fun pi_tree' ->
    forall items,
      write_items item mod_path render kind_prefix item_name pi_mods pi_work pi_keys pi_tree true items =
      write_items item mod_path render kind_prefix item_name pi_mods' pi_work' pi_keys' pi_tree' true items /\
      files_of (write_items item mod_path render kind_prefix item_name pi_mods pi_work pi_keys pi_tree true items) =
      files_of (write_items item mod_path render kind_prefix item_name pi_mods' pi_work' pi_keys' pi_tree' true items).
Proof. exact split_inv. Qed.
Print Assumptions C17_split.

(* workspace mode (both split settings): the `members` lines of the root Cargo.toml and, per crate, the
   dependency list, gen.rs and the split files -- provided distinct locations have distinct crate names *)
Theorem C17_workspace :
  forall (item : Type) (mod_path : item -> path) (render kind_prefix item_name : item -> string)
         (loc : Type) (loc_eqb : loc -> loc -> bool) (location : item -> loc) (crate_name : loc -> string)
         (repubs : loc -> list item -> list item) (dep_names : loc -> list item -> list string)
         pi_mods pi_work pi_keys pi_tree pi_entry pi_crates
         pi_mods' pi_work' pi_keys' pi_tree' pi_entry' pi_crates',
    (forall a b : loc, loc_eqb a b = true <-> a = b) ->
    perm_fun pi_mods -> perm_fun pi_work -> perm_fun pi_keys -> perm_fun pi_tree ->
    perm_fun pi_entry -> perm_fun pi_crates ->
    perm_fun pi_mods' -> perm_fun pi_work' -> perm_fun pi_keys' -> perm_fun pi_tree' ->
    perm_fun pi_entry' -> perm_fun pi_crates' ->
    forall split lm_items,
      NoDup (crate_names item loc loc_eqb location crate_name lm_items) ->
      workspace item mod_path render kind_prefix item_name pi_mods pi_work pi_keys pi_tree
                loc loc_eqb location crate_name repubs dep_names pi_entry pi_crates split lm_items =
      workspace item mod_path render kind_prefix item_name pi_mods' pi_work' pi_keys' pi_tree'
                loc loc_eqb location crate_name repubs dep_names pi_entry' pi_crates' split lm_items.
Proof. exact workspace_inv. Qed.
Print Assumptions C17_workspace.

(* the side condition is necessary: `dedup` runs before `sorted` *)
Theorem C17_workspace_dup_names_refuted :
  exists (lm_items : list nat) (crate_name : nat -> string) (pi_entry pi_entry' : list (nat * list nat) -> list (nat * list nat)),
    perm_fun pi_entry /\ perm_fun pi_entry' /\
    let ws pe := fst (workspace nat (fun _ => []) (fun _ => ""%string) (fun _ => ""%string) (fun _ => ""%string)
                                (fun l => l) (fun l => l) (fun l => l) (fun l => l)
                                nat Nat.eqb (fun i => i) crate_name (fun _ _ => []) (fun _ _ => [])
                                pe (fun l => l) false lm_items) in
    ws pi_entry <> ws pi_entry'.
Proof. exact workspace_dup_names_refuted. Qed.
Print Assumptions C17_workspace_dup_names_refuted.

(* protobuf front end after fix F-17a: the items a message lowers to (own item, module of nested items in
   declaration order, map-entry decisions of its fields) do not depend on the order of the AHashMap *)
Theorem C17_nested :
  forall pi pi', perm_fun pi -> perm_fun pi' -> forall m, lower_message pi m = lower_message pi' m.
Proof. exact lower_message_inv. Qed.
Print Assumptions C17_nested.

(* the pinned clause (nested messages taken from `nested_messages.iter()`): two siblings suffice *)
Theorem C17_nested_refuted :
  exists pi pi', perm_fun pi /\ perm_fun pi' /\
    lower_message_pinned pi 2 two_nested <> lower_message_pinned pi' 2 two_nested.
Proof. exact lower_message_pinned_refuted. Qed.
Print Assumptions C17_nested_refuted.

(* tie to the code: the regenerated inventory of unordered-iteration sites is the list accounted for, every
   iterating site carries a reason, and the reasons name exactly the model's permutation parameters *)
Theorem C17_inventory :
  map fst accounted = sites /\
  forallb justified accounted = true /\
  forallb (fun p => existsb (String.eqb p) model_params) (flat_map (fun sr => params_of (snd sr)) accounted) = true /\
  forallb (fun p => existsb (String.eqb p) (flat_map (fun sr => params_of (snd sr)) accounted)) model_params = true.
Proof. exact (conj inventory_accounted (conj inventory_justified inventory_params)). Qed.
Print Assumptions C17_inventory.

(* ---- ignore_unused + Builder::touch: which items are generated, and in which order (Collect.v) ------------------------------------
   Full statement wanted: "the emitted item sequence is a function of the SET of touched items and the document".  What holds:
   (a) the SET of generated items is exactly the set of items reachable from the roots, whatever the order in which the roots are
       walked and whatever the iteration order of the fixed-seed set (C17_collect_order_free);
   (b) the SEQUENCE is `fx_iter (insertion history)`, and the insertion history does depend on the order of the roots
       (C17_collect_history_order_refuted): the code gets a deterministic sequence only because the touch list is a Vec walked in the
       user's order and every hash container on the path is fixed-seed -- an obligation on the source, discharged by
       C17_collect_iterations (every iteration of collect / collect_items / duplicate regenerated and classified; seeded change C17d
       put a std HashMap group map on that path and breaks it). *)
Theorem C17_collect_order_free :
  forall succs U fx_iter pi pi' input consts touches,
    (forall d c, In d U -> In c (succs d) -> In c U) ->
    (forall r, In r (input ++ touch_roots touches ++ consts) -> In r U) ->
    (forall h, Permutation (fx_iter h) h) ->
    perm_fun pi -> perm_fun pi' ->
    Permutation (codegen_items fx_iter pi succs (S (length U)) input consts touches)
                (codegen_items fx_iter pi' succs (S (length U)) input consts touches).
Proof. exact collect_set_order_free. Qed.
Print Assumptions C17_collect_order_free.

(* collect_items is reachability: every generated item once, and exactly the items some root (or Const item) reaches *)
Theorem C17_collect_reachable :
  forall succs U roots consts,
    (forall d c, In d U -> In c (succs d) -> In c U) ->
    (forall r, In r (roots ++ consts) -> In r U) ->
    let s := collect_items succs (S (length U)) roots consts in
    NoDup s /\ forall x, In x s <-> exists r, In r (roots ++ consts) /\ reaches succs r x.
Proof. exact (fun succs U roots consts Hc Hr => collect_items_spec succs U Hc roots consts Hr). Qed.
Print Assumptions C17_collect_reachable.

Theorem C17_collect_history_order_refuted :
  exists (pi pi' : list touch_entry -> list touch_entry),
    perm_fun pi /\ perm_fun pi' /\
    codegen_items (fun h => h) pi (fun _ => []) 3 [] [] two_touches = [10; 20] /\
    codegen_items (fun h => h) pi' (fun _ => []) 3 [] [] two_touches = [20; 10].
Proof. exact collect_history_order_refuted. Qed.
Print Assumptions C17_collect_history_order_refuted.

Theorem C17_collect_iterations :
  map fst accounted_iterations = collect_iterations /\
  filter (fun e => match snd e with OSeeded _ => true | _ => false end) accounted_iterations =
    [("collect"%string, "self.entry_map = location_map .clone() .into_iter() .into_group_map_by(|item| item.1.clone());"%string, OSeeded "pi_entry")] /\
  map fst collect_source_digests = ["collect"; "collect_items"; "duplicate"; "write_items"; "write_split_mod"; "generate_unique_name"]%string.
Proof.
  exact (conj (proj1 collect_iterations_accounted) (conj (proj2 collect_iterations_accounted) (f_equal (map fst) collect_sources_pinned))).
Qed.
Print Assumptions C17_collect_iterations.

(* ---- Builder::dedup (Dedup.v): one scratch map per module group ----------------------------------------------------------------------
   for any structural equality that is reflexive and transitive: the survivors of a module group are the first items of their classes (same
   listed name, equal) in the group's own order, and groups do not interact -- whatever order the groups are processed in *)
Theorem C17_dedup_per_module :
  forall (item : Type) (name : item -> string) (equal : item -> item -> bool) (dedups : list string),
    (forall a, equal a a = true) ->
    (forall a b c, equal a b = true -> equal b c = true -> equal a c = true) ->
    (forall its, written_group item name equal dedups its = first_of_class item name equal dedups [] its) /\
    (forall (pi : list (list item) -> list (list item)) groups, perm_fun pi ->
       Permutation (written_groups item name equal dedups (pi groups)) (written_groups item name equal dedups groups) /\
       forall g, In g groups -> In (first_of_class item name equal dedups [] g) (written_groups item name equal dedups (pi groups))).
Proof.
  exact (fun item name equal dedups R T =>
           conj (written_group_first_of_class item name equal dedups R T)
                (written_groups_schedule_free item name equal dedups R T)).
Qed.
Print Assumptions C17_dedup_per_module.

(* one map shared by the groups a worker processes one after the other (seeded change C17c): who survives depends on the order *)
Theorem C17_dedup_shared_map_refuted :
  let g1 := [(1, 0)] in let g2 := [(2, 0)] in
  written_shared (nat * nat) br_name br_equal ["BaseResp"%string] [] [g1; g2] = [[(1, 0)]; []] /\
  written_shared (nat * nat) br_name br_equal ["BaseResp"%string] [] [g2; g1] = [[(2, 0)]; []] /\
  written_groups (nat * nat) br_name br_equal ["BaseResp"%string] [g1; g2] = [[(1, 0)]; [(2, 0)]].
Proof. exact dedup_shared_map_refuted. Qed.
Print Assumptions C17_dedup_shared_map_refuted.

(* ---- split mode: the file names of a module are a function of its item SEQUENCE (write_split_mod / generate_unique_name) -----------
   the names (with .rs) written for a group = the names `assigned` computes from the list of `{kind}_{name}` strings in item order:
   no other input, no hash-ordered iteration (regenerated facts about the helper: split_naming_facts) *)
Theorem C17_split_names_order_determined :
  (forall (item : Type) (render kind_prefix item_name : item -> string) existing its,
     map fst (fst (split_items item render kind_prefix item_name existing its)) =
     map (fun u => (u ++ ".rs")%string) (assigned existing (map (simple_name item kind_prefix item_name) its))) /\
  forallb (fun f => snd f) split_naming_facts = true.
Proof. exact (conj split_items_names (proj1 split_naming_as_modelled)). Qed.
Print Assumptions C17_split_names_order_determined.

(* settling the names group by group (names equal ignoring case), the groups in the iteration order of a seeded map (seeded change
   C17e): with Foo, foo, foo_2 the file SET depends on that order *)
Theorem C17_split_names_grouped_refuted :
  exists pi pi', perm_fun pi /\ perm_fun pi' /\
    ~ Permutation (assigned_grouped pi ["message_Foo"; "message_foo"; "message_foo_2"]%string)
                  (assigned_grouped pi' ["message_Foo"; "message_foo"; "message_foo_2"]%string).
Proof. exact split_names_grouped_refuted. Qed.
Print Assumptions C17_split_names_grouped_refuted.

(* ---- the assumption behind `render : item -> string` as an obligation on the source --------------------------------------------------
   (1) among the seeded-container sites of the rendering code (codegen/, plugin/, middle/, db.rs, symbol.rs, tags.rs) every reason is a
       harmless one, the order-bearing sites are exactly the arrangement sites of write_items / pkg_tree / workspace, and none of them lies
       in a function that renders one item (write_item, write_struct, ..., the plugins' on_item / can_derive, rust_name, def_lit ...);
   (2) the regenerated list of shared / process-wide / memoised / thread-local state is the list classified in RenderStateP.state_accounted
       (memoised pure query | set once before rendering | constant table | concurrent map keyed by the item at hand | scoped thread-local).
   The classification itself is read from the code (trusted); a new static, OnceLock, DashMap, Mutex, thread-local or query group breaks (2). *)
Theorem C17_render_inventory :
  (forallb (fun sr => render_safe (snd sr)) render_sites = true /\
   existsb (fun sr => existsb (String.eqb (snd (fst (fst (fst sr)))))
                        ["write_item"; "write_struct"; "write_enum"; "write_service"; "write_new_type"; "write_const"; "on_item"; "on_field";
                         "on_variant"; "can_derive"; "rust_name"; "def_lit"; "lit_into_ty"]%string)
           (filter (fun sr => match snd sr with RPermParam _ _ | RSortedAfter _ _ | RDisjointKeys _ _ => true | _ => false end) accounted) = false) /\
  map (fun e => fst e) state_accounted = state_sites.
Proof.
  exact (conj (conj (proj1 render_inventory) (proj2 (proj2 render_inventory))) state_sites_accounted).
Qed.
Print Assumptions C17_render_inventory.
