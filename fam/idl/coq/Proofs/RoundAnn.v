(* C15, stage 2b: annotation lists  ( key = 'value' [,;] ... )  and the cpp_type clause, every layout. *)
From PVIdl Require Import Comb Ast Parser Print Proofs.Total Proofs.RoundTok Proofs.RoundPath.
From Coq Require Import ZifyN ZifyNat ZifyBool.
From Coq Require String.
Import String.StringSyntax.
Open Scope nat_scope.

Definition annch (c : byte) : bool := is_alnum c || is_underscore c || is_dot c.

Lemma rt_annkey s k : is_annkey s = true -> hd_sat (fun b => negb (annch b)) k = true -> p_annotation_key (s ++ k) = POk k s.
Proof.
  intros Hs Hk. destruct s as [|h t]; [discriminate|]. cbn [is_annkey] in Hs. apply andb_prop in Hs. destruct Hs as [Hh Ht].
  unfold p_annotation_key, recognize. cbn [app satisfy_b pbind]. rewrite Hh. cbn [pbind]. unfold take_while.
  rewrite (span_app_stop _ t k Ht Hk). f_equal. apply (consumed_app (h :: t) k).
Qed.

Lemma blank_start_not_annch b : blank_start b = true -> annch b = false.
Proof. destruct b; vm_compute; intro H; try reflexivity; discriminate H. Qed.

Lemma annkey_nb s k : is_annkey s = true -> nb (s ++ k) = true.
Proof.
  destruct s as [|h t]; [discriminate|]. cbn [is_annkey]. intros H. apply andb_prop in H. destruct H as [H _].
  cbn. now rewrite (identhead_nb h H).
Qed.

Lemma identhead_nosep b : (is_alpha b || is_underscore b) = true -> bmem b set_list_separator = false.
Proof. destruct b; vm_compute; intro H; try reflexivity; discriminate H. Qed.

Lemma annkey_nosep s k : is_annkey s = true -> nosep (s ++ k) = true.
Proof.
  destruct s as [|h t]; [discriminate|]. cbn [is_annkey]. intros H. apply andb_prop in H. destruct H as [H _].
  unfold nosep. cbn [app hd_sat]. now rewrite (identhead_nosep h H).
Qed.

Section Ann.
Variable lf : nat.
Variable whole : list byte.
Hypothesis Hlf : length whole < lf.

Lemma rt_ann a k : wf_ann a = true -> nb k = true -> nosep k = true -> sfx (pr_ann a k) whole ->
  p_annotation lf (pr_ann a k) = POk k (erase_ann a).
Proof.
  intros Hw Hk1 Hk2 S. destruct a as [b1 key b2 b3 l b4 s]. unfold wf_ann, pr_ann, erase_ann in *.
  cbn [ca_b1 ca_key ca_b2 ca_b3 ca_lit ca_b4 ca_sep] in *. bsplit Hw.
  unfold p_annotation.
  obk lf whole Hlf S ltac:(now apply annkey_nb).
  rewrite (rt_annkey key).
  2: assumption.
  2:{ apply blank_then; [assumption| |reflexivity]. intros b Hb. now rewrite (blank_start_not_annch b Hb). }
  cbn [pbind].
  obk lf whole Hlf S ltac:(reflexivity).
  tg sym_ann_eq (txt "=").
  obk lf whole Hlf S ltac:(apply lit_nb).
  rewrite (rt_literal lf l) by (assumption || (eapply sfx_lt; [exact Hlf|sfx_of S])). cbn [pbind].
  obk lf whole Hlf S ltac:(now apply sep_nb).
  destruct (rt_sep lf s k ltac:(assumption) Hk1 Hk2 ltac:(eapply sfx_lt; [exact Hlf|sfx_of S])) as [o4 ->]. reflexivity.
Qed.

Lemma ann_stop k : is_perr (p_annotation lf (txt ")" ++ k)).
Proof.
  unfold p_annotation. rewrite (opt_err (p_blank lf)) by (apply blank_err; reflexivity). cbn [pbind].
  apply pbind_err. exact I.
Qed.

Lemma len_ann a k : wf_ann a = true -> length k < length (pr_ann a k).
Proof.
  intros Hw. destruct a as [b1 key b2 b3 l b4 s]. unfold wf_ann, pr_ann in *.
  cbn [ca_b1 ca_key ca_b2 ca_b3 ca_lit ca_b4 ca_sep] in *. bsplit Hw.
  assert (S1 : sfx k (pr_blank b2 (txt "=" ++ pr_blank b3 (pr_lit l (pr_blank b4 (pr_sep s k)))))) by (repeat sfx_step).
  apply sfx_len in S1. pose proof (len_blank b1 (key ++ pr_blank b2 (txt "=" ++ pr_blank b3 (pr_lit l (pr_blank b4 (pr_sep s k)))))) as L.
  rewrite app_length in L. destruct key; [discriminate|]. cbn [length] in L. lia.
Qed.

Definition head_b1_nil (l : list cann) : bool := match l with [] => true | a :: _ => is_nil (ca_b1 a) end.

Lemma ann_list_head l k : wf_ann_list l = true -> head_b1_nil l = true ->
  nb (pr_ann_list l (txt ")" ++ k)) = true /\ nosep (pr_ann_list l (txt ")" ++ k)) = true.
Proof.
  destruct l as [|a l]; [split; reflexivity|]. cbn [wf_ann_list head_b1_nil pr_ann_list]. intros Hw Hn.
  bsplit Hw. unfold wf_ann in Hw. bsplit Hw. destruct a as [b1 key b2 b3 li b4 s]. cbn [ca_b1 ca_key] in *.
  destruct b1; [|discriminate]. unfold pr_ann. cbn [ca_b1 ca_key pr_blank].
  split; [now apply annkey_nb|now apply annkey_nosep].
Qed.

Lemma ann_loop : forall l k fuel, wf_ann_list l = true -> head_b1_nil l = true ->
  sfx (pr_ann_list l (txt ")" ++ k)) whole -> length (pr_ann_list l (txt ")" ++ k)) < fuel ->
  many1_loop fuel (p_annotation lf) (pr_ann_list l (txt ")" ++ k)) = POk (txt ")" ++ k) (erase_anns l).
Proof.
  induction l as [|a l IH]; intros k fuel Hw Hn S Hf; (destruct fuel as [|f]; [lia|]); cbn [many1_loop pr_ann_list erase_anns map] in *.
  - pose proof (ann_stop k) as E. destruct (p_annotation lf (txt ")" ++ k)); cbn in E; try contradiction. reflexivity.
  - cbn [wf_ann_list] in Hw. bsplit Hw.
    destruct (ann_list_head l k W W0) as [N1 N2].
    rewrite (rt_ann a _ Hw N1 N2 S).
    pose proof (len_ann a (pr_ann_list l (txt ")" ++ k)) Hw) as L.
    rewrite (same_len_shorter _ _ L).
    rewrite (IH k f W W0); [reflexivity|sfx_of S; apply sfx_ann; apply sfx_refl|lia].
Qed.

Theorem rt_anns l k : wf_anns l = true -> sfx (pr_anns l k) whole ->
  p_annotations lf (pr_anns l k) = POk k (erase_anns l).
Proof.
  intros Hw S. unfold wf_anns in Hw. bsplit Hw. destruct l as [|a l]; [discriminate|].
  unfold pr_anns, p_annotations in *. cbn [pr_ann_list erase_anns map wf_ann_list] in *. bsplit W.
  tg sym_ann_open (txt "(").
  unfold many1.
  destruct (ann_list_head l k W0 W1) as [N1 N2].
  assert (S1 : sfx (pr_ann a (pr_ann_list l (txt ")" ++ k))) whole) by (sfx_of S).
  rewrite (rt_ann a _ W N1 N2 S1).
  assert (S2 : sfx (pr_ann_list l (txt ")" ++ k)) whole) by (sfx_of S1; apply sfx_ann; apply sfx_refl).
  rewrite (ann_loop l k lf W0 W1 S2) by (eapply sfx_lt; eauto). cbn [pbind].
  tg sym_ann_close (txt ")"). reflexivity.
Qed.

(* an optional annotation list that is absent: what follows does not open one *)
Definition noparen (k : list byte) : bool := hd_sat (fun b => negb (Byte.eqb b x28)) k.

Lemma noparen_noann k : noparen k = true -> is_perr (p_annotations lf k).
Proof.
  intros H. unfold p_annotations. apply pbind_err. destruct k as [|b k]; [exact I|]. apply tag_hd_ne.
  cbn in H. now apply negb_true_iff in H.
Qed.

(* the cpp_type clause:  <blank> cpp_type <blank> 'literal' *)
Theorem rt_cpp c k : wf_cpp c = true -> sfx (pr_cpp c k) whole ->
  (fun i => do i, _ <- p_blank lf i ;; p_cpp_type lf i) (pr_cpp c k) = POk k (erase_lit (cc_lit c)).
Proof.
  intros Hw S. destruct c as [b1 b2 l]. unfold wf_cpp, pr_cpp in *. cbn [cc_b1 cc_b2 cc_lit] in *. bsplit Hw.
  cbn beta. mbk lf whole Hlf S ltac:(reflexivity).
  unfold p_cpp_type. tg kw_cpp_type (txt "cpp_type").
  mbk lf whole Hlf S ltac:(apply lit_nb).
  apply rt_literal; [assumption|eapply sfx_lt; [exact Hlf|sfx_of S]].
Qed.

End Ann.

(* non-vacuity: two annotations, all three comment styles, both quote styles, one separator *)
Example rt_anns_example :
  let l := [ mkCAnn [BWs (txt " ")] (txt "a.b") [BWs (txt " ")] [BLine (txt "c"); BWs [x0a]] (mkLit false (txt "x")) [] (SepSome true [BBlock (txt "c")]);
             mkCAnn [] (txt "k") [] [] (mkLit true [x79; x5c; x22]) [BHash []; BWs [x0a]] SepNone ] in
  wf_anns l = true /\ p_annotations 100 (pr_anns l (txt "z")) = POk (txt "z") (erase_anns l).
Proof. vm_compute. split; reflexivity. Qed.
