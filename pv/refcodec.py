"""An independent reference codec for the Apache Thrift binary and compact protocols, written from the
protocol specifications (thrift-binary-protocol.md, thrift-compact-protocol.md) -- shares no code with
pilota, the Coq models or the Rust harness.  Values use the token syntax of pv/thriftgen.py.

encode(pk, tree, alt) : canonical encoding, or -- with alt = a random.Random -- an encoding that picks,
at every point where the specification leaves the writer a choice, one of the legal forms:
  binary : any non-zero byte for true
  compact: long-form field header where a short one would fit; short form for delta 15; long-form list/set
           header for sizes <= 14; BOOL element / key / value type written as 1 or as 2
decode(pk, tycode, bytes) -> (tree, rest)  accepts all of these.
"""
import struct

BT = {"b": 2, "y": 3, "d": 4, "h": 6, "i": 8, "l": 10, "s": 11, "S": 12, "M": 13, "T": 14, "L": 15, "u": 16}
CT = {2: 1, 3: 3, 6: 4, 8: 5, 10: 6, 4: 7, 11: 8, 15: 9, 14: 10, 13: 11, 12: 12, 16: 13}   # binary code -> compact code
CT_INV = {v: k for k, v in CT.items()}
CT_INV[2] = 2     # BOOLEAN_FALSE also denotes bool


class DecodeError(Exception):
    pass


# ---------------- token <-> tree ----------------
def parse(tokens):
    pos = [0]
    def go():
        t = tokens[pos[0]]; pos[0] += 1
        c, a = t[0], t[1:]
        if c == "b": return ("b", a == "1")
        if c in "yhil": return (c, int(a))
        if c == "d": return ("d", int(a))
        if c == "s": return ("s", b"" if a in ("", "-") else bytes.fromhex(a))
        if c == "u": return ("u", bytes.fromhex(a))
        if c == "S":
            fs = []
            for _ in range(int(a)):
                f = tokens[pos[0]]; pos[0] += 1
                fs.append((int(f[1:]), go()))
            return ("S", fs)
        if c in "LT":
            et, n = map(int, a.split(","))
            return (c, et, [go() for _ in range(n)])
        if c == "M":
            kt, vt, n = map(int, a.split(","))
            return ("M", kt, vt, [(go(), go()) for _ in range(n)])
        raise ValueError(t)
    v = go()
    return v, tokens[pos[0]:]


def show(v):
    c = v[0]
    if c == "b": return ["b1" if v[1] else "b0"]
    if c in "yhild": return ["%s%d" % (c, v[1])]
    if c == "s": return ["s" + (v[1].hex() if v[1] else "-")]
    if c == "u": return ["u" + v[1].hex()]
    if c == "S":
        out = ["S%d" % len(v[1])]
        for i, x in v[1]:
            out.append("f%d" % i); out += show(x)
        return out
    if c in "LT":
        out = ["%s%d,%d" % (c, v[1], len(v[2]))]
        for x in v[2]: out += show(x)
        return out
    out = ["M%d,%d,%d" % (v[1], v[2], len(v[3]))]
    for a, b in v[3]: out += show(a) + show(b)
    return out


def tcode(v):
    return BT[v[0]]


# ---------------- varints ----------------
def uvarint(n):
    out = bytearray()
    while True:
        b = n & 0x7F
        n >>= 7
        if n:
            out.append(b | 0x80)
        else:
            out.append(b)
            return bytes(out)

def zigzag(n, bits):
    return ((n << 1) ^ (n >> (bits - 1))) & ((1 << bits) - 1)

def unzigzag(n):
    return (n >> 1) ^ -(n & 1)

def read_uvarint(b, o):
    shift = 0; n = 0
    while True:
        if o >= len(b): raise DecodeError("eof in varint")
        x = b[o]; o += 1
        n |= (x & 0x7F) << shift
        shift += 7
        if not x & 0x80:
            return n, o
        if shift > 70: raise DecodeError("varint too long")


# ---------------- binary protocol ----------------
def enc_binary(v, alt=None):
    c = v[0]
    if c == "b":
        if not v[1]: return b"\x00"
        return bytes([alt.randrange(1, 256)]) if alt else b"\x01"
    if c == "y": return struct.pack(">b", v[1])
    if c == "h": return struct.pack(">h", v[1])
    if c == "i": return struct.pack(">i", v[1])
    if c == "l": return struct.pack(">q", v[1])
    if c == "d": return struct.pack(">Q", v[1])
    if c == "s": return struct.pack(">i", len(v[1])) + v[1]
    if c == "u": return v[1]
    if c == "S":
        out = b""
        for i, x in v[1]:
            out += bytes([tcode(x)]) + struct.pack(">h", i) + enc_binary(x, alt)
        return out + b"\x00"
    if c in "LT":
        return bytes([v[1]]) + struct.pack(">i", len(v[2])) + b"".join(enc_binary(x, alt) for x in v[2])
    return bytes([v[1], v[2]]) + struct.pack(">i", len(v[3])) + b"".join(enc_binary(a, alt) + enc_binary(b, alt) for a, b in v[3])


def need(b, o, n):
    if o + n > len(b): raise DecodeError("eof")

def dec_binary(ty, b, o=0, depth=0):
    if depth > 200: raise DecodeError("too deep")
    if ty == 2: need(b, o, 1); return ("b", b[o] != 0), o + 1
    if ty == 3: need(b, o, 1); return ("y", struct.unpack_from(">b", b, o)[0]), o + 1
    if ty == 6: need(b, o, 2); return ("h", struct.unpack_from(">h", b, o)[0]), o + 2
    if ty == 8: need(b, o, 4); return ("i", struct.unpack_from(">i", b, o)[0]), o + 4
    if ty == 10: need(b, o, 8); return ("l", struct.unpack_from(">q", b, o)[0]), o + 8
    if ty == 4: need(b, o, 8); return ("d", struct.unpack_from(">Q", b, o)[0]), o + 8
    if ty == 11:
        need(b, o, 4); n = struct.unpack_from(">i", b, o)[0]; o += 4
        if n < 0: raise DecodeError("negative length")
        need(b, o, n); return ("s", bytes(b[o:o + n])), o + n
    if ty == 16: need(b, o, 16); return ("u", bytes(b[o:o + 16])), o + 16
    if ty == 12:
        fs = []
        while True:
            need(b, o, 1); t = b[o]; o += 1
            if t == 0: return ("S", fs), o
            if t not in CT: raise DecodeError("bad field type %d" % t)
            need(b, o, 2); i = struct.unpack_from(">h", b, o)[0]; o += 2
            x, o = dec_binary(t, b, o, depth + 1)
            fs.append((i, x))
    if ty in (14, 15):
        need(b, o, 5); et = b[o]; n = struct.unpack_from(">i", b, o + 1)[0]; o += 5
        if et not in CT or n < 0: raise DecodeError("bad list header")
        xs = []
        for _ in range(n):
            x, o = dec_binary(et, b, o, depth + 1); xs.append(x)
        return ("T" if ty == 14 else "L", et, xs), o
    if ty == 13:
        need(b, o, 6); kt, vt = b[o], b[o + 1]; n = struct.unpack_from(">i", b, o + 2)[0]; o += 6
        if kt not in CT or vt not in CT or n < 0: raise DecodeError("bad map header")
        ps = []
        for _ in range(n):
            k, o = dec_binary(kt, b, o, depth + 1); x, o = dec_binary(vt, b, o, depth + 1); ps.append((k, x))
        return ("M", kt, vt, ps), o
    raise DecodeError("cannot decode type %d" % ty)


# ---------------- compact protocol ----------------
def etype(t, alt):
    if t == 2:
        return alt.choice([1, 2]) if alt else 1
    return CT[t]

def enc_compact(v, alt=None):
    c = v[0]
    if c == "b":
        # element position: false is 2 (the Apache libraries) or 0 (the protocol document's text)
        return b"\x01" if v[1] else (b"\x00" if alt and alt.random() < 0.35 else b"\x02")
    if c == "y": return struct.pack(">b", v[1])
    if c == "h": return uvarint(zigzag(v[1], 16))
    if c == "i": return uvarint(zigzag(v[1], 32))
    if c == "l": return uvarint(zigzag(v[1], 64))
    if c == "d": return struct.pack("<Q", v[1])
    if c == "s": return uvarint(len(v[1])) + v[1]
    if c == "u": return v[1]
    if c == "S":
        out = b""; last = 0
        for i, x in v[1]:
            t = (1 if x[1] else 2) if x[0] == "b" else CT[tcode(x)]
            delta = i - last
            short_ok = 1 <= delta <= 15
            if alt:
                use_short = short_ok and alt.random() < 0.6
            else:
                use_short = 1 <= delta <= 14                        # what most writers do; 15 is legal too
            if use_short:
                out += bytes([(delta << 4) | t])
            else:
                out += bytes([t]) + uvarint(zigzag(i, 16))
            if x[0] != "b":
                out += enc_compact(x, alt)
            last = i
        return out + b"\x00"
    if c in "LT":
        n = len(v[2]); t = etype(v[1], alt)
        if n <= 14 and not (alt and alt.random() < 0.4):
            out = bytes([(n << 4) | t])
        else:
            out = bytes([0xF0 | t]) + uvarint(n)
        return out + b"".join(enc_compact(x, alt) for x in v[2])
    n = len(v[3])
    if n == 0: return b"\x00"
    return uvarint(n) + bytes([(etype(v[1], alt) << 4) | etype(v[2], alt)]) + \
        b"".join(enc_compact(a, alt) + enc_compact(b, alt) for a, b in v[3])


def ctype_to_t(n):
    if n not in CT_INV: raise DecodeError("bad compact type %d" % n)
    return CT_INV[n]

def dec_compact(ty, b, o=0, depth=0):
    if depth > 200: raise DecodeError("too deep")
    if ty == 2:
        need(b, o, 1)
        if b[o] == 1: return ("b", True), o + 1
        if b[o] in (0, 2): return ("b", False), o + 1
        raise DecodeError("bad bool")
    if ty == 3: need(b, o, 1); return ("y", struct.unpack_from(">b", b, o)[0]), o + 1
    if ty in (6, 8, 10):
        n, o = read_uvarint(b, o)
        return ({6: "h", 8: "i", 10: "l"}[ty], unzigzag(n)), o
    if ty == 4: need(b, o, 8); return ("d", struct.unpack_from("<Q", b, o)[0]), o + 8
    if ty == 11:
        n, o = read_uvarint(b, o); need(b, o, n); return ("s", bytes(b[o:o + n])), o + n
    if ty == 16: need(b, o, 16); return ("u", bytes(b[o:o + 16])), o + 16
    if ty == 12:
        fs = []; last = 0
        while True:
            need(b, o, 1); h = b[o]; o += 1
            if h == 0: return ("S", fs), o
            t, delta = h & 15, h >> 4
            if delta == 0:
                n, o = read_uvarint(b, o); i = unzigzag(n)
            else:
                i = last + delta
            last = i
            if t == 1: fs.append((i, ("b", True))); continue
            if t == 2: fs.append((i, ("b", False))); continue
            x, o = dec_compact(ctype_to_t(t), b, o, depth + 1)
            fs.append((i, x))
    if ty in (14, 15):
        need(b, o, 1); h = b[o]; o += 1
        et = ctype_to_t(h & 15); n = h >> 4
        if n == 15: n, o = read_uvarint(b, o)
        xs = []
        for _ in range(n):
            x, o = dec_compact(et, b, o, depth + 1); xs.append(x)
        return ("T" if ty == 14 else "L", et, xs), o
    if ty == 13:
        n, o = read_uvarint(b, o)
        if n == 0: return ("M", 0, 0, []), o
        need(b, o, 1); h = b[o]; o += 1
        kt, vt = ctype_to_t(h >> 4), ctype_to_t(h & 15)
        ps = []
        for _ in range(n):
            k, o = dec_compact(kt, b, o, depth + 1); x, o = dec_compact(vt, b, o, depth + 1); ps.append((k, x))
        return ("M", kt, vt, ps), o
    raise DecodeError("cannot decode type %d" % ty)


def encode(pk, v, alt=None):
    return enc_compact(v, alt) if pk == "compact" else enc_binary(v, alt)

def decode(pk, ty, b):
    v, o = (dec_compact if pk == "compact" else dec_binary)(ty, b)
    return v, b[o:]


# ---------------- message envelope ----------------
def enc_msg(pk, name, mtype, seq, unused=0):
    if pk == "compact":
        return bytes([0x82, (mtype << 5) | 1]) + uvarint(seq & 0xFFFFFFFF) + uvarint(len(name)) + name
    return bytes([0x80, 0x01, unused, mtype]) + struct.pack(">i", len(name)) + name + struct.pack(">i", seq)

def dec_msg(pk, b):
    if pk == "compact":
        if len(b) < 2 or b[0] != 0x82 or (b[1] & 0x1F) != 1: raise DecodeError("bad compact header")
        mtype = b[1] >> 5
        n, o = read_uvarint(b, 2)
        seq = n & 0xFFFFFFFF
        if seq >= 1 << 31: seq -= 1 << 32
        ln, o = read_uvarint(b, o); need(b, o, ln)
        return bytes(b[o:o + ln]), mtype, seq, b[o + ln:]
    if len(b) < 4 or b[0] != 0x80 or b[1] != 0x01: raise DecodeError("bad version")
    mtype = b[3] & 7
    need(b, 4, 4); ln = struct.unpack_from(">i", b, 4)[0]
    if ln < 0: raise DecodeError("neg")
    need(b, 8, ln + 4)
    return bytes(b[8:8 + ln]), mtype, struct.unpack_from(">i", b, 8 + ln)[0], b[12 + ln:]
