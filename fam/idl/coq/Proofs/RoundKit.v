(* C15: shared kit for the production proofs -- what may follow a declaration, first bytes of printed text. *)
From PVIdl Require Import Comb Ast Parser Print Proofs.Total Proofs.RoundTok Proofs.RoundPath Proofs.RoundAnn Proofs.RoundTy.
From Coq Require Import ZifyN ZifyNat ZifyBool.
From Coq Require String.
Import String.StringSyntax.
Open Scope nat_scope.

(* ---------- classes of the first byte of what follows ---------- *)
(* [stop k]: k does not continue a declaration tail: not a blank start, not a list separator, not '(' (an annotation
   list), not a quote (a literal, which after the word cpp_type would be read as a cpp_type clause), not a '.' (which
   would continue a path), not a '=' (a default value) *)
Definition stopc (b : byte) : bool :=
  negb (blank_start b) && negb (bmem b [x2c; x3b]) && negb (Byte.eqb b x28) && negb (Byte.eqb b x27 || Byte.eqb b x22) &&
  negb (Byte.eqb b x2e) && negb (Byte.eqb b x3d).
Definition stop (k : list byte) : bool := hd_sat stopc k.
(* [wstop k]: k does not continue a word or a number: an ASCII byte that is not [A-Za-z0-9_] and not '.' *)
Definition wstopc (b : byte) : bool := N.ltb (bn b) 128 && negb (identch b) && negb (Byte.eqb b x2e).
Definition wstop (k : list byte) : bool := hd_sat wstopc k.
Definition noquote (k : list byte) : bool := hd_sat (fun b => negb (Byte.eqb b x27 || Byte.eqb b x22)) k.
Definition nodot (k : list byte) : bool := hd_sat (fun b => negb (Byte.eqb b x2e)) k.
Definition nid (k : list byte) : bool := hd_sat (fun b => negb (identch b)) k.

Lemma stop_nb k : stop k = true -> nb k = true.
Proof. apply hd_sat_imp. intros b H. unfold stopc in H. bsplit H. assumption. Qed.
Lemma stop_nosep k : stop k = true -> nosep k = true.
Proof. apply hd_sat_imp. intros b H. unfold stopc in H. bsplit H. assumption. Qed.
Lemma stop_noparen k : stop k = true -> noparen k = true.
Proof. apply hd_sat_imp. intros b H. unfold stopc in H. bsplit H. assumption. Qed.
Lemma stop_noquote k : stop k = true -> noquote k = true.
Proof. apply hd_sat_imp. intros b H. unfold stopc in H. bsplit H. assumption. Qed.
Lemma stop_nodot k : stop k = true -> nodot k = true.
Proof. apply hd_sat_imp. intros b H. unfold stopc in H. bsplit H. assumption. Qed.
Definition noeq (k : list byte) : bool := hd_sat (fun b => negb (Byte.eqb b x3d)) k.
Lemma stop_noeq k : stop k = true -> noeq k = true.
Proof. apply hd_sat_imp. intros b H. unfold stopc in H. bsplit H. assumption. Qed.
Lemma wstop_wordend k : wstop k = true -> wordend k = true.
Proof. apply hd_sat_imp. intros b H. unfold wstopc in H. bsplit H. now rewrite H, W0. Qed.
Lemma wstop_nid k : wstop k = true -> nid k = true.
Proof. apply hd_sat_imp. intros b H. unfold wstopc in H. bsplit H. exact W0. Qed.
Lemma wstop_nodot k : wstop k = true -> nodot k = true.
Proof. apply hd_sat_imp. intros b H. unfold wstopc in H. bsplit H. exact W. Qed.

(* blank starts belong to every "ends a word" class *)
Lemma bs_nid b : blank_start b = true -> negb (identch b) = true.
Proof. intros H. now rewrite (blank_start_not_identch b H). Qed.
Lemma bs_wstop b : blank_start b = true -> wstopc b = true.
Proof. destruct b; vm_compute; intro H; try reflexivity; discriminate H. Qed.
Lemma bs_nodot b : blank_start b = true -> negb (Byte.eqb b x2e) = true.
Proof. destruct b; vm_compute; intro H; try reflexivity; discriminate H. Qed.
Lemma bs_noquote b : blank_start b = true -> negb (Byte.eqb b x27 || Byte.eqb b x22) = true.
Proof. destruct b; vm_compute; intro H; try reflexivity; discriminate H. Qed.
Lemma bs_noparen b : blank_start b = true -> negb (Byte.eqb b x28) = true.
Proof. destruct b; vm_compute; intro H; try reflexivity; discriminate H. Qed.
Lemma bs_nosep b : blank_start b = true -> negb (bmem b set_list_separator) = true.
Proof. destruct b; vm_compute; intro H; try reflexivity; discriminate H. Qed.
#[export] Hint Resolve bs_nid bs_wstop bs_nodot bs_noquote bs_noparen bs_nosep blank_start_wordend : bsdb.

(* identifier heads *)
Lemma idh_stop b : (is_alpha b || is_underscore b) = true -> stopc b = true.
Proof. destruct b; vm_compute; intro H; try reflexivity; discriminate H. Qed.
Lemma ident_stop s k : is_ident s = true -> stop (s ++ k) = true.
Proof.
  destruct s as [|h t]; [discriminate|]. cbn [is_ident]. intros H. apply andb_prop in H. destruct H as [H _].
  unfold stop. cbn [app hd_sat]. now apply idh_stop.
Qed.
Lemma idh_nodot b : (is_alpha b || is_underscore b) = true -> negb (Byte.eqb b x2e) = true.
Proof. destruct b; vm_compute; intro H; try reflexivity; discriminate H. Qed.
Lemma ident_nodot s k : is_ident s = true -> nodot (s ++ k) = true.
Proof.
  destruct s as [|h t]; [discriminate|]. cbn [is_ident]. intros H. apply andb_prop in H. destruct H as [H _].
  unfold nodot. cbn [app hd_sat]. now apply idh_nodot.
Qed.
Lemma idh_nolt b : (is_alpha b || is_underscore b) = true -> negb (Byte.eqb b x3c) = true.
Proof. destruct b; vm_compute; intro H; try reflexivity; discriminate H. Qed.
Lemma ident_nolt s k : is_ident s = true -> nolt (s ++ k) = true.
Proof.
  destruct s as [|h t]; [discriminate|]. cbn [is_ident]. intros H. apply andb_prop in H. destruct H as [H _].
  unfold nolt. cbn [app hd_sat]. now apply idh_nolt.
Qed.
Lemma ident_noparen s k : is_ident s = true -> noparen (s ++ k) = true.
Proof. intros H. apply stop_noparen, ident_stop, H. Qed.
Lemma ident_noquote s k : is_ident s = true -> noquote (s ++ k) = true.
Proof. intros H. apply stop_noquote, ident_stop, H. Qed.

Lemma dot_err k : nodot k = true -> is_perr (tag sym_path_dot k).
Proof.
  intros H. destruct k as [|b k]; [exact I|]. apply tag_hd_ne. cbn in H. now apply negb_true_iff in H.
Qed.

(* first byte of an optional annotation list / an optional separator followed by k *)
Lemma oanns_head (f : byte -> bool) a k : f x28 = true -> hd_sat f k = true -> hd_sat f (pr_oanns a k) = true.
Proof. intros H1 Hk. destruct a; cbn [pr_oanns pr_anns]; auto. Qed.

(* the literal parser fails on anything that does not start with a quote *)
Lemma lit_err lf k : noquote k = true -> is_perr (p_literal lf k).
Proof.
  intros H. unfold p_literal. destruct k as [|b k]; [exact I|]. cbn in H. apply negb_true_iff, orb_false_elim in H.
  destruct H as [H1 H2].
  rewrite alt_err by (unfold p_single_quote, p_quote_parser; apply pbind_err, tag_hd_ne, H1).
  apply alt_last_err. unfold p_double_quote, p_quote_parser. apply pbind_err, tag_hd_ne, H2.
Qed.

Section Kit.
Variable lf : nat.
Variable whole : list byte.
Hypothesis Hlf : length whole < lf.

(* a name (any identifier, including the word cpp_type) followed by an optional blank and something that is not a
   literal is not read as a cpp_type clause *)
Lemma name_not_cpp s bl rest : is_ident s = true -> wf_blank bl = true -> nb rest = true -> noquote rest = true ->
  (bl = [] -> nid rest = true) -> sfx (pr_blank bl rest) whole ->
  is_perr (p_cpp_type lf (s ++ pr_blank bl rest)).
Proof.
  intros Hs Hw Hn Hq Hi S.
  assert (Hrest : nid (pr_blank bl rest) = true) by (apply blank_then; auto with bsdb).
  destruct (bytes_eq s kw_cpp_type) eqn:E.
  - apply bytes_eq_eq in E. subst s. unfold p_cpp_type. rewrite tag_ok. cbn [pbind]. destruct bl as [|a bl].
    + cbn [pr_blank]. apply pbind_err, blank_err, Hn.
    + rewrite (rt_blank lf (a :: bl) rest Hw ltac:(discriminate) Hn (sfx_lt lf whole _ Hlf S)). cbn [pbind].
      now apply lit_err.
  - apply (container_word_err kw_cpp_type (fun i => do i, _ <- p_blank lf i ;; p_literal lf i) s _ eq_refl Hs Hrest E).
    intros c r Hc. apply pbind_err. now apply identch_not_blank.
Qed.

(* what follows a type in the productions "T <blank> name ..." : the name, then an optional blank, then [rest] *)
Lemma tyfollow_name e b s bl rest : wf_blank b = true -> (b = [] -> e = false) -> is_ident s = true ->
  wf_blank bl = true -> nb rest = true -> noquote rest = true -> (bl = [] -> nid rest = true) ->
  sfx (pr_blank bl rest) whole ->
  tyfollow lf e (pr_blank b (s ++ pr_blank bl rest)).
Proof.
  intros Hb He Hs Hw Hn Hq Hi S. exists b, (s ++ pr_blank bl rest). split; [reflexivity|]. split; [exact Hb|].
  split; [now apply ident_nb|]. split; [now apply name_not_cpp|].
  split; [apply dot_err; now apply ident_nodot|].
  split; [apply noparen_noann; now apply ident_noparen|].
  split; [now apply ident_nolt|].
  intros -> E. rewrite (He eq_refl) in E. discriminate.
Qed.

(* an optional annotation list *)
Lemma oanns_ok a k : wf_oanns a = true -> (a = None -> noparen k = true) -> sfx (pr_oanns a k) whole ->
  opt (p_annotations lf) (pr_oanns a k) = POk k (option_map erase_anns a).
Proof.
  intros Hw Hn S. destruct a as [l|]; cbn [pr_oanns wf_oanns option_map] in *.
  - apply opt_ok. now apply (rt_anns lf whole Hlf).
  - apply opt_err, noparen_noann, Hn. reflexivity.
Qed.

(* an optional list separator at the end of a declaration *)
Lemma osep_ok s k : wf_sep s = true -> nb k = true -> nosep k = true -> sfx (pr_sep s k) whole ->
  exists o, opt (p_list_separator lf) (pr_sep s k) = POk k o.
Proof. intros Hw H1 H2 S. apply rt_sep; auto. eapply sfx_lt; eauto. Qed.

End Kit.

Lemma unwrap_oanns a : unwrap_or_default (option_map erase_anns a) = erase_oanns a.
Proof. destruct a; reflexivity. Qed.

(* first-byte goals: peel optional annotation lists and separators by cases, blanks by [blank_then]; close with the
   assumptions [stop k] / [.. -> wstop k] about the text that follows the declaration *)
Ltac hd_close :=
  first
    [ assumption
    | reflexivity
    | apply stop_nb; assumption | apply stop_nosep; assumption | apply stop_noparen; assumption
    | apply stop_noquote; assumption | apply stop_nodot; assumption
    | apply wstop_nid; assumption | apply wstop_wordend; assumption | apply wstop_nodot; assumption
    | match goal with H : _ -> wstop ?k = true |- hd_sat _ ?k = true =>
        first [apply wstop_nid | apply wstop_wordend | apply wstop_nodot | idtac]; apply H; reflexivity end
    | match goal with H : stop ?k = true |- hd_sat _ ?k = true => revert H; apply hd_sat_imp; intros b Hb;
        unfold stopc in Hb; bsplit Hb; cbn beta; repeat (apply andb_true_intro; split); assumption end ].

Ltac hdt :=
  unfold nid, nosep, noparen, noquote, nodot, nb, wordend;
  repeat first
    [ hd_close
    | match goal with |- hd_sat _ (pr_oanns ?a _) = true => destruct a; cbn [pr_oanns pr_anns app txt] end
    | match goal with |- hd_sat _ (pr_sep ?s _) = true => destruct s as [|[|] ?]; cbn [pr_sep sep_byte] end
    | match goal with |- hd_sat _ (pr_blank ?b _) = true =>
        apply blank_then; [assumption | intros ? ?; auto with bsdb | let E := fresh in intros E; try subst] end ].

(* the optional annotation list / the optional separator of a declaration tail *)
Ltac oanns_step lf whole Hlf S :=
  match goal with |- context [opt (p_annotations _) (pr_oanns ?a ?k)] =>
    rewrite (oanns_ok lf whole Hlf a k ltac:(assumption) ltac:(intros ->; hdt) ltac:(sfx_of S)); cbn [pbind] end.
Ltac osep_step lf whole Hlf S :=
  match goal with |- context [opt (p_list_separator _) (pr_sep ?s ?k)] =>
    let o := fresh "o" in
    destruct (osep_ok lf whole Hlf s k ltac:(assumption) ltac:(hdt) ltac:(hdt) ltac:(sfx_of S)) as [o ->]; cbn [pbind] end.
