(* C10 -- Protobuf decoders are total and bounded on arbitrary bytes.
   Only statements, each closed by [exact] of a lemma proved in Proofs/, with Print Assumptions beneath.
   RECURSION_LIMIT is [recursion_limit] of Generated/PbConsts.v (regenerated from pilota/src/prost/mod.rs on
   every run); enter_recursion is a CHECKED decrement whose underflow is the outcome [OPanic SEnterRecursion],
   so "limit_reached is tested first" is proved, not assumed. *)
From PVPb Require Import Wire Codec Msg Proofs.WireP Proofs.TotalP Proofs.DepthP Proofs.ShapeP Proofs.DefaultP.
Open Scope Z_scope.

(* C10_total: for EVERY decoder entry point (the three varint paths, keys, length delimiters, <module>::merge
   and merge_repeated of every module name with every wire type, skip_field incl. groups, Message::decode /
   merge / decode_length_delimited of every message of every schema into every start value, the wrapper
   impls of types.rs) and EVERY byte string the outcome is a value or a DecodeError: never a panic outcome
   (Buf::advance beyond the end, get_unchecked, arithmetic overflow, recurse_count underflow,
   unreachable!()), never out of fuel with the model's fuel = remaining bytes + 1 per loop and
   depth budget RECURSION_LIMIT + 1. *)
Theorem C10_total : forall (d : decoder) (l : list byte) (a : Z), total (run d (mkR l a)).
Proof. exact total_all. Qed.
Print Assumptions C10_total.

(* for the generated messages of a well-formed schema the two artefacts of the model are both excluded: the outcome
   of Message::decode is a value in the shape of its descriptor with the input consumed, or one of the
   implementation's DecodeErrors -- not a panic, not out-of-fuel, not ill-typed *)
Theorem C10_total_generated : forall sc i l a, schema_ok sc = true -> (i < length sc)%nat ->
  match msg_decode sc i (mkR l a) with
  | OOk x s' => shaped sc i x /\ rb s' = []
  | OErr e _ => real_err e
  | OPanic _ => False
  end.
Proof. exact msg_decode_total. Qed.
Print Assumptions C10_total_generated.

(* C10_alloc: the allocation ghost counter on exit (value or error) is at most the input length (c = 1;
   strings / bytes charge the checked length, Vec::push and map insert one unit per element that consumed at
   least one byte), and the buffer never grows *)
Theorem C10_alloc : forall (d : decoder) (l : list byte),
  alloc_le (Z.of_nat (length l)) (run d (mkR l 0)) /\
  match run d (mkR l 0) with OOk _ s' | OErr _ s' => (length (rb s') <= length l)%nat | OPanic _ => False end.
Proof. exact alloc_all. Qed.
Print Assumptions C10_alloc.

(* the invariant behind both, from every reader state *)
Theorem C10_invariant : forall (d : decoder) (s : rd), sound s (run d s).
Proof. exact run_sound. Qed.
Print Assumptions C10_invariant.

(* C10_recursion, depth: merge_field recurses natively once per embedded message; a native depth budget of
   ctx + 1 <= RECURSION_LIMIT + 1 activations is never exhausted (POutOfFuel is excluded by [sound]), for every
   schema, message, value, field number, wire type and input; same for skip_field (one level per group),
   whose depth argument is moreover irrelevant above the DecodeContext budget *)
Theorem C10_recursion_depth_message : forall d sc i x tag wt ctx s,
  0 <= ctx <= recursion_limit -> ctx < Z.of_nat d -> sound s (merge_field d sc i x tag wt ctx s).
Proof. exact merge_field_sound. Qed.
Print Assumptions C10_recursion_depth_message.

Theorem C10_recursion_depth_skip : forall d wt tag ctx s,
  0 <= ctx < Z.of_nat d -> sound s (skip_field d wt tag ctx s).
Proof. exact skip_field_sound. Qed.
Print Assumptions C10_recursion_depth_skip.

Theorem C10_recursion_depth_skip_exact : forall wt tag ctx s, 0 <= ctx <= recursion_limit ->
  skip_field depth_fuel wt tag ctx s = skip_field (S (Z.to_nat ctx)) wt tag ctx s.
Proof. exact skip_field_native_depth. Qed.
Print Assumptions C10_recursion_depth_skip_exact.

(* C10_recursion, limit: a nest of embedded messages (through singular / optional / repeated / oneof fields)
   and map entries with message values that needs more than RECURSION_LIMIT units (1 per message, 2 per map
   entry) is rejected by Message::decode with "recursion limit reached", for every schema that allows the path *)
Theorem C10_recursion_messages : forall sc i path leaf a,
  msg_path sc i path -> recursion_limit < path_cost path -> zlen (nest path leaf) < two64 ->
  exists s', msg_decode sc i (mkR (nest path leaf) a) = OErr PRecursion s'.
Proof. exact deep_nest_rejected. Qed.
Print Assumptions C10_recursion_messages.

(* ... groups in skip_field: ctx further group starts exhaust a budget of ctx *)
Theorem C10_recursion_groups : forall tags d tag ctx r a,
  Forall tag_ok tags -> 0 <= ctx <= Z.of_nat (length tags) -> ctx < Z.of_nat d ->
  exists s', skip_field d StartGroup tag ctx (mkR (group_starts tags ++ r) a) = OErr PRecursion s'.
Proof. exact skip_groups_rejected. Qed.
Print Assumptions C10_recursion_groups.

(* ... and unknown groups below a generated message: RECURSION_LIMIT + 1 group starts *)
Theorem C10_recursion_groups_message : forall (sc : schema) i (fs : msgdesc) t tags r a,
  nth_error sc i = Some fs -> find_field fs t = None -> Forall tag_ok (t :: tags) ->
  recursion_limit <= Z.of_nat (length tags) ->
  exists s', msg_decode sc i (mkR (group_starts (t :: tags) ++ r) a) = OErr PRecursion s'.
Proof. exact deep_groups_rejected. Qed.
Print Assumptions C10_recursion_groups_message.

(* C10_len_before_copy: when the next thing in the buffer is a length prefix exceeding what remains behind
   it, the decoder answers with a DecodeError and the allocation ghost counter is unchanged -- string, bytes
   (both merge and merge_one_copy), faststr: *)
Theorem C10_len_before_copy_scalar : forall m s, oversized s -> rejected_uncopied s (merge_scalar m LengthDelimited s).
Proof. exact merge_scalar_rejects. Qed.
Print Assumptions C10_len_before_copy_scalar.

(* packed repeated fields, repeated strings / bytes *)
Theorem C10_len_before_copy_repeated : forall m vs s, oversized s -> rejected_uncopied s (merge_repeated m LengthDelimited vs s).
Proof. exact merge_repeated_rejects. Qed.
Print Assumptions C10_len_before_copy_repeated.

(* unknown length-delimited fields *)
Theorem C10_len_before_copy_skip : forall d tag ctx s, oversized s -> rejected_uncopied s (skip_field d LengthDelimited tag ctx s).
Proof. exact skip_field_rejects. Qed.
Print Assumptions C10_len_before_copy_skip.

(* every LengthDelimited record of every generated message: whatever the field number is declared as
   (scalar of any type, string, bytes, embedded message, repeated / packed, map, oneof member) or not at all *)
Theorem C10_len_before_copy_message : forall d sc i x tag ctx s, 0 <= ctx -> oversized s ->
  rejected_uncopied s (merge_field d sc i x tag LengthDelimited ctx s).
Proof. exact merge_field_rejects. Qed.
Print Assumptions C10_len_before_copy_message.

(* ---- Default::default() (Message::decode starts from it).  schema_ok demands [required_acyclic]: no by-value cycle of
   REQUIRED message fields.  Under it the fuel of the model's default_msg is never used up (every fuel above |sc| gives the
   same value): the model's default is the derived Default, which terminates. *)
Theorem C10_default_terminates : forall sc i d d', schema_ok sc = true -> (i < length sc)%nat ->
  (length sc < d)%nat -> (length sc < d')%nat -> default_msg d sc i = default_msg d' sc i.
Proof. exact default_terminates. Qed.
Print Assumptions C10_default_terminates.

(* REFUTED without it (finding F-10a, reproduced with the real pilota-build + rustc: `message A { required A a = 1; }` is
   accepted, `A::decode(&[][..])` overflows the stack in the derived Default and the process aborts): the schema passes every
   other clause of schema_ok and its default has no fixpoint -- one more level per unit of fuel.  Every C10 statement above is
   about schemas that exclude this case. *)
Theorem C10_required_cycle_refuted :
  let sc := [[FSingular 1 (TMsg 0)]] in
  forallb (msgdesc_ok sc) sc = true /\ required_acyclic sc = false /\ schema_ok sc = false /\
  forall d, vdepth (default_msg d sc 0) = S d.
Proof. exact required_cycle_refuted. Qed.
Print Assumptions C10_required_cycle_refuted.

(* finding F-10b REPAIRED (pilota f4282b1: faststr::merge = merge_one_copy + the checked FastStr::from_bytes; before it the
   bytes went through from_bytes_unchecked and ff fe decoded to Ok): the module selected for a declared `string` has, on every
   wire type and every input, the outcome of string::merge ... *)
Theorem C10_faststr_validates_repaired :
  faststr_validates = true (* regenerated: the body of faststr::merge is merge_one_copy + checked from_bytes, nothing else *) /\
  forall wt s, merge_scalar MFastStr wt s = merge_scalar MString wt s.
Proof. exact faststr_merge_is_string_merge. Qed.
Print Assumptions C10_faststr_validates_repaired.

(* ... so whatever the bytes, a decoded generated `string` (FastStr) or String holds valid UTF-8 *)
Theorem C10_decoded_string_utf8 : forall m wt s v s', m = MFastStr \/ m = MString ->
  merge_scalar m wt s = OOk v s' -> utf8_valid (vbytes v) = true.
Proof. exact decoded_string_utf8. Qed.
Print Assumptions C10_decoded_string_utf8.

(* the witness of the finding is rejected now, by the module and by a generated message; valid UTF-8 is accepted *)
Theorem C10_faststr_rejects_invalid_utf8 :
  scalar_module TYPE_STRING = Some MFastStr /\
  utf8_valid [xff; xfe] = false /\
  (exists s, merge_scalar MFastStr LengthDelimited (mkR [x02; xff; xfe] 0) = OErr PUtf8 s) /\
  (exists s, msg_decode [[FOptional 1 (TScalar TYPE_STRING)]] 0 (mkR [x0a; x02; xff; xfe] 0) = OErr PUtf8 s) /\
  (exists s, msg_decode [[FOptional 1 (TScalar TYPE_STRING)]] 0 (mkR [x0a; x02; xc3; xa9] 0)
             = OOk (VL NMsg [VL NSome [VB [xc3; xa9]]]) s).
Proof. exact faststr_rejects_invalid_utf8. Qed.
Print Assumptions C10_faststr_rejects_invalid_utf8.

(* audit item 4, first step: the post-condition `shaped` of C10_total_generated now says something about scalars -- a
   declared `string` in singular / optional / oneof position of a decoded message holds valid UTF-8 (scalar_shape in
   shaped_ty).  Elements of repeated fields and map entries are still unconstrained by `shaped` (their UTF-8 validity is
   C10_decoded_string_utf8 at the module level); full typing `exists d, wt_msg d sc i x` is not proved. *)
Theorem C10_shaped_string_utf8 : forall sc p x, shaped_ty sc (TScalar p) x -> scalar_module p = Some MFastStr ->
  utf8_valid (vbytes x) = true.
Proof. exact shaped_string_utf8. Qed.
Print Assumptions C10_shaped_string_utf8.
