"""C11 -- the unchecked binary codec equals the checked one within its contract (primitive level)."""
import random, re
from .. import core, thriftgen as tg
from . import c01, c07, c09

BKS = ["contig", "linked", "linked_zc"]


def gen_cases(rng, n):
    urt, usk = [], []
    fixed = c07.FIXED + ["L11,2 s" + "ab" * 4096 + " s6162", "M11,11,1 s61 s" + "ab" * 4100, "T11,1 s" + "cd" * 4095, "s" + "ab" * 4096, "s" + "cd" * 4095, "S2 f1 s" + "ef" * 5000 + " f2 i7", "L11,2 s" + "01" * 4096 + " s02",
                         "S3 f1 b1 f2 y-1 f3 d4609434218613702656", "S1 f1 S1 f2 S1 f3 l-9223372036854775808"]
    vals = list(fixed)
    while len(vals) < n // 4:
        vals.append(tg.gen_top(rng, rng.choice([1, 2, 3, 4, 5])))
    for v in vals:
        for bk in BKS:
            k = rng.choice([1, 1, 2, 3])
            vs = [v] + [tg.gen_top(rng, 2) for _ in range(k - 1)]
            slack = rng.choice([0, 0, 0, 1, 7, 64])
            rest = bytes(rng.randrange(256) for _ in range(rng.choice([0, 0, 1, 5])))
            urt.append("urt %s %d %s %d %s" % (bk, slack, tg.hx(rest), k, " ".join(vs)))
    for v in fixed + c07.deep_values() + [tg.gen_top(rng, rng.choice([1, 2, 3, 4])) for _ in range(n // 6)]:
        usk.append((v, rng.choice(["i7", "S1 f1 b1", "s6162", "y-1", "L3,2 y1 y2"])))
    return urt, usk


def run_prim(chk, replay=None):
    gate, hb = core.std_setup(chk)
    rng = random.Random(chk.seed)
    n = 3000 if chk.tier == "quick" else 400000
    have_model = gate is not None and core.os.path.exists(core.RUNNER)
    urt, usk = gen_cases(rng, n)
    failing, mism, dist = [], [], {}
    compared = oracled = 0
    def bump(k): dist[k] = dist.get(k, 0) + 1
    # checked encodings (implementation) of the same value sequences / single values
    chk_lines = ["rt binary contig - %s" % c.split(" ", 4)[4] for c in urt]
    enc_lines = sorted(set("rt binary contig - 1 %s" % v for v, _ in usk) | set("rt binary contig - 1 %s" % f for _, f in usk))
    bins = [("debug", hb)] if hb else []
    if hb and chk.tier == "thorough":
        ok, hb2, _ = core.build_harness(release=True)
        if ok:
            bins.append(("release", hb2))
    for prof, b in bins:
        ch = core.run_lines(b, chk_lines)
        uo = core.run_lines(b, urt)
        mo = core.run_lines(core.RUNNER, urt) if have_model else None
        for i, (c, o, co) in enumerate(zip(urt, uo, ch)):
            t = c.split(" ")
            bk, slack, rest, k = t[1], int(t[2]), t[3], int(t[4])
            if prof == "debug":
                chk.count(c, tg.nontrivial(t[5:])); bump("urt_" + bk)
            why = None
            if not o.startswith("W "):
                why = "unchecked writer failed / crashed: " + o[:80]
            elif not co.startswith("W "):
                why = None
            else:
                ot, ct = o.split(" "), co.split(" ")
                nbytes = 0 if ct[1] == "-" else len(ct[1]) // 2
                if ot[1] != ct[1]:
                    why = "unchecked writer wrote different bytes than the checked binary writer"
                elif int(ot[ot.index("L") + 1]) != nbytes:
                    why = "size pass of the unchecked protocol reported %s for %d bytes" % (ot[ot.index("L") + 1], nbytes)
                elif bk == "contig" and int(ot[ot.index("I") + 1]) != nbytes:
                    why = "index() after encoding is %s, bytes written %d" % (ot[ot.index("I") + 1], nbytes)
                elif "ORACLE-FAIL unchecked-write" in o:
                    why = "write flavours of the unchecked writer disagree: " + o[o.index("ORACLE-FAIL"):][:120]
                elif "GUARD-BROKEN" in o:
                    why = "unchecked writer wrote outside the buffer it was given (guard bytes overwritten)"
                elif " R " not in o:
                    why = "unchecked reader failed on a well-formed input: " + o[o.index(" I "):][:80]
                else:
                    r = o[o.index(" R ") + 3:].split(" ")
                    j = r.index("REM")
                    want = co[co.index(" R ") + 3:].split(" ")
                    jw = want.index("REM")
                    if r[:j] != want[:jw]:
                        why = "unchecked reader decoded a different value than the checked reader"
                    elif int(r[j + 1]) != (0 if rest == "-" else len(rest) // 2):
                        why = "unchecked reader accounted for %d bytes too many" % ((0 if rest == "-" else len(rest) // 2) - int(r[j + 1]))
                    elif "ORACLE-FAIL" in o:
                        why = o[o.index("ORACLE-FAIL"):]
            if why:
                failing.append((c, "%s [%s build]" % (why, prof), o))
            oracled += 1
            if mo is not None and i < len(mo) and c09.answered(o) and c09.answered(mo[i]):
                compared += 1
                if c09.strip_impl(o).replace(" GUARD-BROKEN", "") != re.sub(r"panic \w+", "panic", mo[i]):
                    mism.append(("urt", c, o, mo[i]))
            elif mo is not None and (i >= len(mo) or c09.answered(o) != c09.answered(mo[i])):
                mism.append(("urt", c, o, mo[i] if i < len(mo) else ""))
        # enveloped messages: write_message_begin + value (+ several messages on one protocol object) through the unchecked
        # codec must give the bytes and the read-back of the checked binary codec
        mrt_u = [c for c in c01.gen_msg_cases(random.Random(chk.seed + 11), max(90, n // 12)) if c.split(" ")[1] == "unsafe"]
        mrt_c = ["mrt binary contig sync " + c.split(" ", 4)[4] for c in mrt_u]
        uo2, co2 = core.run_lines(b, mrt_u), core.run_lines(b, mrt_c)
        mo2 = core.run_lines(core.RUNNER, mrt_u) if have_model else None
        for i, (c, o, co) in enumerate(zip(mrt_u, uo2, co2)):
            if prof == "debug":
                chk.count(c, True); bump("mrt_unsafe_" + c.split(" ")[2])
            why = c01.msg_oracle(c, o)
            if why is None and o != co:
                why = "unchecked codec differs from the checked binary codec on an enveloped message sequence"
            if why:
                failing.append((c, "%s [%s build]" % (why, prof), o))
            oracled += 1
            if mo2 is not None and i < len(mo2) and c09.answered(o) and c09.answered(mo2[i]):
                compared += 1
                if o != re.sub(r"panic \w+", "panic", mo2[i]):
                    mism.append(("mrt", c, o, mo2[i]))
            elif mo2 is not None and (i >= len(mo2) or c09.answered(o) != c09.answered(mo2[i])):
                mism.append(("mrt", c, o, mo2[i] if i < len(mo2) else ""))
        # iterative skipper
        enc = dict(zip(enc_lines, core.run_lines(b, enc_lines)))
        sk_lines, sk_meta = [], []
        for v, f in usk:
            ev, ef = enc["rt binary contig - 1 %s" % v], enc["rt binary contig - 1 %s" % f]
            if not (ev.startswith("W ") and ef.startswith("W ")):
                continue
            bv, bf = ev.split(" ")[1], ef.split(" ")[1]
            bv = "" if bv == "-" else bv
            pad = "00" * 16          # keeps fast-path index arithmetic inside the buffer for the follow-up read
            sk_lines.append("usk %d %s %d" % (c07.CODE[v[0]], bv + bf + pad, c07.CODE[f[0]]))
            sk_meta.append((len(bv) // 2, f.split(" "), 16, c07.vdepth(v.split(" "))))
        so = core.run_lines(b, sk_lines)
        smo = core.run_lines(core.RUNNER, sk_lines) if have_model else None
        for i, (c, (elen, ftoks, trail, depth), o) in enumerate(zip(sk_lines, sk_meta, so)):
            if prof == "debug":
                chk.count(c, True); bump("usk_depth_" + ("<=8" if depth <= 8 else "9..64" if depth <= 64 else ">64"))
            t = o.split(" ")
            why = None
            if not o.startswith("ok "):
                why = "iterative skipper failed on a well-formed value: " + o[:80]
            elif t[1] != str(elen):
                why = "iterative skipper reported %s bytes, the value occupies %d" % (t[1], elen)
            elif "NEXT" not in t or "REM" not in t:
                why = "the value following the skipped one no longer decodes: " + o[:80]
            else:
                j = t.index("NEXT"); r = t[j + 1:]; jr = r.index("REM")
                if r[:jr] != ftoks:
                    why = "the value following the skipped one decodes differently"
                elif int(r[jr + 1]) != trail:
                    why = "skip + following value consumed %d bytes too many" % (trail - int(r[jr + 1]))
            if why:
                failing.append((c, "%s [%s build]" % (why, prof), o))
            oracled += 1
            if smo is not None and i < len(smo) and c09.answered(o) and c09.answered(smo[i]):
                compared += 1
                if o != re.sub(r"panic \w+", "panic", smo[i]):
                    mism.append(("usk", c, o, smo[i]))
            elif smo is not None and (i >= len(smo) or c09.answered(o) != c09.answered(smo[i])):
                mism.append(("usk", c, o, smo[i] if i < len(smo) else ""))
    chk.cov["rule"] = ("urt: value sequences (fixed list incl. payloads on both sides of the 4096-byte zero-copy threshold + generated trees) x "
                       "{pre-sized BytesMut, LinkedBytes spare capacity zero-copy off/on} x slack {0,1,7,64} x trailing bytes: unchecked output == "
                       "checked binary output, size == bytes, guard bytes after every allocation intact, unchecked decode == checked decode, cursor "
                       "accounting exact. usk: iterative skipper after a field header on values of every wire type, nesting 1..80: count == "
                       "encoded length, following value intact. mrt unsafe: 1-3 enveloped messages on one unchecked writer / reader == "
                       "the checked binary codec on the same sequence. non-trivial = containers; distinct by SHA-1")
    chk.sample(urt[0][:300]); chk.sample(urt[len(urt) // 2][:300])
    chk.cov["disagreements_checked"] = compared
    chk.cov["oracle_checked"] = oracled
    chk.cov["model_impl_mismatches"] = len(mism)
    chk.cov["distribution"] = dist
    for c, why, o in failing[:3]:
        chk.violation("C11 fails on the implementation: " + why, dict(kind="case", case=c[:3000], impl_output=o[:400]))
    if not failing:
        if mism:
            name, c, o, m = mism[0]
            chk.violation("correspondence %s broken: unchecked-codec model and implementation disagree (%d cases) but every oracle held" % (name, len(mism)),
                          dict(kind="correspondence", correspondence=name + " (coq/Thrift/Unsafe.v vs binary_unsafe.rs)", case=c[:3000], impl_output=o[:400], model_output=m[:400]), no_input=True)
        if not gate["ok"]:
            chk.violation("proof obligation broken: %s (%s)" % (gate.get("failed"), gate.get("error", "")[:300]),
                          dict(kind="proof", theorem_file="coq/Properties/C11.v", failed=gate.get("failed"),
                               error=gate.get("error"), theorems=gate["theorems"]), no_input=True)
    return chk.finish()


def run(chk, replay=None):
    """primitive level (value interpreter over the runtime API) + generated-code level (code emitted by the real
    pilota-build, gen family); a replay file belongs to exactly one of them"""
    from .. import genextra
    is_gen = replay is not None and isinstance(replay.get("case"), dict)
    parts = []
    if replay is None or not is_gen:
        parts.append(("primitive", lambda c: run_prim(c, replay)))
    if replay is None or is_gen:
        parts.append(("generated", lambda c: genextra.run_c11g(c, replay, prop="C11")))
    return chk.run_parts(parts)
