(* C09, memory: the value interpreter instrumented with a ghost allocation counter.

   The reader state of Proto.v has no allocation counter, so this file threads one beside it:
   an instrumented reader returns its outcome AND the counter at the end -- also when the outcome is
   an error or a panic (what was requested before the failure has been requested).  The counter is
   charged at every site where the Rust readers / the interpreter allocate from a wire-supplied
   number (sites of Generated/ReaderSites.v accounted for with [AllocBounded] in Thrift/Sites.v):

   * in-memory readers, byte strings (binary.rs / binary_le.rs / compact.rs read_bytes_vec:
     `split_to_checked(trans, len)?.into()`, read_string -> rw_ext.rs read_to_string: `vec![0; len]`
     after `assert_remaining!(len <= remaining)`): [len] bytes, charged AFTER the length test
     succeeded (read_bytes / read_faststr are zero-copy and allocate nothing; the model charges the
     most expensive flavour);
   * asynchronous readers, byte strings (rw_ext.rs read_exact_to_vec, called by read_bytes_vec of the
     three async protocols): `vec![0; len]` when len <= PREALLOC_LIMIT -- requested BEFORE any byte
     is received --, otherwise `Vec::with_capacity(PREALLOC_LIMIT)` followed by
     `take(len).read_to_end(&mut v)`, whose buffer grows (amortised doubling) with the bytes actually
     received: at most 2 * min(len, bytes the stream delivers).  PREALLOC_LIMIT is regenerated
     (Generated/ReaderSites.v [prealloc_limit]) and the translator checks the shape of the function;
   * containers: the interpreter (harness/src/interp.rs, asyncrd.rs) builds `Vec::new()` and pushes
     each element / field / map entry it has read: 1 unit per pushed element ([pre = false]).
     A client that preallocates from the header instead (`Vec::with_capacity(ident.size)`, what the
     emitted sync decoders do) is the mode [pre = true]: the announced size is charged at the header
     and pushes are free.  Struct fields are pushed in both modes;
   * compact read_struct_begin: `read_field_id_stack.push(last_read_field_id)`: 1 slot per struct begun
     (the stack is popped by read_struct_end; the counter is cumulative, an upper bound of the peak).

   Units: bytes for byte strings, elements (value slots) for containers.
   No proofs here; Proofs/AllocP.v: erasing the counter gives read_val / aread_val, and the bounds. *)
From PV Require Export Thrift.Async.
From PV Require Import Generated.ReaderSites.
Open Scope Z_scope.

Definition ares (A : Type) : Type := (res (A * rst) * Z)%type.
Definition am (A : Type) : Type := rst -> Z -> ares A.

Definition alift {A} (m : rm A) : am A := fun s a => (m s, a).
Definition abind {A B} (x : ares A) (f : A -> am B) : ares B :=
  match fst x with
  | Ok (v, s) => f v s (snd x)
  | Err e => (Err e, snd x)
  | Panic st => (Panic st, snd x)
  end.

(* ---- byte strings ---- *)

(* sync: r_len, then split_to_checked / read_to_string: the length test precedes the allocation *)
Definition r_bytes_alloc (p : pk) : am (list byte) := fun s a =>
  abind (alift (r_len p) s a) (fun n s a =>
    if n <=? Z.of_nat (length (rbuf s)) then (r_take (Z.to_nat n) s, a + n) else (Err EInvalidData, a)).

(* rw_ext.rs read_exact_to_vec(reader, len) on a stream that will deliver [avail] more bytes *)
Definition rx_alloc (len avail : Z) : Z :=
  if len <=? prealloc_limit then len else prealloc_limit + 2 * Z.min len avail.

Definition a_bytes_alloc (p : pk) : am (list byte) :=
  match p with
  | PCompact => fun s a =>
      abind (alift (a_varint maxsize_32) s a) (fun n s a =>
        let n := wrap_u 32 n in
        let a := a + rx_alloc n (Z.of_nat (length (rbuf s))) in
        if n <=? Z.of_nat (length (rbuf s)) then (a_take (Z.to_nat n) s, a) else (Err ETransport, a))
  | _ => fun s a =>
      abind (alift (a_i32 p) s a) (fun n s a =>
        if n <? 0 then (Err ENegativeSize, a)
        else
          let a := a + rx_alloc n (Z.of_nat (length (rbuf s))) in
          if n <=? Z.of_nat (length (rbuf s)) then (a_take (Z.to_nat n) s, a) else (Err ETransport, a))
  end.

(* ---- the primitive operations the interpreter is written over ---- *)
Record prims := mkP {
  p_bool : rm bool;
  p_i8 : rm Z;
  p_i16 : rm Z;
  p_i32 : rm Z;
  p_i64 : rm Z;
  p_double : rm Z;
  p_uuid : rm (list byte);
  p_bytes : am (list byte);
  p_struct_begin : rm unit;
  p_struct_cost : Z;            (* compact: read_field_id_stack.push(..) -- one slot per open struct *)
  p_struct_end : rm unit;
  p_field_begin : rm (ttype * option Z);
  p_coll_begin : rm (ttype * Z);
  p_map_begin : rm (ttype * ttype * Z)
}.

Definition stack_cost (p : pk) : Z := match p with PCompact => 1 | _ => 0 end.

Definition sync_prims (p : pk) : prims :=
  mkP (r_bool p) r_i8 (r_i16 p) (r_i32 p) (r_i64 p) (r_double p) r_uuid (r_bytes_alloc p)
      (r_struct_begin p) (stack_cost p) (r_struct_end p) (r_field_begin p) (r_coll_begin p) (r_map_begin p).

Definition async_prims (p : pk) : prims :=
  mkP (a_bool p) a_i8 (a_i16 p) (a_i32 p) (a_i64 p) (a_double p) a_uuid (a_bytes_alloc p)
      (a_struct_begin p) (stack_cost p) (a_struct_end p) (a_field_begin p) (a_coll_begin p) (a_map_begin p).

Section AInterp.
  Variable pre : bool.      (* the client preallocates from container headers *)
  Variable P : prims.

  Definition push_cost : Z := if pre then 0 else 1.
  Definition header_cost (n : Z) : Z := if pre then n else 0.

  Section Loops.
    Variable rec : ttype -> am tval.

    Fixpoint fields_loop_a (n : nat) (acc : list (Z * tval)) (s : rst) (a : Z) {struct n}
      : ares (list (Z * tval)) :=
      match n with
      | O => (Err EOutOfFuel, a)
      | S n' =>
          abind (alift (p_field_begin P) s a) (fun h s a =>
            if ttype_eqb (fst h) TStop then (Ok (rev acc, s), a)
            else
              abind (rec (fst h) s a) (fun x s a =>
                fields_loop_a n' ((match snd h with Some i => i | None => 0 end, x) :: acc) s (a + 1)))
      end.

    Fixpoint elems_loop_a (m : nat) (et : ttype) (n : Z) (acc : list tval) (s : rst) (a : Z) {struct m}
      : ares (list tval) :=
      if n <=? 0 then (Ok (rev acc, s), a) else
      match m with
      | O => (Err EOutOfFuel, a)
      | S m' =>
          abind (rec et s a) (fun x s a =>
            elems_loop_a m' et (n - 1) (x :: acc) s (a + push_cost))
      end.

    Fixpoint pairs_loop_a (m : nat) (kt vt : ttype) (n : Z) (acc : list (tval * tval)) (s : rst) (a : Z) {struct m}
      : ares (list (tval * tval)) :=
      if n <=? 0 then (Ok (rev acc, s), a) else
      match m with
      | O => (Err EOutOfFuel, a)
      | S m' =>
          abind (rec kt s a) (fun x s a =>
            abind (rec vt s a) (fun y s a =>
              pairs_loop_a m' kt vt (n - 1) ((x, y) :: acc) s (a + push_cost)))
      end.
  End Loops.

  Definition amap {A B} (g : A -> B) (x : ares A) : ares B :=
    abind x (fun v s a => (Ok (g v, s), a)).

  Fixpoint read_val_a (fuel : nat) (ty : ttype) (s : rst) (a : Z) {struct fuel} : ares tval :=
    match fuel with
    | O => (Err EOutOfFuel, a)
    | S f =>
        match ty with
        | TBool => amap VBool (alift (p_bool P) s a)
        | TI8 => amap VI8 (alift (p_i8 P) s a)
        | TI16 => amap VI16 (alift (p_i16 P) s a)
        | TI32 => amap VI32 (alift (p_i32 P) s a)
        | TI64 => amap VI64 (alift (p_i64 P) s a)
        | TDouble => amap VDouble (alift (p_double P) s a)
        | TBinary => amap VBinary (p_bytes P s a)
        | TUuid => amap VUuid (alift (p_uuid P) s a)
        | TStruct =>
            abind (alift (p_struct_begin P) s a) (fun _ s a =>
              abind (fields_loop_a (read_val_a f) (S f) [] s (a + p_struct_cost P)) (fun fs s a =>
                abind (alift (p_struct_end P) s a) (fun _ s a => (Ok (VStruct fs, s), a))))
        | TList =>
            abind (alift (p_coll_begin P) s a) (fun h s a =>
              amap (VList (fst h)) (elems_loop_a (read_val_a f) (S f) (fst h) (snd h) [] s (a + header_cost (snd h))))
        | TSet =>
            abind (alift (p_coll_begin P) s a) (fun h s a =>
              amap (VSet (fst h)) (elems_loop_a (read_val_a f) (S f) (fst h) (snd h) [] s (a + header_cost (snd h))))
        | TMap =>
            abind (alift (p_map_begin P) s a) (fun h s a =>
              amap (VMap (fst (fst h)) (snd (fst h)))
                   (pairs_loop_a (read_val_a f) (S f) (fst (fst h)) (snd (fst h)) (snd h) [] s (a + header_cost (snd h))))
        | TStop | TVoid => (Err EInvalidData, a)
        end
    end.
End AInterp.

(* the instrumented interpreters: in-memory and asynchronous readers *)
Definition read_val_alloc (pre : bool) (p : pk) : nat -> ttype -> am tval := read_val_a pre (sync_prims p).
Definition aread_val_alloc (pre : bool) (p : pk) : nat -> ttype -> am tval := read_val_a pre (async_prims p).

(* the counter at the end of a run started with counter 0 *)
Definition alloc_of {A} (x : ares A) : Z := snd x.
