(* Bit-level facts used to turn the shift/mask expressions of the Rust code into arithmetic. *)
From PVPb Require Import Wire.
From Coq Require Import ZifyN ZifyNat ZifyBool.
Open Scope Z_scope.

Lemma land_ones_mod v k : 0 <= k -> Z.land v (2 ^ k - 1) = v mod 2 ^ k.
Proof.
  intros Hk. replace (2 ^ k - 1) with (Z.ones k).
  - apply Z.land_ones; auto.
  - rewrite Z.ones_equiv. lia.
Qed.

Lemma land_127 v : Z.land v 127 = v mod 128.
Proof. change 127 with (2 ^ 7 - 1). rewrite land_ones_mod by lia. reflexivity. Qed.

Lemma land_7 v : Z.land v 7 = v mod 8.
Proof. change 7 with (2 ^ 3 - 1). rewrite land_ones_mod by lia. reflexivity. Qed.

Lemma land_1 v : Z.land v 1 = v mod 2.
Proof. change 1 with (2 ^ 1 - 1) at 1. rewrite land_ones_mod by lia. reflexivity. Qed.

Lemma shiftr_div v k : 0 <= k -> Z.shiftr v k = v / 2 ^ k.
Proof. intros. apply Z.shiftr_div_pow2; auto. Qed.

Lemma shiftl_mul v k : 0 <= k -> Z.shiftl v k = v * 2 ^ k.
Proof. intros. apply Z.shiftl_mul_pow2; auto. Qed.

(* a | (x << s) = a + x * 2^s when a fits below bit s *)
Lemma lor_disjoint a x s : 0 <= s -> 0 <= a < 2 ^ s -> 0 <= x -> Z.lor a (x * 2 ^ s) = a + x * 2 ^ s.
Proof.
  intros Hs Ha Hx.
  assert (HL : Z.land a (x * 2 ^ s) = 0); [|rewrite <- Z.lxor_lor by exact HL; symmetry; apply Z.add_nocarry_lxor; exact HL].
  apply Z.bits_inj'. intros n Hn. rewrite Z.land_spec, Z.bits_0.
  destruct (Z_lt_le_dec n s) as [Hlt|Hge].
  - rewrite <- Z.shiftl_mul_pow2 by lia. rewrite (Z.shiftl_spec_low x s n) by lia. apply andb_false_r.
  - replace (Z.testbit a n) with false; [reflexivity|].
    symmetry. destruct (Z.eq_dec a 0) as [->|Hne]; [apply Z.bits_0|].
    apply Z.bits_above_log2; [lia|].
    apply Z.lt_le_trans with s; [|lia]. apply Z.log2_lt_pow2; lia.
Qed.

Lemma lor_low_high lo hi s : 0 <= s -> 0 <= lo < 2 ^ s -> 0 <= hi -> Z.lor (hi * 2 ^ s) lo = hi * 2 ^ s + lo.
Proof. intros. rewrite Z.lor_comm, lor_disjoint by lia. lia. Qed.

Lemma lor_128 r : 0 <= r < 128 -> Z.lor r 128 = r + 128.
Proof. intros. change 128 with (1 * 2 ^ 7) at 1. rewrite lor_disjoint by lia. lia. Qed.

Lemma lxor_m1 a : Z.lxor a (-1) = - a - 1.
Proof. rewrite Z.lxor_m1_r. unfold Z.lnot. lia. Qed.

Lemma pow2_pos k : 0 <= k -> 0 < 2 ^ k.
Proof. intros. apply Z.pow_pos_nonneg; lia. Qed.

Lemma u64_small z : 0 <= z < two64 -> u64 z = z.
Proof. intros. unfold u64. apply Z.mod_small; auto. Qed.

Lemma u32_small z : 0 <= z < two32 -> u32 z = z.
Proof. intros. unfold u32. apply Z.mod_small; auto. Qed.

Lemma shl32_small a s : 0 <= s -> 0 <= a * 2 ^ s < two32 -> shl32 a s = a * 2 ^ s.
Proof. intros. unfold shl32. rewrite shiftl_mul by lia. apply u32_small; auto. Qed.

Lemma shl64_small a s : 0 <= s -> 0 <= a * 2 ^ s < two64 -> shl64 a s = a * 2 ^ s.
Proof. intros. unfold shl64. rewrite shiftl_mul by lia. apply u64_small; auto. Qed.
