"""Malformed-input derivation from valid encodings (shared by C09, C12, C07)."""

def varint(n):
    out = bytearray()
    while n >= 0x80:
        out.append((n & 0x7F) | 0x80)
        n >>= 7
    out.append(n)
    return bytes(out)

BIN_WORDS = [b"\xff\xff\xff\xff", b"\x7f\xff\xff\xff", b"\x80\x00\x00\x00", b"\x00\x00\x00\x00",
             b"\x00\x00\x00\x01", b"\xff\xff\xff\xfe", b"\x00\x01\x00\x00"]
CPT_SEQS = [varint(0xFFFFFFFF), varint(0x7FFFFFFF), varint(0x80000000), b"\x00", b"\x01",
            b"\xff" * 9 + b"\x01", b"\xff" * 10 + b"\x01", b"\xff" * 10, b"\x80" * 5 + b"\x00",
            b"\xff\xff\x03", b"\xff\xff\x07", b"\xfe\xff\xff\xff\x0f"]


def truncations(b, rng, cap=48):
    n = len(b)
    if n <= cap:
        return [(b[:k], "trunc") for k in range(n)]
    ks = sorted(set([0, 1, 2, n - 1, n - 2, n // 2] + [rng.randrange(n) for _ in range(cap - 6)]))
    return [(b[:k], "trunc") for k in ks]


def bitflips(b, rng, cap=64):
    n = len(b) * 8
    if n == 0:
        return []
    pos = range(n) if n <= cap else sorted(set(rng.randrange(n) for _ in range(cap)))
    out = []
    for p in pos:
        x = bytearray(b)
        x[p // 8] ^= 1 << (p % 8)
        out.append((bytes(x), "flip"))
    return out


def overwrites(b, pk, rng, cap=40):
    """length / size / count / type / id positions overwritten with boundary values: every offset
    is tried (short inputs) or sampled, so every such field is hit"""
    n = len(b)
    out = []
    offs = list(range(n)) if n <= 24 else sorted(set(rng.randrange(n) for _ in range(24)))
    for o in offs:
        if pk == "compact":
            for s in CPT_SEQS:
                out.append((b[:o] + s + b[o + 1:], "ovw"))
            rem = n - o
            for v in (rem, rem - 1, rem + 1):
                if v >= 0:
                    out.append((b[:o] + varint(v) + b[o + 1:], "ovw-rem"))
        else:
            for w in BIN_WORDS:
                w2 = w if pk == "binary" else w[::-1]
                out.append((b[:o] + w2 + b[o + 4:], "ovw"))
            rem = n - o - 4
            for v in (rem, rem - 1, rem + 1):
                if v >= 0:
                    w = v.to_bytes(4, "big" if pk == "binary" else "little")
                    out.append((b[:o] + w + b[o + 4:], "ovw-rem"))
        # type byte / element type nibble
        for tb in (0, 1, 2, 5, 7, 9, 12, 13, 15, 16, 17, 0x1F, 0xF0, 0xFF, 0x8C):
            out.append((b[:o] + bytes([tb]) + b[o + 1:], "type"))
    if len(out) > cap:
        out = rng.sample(out, cap)
    return out


def randoms(rng, k):
    out = []
    for _ in range(k):
        n = rng.choice([0, 1, 2, 3, 5, 8, 13, 21, 40, 100])
        out.append((bytes(rng.randrange(256) for _ in range(n)), "random"))
    return out
