(* C16: the panic-capable sites of the Rust text (Generated/IdlPanics.v, regenerated on every run) against the partial
   operations the model uses.

   [model_panic_sites]: for every function of the source, how often the model definitions that port it (the map of
   RepSites.v) apply a partial operation of Comb.v -- [checked_neg] ("neg"), [slice_p] ("slice"), [map_unwrap]
   ("unwrap").  Counted by Ltac from the definitions of Parser.v, as in RepSites.v.  The model has no operation for the
   kinds "panic", "arith", "div": a site of such a kind in the source cannot be matched.

   [panic_sites_agree]: accounted list = regenerated list.  Together with Partial.v (the precondition of every operation
   the model uses holds where it is used, so the parser equals its total reading) and C16_total (no [PPanic]) this is the
   panic half of C16 as an obligation instead of a property of the modelling language. *)
From Coq Require Import String List Bool Arith.
From PVIdl Require Import Comb Ast Parser Generated.IdlPanics Proofs.Partial Proofs.RepSites.
Import ListNotations.
Open Scope string_scope.

Definition checked_neg_m := checked_neg.
Definition slice_p_m := slice_p.
Definition map_unwrap_m := @map_unwrap.

Ltac prow name t :=
  let b := bodies t in
  let n1 := count_occ (checked_neg) (checked_neg_m) b in
  let n2 := count_occ (slice_p) (slice_p_m) b in
  let n3 := count_occ (@map_unwrap) (@map_unwrap_m) b in
  exact (name, [("neg", n1); ("slice", n2); ("unwrap", n3)]).

Definition model_panic_counts : list (string * list (string * nat)) :=
  [ ltac:(prow "Annotations::parse" (p_annotations, p_annotation, p_annotation_key));
    ltac:(prow "ConstValue::parse" p_const_value);
    ltac:(prow "Constant::parse" p_constant);
    ltac:(prow "IntConstant::parse" p_int_constant);
    ltac:(prow "DoubleConstant::parse" (p_double_constant, p_exponent));
    ltac:(prow "EnumValue::parse" p_enum_value);
    ltac:(prow "Enum::parse" p_enum);
    ltac:(prow "Attribute::parse" p_attribute);
    ltac:(prow "Field::parse" (p_field, p_field_id));
    ltac:(prow "Function::parse" p_function);
    ltac:(prow "Ident::parse" p_ident);
    ltac:(prow "Include::parse" p_include);
    ltac:(prow "CppInclude::parse" p_cpp_include);
    ltac:(prow "gen_parse_quote!" p_quote_parser);
    ltac:(prow "Literal::parse" (p_literal, p_single_quote, p_double_quote));
    ltac:(prow "Path::parse" (p_path, p_path_sep));
    ltac:(prow "list_separator" p_list_separator);
    ltac:(prow "comment" p_comment);
    ltac:(prow "blank" p_blank);
    ltac:(prow "alphanumeric_or_underscore" p_alphanumeric_or_underscore);
    ltac:(prow "Namespace::parse" p_namespace);
    ltac:(prow "Scope::parse" p_scope);
    ltac:(prow "Service::parse" p_service);
    ltac:(prow "Struct::parse" p_struct);
    ltac:(prow "Union::parse" p_union);
    ltac:(prow "Exception::parse" p_exception);
    ltac:(prow "StructLike::parse" p_struct_like);
    ltac:(prow "Item::parse" (p_item, p_item_keyword));
    ltac:(prow "File::parse" p_file);
    ltac:(prow "Type::parse" (p_type, p_type_of));
    ltac:(prow "CppType::parse" p_cpp_type);
    ltac:(prow "Ty::parse" (p_ty, p_base_ty));
    ltac:(prow "Typedef::parse" p_typedef) ].
Definition model_panic_counts_shared : list (string * list (string * nat)) :=
  [ ltac:(prow "(p_keyword)" p_keyword); ltac:(prow "(parse_file)" parse_file) ].

Definition model_panic_sites : list (string * list (string * nat)) :=
  map (fun r => (fst r, nonzero (snd r))) model_panic_counts.

Theorem panic_sites_agree :
  src_panic_sites = model_panic_sites /\
  map (fun r => nonzero (snd r)) model_panic_counts_shared = [[]; []].
Proof. split; vm_compute; reflexivity. Qed.

(* the statement of Properties/C16.v *)
Lemma no_panic_obligation :
  src_panic_sites = model_panic_sites /\
  (forall lf i, p_int_constant lf i = p_int_constant_total lf i) /\
  (forall v, (0 <= v <= i64_max)%Z -> checked_neg v = Some (- v)%Z) /\
  checked_neg i64_min = None.
Proof.
  split; [exact (proj1 panic_sites_agree)|]. split; [exact p_int_constant_is_total|]. split; [exact checked_neg_magnitude|reflexivity].
Qed.
