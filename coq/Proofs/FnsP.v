(* C09: the hand-kept list of every item / fn of the Thrift protocol files equals the regenerated one *)
From Coq Require Import String List Bool.
From PV Require Import Generated.ThriftFns Thrift.FnsKnown.
Import ListNotations.

Theorem fns_accounted :
  map (fun q => let '(f, h, fns, c) := q in (f, h, fns, is_scanned c)) known_items = thrift_items.
Proof. vm_compute. reflexivity. Qed.

Example fns_nonvacuous :
  Nat.leb 80 (List.length known_items) = true /\
  Nat.leb 25 (List.length (filter (fun q => is_scanned (snd q)) known_items)) = true /\
  Nat.leb 600 (List.length (flat_map (fun q => snd (fst q)) known_items)) = true.
Proof. vm_compute. repeat split. Qed.
