(* C16: totality of the IDL parser model, and the bound on its native recursion depth.

   [trans P Q p]: on every input satisfying P the parser p does not panic and does not run out of fuel; if it
   succeeds, what remains is a suffix of the input and satisfies Q.  The admissible inputs of the whole
   development are   adm lf m i  :=  length i < lf  /\  nesting i < m
   where [nesting] (Proofs/Nesting.v) is the deepest bracket nesting ('<' '[' '{' against '>' ']' '}', comments and
   string literals skipped) of the text that remains: every loop iteration consumes a byte (so loop fuel above the
   input length never runs out), and every native recursion is entered only after an opening bracket has been
   consumed, which lowers the nesting of the remaining text by one, while the matching closing bracket gives the
   level back (so depth fuel above the nesting never runs out -- siblings reuse the same budget). *)
From PVIdl Require Import Comb Ast Parser Proofs.Nesting Proofs.Partial.
From Coq Require Import ZifyN ZifyNat ZifyBool.
Open Scope nat_scope.

(* ---------- suffixes ---------- *)
Definition sfx (r i : input) : Prop := exists pre, i = pre ++ r.

Lemma sfx_refl i : sfx i i.
Proof. exists []. reflexivity. Qed.
Lemma sfx_trans a b c : sfx a b -> sfx b c -> sfx a c.
Proof. intros [p1 ->] [p2 ->]. exists (p2 ++ p1). now rewrite app_assoc. Qed.
Lemma sfx_cons b i : sfx i (b :: i).
Proof. exists [b]. reflexivity. Qed.
Lemma sfx_len r i : sfx r i -> length r <= length i.
Proof. intros [p ->]. rewrite app_length. lia. Qed.
Lemma sfx_nil i : sfx [] i.
Proof. exists i. now rewrite app_nil_r. Qed.
#[export] Hint Resolve sfx_refl sfx_cons sfx_nil : safe.

Lemma same_len_iff {A} (a b : list A) : same_len a b = true <-> length a = length b.
Proof.
  revert b; induction a as [|x a IH]; intros [|y b]; cbn [same_len length]; try (split; [discriminate|lia]).
  - tauto.
  - rewrite IH. lia.
Qed.

Lemma sfx_shorter r i : sfx r i -> same_len r i = false -> length r < length i.
Proof.
  intros H E. apply sfx_len in H.
  destruct (Nat.eq_dec (length r) (length i)) as [e|]; [|lia].
  apply same_len_iff in e. congruence.
Qed.

(* ---------- admissible inputs ---------- *)
Definition adm (lf m : nat) (i : input) : Prop := length i < lf /\ (nesting i < Z.of_nat m)%Z.
Definition lenlt (lf : nat) (i : input) : Prop := length i < lf.

(* ---------- trans ---------- *)
Definition ok_res {A} (Q : input -> Prop) (i : input) (r : pres A) : Prop :=
  match r with
  | POk r _ => sfx r i /\ Q r
  | PErr _ _ | PFail _ _ => True
  | PPanic _ | PFuel _ => False
  end.

Definition trans {A} (P Q : input -> Prop) (p : parser A) : Prop := forall i, P i -> ok_res Q i (p i).

Definition closed (P : input -> Prop) : Prop := forall i r, P i -> sfx r i -> P r.

Lemma lenlt_closed lf : closed (lenlt lf).
Proof. intros i r H S. apply sfx_len in S. unfold lenlt in *. lia. Qed.
#[export] Hint Resolve lenlt_closed : safe.

Lemma ok_res_weaken {A} (Q Q' : input -> Prop) i (r : pres A) :
  (forall x, sfx x i -> Q x -> Q' x) -> ok_res Q i r -> ok_res Q' i r.
Proof. destruct r; cbn; intuition. Qed.

Lemma trans_seq {A B} P Q R (p : parser A) (f : A -> parser B) :
  trans P Q p -> (forall a, trans Q R (f a)) -> trans P R (fun i => do i, a <- p i ;; f a i).
Proof.
  intros Hp Hf i Pi. specialize (Hp i Pi). destruct (p i) as [r a| | | |]; cbn [pbind ok_res] in *; try tauto.
  destruct Hp as [S Qr]. specialize (Hf a r Qr). destruct (f a r); cbn [ok_res] in *; try tauto.
  destruct Hf as [S' Rr]. split; [eapply sfx_trans; eauto | auto].
Qed.

Lemma trans_ret {A} P (a : A) : trans P P (fun i => POk i a).
Proof. intros i Pi. cbn. split; auto with safe. Qed.

Lemma trans_pre {A} (P P' Q : input -> Prop) (p : parser A) :
  (forall i, P' i -> P i) -> trans P Q p -> trans P' Q p.
Proof. intros H T i Pi. apply T, H, Pi. Qed.

Lemma trans_post {A} (P Q Q' : input -> Prop) (p : parser A) :
  (forall i, Q i -> Q' i) -> trans P Q p -> trans P Q' p.
Proof. intros H T i Pi. specialize (T i Pi). destruct (p i); cbn in *; intuition. Qed.

(* a parser that is total on all inputs and returns suffixes is trans P P for every closed P *)
Definition total {A} (p : parser A) : Prop := forall i, ok_res (fun _ => True) i (p i).

Lemma total_trans {A} P (p : parser A) : closed P -> total p -> trans P P p.
Proof.
  intros C T i Pi. specialize (T i). destruct (p i); cbn in *; try tauto.
  destruct T as [S _]. split; [auto | eapply C; eauto].
Qed.

(* ---------- primitives ---------- *)
Lemma strip_prefix_app t i r : strip_prefix t i = Some r -> i = t ++ r.
Proof.
  revert i; induction t as [|c t IH]; intros i H; cbn [strip_prefix] in H.
  - now inversion H.
  - destruct i as [|b i]; [discriminate|]. destruct (Byte.eqb b c) eqn:E; [|discriminate].
    apply byte_dec_bl in E. subst. cbn [app]. f_equal. auto.
Qed.

Lemma total_tag t : total (tag t).
Proof.
  intros i. unfold tag. destruct (strip_prefix t i) eqn:E; cbn; auto.
  apply strip_prefix_app in E. split; auto. now exists t.
Qed.

Lemma strip_prefix_nc_app t i m r : strip_prefix_nc t i = Some (m, r) -> i = m ++ r.
Proof.
  revert i m; induction t as [|c t IH]; intros i m H; cbn [strip_prefix_nc] in H.
  - now inversion H.
  - destruct i as [|b i]; [discriminate|].
    destruct (Byte.eqb (lower_ascii b) (lower_ascii c)); [|discriminate].
    destruct (strip_prefix_nc t i) as [[m' r']|] eqn:E; [|discriminate].
    inversion H; subst. cbn [app]. f_equal. eauto.
Qed.

Lemma total_tag_no_case t : total (tag_no_case t).
Proof.
  intros i. unfold tag_no_case. destruct (strip_prefix_nc t i) as [[m r]|] eqn:E; cbn; auto.
  apply strip_prefix_nc_app in E. split; auto. now exists m.
Qed.

Lemma span_app cond i : i = fst (span cond i) ++ snd (span cond i).
Proof.
  induction i as [|b i IH]; cbn [span]; auto.
  destruct (cond b); cbn [fst snd app]; auto.
  destruct (span cond i) as [p r]; cbn [fst snd app] in *. now f_equal.
Qed.

Lemma total_take_while cond : total (take_while cond).
Proof.
  intros i. unfold take_while. pose proof (span_app cond i) as H.
  destruct (span cond i) as [p r]; cbn in *. split; auto. now exists p.
Qed.

Lemma total_take_till cond : total (take_till cond).
Proof. apply total_take_while. Qed.

Lemma total_span1 cond k : total (span1 cond k).
Proof.
  intros i. unfold span1. pose proof (span_app cond i) as H.
  destruct (span cond i) as [p r]; cbn [fst snd] in *. destruct (is_nil p); cbn; auto.
  split; auto. now exists p.
Qed.

Lemma find_sub_app t i p r : find_sub t i = Some (p, r) -> i = p ++ r.
Proof.
  revert p r; induction i as [|b i IH]; intros p r H; cbn [find_sub] in H.
  - destruct (strip_prefix t []); [|discriminate]. now inversion H.
  - destruct (strip_prefix t (b :: i)).
    + now inversion H.
    + destruct (find_sub t i) as [[p' r']|]; [|discriminate]. inversion H; subst.
      cbn [app]. f_equal. auto.
Qed.

Lemma total_take_until t : total (take_until t).
Proof.
  intros i. unfold take_until. destruct (find_sub t i) as [[p r]|] eqn:E; cbn; auto.
  apply find_sub_app in E. split; auto. now exists p.
Qed.

Lemma total_satisfy_b c : total (satisfy_b c).
Proof. intros [|b i]; cbn; auto. destruct (c b); cbn; auto with safe. Qed.
Lemma total_one_of s : total (one_of s).
Proof. intros [|b i]; cbn; auto. destruct (bmem b s); cbn; auto with safe. Qed.
Lemma total_none_of s : total (none_of s).
Proof. intros [|b i]; cbn; auto. destruct (bmem b s); cbn; auto with safe. Qed.

Lemma utf8_head_sfx i cp r : utf8_head i = Some (cp, r) -> sfx r i.
Proof.
  destruct i as [|b0 i]; cbn [utf8_head]; [discriminate|].
  assert (S1 : sfx i (b0 :: i)) by auto with safe.
  destruct (N.ltb (bn b0) 128); [intros H; inversion H; subst; auto|].
  destruct (N.ltb (bn b0) 192); [intros H; inversion H; subst; auto|].
  destruct (N.ltb (bn b0) 224).
  { destruct i as [|b1 i]; [intros H; inversion H; subst; auto|].
    destruct (cont_bits b1); intros H; inversion H; subst; auto.
    exists [b0; b1]. reflexivity. }
  destruct (N.ltb (bn b0) 240).
  { destruct i as [|b1 [|b2 i]]; try (intros H; inversion H; subst; auto; fail).
    destruct (cont_bits b1), (cont_bits b2); intros H; inversion H; subst; auto.
    exists [b0; b1; b2]. reflexivity. }
  destruct i as [|b1 [|b2 [|b3 i]]]; try (intros H; inversion H; subst; auto; fail).
  destruct (cont_bits b1), (cont_bits b2), (cont_bits b3); intros H; inversion H; subst; auto.
  exists [b0; b1; b2; b3]. reflexivity.
Qed.

Lemma total_satisfy_c c : total (satisfy_c c).
Proof.
  intros i. unfold satisfy_c. destruct (utf8_head i) as [[cp r]|] eqn:E; cbn; auto.
  destruct (c cp); cbn; auto. split; auto. eapply utf8_head_sfx; eauto.
Qed.

Lemma total_eof : total eof.
Proof. intros [|b i]; cbn; auto with safe. Qed.

(* ---------- combinators ---------- *)
Lemma trans_opt {A} P (p : parser A) : trans P P p -> trans P P (opt p).
Proof.
  intros T i Pi. specialize (T i Pi). unfold opt. destruct (p i); cbn in *; auto with safe.
Qed.

Lemma trans_peek {A} P Q (p : parser A) : trans P Q p -> trans P P (peek p).
Proof.
  intros T i Pi. specialize (T i Pi). unfold peek. destruct (p i); cbn in *; auto with safe.
Qed.

Lemma trans_not {A} P Q (p : parser A) : trans P Q p -> trans P P (not_ p).
Proof.
  intros T i Pi. specialize (T i Pi). unfold not_. destruct (p i); cbn in *; auto with safe.
Qed.

Lemma trans_recognize {A} P Q (p : parser A) : trans P Q p -> trans P Q (recognize p).
Proof.
  intros T i Pi. specialize (T i Pi). unfold recognize. destruct (p i); cbn in *; auto.
Qed.

Lemma trans_map_res {A B} P Q (p : parser A) (f : A -> option B) : trans P Q p -> trans P Q (map_res p f).
Proof.
  intros T i Pi. specialize (T i Pi). unfold map_res. destruct (p i); cbn in *; auto.
  destruct (f a); cbn; auto.
Qed.

Lemma trans_pmap {A B} P Q (f : A -> B) (p : parser A) : trans P Q p -> trans P Q (pmap f p).
Proof.
  intros T i Pi. specialize (T i Pi). unfold pmap. destruct (p i); cbn in *; auto.
Qed.

Lemma trans_alt {A} P Q (ps : list (parser A)) : Forall (trans P Q) ps -> trans P Q (alt ps).
Proof.
  induction ps as [|p ps IH]; intros F i Pi.
  - cbn. auto.
  - inversion F as [|? ? Hp Hps]; subst. specialize (IH Hps).
    cbn [alt]. destruct ps as [|q ps'].
    + apply Hp, Pi.
    + specialize (Hp i Pi). destruct (p i); cbn in *; auto.
Qed.

Lemma trans_permutation2 {A B} P (p : parser A) (q : parser B) :
  trans P P p -> trans P P q -> trans P P (permutation2 p q).
Proof.
  intros Tp Tq i Pi. unfold permutation2.
  pose proof (Tp i Pi) as Hp. destruct (p i) as [i1 a| | | |]; cbn in *; try tauto.
  - destruct Hp as [S1 P1]. pose proof (Tq i1 P1) as Hq. destruct (q i1); cbn in *; try tauto.
    destruct Hq as [S2 P2]. split; auto. eapply sfx_trans; eauto.
  - pose proof (Tq i Pi) as Hq. destruct (q i) as [i1 b| | | |]; cbn in *; try tauto.
    destruct Hq as [S1 P1]. pose proof (Tp i1 P1) as Hp'. destruct (p i1); cbn in *; try tauto.
    destruct Hp' as [S2 P2]. split; auto. eapply sfx_trans; eauto.
Qed.

(* ---------- loops ---------- *)
Section Loops.
Variable P : input -> Prop.
Hypothesis C : closed P.
Variable lf : nat.
Hypothesis Plen : forall i, P i -> length i < lf.

Lemma trans_many0_aux {A} (p : parser A) :
  trans P P p -> forall fuel i, P i -> length i < fuel -> ok_res P i (many0 fuel p i).
Proof.
  intros T fuel; induction fuel as [|f IH]; intros i Pi L; [lia|].
  cbn [many0]. pose proof (T i Pi) as Hp. destruct (p i) as [i1 a| | | |]; cbn in *; auto with safe; try tauto.
  destruct Hp as [S1 P1]. destruct (same_len i1 i) eqn:E; cbn; auto.
  pose proof (sfx_shorter _ _ S1 E). specialize (IH i1 P1 ltac:(lia)).
  destruct (many0 f p i1); cbn in *; try tauto. destruct IH; split; auto. eapply sfx_trans; eauto.
Qed.

Lemma trans_many0 {A} (p : parser A) : trans P P p -> trans P P (many0 lf p).
Proof. intros T i Pi. apply trans_many0_aux; auto. Qed.

Lemma trans_many1_loop_aux {A} (p : parser A) :
  trans P P p -> forall fuel i, P i -> length i < fuel -> ok_res P i (many1_loop fuel p i).
Proof.
  intros T fuel; induction fuel as [|f IH]; intros i Pi L; [lia|].
  cbn [many1_loop]. pose proof (T i Pi) as Hp. destruct (p i) as [i1 a| | | |]; cbn in *; auto with safe; try tauto.
  destruct Hp as [S1 P1]. destruct (same_len i1 i) eqn:E; cbn; auto.
  pose proof (sfx_shorter _ _ S1 E). specialize (IH i1 P1 ltac:(lia)).
  destruct (many1_loop f p i1); cbn in *; try tauto. destruct IH; split; auto. eapply sfx_trans; eauto.
Qed.

Lemma trans_many1 {A} (p : parser A) : trans P P p -> trans P P (many1 lf p).
Proof.
  intros T i Pi. unfold many1. pose proof (T i Pi) as Hp. destruct (p i) as [i1 a| | | |]; cbn in *; try tauto.
  destruct Hp as [S1 P1]. pose proof (trans_many1_loop_aux p T lf i1 P1 (Plen _ P1)) as H.
  destruct (many1_loop lf p i1); cbn in *; try tauto. destruct H; split; auto. eapply sfx_trans; eauto.
Qed.

Lemma trans_many0_count_aux {A} (p : parser A) :
  trans P P p -> forall fuel i, P i -> length i < fuel -> ok_res P i (many0_count fuel p i).
Proof.
  intros T fuel; induction fuel as [|f IH]; intros i Pi L; [lia|].
  cbn [many0_count]. pose proof (T i Pi) as Hp. destruct (p i) as [i1 a| | | |]; cbn in *; auto with safe; try tauto.
  destruct Hp as [S1 P1]. destruct (same_len i1 i) eqn:E; cbn; auto.
  pose proof (sfx_shorter _ _ S1 E). specialize (IH i1 P1 ltac:(lia)).
  destruct (many0_count f p i1); cbn in *; try tauto. destruct IH; split; auto. eapply sfx_trans; eauto.
Qed.

Lemma trans_many0_count {A} (p : parser A) : trans P P p -> trans P P (many0_count lf p).
Proof. intros T i Pi. apply trans_many0_count_aux; auto. Qed.

Lemma trans_many_till_aux {A B} (f : parser A) (g : parser B) :
  trans P P f -> trans P P g -> forall fuel i, P i -> length i < fuel -> ok_res P i (many_till fuel f g i).
Proof.
  intros Tf Tg fuel; induction fuel as [|n IH]; intros i Pi L; [lia|].
  cbn [many_till]. pose proof (Tg i Pi) as Hg. destruct (g i) as [i1 b| | | |]; cbn in *; auto; try tauto.
  pose proof (Tf i Pi) as Hf. destruct (f i) as [i1 a| | | |]; cbn in *; auto; try tauto.
  destruct Hf as [S1 P1]. destruct (same_len i1 i) eqn:E; cbn; auto.
  pose proof (sfx_shorter _ _ S1 E). specialize (IH i1 P1 ltac:(lia)).
  destruct (many_till n f g i1); cbn in *; try tauto. destruct IH; split; auto. eapply sfx_trans; eauto.
Qed.

Lemma trans_many_till {A B} (f : parser A) (g : parser B) :
  trans P P f -> trans P P g -> trans P P (many_till lf f g).
Proof. intros Tf Tg i Pi. apply trans_many_till_aux; auto. Qed.

Lemma trans_sep_loop_aux {A B} (sep : parser B) (f : parser A) :
  trans P P sep -> trans P P f -> forall fuel i, P i -> length i < fuel -> ok_res P i (sep_loop fuel sep f i).
Proof.
  intros Ts Tf fuel; induction fuel as [|n IH]; intros i Pi L; [lia|].
  cbn [sep_loop]. pose proof (Ts i Pi) as Hs. destruct (sep i) as [i1 b| | | |]; cbn in *; auto with safe; try tauto.
  destruct Hs as [S1 P1]. destruct (same_len i1 i) eqn:E; cbn; auto.
  pose proof (sfx_shorter _ _ S1 E).
  pose proof (Tf i1 P1) as Hf. destruct (f i1) as [i2 a| | | |]; cbn in *; auto with safe; try tauto.
  destruct Hf as [S2 P2]. pose proof (sfx_len _ _ S2).
  specialize (IH i2 P2 ltac:(lia)).
  destruct (sep_loop n sep f i2); cbn in *; try tauto. destruct IH; split; auto.
  eapply sfx_trans; [eassumption|]. eapply sfx_trans; eauto.
Qed.

Lemma trans_separated_list1 {A B} (sep : parser B) (f : parser A) :
  trans P P sep -> trans P P f -> trans P P (separated_list1 lf sep f).
Proof.
  intros Ts Tf i Pi. unfold separated_list1.
  pose proof (Tf i Pi) as Hf. destruct (f i) as [i1 a| | | |]; cbn in *; try tauto.
  destruct Hf as [S1 P1].
  pose proof (trans_sep_loop_aux sep f Ts Tf lf i1 P1 (Plen _ P1)) as H.
  destruct (sep_loop lf sep f i1); cbn in *; try tauto. destruct H; split; auto. eapply sfx_trans; eauto.
Qed.

Lemma trans_escaped_aux {A B} (normal : parser A) ctrl (escapable : parser B) inp :
  trans P P normal -> trans P P escapable ->
  forall fuel i, P i -> sfx i inp -> length i < fuel -> ok_res P inp (escaped_loop fuel normal ctrl escapable inp i).
Proof.
  intros Tn Te fuel; induction fuel as [|f IH]; intros i Pi Si L; [lia|].
  assert (Pnil : P []) by (apply (C i); auto with safe).
  cbn [escaped_loop]. destruct i as [|b tl]; [cbn; auto with safe|].
  pose proof (Tn _ Pi) as Hn. destruct (normal (b :: tl)) as [i2 a| | | |]; cbn [ok_res] in *; try tauto.
  - destruct Hn as [S2 P2]. destruct (is_nil i2); [cbn; auto with safe|].
    destruct (same_len i2 (b :: tl)) eqn:E.
    + cbn. split; auto. eapply sfx_trans; eauto.
    + pose proof (sfx_shorter _ _ S2 E). apply IH; auto; [eapply sfx_trans; eauto | cbn [length] in *; lia].
  - destruct (Byte.eqb b ctrl).
    + destruct tl as [|b' tl']; [cbn; auto|].
      assert (Ptl : P (b' :: tl')) by (apply (C (b :: b' :: tl')); auto with safe).
      pose proof (Te _ Ptl) as He. destruct (escapable (b' :: tl')) as [i2 x| | | |]; cbn [ok_res] in *; try tauto.
      destruct He as [S2 P2]. destruct (is_nil i2); [cbn; auto with safe|].
      pose proof (sfx_len _ _ S2). apply IH; auto; [|cbn [length] in *; lia].
      eapply sfx_trans; [eassumption|]. eapply sfx_trans; [|eassumption]. auto with safe.
    + destruct (same_len (b :: tl) inp); cbn [ok_res]; auto.
Qed.

Lemma trans_escaped {A B} (normal : parser A) ctrl (escapable : parser B) :
  trans P P normal -> trans P P escapable -> trans P P (escaped lf normal ctrl escapable).
Proof. intros Tn Te i Pi. apply trans_escaped_aux; auto with safe. Qed.

End Loops.

(* ---------- the productions ---------- *)
Lemma trans_seq_same {A B} P (p : parser A) (f : A -> parser B) :
  trans P P p -> (forall a, trans P P (f a)) -> trans P P (fun i => do i, a <- p i ;; f a i).
Proof. apply trans_seq. Qed.

Lemma trans_peek_same {A} P (p : parser A) : trans P P p -> trans P P (peek p).
Proof. apply trans_peek. Qed.

(* a token parser that is total and lexically neutral keeps every level of admissibility *)
Lemma tr_prim {A} lf m (p : parser A) : total p -> neutral p -> trans (adm lf m) (adm lf m) p.
Proof.
  intros T N i [L Hn]. specialize (T i). specialize (N i). destruct (p i) as [r a| | | |]; cbn in *; try tauto.
  destruct T as [S _]. split; [exact S|]. split; [apply sfx_len in S; lia|]. rewrite (N r a eq_refl). exact Hn.
Qed.

(* a parser whose result is thrown away (under peek(not(..))) only has to be total *)
Lemma tr_total_any {A} P (p : parser A) : total p -> trans P (fun _ => True) p.
Proof. intros T i _. specialize (T i). destruct (p i); cbn in *; tauto. Qed.

Lemma adm_len lf m i : adm lf m i -> length i < lf.
Proof. intros [H _]. exact H. Qed.

Lemma adm_zero lf i : ~ adm lf 0 i.
Proof. intros [_ H]. pose proof (nesting_nonneg i). lia. Qed.

Lemma trans_vac {A} lf Q (p : parser A) : trans (adm lf 0) Q p.
Proof. intros i H. destruct (adm_zero _ _ H). Qed.

(* consuming an opening bracket pays for one level; the closing bracket gives it back *)
Lemma trans_tag_open lf m b : is_opener b = true -> trans (adm lf (S m)) (adm lf m) (tag [b]).
Proof.
  intros Hb i [L Hn]. unfold tag. destruct (strip_prefix [b] i) as [r|] eqn:E; cbn; auto.
  apply strip_prefix_eq in E. subst i. cbn [app] in *. rewrite (nesting_opener b r Hb) in Hn. cbn [length] in L.
  split; [apply sfx_cons|]. split; lia.
Qed.

Lemma trans_tag_close lf m b : is_closer b = true -> trans (adm lf m) (adm lf (S m)) (tag [b]).
Proof.
  intros Hb i [L Hn]. unfold tag. destruct (strip_prefix [b] i) as [r|] eqn:E; cbn; auto.
  apply strip_prefix_eq in E. subst i. cbn [app] in *. pose proof (nesting_closer b r Hb). cbn [length] in L.
  split; [apply sfx_cons|]. split; lia.
Qed.

Lemma tr_tag lf m t : forallb plain t = true -> trans (adm lf m) (adm lf m) (tag t).
Proof. intros H. apply tr_prim; [apply total_tag | now apply neutral_tag]. Qed.

#[export] Hint Resolve total_tag total_tag_no_case total_take_while total_take_till total_span1 total_take_until
  total_satisfy_b total_one_of total_none_of total_satisfy_c total_eof : safe.
#[export] Hint Resolve trans_opt trans_recognize trans_map_res trans_pmap trans_permutation2 trans_ret
  trans_peek_same : safe.
#[export] Hint Extern 2 (trans _ _ (fun i => pbind _ _)) => apply trans_seq_same; [ | intro ] : safe.
#[export] Hint Extern 2 (trans _ _ (alt _)) => apply trans_alt; repeat apply Forall_cons; try apply Forall_nil : safe.
#[export] Hint Extern 3 (trans (adm _ _) (adm _ _) (tag _)) => apply tr_tag; vm_compute; reflexivity : safe.
#[export] Hint Extern 1 (forall i, adm ?lf ?m i -> length i < ?lf) => exact (adm_len lf m) : safe.
#[export] Hint Extern 1 (trans _ _ (fun _ => _)) =>
  (match goal with |- trans ?P ?Q (fun i => ?p i) => change (trans P Q p) end) : safe.

Section Productions.
Variables lf m : nat.
Local Notation P := (adm lf m).

Ltac tr := auto 40 with safe.

Lemma tr_digit1 : trans P P digit1.
Proof. apply tr_prim; [apply total_span1 | apply neutral_span1, plain_digit]. Qed.
Lemma tr_hex_digit1 : trans P P hex_digit1.
Proof. apply tr_prim; [apply total_span1 | apply neutral_span1, plain_hexdigit]. Qed.
Lemma tr_multispace1 : trans P P multispace1.
Proof. apply tr_prim; [apply total_span1 | apply neutral_span1, plain_space]. Qed.
Lemma tr_eof : trans P P eof.
Proof. apply tr_prim; [apply total_eof|]. intros i r a H. destruct i; [|discriminate]. now inversion H. Qed.
Hint Resolve tr_digit1 tr_hex_digit1 tr_multispace1 tr_eof : safe.

Lemma total_comment : total p_comment.
Proof.
  assert (Tt : forall A (p : parser A), total p -> trans (fun _ : input => True) (fun _ => True) p).
  { intros A p T. apply total_trans; [intros ? ? ? ?; exact I | exact T]. }
  assert (T : trans (fun _ => True) (fun _ => True) p_comment).
  { unfold p_comment. apply trans_alt. repeat apply Forall_cons; try apply Forall_nil.
    - apply trans_seq_same; [apply Tt; auto with safe|intro]. apply Tt; auto with safe.
    - apply trans_seq_same; [apply Tt; auto with safe|intro]. apply trans_seq_same; [apply Tt; auto with safe|intro].
      apply trans_seq_same; [apply Tt; auto with safe|intro]. apply trans_ret.
    - apply trans_seq_same; [apply Tt; auto with safe|intro]. apply Tt; auto with safe. }
  intros i. apply T. exact I.
Qed.

Lemma tr_comment : trans P P p_comment.
Proof. apply tr_prim; [apply total_comment | apply neutral_comment]. Qed.
Hint Resolve tr_comment : safe.

Lemma tr_blank : trans P P (p_blank lf).
Proof.
  unfold p_blank. apply trans_seq_same; [|intro; tr].
  apply trans_many1 with (lf := lf); tr.
Qed.
Hint Resolve tr_blank : safe.

Lemma tr_list_separator : trans P P (p_list_separator lf).
Proof.
  unfold p_list_separator. apply trans_seq_same; [|intro; tr].
  apply tr_prim; [apply total_one_of | apply neutral_one_of; vm_compute; reflexivity].
Qed.
Hint Resolve tr_list_separator : safe.

Lemma tr_keyword k : forallb plain k = true -> trans P P (p_keyword k).
Proof.
  intros Hk. unfold p_keyword, p_alphanumeric_or_underscore. apply trans_seq_same; [now apply tr_tag|intro].
  apply trans_seq_same; [|intro; tr]. apply trans_peek_same. eapply trans_not. apply tr_total_any. auto with safe.
Qed.

Lemma tr_ident : trans P P p_ident.
Proof.
  unfold p_ident. apply trans_recognize. apply trans_seq_same; [|intro].
  - apply tr_prim; [apply total_satisfy_b | apply neutral_satisfy_b, plain_ident_head].
  - apply tr_prim; [apply total_take_while | apply neutral_take_while, plain_ident_tail].
Qed.
Hint Resolve tr_ident : safe.

Lemma tr_path : trans P P (p_path lf).
Proof.
  unfold p_path. apply trans_separated_list1; auto with safe.
  unfold p_path_sep. tr.
Qed.
Hint Resolve tr_path : safe.

Lemma total_quote q s : trans (lenlt lf) (lenlt lf) (p_quote_parser lf q s).
Proof.
  assert (Hl : forall i, lenlt lf i -> length i < lf) by (intros i H; exact H).
  assert (Tt : forall t, trans (lenlt lf) (lenlt lf) (tag t)) by (intro; apply total_trans; auto with safe).
  unfold p_quote_parser. apply trans_seq_same; [apply Tt|intro]. apply trans_seq_same; [|intro].
  - apply trans_alt. repeat apply Forall_cons; try apply Forall_nil; [|apply Tt].
    apply trans_escaped; auto with safe; apply total_trans; auto with safe.
  - apply trans_seq_same; [apply Tt|intro]. apply trans_ret.
Qed.

Lemma tr_literal : trans P P (p_literal lf).
Proof.
  intros i [L Hn]. pose proof (neutral_literal lf i) as N.
  assert (T : ok_res (lenlt lf) i (p_literal lf i)).
  { unfold p_literal, p_single_quote, p_double_quote.
    apply (trans_alt (lenlt lf) (lenlt lf)); [|exact L]. repeat apply Forall_cons; try apply Forall_nil; apply total_quote. }
  destruct (p_literal lf i) as [r a| | | |]; cbn in *; try tauto.
  destruct T as [S L']. split; [exact S|]. split; [exact L'|]. rewrite (N r a eq_refl). exact Hn.
Qed.
Hint Resolve tr_literal : safe.

Lemma tr_annotation_key : trans P P p_annotation_key.
Proof.
  unfold p_annotation_key. apply trans_recognize. apply trans_seq_same; [|intro].
  - apply tr_prim; [apply total_satisfy_b | apply neutral_satisfy_b, plain_ident_head].
  - apply tr_prim; [apply total_take_while | apply neutral_take_while, plain_annkey_tail].
Qed.
Hint Resolve tr_annotation_key : safe.

Lemma tr_annotation : trans P P (p_annotation lf).
Proof. unfold p_annotation. tr. Qed.
Hint Resolve tr_annotation : safe.

Lemma tr_annotations : trans P P (p_annotations lf).
Proof.
  unfold p_annotations. apply trans_seq_same; [tr|intro]. apply trans_seq_same; [|intro; tr].
  apply trans_many1; tr.
Qed.
Hint Resolve tr_annotations : safe.

Lemma tr_include : trans P P (p_include lf).
Proof. unfold p_include. tr. Qed.
Lemma tr_cpp_include : trans P P (p_cpp_include lf).
Proof. unfold p_cpp_include. tr. Qed.

Lemma scope_tags_plain : forallb (forallb plain) scope_tags = true.
Proof. vm_compute. reflexivity. Qed.

Lemma tr_scope : trans P P p_scope.
Proof.
  unfold p_scope. apply trans_alt. apply Forall_forall. intros p Hp.
  apply in_map_iff in Hp. destruct Hp as [t [<- Ht]]. apply tr_tag.
  pose proof scope_tags_plain as H. rewrite forallb_forall in H. auto.
Qed.
Hint Resolve tr_scope tr_include tr_cpp_include : safe.

Lemma tr_namespace : trans P P (p_namespace lf).
Proof. unfold p_namespace. tr. Qed.
Hint Resolve tr_namespace : safe.

Lemma tr_cpp_type : trans P P (p_cpp_type lf).
Proof. unfold p_cpp_type. tr. Qed.
Hint Resolve tr_cpp_type : safe.

Lemma tr_int_constant : trans P P (p_int_constant lf).
Proof.
  (* the checked negation of IntConstant::parse cannot fail (Partial.v): the parser equals its total reading *)
  intros i Hi. rewrite (p_int_constant_is_total lf i). revert i Hi. change (trans P P (p_int_constant_total lf)).
  unfold p_int_constant_total. apply trans_seq_same; [|intro; tr].
  apply trans_many0_count; tr.
Qed.
Hint Resolve tr_int_constant : safe.

Lemma tr_tag_no_case_e e : e = [x65] -> trans P P (tag_no_case e).
Proof. intros ->. apply tr_prim; [apply total_tag_no_case | apply neutral_tag_no_case_e]. Qed.

Lemma tr_exponent e : e = [x65] -> trans P P (p_exponent lf e).
Proof. intros He. unfold p_exponent. pose proof (tr_tag_no_case_e e He). tr. Qed.

Lemma tr_double_constant : trans P P (p_double_constant lf).
Proof.
  pose proof (tr_exponent sym_dbl_exp_a eq_refl). pose proof (tr_exponent sym_dbl_exp_b eq_refl).
  pose proof (tr_tag_no_case_e sym_dbl_exp_c eq_refl).
  unfold p_double_constant. apply trans_map_res, trans_recognize.
  apply trans_seq_same; [tr|intro]. apply trans_seq_same; [tr|intro].
  apply trans_alt. repeat apply Forall_cons; try apply Forall_nil; tr.
Qed.
Hint Resolve tr_double_constant : safe.

Lemma tr_attribute : trans P P p_attribute.
Proof.
  unfold p_attribute. apply trans_alt. repeat apply Forall_cons; try apply Forall_nil;
    (apply trans_seq_same; [apply tr_keyword; vm_compute; reflexivity | intro; tr]).
Qed.
Lemma tr_field_id : trans P P (p_field_id lf).
Proof. unfold p_field_id. tr. Qed.
Hint Resolve tr_attribute tr_field_id : safe.

Lemma tr_enum_value : trans P P (p_enum_value lf).
Proof. unfold p_enum_value. tr. Qed.

Lemma tr_base_ty k t : forallb plain k = true -> trans P P (p_base_ty k t).
Proof. intros Hk. unfold p_base_ty. apply trans_seq_same; [now apply tr_keyword | intro; tr]. Qed.

Lemma tr_item_keyword : trans P P p_item_keyword.
Proof.
  unfold p_item_keyword. apply trans_peek_same, trans_recognize. apply trans_seq_same; [|intro].
  - apply tr_prim; [apply total_satisfy_b | apply neutral_satisfy_b, plain_alpha].
  - apply tr_prim; [apply total_take_while | apply neutral_take_while, plain_ident_tail].
Qed.
End Productions.

#[export] Hint Resolve tr_digit1 tr_hex_digit1 tr_multispace1 tr_eof tr_comment tr_blank tr_list_separator tr_ident
  tr_path tr_literal tr_annotation_key tr_annotation tr_annotations tr_include tr_cpp_include tr_scope tr_namespace
  tr_cpp_type tr_int_constant tr_double_constant tr_attribute tr_field_id tr_enum_value tr_item_keyword : safe.
#[export] Hint Extern 3 (trans (adm _ _) (adm _ _) (p_keyword _)) => apply tr_keyword; vm_compute; reflexivity : safe.
#[export] Hint Extern 3 (trans (adm _ _) (adm _ _) (p_base_ty _ _)) => apply tr_base_ty; vm_compute; reflexivity : safe.

Ltac trg := auto 40 with safe.
Ltac stepS := apply trans_seq_same; [trg | intro].

(* the brackets of the grammar *)
Lemma open_lt : is_opener x3c = true. Proof. reflexivity. Qed.
Lemma open_sq : is_opener x5b = true. Proof. reflexivity. Qed.
Lemma open_br : is_opener x7b = true. Proof. reflexivity. Qed.
Lemma close_gt : is_closer x3e = true. Proof. reflexivity. Qed.
Lemma close_sq : is_closer x5d = true. Proof. reflexivity. Qed.
Lemma close_br : is_closer x7d = true. Proof. reflexivity. Qed.

Lemma tr_type_of lf m (pty : parser Ty) :
  trans (adm lf m) (adm lf m) pty -> trans (adm lf m) (adm lf m) (p_type_of lf pty).
Proof.
  intros T. unfold p_type_of. apply trans_seq_same; [exact T|intro].
  apply trans_seq_same; [|intro; trg].
  apply trans_opt. apply trans_seq_same; [|intro; trg].
  apply trans_permutation2; trg.
Qed.

(* Ty::parse : the native recursion Ty -> Type -> Ty happens only after a '<' has been consumed; [d] is the depth
   fuel, [m <= d] the level of admissibility of the input *)
Lemma tr_ty lf : forall d m, m <= d -> trans (adm lf m) (adm lf m) (p_ty lf d).
Proof.
  induction d as [|d IH]; intros m Hm.
  - replace m with 0 by lia. apply trans_vac.
  - destruct m as [|m]; [apply trans_vac|].
    assert (IHt : trans (adm lf m) (adm lf m) (p_type_of lf (p_ty lf d))) by (apply tr_type_of, IH; lia).
    cbn [p_ty]. apply trans_alt. repeat apply Forall_cons; try apply Forall_nil; try (trg; fail).
    + (* list *)
      stepS. stepS. change sym_list_lt with [x3c]. eapply trans_seq; [apply trans_tag_open, open_lt | intro].
      eapply trans_seq; [apply trans_opt, tr_blank|intro].
      eapply trans_seq; [exact IHt|intro].
      eapply trans_seq; [apply trans_opt, tr_blank|intro].
      change sym_list_gt with [x3e]. eapply trans_seq; [apply trans_tag_close, close_gt | intro].
      trg.
    + (* set *)
      stepS. stepS. stepS. change sym_set_lt with [x3c]. eapply trans_seq; [apply trans_tag_open, open_lt | intro].
      eapply trans_seq; [apply trans_opt, tr_blank|intro].
      eapply trans_seq; [exact IHt|intro].
      eapply trans_seq; [apply trans_opt, tr_blank|intro].
      change sym_set_gt with [x3e]. eapply trans_seq; [apply trans_tag_close, close_gt | intro].
      trg.
    + (* map *)
      stepS. stepS. stepS. change sym_map_lt with [x3c]. eapply trans_seq; [apply trans_tag_open, open_lt | intro].
      eapply trans_seq; [apply trans_opt, tr_blank|intro].
      eapply trans_seq; [exact IHt|intro].
      eapply trans_seq; [apply trans_opt, tr_blank|intro].
      eapply trans_seq; [apply tr_list_separator|intro].
      eapply trans_seq; [apply trans_opt, tr_blank|intro].
      eapply trans_seq; [exact IHt|intro].
      eapply trans_seq; [apply trans_opt, tr_blank|intro].
      change sym_map_gt with [x3e]. eapply trans_seq; [apply trans_tag_close, close_gt | intro].
      trg.
Qed.

Lemma tr_type lf d m : m <= d -> trans (adm lf m) (adm lf m) (p_type lf d).
Proof. intros H. apply tr_type_of, tr_ty, H. Qed.

(* ConstValue::parse : recursion only after '[' or '{' *)
Lemma tr_const_value lf : forall d m, m <= d -> trans (adm lf m) (adm lf m) (p_const_value lf d).
Proof.
  induction d as [|d IH]; intros m Hm.
  - replace m with 0 by lia. apply trans_vac.
  - destruct m as [|m]; [apply trans_vac|].
    assert (IHm : trans (adm lf m) (adm lf m) (p_const_value lf d)) by (apply IH; lia).
    cbn [p_const_value]. apply trans_alt. repeat apply Forall_cons; try apply Forall_nil; try (trg; fail).
    + (* list *)
      change sym_clist_open with [x5b]. eapply trans_seq; [apply trans_tag_open, open_sq | intro].
      eapply trans_seq; [|intro].
      { apply trans_many0; [trg|]. stepS. apply trans_seq_same; [exact IHm|intro]. trg. }
      eapply trans_seq; [apply trans_opt, tr_blank|intro].
      change sym_clist_close with [x5d]. eapply trans_seq; [apply trans_tag_close, close_sq | intro].
      trg.
    + (* map *)
      change sym_cmap_open with [x7b]. eapply trans_seq; [apply trans_tag_open, open_br | intro].
      eapply trans_seq; [|intro].
      { apply trans_many0; [trg|]. stepS. apply trans_seq_same; [exact IHm|intro]. stepS. stepS. stepS.
        apply trans_seq_same; [exact IHm|intro]. trg. }
      eapply trans_seq; [apply trans_opt, tr_blank|intro].
      change sym_cmap_close with [x7d]. eapply trans_seq; [apply trans_tag_close, close_br | intro].
      trg.
Qed.

Section Productions2.
Variables lf df m : nat.
Hypothesis Hm : m <= df.
Local Notation P := (adm lf m).

Lemma tr_type' : trans P P (p_type lf df).
Proof. apply tr_type, Hm. Qed.
Lemma tr_const_value' : trans P P (p_const_value lf df).
Proof. apply tr_const_value, Hm. Qed.
Hint Resolve tr_type' tr_const_value' : safe.

Lemma tr_constant : trans P P (p_constant lf df).
Proof. unfold p_constant. trg. Qed.

Lemma tr_typedef : trans P P (p_typedef lf df).
Proof. unfold p_typedef. trg. Qed.

Lemma tr_field : trans P P (p_field lf df).
Proof. unfold p_field. do 8 stepS. trg. Qed.
End Productions2.

(* a production enclosed in braces: the body runs one level lower *)
Section Braced.
Variables lf df : nat.

Lemma tr_fields0 m : m <= df ->
  trans (adm lf m) (adm lf m) (many0 lf (fun i => do i, _ <- opt (p_blank lf) i ;; p_field lf df i)).
Proof. intros Hm. pose proof (tr_field lf df m Hm). apply trans_many0; trg. Qed.

Lemma tr_fields1 m : m <= df ->
  trans (adm lf m) (adm lf m) (many1 lf (fun i => do i, _ <- opt (p_blank lf) i ;; p_field lf df i)).
Proof. intros Hm. pose proof (tr_field lf df m Hm). apply trans_many1; trg. Qed.

Lemma tr_struct_like m : m <= df -> trans (adm lf m) (adm lf m) (p_struct_like lf df).
Proof.
  intros Hm. destruct m as [|m]; [apply trans_vac|]. unfold p_struct_like. stepS. stepS.
  change sym_struct_open with [x7b]. eapply trans_seq; [apply trans_tag_open, open_br | intro].
  eapply trans_seq; [apply tr_fields0; lia|intro].
  eapply trans_seq; [apply trans_opt, tr_blank|intro].
  change sym_struct_close with [x7d]. eapply trans_seq; [apply trans_tag_close, close_br | intro].
  trg.
Qed.

Lemma tr_struct m : m <= df -> trans (adm lf m) (adm lf m) (p_struct lf df).
Proof. intros Hm. pose proof (tr_struct_like m Hm). unfold p_struct. trg. Qed.
Lemma tr_union m : m <= df -> trans (adm lf m) (adm lf m) (p_union lf df).
Proof. intros Hm. pose proof (tr_struct_like m Hm). unfold p_union. trg. Qed.
Lemma tr_exception m : m <= df -> trans (adm lf m) (adm lf m) (p_exception lf df).
Proof. intros Hm. pose proof (tr_struct_like m Hm). unfold p_exception. trg. Qed.

Lemma tr_enum m : trans (adm lf m) (adm lf m) (p_enum lf).
Proof.
  destruct m as [|m]; [apply trans_vac|]. unfold p_enum. do 4 stepS.
  change sym_enum_open with [x7b]. eapply trans_seq; [apply trans_tag_open, open_br | intro].
  eapply trans_seq; [apply trans_opt, tr_blank|intro].
  eapply trans_seq; [apply trans_many0; trg|intro].
  eapply trans_seq; [apply trans_opt, tr_blank|intro].
  change sym_enum_close with [x7d]. eapply trans_seq; [apply trans_tag_close, close_br | intro].
  trg.
Qed.

Lemma tr_function m : m <= df -> trans (adm lf m) (adm lf m) (p_function lf df).
Proof.
  intros Hm. pose proof (tr_fields1 m Hm). pose proof (tr_type' lf df m Hm). unfold p_function.
  apply trans_seq_same; [apply trans_pmap; trg|intro]. do 9 stepS.
  apply trans_seq_same; [|intro; trg].
  apply trans_opt. do 3 stepS. trg.
Qed.

Lemma tr_service m : m <= df -> trans (adm lf m) (adm lf m) (p_service lf df).
Proof.
  intros Hm. destruct m as [|m]; [apply trans_vac|]. unfold p_service. do 5 stepS.
  change sym_service_open with [x7b]. eapply trans_seq; [apply trans_tag_open, open_br | intro].
  eapply trans_seq; [|intro].
  { pose proof (tr_function m ltac:(lia)). apply trans_many0; trg. }
  eapply trans_seq; [apply trans_opt, tr_blank|intro].
  change sym_service_close with [x7d]. eapply trans_seq; [apply trans_tag_close, close_br | intro].
  trg.
Qed.

Lemma tr_item m : m <= df -> trans (adm lf m) (adm lf m) (p_item lf df).
Proof.
  intros Hm.
  pose proof (tr_constant lf df m Hm). pose proof (tr_typedef lf df m Hm). pose proof (tr_struct m Hm).
  pose proof (tr_union m Hm). pose proof (tr_exception m Hm). pose proof (tr_service m Hm). pose proof (tr_enum m).
  unfold p_item. apply trans_seq_same; [apply tr_item_keyword|intro kw].
  repeat match goal with |- trans _ _ (fun _ => if ?c then _ else _) => destruct c end;
    try (apply trans_pmap; trg).
  intros i _. exact I.
Qed.

Lemma tr_file m : m <= df -> trans (adm lf m) (adm lf m) (p_file lf df).
Proof.
  intros Hm. pose proof (tr_item m Hm). unfold p_file. stepS. apply trans_seq_same; [|intro; trg].
  apply trans_many_till; trg.
Qed.
End Braced.

(* ---------- C16 ---------- *)
Definition outcome_ok {A} (r : pres A) : Prop :=
  match r with POk _ _ | PErr _ _ | PFail _ _ => True | PPanic _ | PFuel _ => False end.

Lemma ok_res_outcome {A} Q i (r : pres A) : ok_res Q i r -> outcome_ok r.
Proof. destruct r; cbn; auto. Qed.

(* loop fuel above the length and depth fuel above the bracket nesting are never exhausted, and no conversion
   panics.  The depth fuel is decremented exactly where the Rust code recurses natively (Parser.v), so this bounds
   the native recursion depth by the lexical nesting of the text: at most [nesting s + 1] nested activations of
   Ty::parse (through Type::parse) and of ConstValue::parse. *)
Theorem parse_depth_bound : forall lf df s, length s < lf -> (nesting s < Z.of_nat df)%Z -> outcome_ok (p_file lf df s).
Proof. intros lf df s L O. eapply ok_res_outcome. apply (tr_file lf df df (le_n df)). split; assumption. Qed.

Theorem parse_total : forall s, outcome_ok (parse_file s).
Proof.
  intros s. unfold parse_file. apply parse_depth_bound; [lia|].
  pose proof (nesting_le_len s). lia.
Qed.

(* non-vacuity: a text of nesting 2 parsed with depth fuel 3 *)
Example depth_bound_example :
  let s := [x63;x6f;x6e;x73;x74;x20;x6c;x69;x73;x74;x3c;x6c;x69;x73;x74;x3c;x69;x38;x3e;x3e;x20;x78;x3d;x5b;x5b;x31;x5d;x5d] in
  nesting s = 2%Z /\ match p_file (S (length s)) 3 s with POk [] _ => True | _ => False end /\
  p_file (S (length s)) 2 s = PFuel FDepth.
Proof. vm_compute. repeat split. Qed.
