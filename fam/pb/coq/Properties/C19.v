(* C19 (protobuf half) -- a failed decode releases everything it allocated.
   The protobuf decoders have no raw-pointer decode template: values are built with safe Rust only, so dropping the
   error drops the partial value.  That claim is the regenerated inventory below; the one site that touches ownership
   (the drop guard of string::merge) is modelled in Guard.v.  The implementation half is measured on every run
   (pv/props/c19pb.py: live heap and input references after a failed Message::decode).  Only statements. *)
From PVPb Require Import Guard Proofs.GuardP.
Open Scope Z_scope.

(* every unsafe / set_len / mem::forget / ManuallyDrop / from_raw_parts / into_raw / Box::leak site of
   pilota/src/prost/{encoding,message,types}.rs and of the protobuf templates of pilota-build (regenerated on every run)
   is one of: the ten get_unchecked reads of decode_varint_slice, the unsafe block and the mem::forget of the string::merge
   drop guard, FastStr::from_bytes_unchecked in faststr::merge -- in this order, nothing else *)
Theorem C19_pb_inventory : unsafe_sites = accounted_sites /\ guard_covers_merge = true.
Proof. exact inventory_accounted. Qed.
Print Assumptions C19_pb_inventory.

(* the String behind string::merge is empty or valid UTF-8 on every exit (value, DecodeError, panic while the buffer is
   being read), and what is moved into the field on success is exactly the decoded bytes *)
Theorem C19_pb_guard : forall junk wt s,
  let '(r, content) := string_merge_src junk wt s in
  (content = [] \/ utf8_valid content = true) /\
  r = string_merge wt s /\
  (forall v s', r = OOk v s' -> content = vbytes v).
Proof. exact guard_sound. Qed.
Print Assumptions C19_pb_guard.
