"""gen family -- the generated-code halves of C04, C09, C11, C12, for the coordinator's checks.
Each `cases_*` / `eval_*` pair plugs into gencheck.run_check (see the `run_*` wrappers, which can be called from
pv/props/c04.py etc. as `genextra.run_c04g(chk, replay)`); they share the driver build of the gen family.

  C04g  size() == bytes written for every emitted type, value and protocol (class typedef-bool-size-compact = F-04a)
  C09g  emitted decoders on malformed input: value or error, no panic / abort / hang; peak memory bounded by the input
  C11g  unchecked binary codec == checked one on well-formed input (value, consumed bytes, bytes written, guard bytes)
  C12g  decode_async == decode for every schedule (same value; error whenever sync reports one; never reads past the message)
"""
import re
from . import gengen, genref, genrun, gencheck, gencorr
from .props import c02 as _c02


# ------------------------------------------------------------------ C04g
def cases_c04g(gb, rng, tier):
    return [c for c in _c02.gen_cases(gb, rng, tier) if c['mode'] == 'sync']


def eval_c04g(gb, case, out):
    res = genrun.Res(out)
    if res.kind != 'ok' or res.enc is None:
        return []               # round-trip failures are C02's business
    if res.size == len(res.enc):
        return []
    cls = None
    if case['proto'] == 'compact' and genrun.typedef_bool_under_compact(gb.schema, case['type']):
        cls = 'typedef-bool-size-compact'
    return [('size() reported %d, encode() wrote %d bytes' % (res.size, len(res.enc)), cls)]


def run_c04g(chk, replay=None, prop='C04'):
    return gencheck.run_check(chk, replay, prop, cases_c04g, eval_c04g,
                              rule="every emitted type x generated values x {binary, binary_le, compact, unchecked}: size() computed on the "
                                   "output protocol object just before encode() vs bytes written (decoded from a reference encoding first)")


# ------------------------------------------------------------------ C09g
def cases_c09g(gb, rng, tier):
    sch = gb.schema
    cases = []
    k = 0
    for cfg in gb.configs:
        for tname in sch.names_in(cfg):
            if sch.types[tname]['kind'] not in ('struct', 'union'):
                continue
            ty = ('ref', tname)
            for i in range(2 if tier == 'quick' else 10):
                v = gengen.gen_value(rng, sch, ty, 2)
                for proto in ('binary', 'binary_le', 'compact'):
                    enc = genref.encode(sch, ty, v, proto)
                    if len(enc) > 600:
                        continue
                    cuts = sorted(set(rng.sample(range(len(enc)), min(len(enc), 10))))
                    inputs = [enc[:c] for c in cuts]
                    n_prefix = len(inputs) if sch.types[tname]['kind'] == 'struct' else 0     # struct encodings are prefix-free
                    for _ in range(8):
                        b = bytearray(enc)
                        pos = rng.randrange(len(b))
                        width = rng.choice([1, 1, 2, 4])
                        val = rng.choice([0xff, 0x7f, 0x80, 0, 1, 0x7fffffff, 0xffffffff, 0x80000000, len(enc), len(enc) + 1])
                        for j in range(width):
                            if pos + j < len(b):
                                b[pos + j] = (val >> (8 * (width - 1 - j))) & 0xff
                        inputs.append(bytes(b))
                    inputs.append(bytes(rng.randrange(256) for _ in range(rng.choice([1, 3, 9, 30]))))
                    for j, data in enumerate(inputs):
                        k += 1
                        mode = 'sync' if k % 3 else 'async:' + genrun.SCHEDULES[k % len(genrun.SCHEDULES)]
                        cases.append(dict(line=genrun.case_line('mem', cfg, tname, proto, mode, data), cfg=cfg, type=tname, proto=proto,
                                          mode=mode, n=len(data), nontrivial=True, model=False, strict_prefix=j < n_prefix))
            # strict prefixes of messages of a RICHER writer schema (an ignored bool / i32 field before a known field): the reader has
            # to skip it first -- state left behind by skipping must not make a later prefix look complete
            d0 = sch.types[tname]
            if d0['kind'] == 'struct' and d0['fields'] and cfg == 'plain':
                from . import genevo
                def _has_bool_elem(t):
                    t = sch.resolve(t)
                    return t[0] in ('list', 'set', 'map') and any(sch.resolve(x) == ('bool',) or _has_bool_elem(x) for x in t[1:])
                boolc = [j for j, f in enumerate(d0['fields']) if _has_bool_elem(f['ty'])]
                # a skipped bool field directly before a container of bools, several values each (the compact protocol parks a
                # bool field's value in the reader: it must not be served to the container's first element)
                plan = [(('bool',), None), (('i32',), None)] + [(('bool',), j) for j in boolc for _ in range(6 if tier == 'quick' else 40)]
                for nt, at in plan:
                    W = sch.copy()
                    dw = W.types[tname]
                    used = {f['id'] for f in dw['fields']}
                    pos = rng.randrange(len(dw['fields'])) if at is None else at
                    if at is not None:
                        dw['fields'][pos] = dict(dw['fields'][pos], req='required')
                    nxt = dw['fields'][pos]['id']
                    near = [i for i in range(max(1, nxt - 15), nxt) if i not in used]
                    free = [i for i in genevo.NEW_IDS if i not in used]
                    if not (near or free):
                        continue
                    nf = dict(id=rng.choice(near) if near else rng.choice(free), name='added', req='required', ty=nt, lit=None, default=None,
                              const=None, doc=None, ann={}, idl_req='required')
                    dw['fields'].insert(pos, nf)
                    v = gengen.gen_value(rng, W, ('ref', tname), 2)
                    for proto in ('binary', 'compact'):
                        enc = genref.encode(W, ('ref', tname), v, proto)
                        if len(enc) > 400:
                            continue
                        cuts = range(len(enc)) if len(enc) <= 48 else sorted(set(rng.sample(range(len(enc)), 40)))
                        for c in cuts:
                            cases.append(dict(line=genrun.case_line('mem', cfg, tname, proto, 'sync', enc[:c]), cfg=cfg, type=tname, proto=proto,
                                              mode='sync', n=c, nontrivial=True, model=False, strict_prefix=True))
            # deep nesting of a directly self-referential struct (finding F-09f): N field headers of the recursive field, then
            # the stop bytes -- a well-formed message a few kilobytes long
            d = sch.types[tname]
            rec = [f for f in d.get('fields', []) if d['kind'] == 'struct' and sch.resolve(f['ty']) == ('ref', tname) and 0 < f['id'] < 15]
            if rec:
                fid = rec[0]['id']
                for depth in ((60, 3000, 40000) if tier == 'quick' else (60, 500, 3000, 40000, 400000)):
                    for proto in ('binary', 'binary_le', 'compact'):
                        if proto == 'compact':
                            unit = bytes([(fid << 4) | 12])
                        elif proto == 'binary':
                            unit = bytes([12, 0, fid])
                        else:
                            unit = bytes([12, fid, 0])
                        data = unit * depth + b'\0' * (depth + 1)
                        for mode in ('sync', 'async:1'):
                            cases.append(dict(line=genrun.case_line('mem', cfg, tname, proto, mode, data), cfg=cfg, type=tname, proto=proto,
                                              mode=mode, n=len(data), nontrivial=True, model=False, deep=depth))
            # nested preallocation (finding F-09h): k nested list<Self> headers, each announcing as many elements as bytes remain
            # (which the runtime's size check allows); the emitted sync decoder preallocates at every level: quadratic in the input
            recl = [f for f in d.get('fields', []) if d['kind'] == 'struct' and sch.resolve(f['ty']) == ('list', ('ref', tname)) and 0 < f['id'] < 128]
            if recl:
                fid = recl[0]['id']
                for kk in ((300,) if tier == 'quick' else (100, 300, 1000)):
                    data = b''.join(bytes([15, 0, fid, 12]) + (8 * (kk - 1 - i)).to_bytes(4, 'big') for i in range(kk))
                    cases.append(dict(line=genrun.case_line('mem', cfg, tname, 'binary', 'sync', data), cfg=cfg, type=tname, proto='binary',
                                      mode='sync', n=len(data), nontrivial=True, model=False, nested_prealloc=kk))
    return cases


MEM_RE = re.compile(r'^(ok|err|panic|hang) LIVE (-?\d+) PEAK (\d+) REFS (\d+)$')


def has_container(sch, tname):
    found = [False]

    def pred(n, d):
        tys = [f['ty'] for f in d.get('fields', [])] + [v['ty'] for v in d.get('variants', [])] + ([d['ty']] if d['kind'] == 'typedef' else [])
        if any(t[0] in ('list', 'set', 'map') for t in tys):
            found[0] = True
        return False
    genrun.reaches(sch, tname, pred)
    return found[0]


def eval_c09g(gb, case, out):
    m = MEM_RE.match(out or '')
    sch = gb.schema
    # F-09e: the emitted ASYNC container decoders hand the wire count to with_capacity (abort / capacity-overflow panic /
    # giant request); the async readers have no remaining-length bound to check it against
    prealloc = 'async-container-prealloc' if case['mode'] != 'sync' and has_container(sch, case['type']) else None
    if not m:
        cls = prealloc
        if genrun.is_arg_swallow(sch, case['cfg'], case['type'], case['mode']):
            cls = 'keep-is-arg-swallow'
        if case.get('nested_prealloc'):
            cls = 'nested-container-prealloc'          # F-09h: the preallocation may also exhaust memory (abort)
        if case.get('deep', 0) > 64:
            # F-09f: the emitted decoders of a recursive schema recurse once per nesting level of the input, without bound
            cls = 'recursive-schema-deep-nesting'
        return [('emitted decoder does not return on malformed input: %s' % (out or '')[:80], cls)]
    kind, peak = m.group(1), int(m.group(3))
    if kind == 'ok' and case.get('strict_prefix'):
        cls = 'keep-is-arg-swallow' if genrun.is_arg_swallow(sch, case['cfg'], case['type'], case['mode']) else None
        return [('a strict prefix of a valid struct encoding is accepted as a complete message', cls)]
    if kind in ('panic', 'hang'):
        cls = 'keep-is-arg-swallow' if genrun.is_arg_swallow(sch, case['cfg'], case['type'], case['mode']) else prealloc
        return [('emitted decoder %ss on malformed input' % kind, cls)]
    # memory in proportion to the input: decoded values cost a bounded factor per input byte (hash containers,
    # Vec of structs ...); 4 KiB + 512 bytes per input byte is far above anything a faithful decoder needs
    if peak > 4096 + 512 * case['n']:
        cls = 'nested-container-prealloc' if case.get('nested_prealloc') else prealloc
        return [('emitted decoder requests %d bytes for a %d-byte input' % (peak, case['n']), cls)]
    return []


def run_c09g(chk, replay=None, prop='C09'):
    from . import genalloc
    tie = genalloc.Tie(chk)      # C09_gen_alloc: measured peak vs the model's ghost allocation count, per case
    return gencheck.run_check(chk, replay, prop, cases_c09g, eval_c09g, model_ops=(), post=tie.post, extra_dist=tie.extra,
                              rule="every emitted struct / union x reference encodings truncated at sampled offsets, 1/2/4-byte fields "
                                   "overwritten with boundary values, random byte strings x {binary, binary_le, compact} x sync / async; "
                                   "observed: outcome and peak bytes requested from the counting allocator")


# ------------------------------------------------------------------ C11g / C12g: two lines per case, compared in `post`
def _pairs(gb, rng, tier, second):
    """well-formed inputs; `second(proto, k)` -> (proto2, mode2) of the line compared with the sync checked line"""
    sch = gb.schema
    cases = []
    k = 0
    for c in _c02.gen_cases(gb, rng, tier):
        if c['mode'] != 'sync' or c['proto'] == 'unchecked':
            continue
        k += 1
        sec = second(c['proto'], k)
        if sec is None:
            continue
        t = c['line'].split(' ')
        key = 'p%d' % k
        twin = dict(c, line=' '.join([t[0], t[1], t[2], sec[0], sec[1], t[5]]), proto=sec[0], mode=sec[1], key=key, twin=True)
        cases.append(dict(c, key=key, companions=[twin]))
        cases.append(twin)
    return cases


def _post_same(what):
    def post(gb, cases, outs):
        first = {c['key']: (c, o) for c, o in zip(cases, outs) if not c.get('twin')}
        bad = []
        for c, o in zip(cases, outs):
            if not c.get('twin'):
                continue
            c0, o0 = first[c['key']]
            a, b = genrun.Res(o0), genrun.Res(o)
            ty = ('ref', c['type'])
            cls = 'keep-is-arg-swallow' if genrun.is_arg_swallow(gb.schema, c['cfg'], c['type'], 'sync') else None
            if a.kind != b.kind:
                bad.append((c0, '%s: outcomes differ (%s vs %s)' % (what, o0[:60], o[:60]), cls, o))
                continue
            if a.kind != 'ok':
                continue
            va, wa = genrun.value_text(gb, c['cfg'], ty, a.debug)
            vb, wb = genrun.value_text(gb, c['cfg'], ty, b.debug)
            if wa or wb:
                bad.append((c0, '%s: %s' % (what, wa or wb), cls, o))       # a Debug text that is not understood is a failure
            elif va != vb:
                bad.append((c0, '%s: values differ (%s)' % (what, genrun.diff_text(vb or '', va or '')), cls, o))
            elif a.rem != b.rem:
                bad.append((c0, '%s: consumed bytes differ (remaining %d vs %d)' % (what, a.rem, b.rem), cls, o))
            elif b.note:
                bad.append((c0, '%s: %s' % (what, b.note), cls, o))
            elif a.enc is not None and b.enc is not None and gencorr.enc_differ(gb, ty, a.enc, b.enc, c['proto']):
                bad.append((c0, '%s: bytes written differ (%s)' % (what, gencorr.enc_differ(gb, ty, a.enc, b.enc, c['proto'])), cls, o))
        return bad
    return post


def run_c11g(chk, replay=None, prop='C11'):
    return gencheck.run_check(chk, replay, prop,
                              lambda gb, rng, tier: _pairs(gb, rng, tier, lambda p, k: ('unchecked', 'sync') if p == 'binary' else None) +
                              # messages of a richer writer schema: an ignored field (skipped by plain builds, retained by keep builds)
                              # before a known one, read by the checked and by the unchecked codec
                              _evolved_pairs(gb, rng, tier, cfgs=('plain', 'keep'), protos=('binary',), second=lambda p, k: ('unchecked', 'sync')),
                              lambda gb, c, o: [], post=_post_same('unchecked vs checked binary codec'),
                              rule="every emitted type x generated values: the same reference encoding decoded + re-encoded by the checked and by "
                                   "the unchecked binary codec (exact-size output buffer inside guard bytes): same value, same consumed bytes, "
                                   "same bytes written (up to hash-container order), guards intact")


def _malformed_pairs(gb, rng, tier):
    """the error direction (C12_gen_error): reference encodings of struct / union values, truncated at sampled offsets or
    with one byte incremented (a container count / length / type code / field id that is off by a little: where the sync
    reader rejects a count the async reader starts reading and must run dry); each input decoded by `decode` and by
    `decode_async` under a scripted schedule (op `mem`: outcome only -- corrupted strings need not be UTF-8).
    Increments that land in a high count byte make the async container decoders preallocate (finding F-09e, property
    C09): those outcomes are not judged here."""
    sch = gb.schema
    cases = []
    k = 0
    per = 2 if tier == 'quick' else 8
    for cfg in gb.configs:
        for tname in sch.names_in(cfg):
            if sch.types[tname]['kind'] not in ('struct', 'union'):
                continue
            ty = ('ref', tname)
            for i in range(per):
                v = gengen.gen_value(rng, sch, ty, 2)
                for proto in genrun.ASYNC_PROTOS:
                    enc = genref.encode(sch, ty, v, proto)
                    if not enc or len(enc) > 400:
                        continue
                    muts = [(enc[:c], 'trunc') for c in sorted(set(rng.sample(range(len(enc)), min(len(enc), 3))))]
                    for _ in range(4):
                        b = bytearray(enc)
                        pos = rng.randrange(len(b))
                        b[pos] = (b[pos] + rng.choice([1, 1, 2, 16])) & 0xff
                        muts.append((bytes(b), 'incr'))
                    for data, how in muts:
                        k += 1
                        key = 'm%d' % k
                        mode = 'async:' + genrun.SCHEDULES[k % len(genrun.SCHEDULES)]
                        twin = dict(line=genrun.case_line('mem', cfg, tname, proto, mode, data), cfg=cfg, type=tname, proto=proto, mode=mode,
                                    key=key, twin=True, malformed=how, nontrivial=True, model=False)
                        first = dict(line=genrun.case_line('mem', cfg, tname, proto, 'sync', data), cfg=cfg, type=tname, proto=proto, mode='sync',
                                     key=key, malformed=how, nontrivial=True, model=False, companions=[twin])
                        cases.append(first)
                        cases.append(twin)
    return cases


def _evolved_pairs(gb, rng, tier, cfgs=('plain',), protos=None, second=None):
    """well-formed messages of a RICHER writer schema (an ignored field of every kind -- scalars, structs, containers of
    structs -- written before a known field of the reader): decode vs decode_async of the reader, which both have to skip it"""
    from . import genevo
    sch = gb.schema
    cases = []
    k = 0
    no_key = genevo.key_type_names(sch)
    protos = protos or genrun.ASYNC_PROTOS
    for cfg, tname in [(c, t) for c in cfgs if c in gb.configs for t in sch.names_in(c)]:
        d = sch.types[tname]
        if d['kind'] != 'struct' or tname in no_key or not d['fields']:
            continue
        ty = ('ref', tname)
        for rep in range(2 if tier == 'quick' else 8):
            W = sch.copy()
            dw = W.types[tname]
            used = {f['id'] for f in dw['fields']}
            free = [i for i in genevo.NEW_IDS if i not in used]
            cands = [t for t in genevo.NEW_FIELD_TYPES if genevo.usable(W, t)]
            if not free or not cands:
                continue
            structy = [t for t in cands if t[0] == 'ref' or (t[0] in ('list', 'set', 'map') and any(x[0] == 'ref' for x in t[1:] if isinstance(x, tuple)))]
            nt = rng.choice(structy) if structy and rep % 2 == 0 else rng.choice(cands)
            pos = rng.randrange(len(dw['fields']))                         # never last: something known follows
            nxt = dw['fields'][pos]['id']
            # an id shortly below the next known field's id, so that the compact writer uses the SHORT (delta) form for that field:
            # the reader then needs the ignored field's own id as the base, whatever it met while skipping
            near = [i for i in range(max(1, nxt - 15), nxt) if i not in used]
            nid = rng.choice(near) if near and rep % 3 != 2 else rng.choice(free)
            nf = dict(id=nid, name='added', req='required', ty=nt, lit=None, default=None, const=None, doc=None, ann={}, idl_req='required')
            dw['fields'].insert(pos, nf)
            def _refless(t):
                return t[0] != 'ref' and all(_refless(x) for x in t[1:] if isinstance(x, tuple))
            if _refless(W.resolve(dw['fields'][pos + 1]['ty'])):
                # the known field that follows is present in every value (a struct-typed one could make the type uninhabited)
                dw['fields'][pos + 1] = dict(dw['fields'][pos + 1], req='required')
            try:
                v = gengen.gen_value(rng, W, ty, 3)
            except RecursionError:
                # the added REQUIRED field's type reaches the type itself through required fields: the evolved type has
                # no finite value -- not a writer schema anybody can use; draw another one
                continue
            for proto in protos:
                k += 1
                enc = genref.encode(W, ty, v, genrun.ref_proto(proto))
                if len(enc) > 3000:
                    continue
                key = 'e%d' % k
                proto2, mode = second(proto, k) if second else (proto, 'async:' + genrun.SCHEDULES[k % len(genrun.SCHEDULES)])
                twin = dict(line=genrun.case_line('renc', cfg, tname, proto2, mode, enc), cfg=cfg, type=tname, proto=proto2, mode=mode, key=key,
                            twin=True, nontrivial=True, model=False, evolved=gengen.ty_txt(nt))
                first = dict(line=genrun.case_line('renc', cfg, tname, proto, 'sync', enc), cfg=cfg, type=tname, proto=proto, mode='sync', key=key,
                             nontrivial=True, model=False, evolved=gengen.ty_txt(nt), companions=[twin])
                cases += [first, twin]
    return cases


def _mem_kind(out):
    m = MEM_RE.match(out or '')
    return m.group(1) if m else 'crash'


def _post_c12g(chk, stats):
    def post(gb, cases, outs):
        from . import gencorr
        well = [(c, o) for c, o in zip(cases, outs) if not c.get('malformed')]
        bad = _post_same('decode_async vs decode')(gb, [c for c, _ in well], [o for _, o in well])
        mal = [(c, o) for c, o in zip(cases, outs) if c.get('malformed')]
        first = {c['key']: (c, o) for c, o in mal if not c.get('twin')}
        # the models on the same inputs: Gen.v for the sync line, GenAsync.v for the async line (runner op `dec`)
        mouts = gencorr.run_spec(gb, ['dec' + c['line'][3:] for c, _ in mal]) or [None] * len(mal)
        n_model, mism = 0, []
        for (c, o), m in zip(mal, mouts):
            ik = _mem_kind(o)
            swallow = genrun.is_arg_swallow(gb.schema, c['cfg'], c['type'], c['mode'])
            prealloc = c.get('twin') and ik in ('crash', 'hang', 'panic') and has_container(gb.schema, c['type'])
            if m is not None and not (prealloc and gencheck.f09e_decide(chk, gb, [c])[0]):
                mk = gencorr._split_model(m)['kind']
                n_model += 1
                if mk != ik and not (swallow and ik in ('panic', 'crash')):
                    mism.append((c, o, m))
            if not c.get('twin'):
                continue
            c0, o0 = first[c['key']]
            ak = _mem_kind(o0)
            cls = 'keep-is-arg-swallow' if genrun.is_arg_swallow(gb.schema, c['cfg'], c['type'], 'sync') else None
            if cls is None and 'keep' in c['cfg'] and (genrun.keeps(gb.schema, c['type']) or
                                                       genrun.reaches(gb.schema, c['type'], lambda n, d: genrun.keeps(gb.schema, n))):
                # F-12a: only the sync templates of a keep build retain unknown fields; a corrupted field id makes a field unknown
                cls = 'keep-async-no-retention'
            if prealloc:
                # F-09e (async preallocation from the wire count, property C09) -- only where THIS input shows it: the sync model stops
                # at a container header whose count is negative / beyond the remaining bytes and the async allocation model requests
                # the oversized buffer (gencheck.f09e_decide); any other async crash / panic / hang is reported with the case
                if gencheck.f09e_decide(chk, gb, [c])[0]:
                    continue
                bad.append((c0, 'decode_async does not return (%s) where decode gives `%s`, and the input announces no container count beyond '
                                'the remaining bytes (not F-09e)' % ((o or '')[:60], (o0 or '')[:60]), None, o))
                continue
            if ak == 'err' and ik != 'err':
                bad.append((c0, 'decode reports an error, decode_async does not (%s vs %s)' % ((o0 or '')[:60], (o or '')[:60]), cls, o))
            elif ak == 'ok' and ik != 'ok':
                bad.append((c0, 'decode returns a value, decode_async does not (%s vs %s)' % ((o0 or '')[:60], (o or '')[:60]), cls, o))
        stats.update(malformed_model_lines=n_model, malformed_model_mismatches=len(mism))
        if mism and not bad:
            c, o, m = mism[0]
            chk.violation('correspondence gen-codec broken on corrupted input: extracted model and emitted code disagree (%d of %d lines: '
                          'implementation %s, model %s) but the property oracle found no failing input'
                          % (len(mism), n_model, (o or '')[:40], (m or '')[:40]),
                          dict(kind='correspondence', correspondence='gen codec on corrupted input (Gen.v / GenAsync.v vs emitted code)',
                               case=c, impl_output=(o or '')[:2000], model_output=(m or '')[:2000]), no_input=True)
        return bad
    return post


def run_c12g(chk, replay=None, prop='C12'):
    def second(p, k):
        return (p, 'async:' + genrun.SCHEDULES[k % len(genrun.SCHEDULES)])

    stats = {}

    def extra(cases, outs):
        mal = [(c, o) for c, o in zip(cases, outs) if c.get('malformed') and not c.get('twin')]
        return dict(stats, malformed_inputs=len(mal), malformed_sync_errors=sum(1 for _, o in mal if (o or '').startswith('err')),
                    malformed_kinds={k: sum(1 for c, _ in mal if c['malformed'] == k) for k in ('trunc', 'incr')})
    return gencheck.run_check(chk, replay, prop, lambda gb, rng, tier: _pairs(gb, rng, tier, second) + _evolved_pairs(gb, rng, tier) + _malformed_pairs(gb, rng, tier),
                              lambda gb, c, o: [], post=_post_c12g(chk, stats), extra_dist=extra,
                              rule="every emitted type x generated values x {binary, binary_le, compact}: decode_async under a scripted schedule "
                                   "(one chunk, byte by byte, 3/7-byte chunks, Pending before every hand-out) vs decode on the same bytes with "
                                   "trailing bytes: same value, same number of bytes taken from the stream; the same for messages of a richer writer schema (an "
                                   "ignored field of any kind, incl. structs and containers of structs, before a known field); plus, per struct / union, reference "
                                   "encodings truncated at sampled offsets or with one byte incremented (counts, lengths, type codes, ids): an "
                                   "error whenever decode reports one, the same value otherwise; async lines are answered by the model of the "
                                   "decode_async templates (GenAsync.v)")
