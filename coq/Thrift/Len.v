(* L1/L2: the TLengthProtocol methods of each protocol (pilota/src/thrift/binary.rs 52-186,
   binary_le.rs, compact.rs 184-401) and the size pass of the value interpreter.  The compact
   length pass is stateful: it shares the writer's context type (last id, id stack, pending bool). *)
From PV Require Export Thrift.Interp.
Open Scope Z_scope.

Definition lm := wctx -> res (Z * wctx).
Definition lret (n : Z) : lm := fun c => Ok (n, c).
Definition lseq (a b : lm) : lm := fun c =>
  let* (n1, c1) := a c in
  let* (n2, c2) := b c1 in
  Ok (n1 + n2, c2).
Infix "+++" := lseq (at level 61, left associativity).

Definition l_i8 : lm := lret 1.
Definition l_i16 (p : pk) (z : Z) : lm := match p with PCompact => lret (required_space_s z) | _ => lret 2 end.
Definition l_i32 (p : pk) (z : Z) : lm := match p with PCompact => lret (required_space_s z) | _ => lret 4 end.
Definition l_i64 (p : pk) (z : Z) : lm := match p with PCompact => lret (required_space_s z) | _ => lret 8 end.
Definition l_double : lm := lret 8.
Definition l_uuid : lm := lret 16.
Definition l_bytes (p : pk) (n : Z) : lm :=
  match p with
  | PCompact => lret (required_space_u (wrap_u 32 n) + n)
  | _ => lret (4 + n)
  end.

Definition assert_no_pending_l (p : pk) (n : Z) : lm := fun c =>
  match p, w_pend c with
  | PCompact, Some _ => Panic SPendingBoolWrite
  | _, _ => Ok (n, c)
  end.

Definition l_struct_begin (p : pk) : lm := fun c =>
  match p with
  | PCompact => Ok (0, mkW 0 (w_last c :: w_stack c) (w_pend c))
  | _ => Ok (0, c)
  end.
Definition l_struct_end (p : pk) : lm := fun c =>
  match p with
  | PCompact =>
      match w_pend c with
      | Some _ => Panic SPendingBoolWrite
      | None =>
          match w_stack c with
          | [] => Panic SUnwrap
          | x :: t => Ok (0, mkW x t None)
          end
      end
  | _ => Ok (0, c)
  end.

(* write_field_header_len! *)
Definition l_field_header (id : Z) : lm := fun c =>
  let delta := id - w_last c in
  let c' := mkW id (w_stack c) (w_pend c) in
  if (0 <? delta) && (delta <? 15) then Ok (1, c') else Ok (1 + required_space_s id, c').

Definition l_field_begin (p : pk) (ty : ttype) (id : Z) : lm :=
  match p with
  | PCompact => fun c =>
      match ty with
      | TBool =>
          match w_pend c with
          | Some _ => Panic SPendingBoolTwice
          | None => Ok (0, mkW (w_last c) (w_stack c) (Some id))
          end
      | _ =>
          match ctype_of_ttype ty with
          | None => Panic SUnwrap
          | Some _ => l_field_header id c
          end
      end
  | _ => lret 3
  end.
Definition l_field_end (p : pk) : lm := assert_no_pending_l p 0.
Definition l_field_stop (p : pk) : lm := assert_no_pending_l p 1.

Definition l_bool (p : pk) : lm :=
  match p with
  | PCompact => fun c =>
      match w_pend c with
      | Some id => l_field_header id (mkW (w_last c) (w_stack c) None)
      | None => Ok (1, c)
      end
  | _ => lret 1
  end.

Definition l_coll_begin (p : pk) (et : ttype) (n : Z) : lm :=
  match p with
  | PCompact => fun c =>
      match ctype_of_ttype et with
      | None => Panic SUnwrap
      | Some _ => if n <=? 14 then Ok (1, c) else Ok (1 + required_space_u (wrap_u 32 n), c)
      end
  | _ => lret 5
  end.
Definition l_map_begin (p : pk) (kt vt : ttype) (n : Z) : lm :=
  match p with
  | PCompact => fun c =>
      if n =? 0 then Ok (1, c)
      else match ctype_of_ttype kt, ctype_of_ttype vt with
           | Some _, Some _ => Ok (required_space_u (wrap_u 32 n) + 1, c)
           | _, _ => Panic SUnwrap
           end
  | _ => lret 6
  end.

Section LenInterp.
  Variable p : pk.

  Fixpoint len_val (v : tval) : lm :=
    match v with
    | VBool _ => l_bool p
    | VI8 _ => l_i8
    | VI16 z => l_i16 p z
    | VI32 z => l_i32 p z
    | VI64 z => l_i64 p z
    | VDouble _ => l_double
    | VBinary l => l_bytes p (Z.of_nat (length l))
    | VUuid _ => l_uuid
    | VStruct fs =>
        l_struct_begin p +++
        (fix go (fs : list (Z * tval)) : lm :=
           match fs with
           | [] => lret 0
           | (id, x) :: t => l_field_begin p (ttype_of x) id +++ len_val x +++ l_field_end p +++ go t
           end) fs +++
        l_field_stop p +++ l_struct_end p
    | VList et l | VSet et l =>
        l_coll_begin p et (Z.of_nat (length l)) +++
        (fix go (l : list tval) : lm :=
           match l with [] => lret 0 | x :: t => len_val x +++ go t end) l
    | VMap kt vt l =>
        l_map_begin p kt vt (Z.of_nat (length l)) +++
        (fix go (l : list (tval * tval)) : lm :=
           match l with [] => lret 0 | (a, b) :: t => len_val a +++ len_val b +++ go t end) l
    end.

  Definition len_fields : list (Z * tval) -> lm :=
    fix go (fs : list (Z * tval)) : lm :=
      match fs with
      | [] => lret 0
      | (id, x) :: t => l_field_begin p (ttype_of x) id +++ len_val x +++ l_field_end p +++ go t
      end.
  Definition len_elems : list tval -> lm :=
    fix go (l : list tval) : lm :=
      match l with [] => lret 0 | x :: t => len_val x +++ go t end.
  Definition len_pairs : list (tval * tval) -> lm :=
    fix go (l : list (tval * tval)) : lm :=
      match l with [] => lret 0 | (a, b) :: t => len_val a +++ len_val b +++ go t end.

  Fixpoint len_vals (vs : list tval) : lm :=
    match vs with
    | [] => lret 0
    | v :: t => len_val v +++ len_vals t
    end.
End LenInterp.
